import Dreye.Driver.Parse
import Dreye.Driver.Ops01
namespace Dreye.Driver
def allOps : List (String × Handler) := ops01
end Dreye.Driver
