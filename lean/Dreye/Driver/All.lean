import Dreye.Driver.Parse
import Dreye.Driver.Ops01
import Dreye.Driver.Ops02
import Dreye.Driver.Ops20
import Dreye.Driver.Ops19
import Dreye.Driver.Ops16
import Dreye.Driver.Ops05
import Dreye.Driver.Ops04
import Dreye.Driver.Ops03
import Dreye.Driver.Ops06
import Dreye.Driver.Ops17
import Dreye.Driver.Ops18
import Dreye.Driver.Ops14
import Dreye.Driver.Ops07
namespace Dreye.Driver
def allOps : List (String × Handler) := ops01 ++ ops02 ++ ops20 ++ ops19 ++ ops16 ++ ops05 ++ ops04 ++ ops03 ++ ops06 ++ ops17 ++ ops18 ++ ops14 ++ ops07
end Dreye.Driver
