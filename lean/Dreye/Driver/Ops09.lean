import Dreye.Driver.Parse
import Dreye.Driver.Ops04
import Dreye.Model.Under
namespace Dreye.Driver
open Dreye

def ops09 : List (String × Handler) := [
  -- epsmodel <n> <K> <A> hetero | explicit <Eps>   ->  the variance matrix the second stage uses, and its column sums
  ("epsmodel", do
    let n ← nat; let k ← optAdapt; let a ← mat
    let kind ← tok
    let eps ← match kind with
      | "hetero" => pure ((transformA n k a).map (fun r => r.map (fun t => t * t)))
      | "explicit" => do let e ← mat; pure (propagateError n k e)
      | t => throw s!"bad epsilon kind `{t}`"
    pure s!"{showMat eps} {showVec (columnSums n eps)}"),
  -- capvar <Eps> <x>
  ("capvar", do
    let e ← mat; let x ← vec
    pure s!"{showVec (captureVariance e x)} {showRat (varianceObjective e x)}")
]
end Dreye.Driver
