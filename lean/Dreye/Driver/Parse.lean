/-
  Line-protocol plumbing for the model driver (Mathlib-free).
  A request line is `<id> <op> <token>*`; numbers are exact rationals `n/d` or integers,
  vectors are `len v₁ … v_len`, matrices are `rows cols v₁₁ …` (row-major).
-/
namespace Dreye.Driver

abbrev P := StateT (Array String × Nat) (Except String)

def tok : P String := do
  let (ts, i) ← get
  if h : i < ts.size then
    set (ts, i + 1)
    pure ts[i]
  else throw "unexpected end of line"

def atEnd : P Bool := do
  let (ts, i) ← get
  pure (i ≥ ts.size)

def nat : P Nat := do
  let t ← tok
  match t.toNat? with
  | some n => pure n
  | none => throw s!"bad nat `{t}`"

def int : P Int := do
  let t ← tok
  match t.toInt? with
  | some n => pure n
  | none => throw s!"bad int `{t}`"

def parseRat (t : String) : Except String Rat :=
  match t.splitOn "/" with
  | [a] => match a.toInt? with
    | some n => pure (n : Rat)
    | none => throw s!"bad rational `{t}`"
  | [a, b] => match a.toInt?, b.toNat? with
    | some n, some d => if d = 0 then throw s!"zero denominator `{t}`" else pure (mkRat n d)
    | _, _ => throw s!"bad rational `{t}`"
  | _ => throw s!"bad rational `{t}`"

def rat : P Rat := do
  let t ← tok
  match parseRat t with
  | .ok r => pure r
  | .error e => throw e

def bool : P Bool := do
  let t ← tok
  match t with
  | "1" | "true" | "T" => pure true
  | "0" | "false" | "F" => pure false
  | _ => throw s!"bad bool `{t}`"

def many (n : Nat) (p : P α) : P (List α) := do
  let mut out : Array α := #[]
  for _ in [0:n] do
    out := out.push (← p)
  pure out.toList

def vec : P (List Rat) := do
  let n ← nat
  many n rat

def mat : P (List (List Rat)) := do
  let m ← nat
  let n ← nat
  many m (many n rat)

def natVec : P (List Nat) := do
  let n ← nat
  many n nat

/-- optional rational: `inf` stands for `+∞` (an absent upper bound) -/
def ratInf : P (Option Rat) := do
  let (ts, i) ← get
  if h : i < ts.size then
    if ts[i] = "inf" then
      set (ts, i + 1); pure none
    else some <$> rat
  else throw "unexpected end of line"

def showRat (r : Rat) : String :=
  if r.den = 1 then toString r.num else s!"{r.num}/{r.den}"

def showVec (v : List Rat) : String :=
  " ".intercalate (toString v.length :: v.map showRat)

def showMat (m : List (List Rat)) : String :=
  let cols := match m with | [] => 0 | r :: _ => r.length
  " ".intercalate (toString m.length :: toString cols :: (m.map (·.map showRat)).flatten)

def showBool (b : Bool) : String := if b then "1" else "0"

def showNatVec (v : List Nat) : String :=
  " ".intercalate (toString v.length :: v.map toString)

/-- An op handler: consumes the rest of the line, returns the answer text. -/
abbrev Handler := P String

def runLine (ops : List (String × Handler)) (line : String) : String :=
  let ts := ((line.trimAscii.toString.splitOn " ").filter (· ≠ "")).toArray
  if h : 2 ≤ ts.size then
    let id := ts[0]
    let op := ts[1]
    match ops.lookup op with
    | none => s!"{id} ERR unknown-op {op}"
    | some hnd =>
      match (hnd.run (ts, 2)) with
      | .ok (out, _) => s!"{id} {out}"
      | .error e => s!"{id} ERR {e}"
  else "? ERR short-line"

partial def loop (ops : List (String × Handler)) (h : IO.FS.Stream) (out : IO.FS.Stream) : IO Unit := do
  let line ← h.getLine
  if line.isEmpty then return ()
  if line.trimAscii.toString.isEmpty then loop ops h out else
  out.putStrLn (runLine ops line)
  loop ops h out

end Dreye.Driver
