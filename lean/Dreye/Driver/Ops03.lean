import Dreye.Driver.Parse
import Dreye.Driver.Ops04
import Dreye.Model.Gamut
namespace Dreye.Driver
open Dreye

def ops03 : List (String × Handler) := [
  -- getP <n> <K> <A> <baseline> <lb> <ub>  ->  P (2^n x nf), A', base'
  ("getP", do
    let n ← nat; let k ← optAdapt; let a ← mat; let base ← vec; let lb ← vec; let ub ← ubvec
    let a' := transformA n k a
    let base' := transformBase a.length k base
    pure s!"{showMat (getP a' base' lb ub)} {showMat a'} {showVec base'}"),
  -- cweights <t>
  ("cweights", do
    let t ← vec
    pure (showVec (cweights t))),
  -- inhull <d> <P> <w> <b>
  ("inhull", do
    let d ← nat; let p ← mat; let w ← vec; let b ← vec
    pure (showBool (inHullCert d p w b))),
  -- inhullbox <n> <A'> <base'> <lb> <ub(finite)> <t> <b>: weights are the product weights of t (never sent over the wire)
  ("inhullbox", do
    let a' ← mat; let base' ← vec; let lb ← vec; let ub ← ubvec; let t ← vec; let b ← vec
    let p := getP a' base' lb ub
    pure (showBool (inHullCert a'.length p (cweights t) b))),
  -- sep <P> <h> <c> <b>
  ("sep", do
    let p ← mat; let h ← vec; let c ← rat; let b ← vec
    pure (showBool (sepCert p h c b))),
  ("colmin", do
    let d ← nat; let p ← mat
    pure (showVec (colMin d p)))
]
end Dreye.Driver
