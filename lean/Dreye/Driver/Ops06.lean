import Dreye.Driver.Parse
import Dreye.Driver.Ops04
import Dreye.Model.Range
namespace Dreye.Driver
open Dreye

def ops06 : List (String × Handler) := [
  -- range <n> <A'> <b'> <lb> <ub>  ->  ok mins maxs ncand nacc | singular
  ("range", do
    let n ← nat; let a ← mat; let b ← vec; let lb ← vec; let ub ← vec
    match rangeOfSolutions n a b lb ub with
    | none => pure "singular"
    | some (mins, maxs, nc, na) => pure s!"ok {showVec mins} {showVec maxs} {nc} {na}"),
  -- spaced <A'> <b'> <t>
  ("spacedrow", do
    let a ← mat; let b ← vec; let t ← rat
    match spacedRow a b t with
    | none => pure "singular"
    | some x => pure s!"ok {showVec x}"),
  -- endcert <n> <j> <sign> <A> <b> <lb> <ub> <lam>  -> bound on x_j for all feasible x (lower bound if sign=+, upper if sign=-)
  ("endcert", do
    let n ← nat; let j ← nat; let up ← bool; let a ← mat; let b ← vec; let lb ← vec; let ub ← vec; let lam ← vec
    let e : List Rat := (List.range n).map (fun i => if i = j then 1 else 0)
    let c := if up then e.map (fun t => -t) else e
    let g := a ++ a.map (fun r => r.map (fun t => -t))
    let h := b ++ b.map (fun t => -t)
    match linLower n c g h [] [] 0 lam [] 0 lb (ub.map some) with
    | none => pure "none"
    | some v => pure (showRat (if up then -v else v)))
]
end Dreye.Driver
