import Dreye.Driver.Parse
import Dreye.Driver.Ops16
import Dreye.Model.Metrics
namespace Dreye.Driver
open Dreye

def fmatP : P (List (List F64)) := do
  let m ← nat; let n ← nat
  many m (many n flt)

def ops18 : List (String × Handler) := [
  -- meanwidth <U dirs (k x d)> <X (n x d)>   (Float run; directions are passed in)
  ("meanwidth", do
    let u ← fmatP; let x ← fmatP
    pure (showF (meanWidth u x))),
  ("range1", do
    let x ← fvec
    pure (showF (range1 x))),
  ("jsd", do
    let p ← fvec; let q ← fvec
    pure (showF (jsd p q))),
  -- exact rational width along one direction
  ("width", do
    let u ← vec; let x ← mat
    pure (showRat (widthAlong u x)))
]
end Dreye.Driver
