import Dreye.Driver.Parse
import Dreye.Model.Bary
import Dreye.Model.Sphere
namespace Dreye.Driver
open Dreye

/-- IEEE doubles with *decidable equality*: a double is carried as its bit pattern (zero and NaN
    canonicalised), arithmetic goes through `Float`. This lets the scalar-polymorphic model, which
    tests `x = 0`, run on floats without any unsafe code. -/
structure F64 where
  bits : UInt64
  deriving DecidableEq

namespace F64
def ofFloat (f : Float) : F64 := if f == 0.0 then ⟨0⟩ else if f.isNaN then ⟨0x7ff8000000000000⟩ else ⟨f.toBits⟩
def toFloat (x : F64) : Float := Float.ofBits x.bits
instance : Zero F64 := ⟨ofFloat 0.0⟩
instance : One F64 := ⟨ofFloat 1.0⟩
instance : Add F64 := ⟨fun a b => ofFloat (a.toFloat + b.toFloat)⟩
instance : Sub F64 := ⟨fun a b => ofFloat (a.toFloat - b.toFloat)⟩
instance : Mul F64 := ⟨fun a b => ofFloat (a.toFloat * b.toFloat)⟩
instance : Div F64 := ⟨fun a b => ofFloat (a.toFloat / b.toFloat)⟩
instance : Neg F64 := ⟨fun a => ofFloat (-a.toFloat)⟩
instance : LE F64 := ⟨fun a b => a.toFloat ≤ b.toFloat⟩
instance : LT F64 := ⟨fun a b => a.toFloat < b.toFloat⟩
instance : DecidableLE F64 := fun a b => inferInstanceAs (Decidable (a.toFloat ≤ b.toFloat))
instance : DecidableLT F64 := fun a b => inferInstanceAs (Decidable (a.toFloat < b.toFloat))
instance : Transc F64 where
  sqrt x := ofFloat x.toFloat.sqrt
  arccos x := ofFloat x.toFloat.acos
  cos x := ofFloat x.toFloat.cos
  sin x := ofFloat x.toFloat.sin
  pi := ofFloat 3.141592653589793
  log x := ofFloat x.toFloat.log
end F64

/-- a rational token as a double (exact for dyadic rationals with ≤ 53-bit numerators) -/
def flt : P F64 := do
  let r ← rat
  pure (F64.ofFloat (Float.ofInt r.num / Float.ofNat r.den))

def fvec : P (List F64) := do
  let n ← nat
  many n flt

/-- floats cross the protocol as their IEEE-754 bit pattern (exact) -/
def showF (f : F64) : String := toString f.bits
def showFVec (v : List F64) : String := " ".intercalate (toString v.length :: v.map showF)
def showFMat (m : List (List F64)) : String :=
  let cols := match m with | [] => 0 | r :: _ => r.length
  " ".intercalate (toString m.length :: toString cols :: (m.map (·.map showF)).flatten)

def ops16 : List (String × Handler) := [
  ("baryT", do
    let n ← nat
    pure (showFMat (baryT n : List (List F64)))),
  ("bary2cart", do
    let c ← bool; let x ← fvec
    pure (showFVec (baryToCart c x))),
  ("cart2bary", do
    let c ← bool; let hasL ← bool; let l ← flt; let x ← fvec
    match cartToBary c (if hasL then some l else none) x with
    | some b => pure (showFVec b)
    | none => pure "singular"),
  ("dimred", do
    let c ← bool; let x ← fvec
    pure (showFVec (baryDimReduction c x))),
  ("cart2sph", do
    let x ← fvec
    pure (showFVec (cartToSph x))),
  ("sph2cart", do
    let y ← fvec
    pure (showFVec (sphToCart y)))
]
end Dreye.Driver
