import Dreye.Driver.Parse
import Dreye.Driver.Ops01
import Dreye.Model.System
namespace Dreye.Driver
open Dreye

def adapt : P (Adapt Rat) := do
  match (← tok) with
  | "vec" => do let k ← vec; pure (.vec k)
  | "mat" => do let k ← mat; pure (.mat k)
  | t => throw s!"bad K `{t}`"

def ops02 : List (String × Handler) := [
  ("systemA", do
    let d ← dom; let f ← mat; let s ← mat
    pure (showMat (systemA d f s))),
  ("syscap", do
    let a ← mat; let x ← vec
    pure (showVec (systemCapture a x))),
  ("relcap", do
    let k ← adapt; let b ← vec; let q ← vec
    pure (showVec (relCapture k b q))),
  ("adapt", do
    let ab ← bool; let b ← vec; let q ← vec
    pure (showVec (adaptTo ab b q))),
  ("mixture", do   -- linComb n x S
    let n ← nat; let x ← vec; let s ← mat
    pure (showVec (linComb n x s)))
]
end Dreye.Driver
