import Dreye.Driver.Parse
import Dreye.Model.Sampling
namespace Dreye.Driver
open Dreye

def ops13 : List (String × Handler) := [
  -- qmcplan <k> <count_1 … count_k>  ->  "<k> s1 e1 … sk ek | <n> idx_1 … idx_n"   (row blocks and simplex index per row)
  ("qmcplan", do
    let k ← nat
    let cs ← many k nat
    let bl := qmcBlocks 0 cs
    let idx := repeatIdx 0 cs
    let bt := " ".intercalate (bl.map (fun b => s!"{b.1} {b.2}"))
    let it := " ".intercalate (idx.map toString)
    pure s!"{bl.length} {bt} | {idx.length} {it}")
]
end Dreye.Driver
