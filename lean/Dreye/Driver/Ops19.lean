import Dreye.Driver.Parse
import Dreye.Model.Domain
namespace Dreye.Driver
open Dreye

def fibers : P (List (List Rat)) := do
  let n ← nat
  many n vec

def showFibers (fs : List (List Rat)) : String :=
  " ".intercalate (toString fs.length :: fs.map showVec)

/-- like `equalize`, but the number of intervals may be forced (near-tie handling in the harness) -/
def equalizeK (fill : Rat) (kforce : Nat) (domains : List (List Rat)) (arrs : List (List (List Rat))) : EqResult :=
  match domains with
  | [] => .same
  | d0 :: ds =>
    if ds.all (· == d0) then .same else
    let (lo, hi, step) := boundsAndDiff domains
    if rejected lo hi step then .rejected else
    let k := if kforce = 0 then (roundHalfEven ((hi - lo) / step)).toNat else kforce
    let nd := linspace lo hi k
    .interp nd (List.zipWith (fun d fs => fs.map (fun y => interp1 fill d y nd)) domains arrs)

def ops19 : List (String × Handler) := [
  ("bounds", do
    let n ← nat; let ds ← many n vec
    let (lo, hi, st) := boundsAndDiff ds
    pure s!"{showRat lo} {showRat hi} {showRat st}"),
  ("equalize", do
    let fill ← rat; let kf ← nat
    let n ← nat; let ds ← many n vec
    let m ← nat; let arrs ← many m fibers
    match equalizeK fill kf ds arrs with
    | .same => pure "same"
    | .rejected => pure "rejected"
    | .interp d a => pure s!"interp {showVec d} {a.length} {" ".intercalate (a.map showFibers)}"),
  ("roundhe", do
    let x ← rat
    pure (toString (roundHalfEven x)))
]
end Dreye.Driver
