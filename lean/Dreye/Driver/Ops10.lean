import Dreye.Driver.Parse
import Dreye.Driver.Ops08
import Dreye.Model.Adaptive
namespace Dreye.Driver
open Dreye

def ops10 : List (String × Handler) := [
  -- adaptive <objective unity|max> <n> <A'> <base'> <nu> <B> <d1> <dr> <w0> <w1> <lbX> <ubX> <smax> <lam> <z>
  --   -> objective(z)  delta-or-lowerbound|none  inbox  maxrowviolation
  ("adaptive", do
    let obj ← tok
    let n ← nat; let a ← mat; let base ← vec; let nu ← vec; let b ← mat
    let d1 ← rat; let dr ← rat; let w0 ← rat; let w1 ← rat
    let lbx ← vec; let ubx ← ubvec
    -- <smax>: a rational (certificate over pairs with both scales <= smax) or `inf` (all feasible pairs)
    let smaxTok ← tok
    let smax : Option Rat ← (if smaxTok == "inf" then pure none else match parseRat smaxTok with
      | .ok r => pure (some r) | .error e => throw e)
    let lam ← vec; let z ← vec
    let size := b.length
    let (g, h) := adaptiveRows n a base nu b d1 dr
    let lb := (List.replicate size lbx).flatten ++ [0, 0]
    -- the certificate ranges over all feasible pairs whose scales do not exceed `smax` (no restriction for `inf`)
    let ub := (List.replicate size ubx).flatten ++ [smax, smax]
    let dim := size * n + 2
    let viol := (vsub (matVec g z) h).foldl (fun m t => if m ≤ t then t else m) 0
    let tail := s!"{showBool (inBox lb ub z)} {showRat viol}"
    match obj with
    | "unity" =>
      let (m, r) := unityQuad size n w0 w1
      let gr := lsGrad dim m r z
      let delta := match linLower dim gr g h [] [] 0 lam [] 0 lb ub with
        | none => "none" | some bnd => showRat (dot gr z - bnd)
      pure s!"{showRat (lsObj m r z)} {delta} {tail}"
    | "max" =>
      let c := maxCost size n w0 w1
      let delta := match linLower dim c g h [] [] 0 lam [] 0 lb ub with
        | none => "none" | some bnd => showRat (dot c z - bnd)
      pure s!"{showRat (dot c z)} {delta} {tail}"
    | t => throw s!"bad objective `{t}`")
]
end Dreye.Driver
