import Dreye.Driver.Parse
import Dreye.Model.Project
namespace Dreye.Driver
open Dreye

/-- facets: `<k> <dim>` then `k` rows of `dim` normal entries followed by the offset (one matrix `k × (dim+1)`) -/
def facets : P (List (Facet Rat)) := do
  let m ← mat
  pure (m.map (fun r => ⟨r.dropLast, r.getLastD 0⟩))

def ops17 : List (String × Handler) := [
  -- alpha <facets k x (d+1)> <b>
  ("alpha", do
    let fs ← facets; let b ← vec
    match alphaFor fs b with
    | none => pure "none"
    | some a => pure s!"{showRat a} {showBool (insideFacets fs (smul a b))}"),
  -- section <P> <c>
  ("section", do
    let p ← mat; let c ← rat
    pure (showMat (sectionPoints p c))),
  ("line2simplex", do
    let x1 ← vec; let x2 ← vec; let c ← rat
    pure (showVec (lineToSimplex x1 x2 c))),
  -- projdual <n> <G> <h> <b> <lam> <p>  ->  dual value, half squared distance of p, max violation of G p <= h
  ("projdual", do
    let n ← nat; let g ← mat; let h ← vec; let b ← vec; let lam ← vec; let p ← vec
    let dv := projDual n g h b lam
    let half := dot (vsub p b) (vsub p b) / 2
    let viol := (vsub (matVec g p) h).foldl (fun m v => if m ≤ v then v else m) 0
    let lamok := lam.all (fun l => decide (0 ≤ l)) && lam.length = g.length
    pure s!"{showRat dv} {showRat half} {showRat viol} {showBool lamok}"),
  -- l1scale <A'> <base'> <ub> <B>
  ("l1scale", do
    let a ← mat; let base ← vec; let ub ← vec; let b ← mat
    pure s!"{showMat (l1Scaling a base ub b)} {showRat (l1Amax a ub)}"),
  ("distscaled", do
    let l1 ← rat; let al ← rat; let c ← vec; let b ← vec
    pure (showVec (distScaled l1 al c b)))
]
end Dreye.Driver
