import Dreye.Driver.Parse
import Dreye.Driver.Ops04
import Dreye.Model.Models
namespace Dreye.Driver
open Dreye

def ops07 : List (String × Handler) := [
  -- poisgap <n> <A'> <base'> <w> <b> <lb> <ub> <x>  ->  inbox minp gap  (gap = g.x - boxmin(g), "none" if infinite)
  ("poisgap", do
    let n ← nat; let a ← mat; let base ← vec; let w ← vec; let b ← vec; let lb ← vec; let ub ← ubvec; let x ← vec
    let p := totalCapture a base x
    let minp := p.foldl (fun m v => if v ≤ m then v else m) (p.headD 0)
    let g := poissonGrad n a w b p
    let gap := match boxMinLin g lb ub with
      | none => "none"
      | some m => showRat (dot g x - m)
    pure s!"{showBool (inBox lb ub x)} {showRat minp} {gap}"),
  -- poistan <n> <A'> <base'> <w> <b> <x> <x'>  ->  minp(x)  g(x).x - g(x).x'   (tangent term of poisson_shifted_gap_bound)
  ("poistan", do
    let n ← nat; let a ← mat; let base ← vec; let w ← vec; let b ← vec; let x ← vec; let x' ← vec
    let p := totalCapture a base x
    let minp := p.foldl (fun m v => if v ≤ m then v else m) (p.headD 0)
    let g := poissonGrad n a w b p
    pure s!"{showRat minp} {showRat (dot g x - dot g x')}"),
  -- excdoc <A'> <base'> <b> <x>  -> documented objective max |e(b) - e(p)|
  ("excdoc", do
    let a ← mat; let base ← vec; let b ← vec; let x ← vec
    pure (showRat (excDoc b (totalCapture a base x)))),
  -- exclevel <n> <A'> <base'> <b> <t> <lam> <lb> <ub>  -> certified value of linLower with zero cost over the level-t rows
  ("exclevel", do
    let n ← nat; let a ← mat; let base ← vec; let b ← vec; let t ← rat; let lam ← vec; let lb ← vec; let ub ← ubvec
    let (g, h) := excLevelRows a base b t
    pure s!"{showOpt (linLower n (List.replicate n 0) g h [] [] 0 lam [] 0 lb ub)} {showMat g} {showVec h}")
]
end Dreye.Driver
