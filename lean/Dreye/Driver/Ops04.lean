import Dreye.Driver.Parse
import Dreye.Driver.Ops02
import Dreye.Model.Fit
namespace Dreye.Driver
open Dreye

/-- optional-bound vector: tokens `inf` or rationals -/
def ubvec : P (List (Option Rat)) := do
  let n ← nat
  many n ratInf

def optAdapt : P (Option (Adapt Rat)) := do
  let (ts, i) ← get
  if h : i < ts.size then
    if ts[i] = "noK" then
      set (ts, i + 1); pure none
    else some <$> adapt
  else throw "unexpected end of line"

def showOpt (o : Option Rat) : String := match o with | none => "none" | some r => showRat r

def ops04 : List (String × Handler) := [
  -- prepared problem of one target row:  prep <n> <K> <A> <baseline> <w> <b>  ->  C d A' base'
  ("prep", do
    let n ← nat; let k ← optAdapt; let a ← mat; let base ← vec; let w ← vec; let b ← vec
    let a' := transformA n k a
    let base' := transformBase a.length k base
    pure s!"{showMat (gaussC a' w)} {showVec (gaussD base' w b)} {showMat a'} {showVec base'}"),
  -- kkt <n> <C> <d> <lb> <ub> <x>  ->  ok? obj(x)
  ("kkt", do
    let n ← nat; let c ← mat; let d ← vec; let lb ← vec; let ub ← ubvec; let x ← vec
    pure s!"{showBool (kktOK n c d lb ub x)} {showRat (lsObj c d x)}"),
  ("lsobj", do
    let c ← mat; let d ← vec; let x ← vec
    pure (showRat (lsObj c d x))),
  ("fwgap", do
    let n ← nat; let c ← mat; let d ← vec; let lb ← vec; let ub ← ubvec; let x ← vec
    pure s!"{showBool (inBox lb ub x)} {showOpt (fwGap n c d lb ub x)} {showRat (lsObj c d x)}"),
  ("predict", do
    let a ← mat; let base ← vec; let x ← vec
    pure (showVec (predict a base x))),
  ("docobj", do
    let k ← adapt; let a ← mat; let base ← vec; let w ← vec; let b ← vec; let x ← vec
    pure (showRat (docObj k a base w b x))),
  -- linlower <n> <c> <G> <h> <C> <d> <eps> <lam> <v> <sigma> <lb> <ub>
  ("linlower", do
    let n ← nat; let c ← vec; let g ← mat; let h ← vec; let cc ← mat; let d ← vec; let eps ← rat
    let lam ← vec; let v ← vec; let sigma ← rat; let lb ← vec; let ub ← ubvec
    pure (showOpt (linLower n c g h cc d eps lam v sigma lb ub)))
]
end Dreye.Driver
