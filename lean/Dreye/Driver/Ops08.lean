import Dreye.Driver.Parse
import Dreye.Driver.Ops04
import Dreye.Cert.Box
namespace Dreye.Driver
open Dreye

/-- the common tail of the certificate ops: `<G> <h> <C> <d> <eps> <lam> <v> <sigma> <lb> <ub>` -/
structure CertArgs where
  g : List (List Rat)
  h : List Rat
  c : List (List Rat)
  d : List Rat
  eps : Rat
  lam : List Rat
  v : List Rat
  sigma : Rat
  lb : List Rat
  ub : List (Option Rat)

def certArgs : P CertArgs := do
  let g ← mat; let h ← vec; let c ← mat; let d ← vec; let eps ← rat
  let lam ← vec; let v ← vec; let sigma ← rat; let lb ← vec; let ub ← ubvec
  pure ⟨g, h, c, d, eps, lam, v, sigma, lb, ub⟩

/-- feasibility report of a point: max row violation of `G x ≤ h`, ball slack `eps² − ‖Cx−d‖²`, in box? -/
def feasReport (a : CertArgs) (x : List Rat) : String :=
  let viol := (vsub (matVec a.g x) a.h).foldl (fun m t => if m ≤ t then t else m) 0
  s!"{showBool (inBox a.lb a.ub x)} {showRat viol} {showRat (lsObj a.c a.d x)}"

def ops08 : List (String × Handler) := [
  -- lincert <n> <cost> <x> <args>  ->  cost.x  lower-bound|none  feas
  ("lincert", do
    let n ← nat; let c ← vec; let x ← vec; let a ← certArgs
    pure s!"{showRat (dot c x)} {showOpt (linLower n c a.g a.h a.c a.d a.eps a.lam a.v a.sigma a.lb a.ub)} {feasReport a x}"),
  -- quadcert <n> <M> <r> <x> <args>  ->  obj(x)  delta|none  feas     (delta = g.x - b with g = gradient at x)
  ("quadcert", do
    let n ← nat; let m ← mat; let r ← vec; let x ← vec; let a ← certArgs
    let g := lsGrad n m r x
    let delta := match linLower n g a.g a.h a.c a.d a.eps a.lam a.v a.sigma a.lb a.ub with
      | none => "none"
      | some b => showRat (dot g x - b)
    pure s!"{showRat (lsObj m r x)} {delta} {feasReport a x}"),
  -- diagcert <n> <e> <x> <args>  ->  sum e x^2   delta|none  feas
  ("diagcert", do
    let n ← nat; let e ← vec; let x ← vec; let a ← certArgs
    let g := smul two (vmul e x)
    let delta := match linLower n g a.g a.h a.c a.d a.eps a.lam a.v a.sigma a.lb a.ub with
      | none => "none"
      | some b => showRat (dot g x - b)
    pure s!"{showRat (dot e (vmul x x))} {delta} {feasReport a x}")
]
end Dreye.Driver
