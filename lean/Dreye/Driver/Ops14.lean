import Dreye.Driver.Parse
import Dreye.Driver.Ops04
import Dreye.Model.Estimator
namespace Dreye.Driver
open Dreye

def optVec : P (Option (List Rat)) := do
  if (← bool) then some <$> vec else pure none
def optUb : P (Option (List (Option Rat))) := do
  if (← bool) then some <$> ubvec else pure none

def regOp : P (RegOp Rat) := do
  match (← tok) with
  | "sys" => do let s ← mat; let lb ← optVec; let ub ← optUb; pure (.system s lb ub)
  | "bnd" => do let lb ← optVec; let ub ← optUb; pure (.bounds lb ub)
  | "adp" => do let k ← adapt; pure (.adaptation k)
  | "bas" => do let b ← vec; pure (.baseline b)
  | "bga" => do let bg ← vec; let ab ← bool; let add ← bool; pure (.backgroundAdaptation bg ab add)
  | "sya" => do let x ← vec; let ab ← bool; let add ← bool; pure (.systemAdaptation x ab add)
  | "tgt" => do
      let b ← mat
      -- weights: "none" | "vec <vec>" | "mat <mat>"
      let w ← (do match (← tok) with
        | "none" => pure none
        | "vec" => do let v ← vec; pure (some (Weights.vec v))
        | "mat" => do let m ← mat; pure (some (Weights.mat m))
        | t => throw s!"bad weights `{t}`")
      pure (.targets b w)
  | "fit" => do let p ← mat; pure (.fitInternal p)
  | t => throw s!"bad registration op `{t}`"

def showAdapt : Adapt Rat → String
  | .vec k => s!"vec {showVec k}"
  | .mat m => s!"mat {showMat m}"

def showUb (u : List (Option Rat)) : String :=
  " ".intercalate (toString u.length :: u.map (fun o => match o with | none => "inf" | some r => showRat r))

def showAnswer : Answer Rat → String
  | .mat m => s!"mat {showMat m}"
  | .vec v => s!"vec {showVec v}"
  | .bools b => s!"bools {b.length} {" ".intercalate (b.map showBool)}"
  | .adapt k => s!"adapt {showAdapt k}"
  | .bounds lb ub => s!"bounds {showVec lb} {showUb ub}"
  | .weights (.vec w) => s!"wvec {showVec w}"
  | .weights (.mat m) => s!"wmat {showMat m}"
  | .notRegistered => "notreg"

/-- digest of all closed-form queries on fixed probes -/
def digest (s : Est Rat) (px : List Rat) (psig : List (List Rat)) : String :=
  " ".intercalate [showAnswer (s.answer .getA), showAnswer (s.answer .getK), s!"base {showVec s.baseline}",
    showAnswer (s.answer .getBounds), showAnswer (s.answer (.systemCapture px)),
    showAnswer (s.answer (.systemRelativeCapture px)), showAnswer (s.answer (.relativeCapture psig)),
    showAnswer (s.answer (.inSystem px)), showAnswer (s.answer .getTargets), showAnswer (s.answer .getWeights),
    showAnswer (s.answer .getWork)]

def ops14 : List (String × Handler) := [
  -- hist <filters> <dom> <K> <baseline> <w> <probe x> <probe signals> <nops> {op}  ->  per step: "ok <digest>" / "assert", separated by " ; "
  ("hist", do
    let f ← mat; let d ← dom; let k ← adapt; let b ← vec; let w ← vec; let px ← vec; let ps ← mat
    let n ← nat
    let ops ← many n regOp
    let mut s := Est.init f d k b w
    let mut outs : Array String := #[s!"ok {digest s px ps}"]
    for op in ops do
      match s.register op with
      | none => outs := outs.push "assert"     -- the call asserts; the state is unchanged
      | some s' => s := s'; outs := outs.push s!"ok {digest s px ps}"
    pure (" ; ".intercalate outs.toList))
]
end Dreye.Driver
