import Dreye.Driver.Parse
import Dreye.Model.Units
namespace Dreye.Driver
open Dreye
def ops20 : List (String × Handler) := [
  ("irr2flux", do
    let p ← nat; let q ← nat; let i ← vec; let l ← vec
    pure (showVec (irr2fluxVec p q i l))),
  ("flux2irr", do
    let p ← nat; let q ← nat; let e ← vec; let l ← vec
    pure (showVec (flux2irrVec p q e l)))
]
end Dreye.Driver
