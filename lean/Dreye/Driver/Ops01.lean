import Dreye.Driver.Parse
import Dreye.Model.Capture
namespace Dreye.Driver
open Dreye

/-- domain: `step <dx> <trapz>` | `grid <vec>` -/
def dom : P (Dom Rat) := do
  match (← tok) with
  | "step" => do let dx ← rat; let t ← bool; pure (.step dx t)
  | "grid" => do let xs ← vec; pure (.grid xs)
  | t => throw s!"bad domain `{t}`"

def ops01 : List (String × Handler) := [
  ("capture", do
    let d ← dom; let f ← mat; let s ← mat
    pure (showMat (capture d f s))),
  ("capture1", do
    let d ← dom; let f ← vec; let s ← mat
    pure (showVec (capture1 d f s))),
  ("integrate", do
    let d ← dom; let y ← vec
    pure (showRat (integrate d y)))
]
end Dreye.Driver
