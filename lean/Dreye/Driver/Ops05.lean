import Dreye.Driver.Parse
import Dreye.Model.Batch
namespace Dreye.Driver
open Dreye

def batchArg : P BatchArg := do
  match (← tok) with
  | "none" => pure .none
  | "full" => pure .full
  | t => match t.toNat? with
    | some k => pure (.size k)
    | none => throw s!"bad batch size `{t}`"

def ops05 : List (String × Handler) := [
  ("batchplan", do
    let pr ← tok
    let proc ← match pr with
      | "gaussian" => pure Proc.gaussian | "poisson" => pure Proc.poisson
      | "excitation" => pure Proc.excitation | "minvar" => pure Proc.minvar
      | t => throw s!"bad procedure `{t}`"
    let n ← nat; let b ← batchArg
    let bs := effectiveBatch proc b n
    let ws := batchPlan n bs
    pure (" ".intercalate (toString bs :: toString ws.length ::
      ws.map (fun w => s!"{w.idx} {showBool w.padded} {w.start} {w.stop}"))))
]
end Dreye.Driver
