/-
  C17 — hull projections return the nearest point, the boundary hit and the exact slice.
-/
import Dreye.Model.Project
import Dreye.Props.C03
import Dreye.Props.C06
import Mathlib.Algebra.Order.Field.Basic
import Mathlib.Algebra.BigOperators.Group.List.Basic
import Mathlib.Tactic

namespace Dreye
namespace C17

variable {α : Type*} [Field α] [LinearOrder α] [IsStrictOrderedRing α]

set_option linter.unusedSectionVars false
set_option linter.unusedVariables false

open Cert C03

/-! ### helpers -/

theorem sum_vadd (a b : List α) (h : a.length = b.length) : (vadd a b).sum = a.sum + b.sum :=
  sum_zipWith_add a b h

theorem sum_smul (k : α) (a : List α) : (smul k a).sum = k * a.sum := sum_map_mul k a

theorem sum_vsub : ∀ (a b : List α), a.length = b.length → (vsub a b).sum = a.sum - b.sum
  | [], [], _ => by simp [vsub]
  | [], _ :: _, h => by simp at h
  | _ :: _, [], h => by simp at h
  | x :: a, y :: b, h => by
      have ih := sum_vsub a b (by simpa using h)
      simp only [vsub, List.zipWith_cons_cons, List.sum_cons] at ih ⊢
      rw [ih]; ring

/-- squared distance -/
def sqd (z b : List α) : α := dot (vsub z b) (vsub z b)

/-- membership in the polytope `{z | G z ≤ h}` -/
def InPoly (G : List (List α)) (h z : List α) : Prop := ∀ p ∈ (matVec G z).zip h, p.1 ≤ p.2

/-- **C17 (weak duality for the nearest-point programme)**: for any multipliers `lam ≥ 0` the dual value
    bounds half the squared distance of *every* point of the polytope from below. -/
theorem proj_weak_duality (n : ℕ) (G : List (List α)) (h b lam z : List α)
    (hG : ∀ r ∈ G, r.length = n) (hh : h.length = G.length) (hl : lam.length = G.length)
    (hb : b.length = n) (hz : z.length = n)
    (hlam : ∀ l ∈ lam, 0 ≤ l) (hin : InPoly G h z) :
    projDual n G h b lam ≤ sqd z b / 2 := by
  unfold projDual sqd
  simp only []
  rw [two_eq]
  set g := linComb n lam G with hg
  set v := vsub z b with hv
  have hgl : g.length = n := linComb_length n lam G hG
  have hvl : v.length = n := by rw [hv, vsub_length, hz, hb, min_self]
  have h0 : 0 ≤ dot (vadd v g) (vadd v g) := dot_self_nonneg _
  have hvg : v.length = g.length := by rw [hvl, hgl]
  rw [dot_vadd_left v g _ hvg, dot_vadd_right v v g hvg, dot_vadd_right g v g hvg, dot_comm v g] at h0
  have h1 : dot g v = dot lam (matVec G z) - dot lam (matVec G b) := by
    rw [hv, dot_vsub_right g z b (by rw [hz, hb]), hg, dot_linComb n z lam G hG, dot_linComb n b lam G hG]
  have h2 : dot lam (vsub (matVec G b) h) = dot lam (matVec G b) - dot lam h := by
    rw [dot_vsub_right lam _ _ (by rw [matVec_length, hh])]
  have h3 : dot lam (matVec G z) ≤ dot lam h :=
    dot_le_dot_of_nonneg lam (matVec G z) h hlam hin (by rw [matVec_length, hh])
  rw [h2]
  linarith

/-- **C17 (nearest point from a certificate)**: a point `p` whose half squared distance exceeds the dual
    value by at most `δ` is within `2δ` (in squared distance) of the nearest point of the polytope. -/
theorem nearest_of_cert (n : ℕ) (G : List (List α)) (h b lam p z : List α) (δ : α)
    (hG : ∀ r ∈ G, r.length = n) (hh : h.length = G.length) (hl : lam.length = G.length)
    (hb : b.length = n) (hz : z.length = n)
    (hlam : ∀ l ∈ lam, 0 ≤ l) (hin : InPoly G h z)
    (hgap : sqd p b / 2 - projDual n G h b lam ≤ δ) :
    sqd p b ≤ sqd z b + 2 * δ := by
  have := proj_weak_duality n G h b lam z hG hh hl hb hz hlam hin
  linarith

/-! ### `alphaFor` -/

theorem foldl_mn_le : ∀ (as : List α) (a0 : α), as.foldl mn a0 ≤ a0 ∧ ∀ x ∈ as, as.foldl mn a0 ≤ x
  | [], a0 => by simp
  | y :: as, a0 => by
      have ih := foldl_mn_le as (mn a0 y)
      rw [List.foldl_cons]
      refine ⟨ih.1.trans (C06.mn_le_left _ _), ?_⟩
      intro x hx
      rcases List.mem_cons.1 hx with rfl | hx
      · exact ih.1.trans (C06.mn_le_right _ _)
      · exact ih.2 x hx

theorem foldl_mn_mem : ∀ (as : List α) (a0 : α), as.foldl mn a0 = a0 ∨ as.foldl mn a0 ∈ as
  | [], a0 => by simp
  | y :: as, a0 => by
      rw [List.foldl_cons]
      rcases foldl_mn_mem as (mn a0 y) with h | h
      · rcases C06.mn_eq a0 y with h' | h'
        · left; rw [h, h']
        · right; rw [h, h']; exact List.mem_cons_self
      · right; exact List.mem_cons_of_mem _ h

/-- the candidate ratios of `alphaFor` -/
def cands (fs : List (Facet α)) (b : List α) : List α :=
  fs.filterMap (fun f =>
    if dot f.normal b = 0 then none else
      if 0 < (-f.offset) / dot f.normal b then some ((-f.offset) / dot f.normal b) else none)

theorem alphaFor_eq (fs : List (Facet α)) (b : List α) :
    alphaFor fs b = match cands fs b with
      | [] => none
      | a :: as => some (as.foldl mn a) := rfl

theorem mem_cands (fs : List (Facet α)) (b : List α) (x : α) :
    x ∈ cands fs b ↔ ∃ f ∈ fs, dot f.normal b ≠ 0 ∧ 0 < x ∧ x = (-f.offset) / dot f.normal b := by
  unfold cands
  rw [List.mem_filterMap]
  constructor
  · rintro ⟨f, hf, h⟩
    refine ⟨f, hf, ?_⟩
    split_ifs at h with h1 h2
    · simp at h
      exact ⟨h1, h ▸ h2, h.symm⟩
  · rintro ⟨f, hf, h1, h2, h3⟩
    refine ⟨f, hf, ?_⟩
    rw [if_neg h1, if_pos (h3 ▸ h2), h3]

theorem alphaFor_spec (fs : List (Facet α)) (b : List α) (a : α) (h : alphaFor fs b = some a) :
    a ∈ cands fs b ∧ ∀ x ∈ cands fs b, a ≤ x := by
  rw [alphaFor_eq] at h
  cases hc : cands fs b with
  | nil => rw [hc] at h; simp at h
  | cons a0 as =>
    rw [hc] at h
    simp only [Option.some.injEq] at h
    subst h
    constructor
    · rcases foldl_mn_mem as a0 with h | h
      · rw [h]; exact List.mem_cons_self
      · exact List.mem_cons_of_mem _ h
    · intro x hx
      rcases List.mem_cons.1 hx with rfl | hx
      · exact (foldl_mn_le as _).1
      · exact (foldl_mn_le as a0).2 x hx

/-- **C17 (boundary hit)**: for a polytope `{z | n_f·z + o_f ≤ 0}` with the origin strictly inside
    (`o_f < 0`), the returned multiple `a` is positive, `a • b` lies in the polytope and on one of its
    facets, every smaller non-negative multiple is inside, and every larger multiple is outside. -/
theorem alpha_hits_boundary (fs : List (Facet α)) (b : List α) (a : α)
    (horigin : ∀ f ∈ fs, f.offset < 0) (hlen : ∀ f ∈ fs, f.normal.length = b.length)
    (h : alphaFor fs b = some a) :
    0 < a ∧ insideFacets fs (smul a b) = true ∧
    (∃ f ∈ fs, dot f.normal (smul a b) + f.offset = 0) ∧
    (∀ a', 0 ≤ a' → a' ≤ a → insideFacets fs (smul a' b) = true) ∧
    (∀ a', a < a' → insideFacets fs (smul a' b) = false) := by
  obtain ⟨hmem, hmin⟩ := alphaFor_spec fs b a h
  obtain ⟨f0, hf0, hq0, hapos, haeq⟩ := (mem_cands fs b a).1 hmem
  have ho0 : f0.offset < 0 := horigin f0 hf0
  have hq0pos : 0 < dot f0.normal b := by
    rw [haeq] at hapos
    exact (div_pos_iff_of_pos_left (neg_pos.2 ho0)).1 hapos
  have haq : a * dot f0.normal b = -f0.offset := by
    rw [haeq]; field_simp
  have hin : ∀ a', 0 ≤ a' → a' ≤ a → insideFacets fs (smul a' b) = true := by
    intro a' h0 h1
    unfold insideFacets
    rw [List.all_eq_true]
    intro f hf
    rw [decide_eq_true_iff, dot_smul_right]
    have ho : f.offset < 0 := horigin f hf
    rcases le_or_gt (dot f.normal b) 0 with hq | hq
    · have := mul_nonpos_of_nonneg_of_nonpos h0 hq
      linarith
    · have hx : (-f.offset) / dot f.normal b ∈ cands fs b :=
        (mem_cands fs b _).2 ⟨f, hf, hq.ne', div_pos (neg_pos.2 ho) hq, rfl⟩
      have h2 : a' ≤ (-f.offset) / dot f.normal b := h1.trans (hmin _ hx)
      have := (le_div_iff₀ hq).1 h2
      linarith
  refine ⟨hapos, hin a hapos.le le_rfl, ⟨f0, hf0, ?_⟩, hin, ?_⟩
  · rw [dot_smul_right, haq]; ring
  · intro a' ha'
    rw [Bool.eq_false_iff]
    intro hall
    unfold insideFacets at hall
    rw [List.all_eq_true] at hall
    have := hall f0 hf0
    rw [decide_eq_true_iff, dot_smul_right] at this
    have := mul_lt_mul_of_pos_right ha' hq0pos
    linarith

/-- **C17 (section points are on the plane)** -/
theorem line_to_simplex_sum (x1 x2 : List α) (c : α) (hl : x1.length = x2.length)
    (hne : (vsub x2 x1).sum ≠ 0) : (lineToSimplex x1 x2 c).sum = c := by
  unfold lineToSimplex
  simp only []
  rw [sum_vadd _ _ (by rw [smul_length, vsub_length, hl, min_self]), sum_smul]
  field_simp
  ring

/-- … and on the segment: for `Σx1 ≤ c < Σx2` the point is the convex combination `(1-t) x1 + t x2`
    with `t = (c − Σx1)/(Σx2 − Σx1) ∈ [0, 1)`. -/
theorem line_to_simplex_segment (x1 x2 : List α) (c : α) (hl : x1.length = x2.length)
    (h1 : x1.sum ≤ c) (h2 : c < x2.sum) :
    let t := (c - x1.sum) / (x2.sum - x1.sum)
    0 ≤ t ∧ t < 1 ∧ lineToSimplex x1 x2 c = vadd (smul (1 - t) x1) (smul t x2) := by
  intro t
  have hpos : 0 < x2.sum - x1.sum := by linarith
  refine ⟨div_nonneg (by linarith) hpos.le, (div_lt_one hpos).2 (by linarith), ?_⟩
  unfold lineToSimplex
  simp only []
  rw [sum_vsub x2 x1 hl.symm]
  change vadd x1 (smul t (vsub x2 x1)) = _
  apply List.ext_getElem
  · simp [vadd, vsub, smul, hl]
  · intro i h1 h2
    simp [vadd, vsub, smul]; ring

theorem mem_crossingPairs (P : List (List α)) (c : α) (pq : List α × List α) :
    pq ∈ crossingPairs P c ↔ (pq.1 ∈ P ∧ pq.1.sum ≤ c) ∧ (pq.2 ∈ P ∧ c < pq.2.sum) := by
  unfold crossingPairs
  simp only [List.mem_flatMap, List.mem_map, List.mem_filter, decide_eq_true_iff,
    Bool.not_eq_true', decide_eq_false_iff_not, not_le]
  constructor
  · rintro ⟨p, hp, q, hq, rfl⟩; exact ⟨hp, hq⟩
  · rintro ⟨hp, hq⟩; exact ⟨pq.1, hp, pq.2, hq, rfl⟩

/-- **C17 (slice ⊆)**: every returned point of the all-pairs branch lies on the plane and is a convex
    combination of two points of the cloud. -/
theorem section_points_sound (d : ℕ) (P : List (List α)) (c : α) (hP : ∀ p ∈ P, p.length = d) :
    ∀ r ∈ sectionPoints P c, r.sum = c ∧ r.length = d ∧
      ∃ p ∈ P, ∃ q ∈ P, ∃ t : α, 0 ≤ t ∧ t ≤ 1 ∧ r = vadd (smul (1 - t) p) (smul t q) := by
  intro r hr
  unfold sectionPoints at hr
  rw [List.mem_map] at hr
  obtain ⟨⟨p, q⟩, hpq, rfl⟩ := hr
  obtain ⟨⟨hp, hpc⟩, ⟨hq, hqc⟩⟩ := (mem_crossingPairs P c (p, q)).1 hpq
  simp only [] at hp hpc hq hqc ⊢
  have hpl := hP p hp
  have hql := hP q hq
  have hl : p.length = q.length := by rw [hpl, hql]
  obtain ⟨ht0, ht1, heq⟩ := line_to_simplex_segment p q c hl hpc hqc
  refine ⟨line_to_simplex_sum p q c hl ?_, ?_, p, hp, q, hq, _, ht0, ht1.le, heq⟩
  · rw [sum_vsub q p hl.symm]; intro h; linarith
  · rw [heq, vadd_length, smul_length, smul_length, hpl, hql, min_self]

/-! ### weighted point lists (for the slice theorem) -/

theorem lineToSimplex_length (x1 x2 : List α) (c : α) (hl : x1.length = x2.length) :
    (lineToSimplex x1 x2 c).length = x1.length := by
  simp [lineToSimplex, vadd, smul, vsub, hl]

/-- weighted combination of a list of (weight, point) pairs -/
def wc (d : ℕ) (L : List (α × List α)) : List α := linComb d (L.map Prod.fst) (L.map Prod.snd)

theorem wc_nil (d : ℕ) : wc d ([] : List (α × List α)) = List.replicate d 0 := by
  simp [wc, linComb_nil_left]

theorem wc_cons (d : ℕ) (x : α × List α) (L : List (α × List α)) :
    wc d (x :: L) = vadd (smul x.1 x.2) (wc d L) := rfl

theorem wc_length (d : ℕ) (L : List (α × List α)) (hL : ∀ x ∈ L, x.2.length = d) :
    (wc d L).length = d := by
  unfold wc
  apply linComb_length
  intro r hr
  rw [List.mem_map] at hr
  obtain ⟨x, hx, rfl⟩ := hr
  exact hL x hx

theorem vadd_lcomm (a b c : List α) : vadd a (vadd b c) = vadd b (vadd a c) := by
  apply List.ext_getElem
  · simp [vadd, Nat.min_left_comm]
  · intro i h1 h2
    simp only [vadd, List.getElem_zipWith]
    ring

theorem wc_filter (d : ℕ) (f : α × List α → Bool) : ∀ (L : List (α × List α)),
    (∀ x ∈ L, x.2.length = d) →
    wc d L = vadd (wc d (L.filter f)) (wc d (L.filter (fun x => !f x)))
  | [], _ => by
      rw [List.filter_nil, List.filter_nil, wc_nil, zero_vadd d _ (List.length_replicate ..)]
  | x :: L, h => by
      have ih := wc_filter d f L (fun y hy => h y (List.mem_cons_of_mem _ hy))
      rw [wc_cons, ih]
      by_cases hx : f x = true
      · rw [List.filter_cons_of_pos hx, List.filter_cons_of_neg (by simp [hx]), wc_cons, C03.vadd_assoc]
      · rw [List.filter_cons_of_neg hx, List.filter_cons_of_pos (by simp [hx]), wc_cons,
          vadd_lcomm]

theorem sum_filter_split {β : Type*} (f : β → Bool) (g : β → α) : ∀ L : List β,
    (L.map g).sum = ((L.filter f).map g).sum + ((L.filter (fun x => !f x)).map g).sum
  | [] => by simp
  | x :: L => by
      have ih := sum_filter_split f g L
      by_cases hx : f x = true
      · rw [List.filter_cons_of_pos hx, List.filter_cons_of_neg (by simp [hx])]
        simp only [List.map_cons, List.sum_cons]
        rw [ih]; ring
      · rw [List.filter_cons_of_neg hx, List.filter_cons_of_pos (by simp [hx])]
        simp only [List.map_cons, List.sum_cons]
        rw [ih]; ring

theorem wc_sum (d : ℕ) : ∀ (L : List (α × List α)), (∀ x ∈ L, x.2.length = d) →
    (wc d L).sum = (L.map (fun x => x.1 * x.2.sum)).sum
  | [], _ => by simp [wc_nil]
  | x :: L, h => by
      have hL : ∀ y ∈ L, y.2.length = d := fun y hy => h y (List.mem_cons_of_mem _ hy)
      rw [wc_cons, sum_vadd _ _ (by rw [smul_length, h x List.mem_cons_self, wc_length d L hL]),
        sum_smul, wc_sum d L hL]
      simp

theorem list_sum_nonneg : ∀ l : List α, (∀ v ∈ l, 0 ≤ v) → 0 ≤ l.sum
  | [], _ => by simp
  | x :: l, h => by
      have := list_sum_nonneg l (fun v hv => h v (List.mem_cons_of_mem _ hv))
      have := h x List.mem_cons_self
      rw [List.sum_cons]; linarith

theorem list_sum_eq_zero : ∀ l : List α, (∀ v ∈ l, 0 ≤ v) → l.sum = 0 → ∀ v ∈ l, v = 0
  | [], _, _ => by simp
  | x :: l, h, hs => by
      have h1 := list_sum_nonneg l (fun v hv => h v (List.mem_cons_of_mem _ hv))
      have h2 := h x List.mem_cons_self
      rw [List.sum_cons] at hs
      have hx : x = 0 := by linarith
      have hl : l.sum = 0 := by linarith
      intro v hv
      rcases List.mem_cons.1 hv with rfl | hv
      · exact hx
      · exact list_sum_eq_zero l (fun v hv => h v (List.mem_cons_of_mem _ hv)) hl v hv

theorem linComb_zero_weights (d : ℕ) : ∀ (w : List α) (R : List (List α)),
    (∀ v ∈ w, v = 0) → (∀ r ∈ R, r.length = d) → linComb d w R = List.replicate d 0
  | [], _, _, _ => by simp [linComb_nil_left]
  | _ :: _, [], _, _ => by simp [linComb_nil_right]
  | v :: w, r :: R, hw, hR => by
      have ih := linComb_zero_weights d w R (fun v hv => hw v (List.mem_cons_of_mem _ hv))
        (fun v hv => hR v (List.mem_cons_of_mem _ hv))
      have hv : v = 0 := hw v List.mem_cons_self
      have hr := hR r List.mem_cons_self
      rw [linComb_cons, ih, hv]
      apply List.ext_getElem
      · simp [vadd, smul, hr]
      · intro i h1 h2
        simp [vadd, smul]

theorem sum_flatMap' {β : Type*} (U : β → List α) : ∀ L : List β,
    (L.flatMap U).sum = (L.map (fun x => (U x).sum)).sum
  | [] => by simp
  | x :: L => by
      rw [List.flatMap_cons, List.sum_append, sum_flatMap' U L, List.map_cons, List.sum_cons]

theorem sum_A (c : α) : ∀ L : List (α × List α),
    (L.map (fun x => x.1 * (c - x.2.sum))).sum
      = c * (L.map Prod.fst).sum - (L.map (fun x => x.1 * x.2.sum)).sum
  | [] => by simp
  | x :: L => by
      simp only [List.map_cons, List.sum_cons]
      rw [sum_A c L]; ring

theorem sum_D (c : α) : ∀ L : List (α × List α),
    (L.map (fun x => x.1 * (x.2.sum - c))).sum
      = (L.map (fun x => x.1 * x.2.sum)).sum - c * (L.map Prod.fst).sum
  | [] => by simp
  | x :: L => by
      simp only [List.map_cons, List.sum_cons]
      rw [sum_D c L]; ring

/-- the per-`x` identity in the non-degenerate case -/
theorem inner_comb (d : ℕ) (c M : α) (hM : M ≠ 0) (x : α × List α) (hx : x.2.length = d)
    (hxc : x.2.sum ≤ c) :
    ∀ Lhi : List (α × List α), (∀ y ∈ Lhi, y.2.length = d ∧ c < y.2.sum) →
    linComb d (Lhi.map (fun y => x.1 * y.1 * ((c - x.2.sum) + (y.2.sum - c)) / M))
        (Lhi.map (fun y => lineToSimplex x.2 y.2 c))
      = vadd (smul (x.1 * (Lhi.map (fun y => y.1 * (y.2.sum - c))).sum / M) x.2)
          (smul (x.1 * (c - x.2.sum) / M) (wc d Lhi))
  | [], _ => by
      simp only [List.map_nil, linComb_nil_left, wc_nil, List.sum_nil]
      apply List.ext_getElem
      · simp [vadd, smul, hx]
      · intro i h1 h2
        simp [vadd, smul]
  | y :: Lhi, h => by
      have hL : ∀ z ∈ Lhi, z.2.length = d ∧ c < z.2.sum := fun z hz => h z (List.mem_cons_of_mem _ hz)
      have ih := inner_comb d c M hM x hx hxc Lhi hL
      obtain ⟨hy, hyc⟩ := h y List.mem_cons_self
      simp only [List.map_cons, List.sum_cons, linComb_cons, wc_cons]
      rw [ih]
      have hl : x.2.length = y.2.length := by rw [hx, hy]
      have hpos : y.2.sum - x.2.sum ≠ 0 := by intro h; linarith
      have hW := wc_length d Lhi (fun z hz => (hL z hz).1)
      unfold lineToSimplex
      simp only []
      rw [sum_vsub _ _ hl.symm]
      apply List.ext_getElem
      · simp [vadd, smul, vsub, hx, hy, hW]
      · intro i h1 h2
        simp only [vadd, smul, vsub, List.getElem_zipWith, List.getElem_map]
        field_simp
        ring

theorem inner_sum (c M : α) (x : α × List α) : ∀ Lhi : List (α × List α),
    (Lhi.map (fun y => x.1 * y.1 * ((c - x.2.sum) + (y.2.sum - c)) / M)).sum
      = x.1 * (c - x.2.sum) / M * (Lhi.map Prod.fst).sum
        + x.1 / M * (Lhi.map (fun y => y.1 * (y.2.sum - c))).sum
  | [] => by simp
  | y :: Lhi => by
      simp only [List.map_cons, List.sum_cons]
      rw [inner_sum c M x Lhi]; ring

theorem outer_sum (c M S T : α) : ∀ Llo : List (α × List α),
    (Llo.map (fun x => x.1 * (c - x.2.sum) / M * S + x.1 / M * T)).sum
      = (Llo.map (fun x => x.1 * (c - x.2.sum))).sum / M * S + (Llo.map Prod.fst).sum / M * T
  | [] => by simp
  | x :: Llo => by
      simp only [List.map_cons, List.sum_cons]
      rw [outer_sum c M S T Llo]; ring

/-- the per-`x` identity in the degenerate case (all mass on the plane) -/
theorem inner_zero (d : ℕ) (c : α) (x : α × List α) (hx : x.2.length = d)
    (hxa : x.1 * (c - x.2.sum) = 0) (y : α × List α) (hy : y.2.length = d)
    (rest : List (α × List α)) (hrest : ∀ z ∈ rest, z.2.length = d) (Q : List α) (hQ : Q.length = d) :
    linComb d (x.1 :: rest.map (fun _ => (0 : α)))
        ((y :: rest).map (fun y => lineToSimplex x.2 y.2 c))
      = vadd (smul x.1 x.2) (smul 0 Q) := by
  have hl : x.2.length = y.2.length := by rw [hx, hy]
  rw [List.map_cons, linComb_cons, linComb_zero_weights d _ _ (by simp) (by
    intro r hr
    rw [List.mem_map] at hr
    obtain ⟨z, hz, rfl⟩ := hr
    rw [lineToSimplex_length _ _ _ (by rw [hx, hrest z hz]), hx])]
  have hll := lineToSimplex_length x.2 y.2 c hl
  rcases mul_eq_zero.1 hxa with h0 | h0
  · rw [h0]
    apply List.ext_getElem
    · simp [vadd, smul, hll, hx, hQ]
    · intro i h1 h2
      simp [vadd, smul]
  · have : lineToSimplex x.2 y.2 c = x.2 := by
      unfold lineToSimplex
      simp only []
      rw [h0, zero_div]
      apply List.ext_getElem
      · simp [vadd, smul, vsub, hl]
      · intro i h1 h2
        simp [vadd, smul, vsub]
    rw [this]
    apply List.ext_getElem
    · simp [vadd, smul, hx, hQ]
    · intro i h1 h2
      simp [vadd, smul]

/-- assembling the per-`x` identities along the `flatMap` -/
theorem outer_comb (d : ℕ) (c : α) (Lhi : List (α × List α)) (hhi : ∀ y ∈ Lhi, y.2.length = d)
    (U : α × List α → List α) (f g : α × List α → α) (Q : List α) (hQ : Q.length = d) :
    ∀ Llo : List (α × List α),
    (∀ x ∈ Llo, x.2.length = d ∧ (U x).length = Lhi.length ∧
      linComb d (U x) (Lhi.map (fun y => lineToSimplex x.2 y.2 c))
        = vadd (smul (f x) x.2) (smul (g x) Q)) →
    linComb d (Llo.flatMap U) (Llo.flatMap (fun x => Lhi.map (fun y => lineToSimplex x.2 y.2 c)))
      = vadd (linComb d (Llo.map f) (Llo.map Prod.snd)) (smul (Llo.map g).sum Q)
  | [], _ => by
      simp only [List.flatMap_nil, List.map_nil, linComb_nil_left, List.sum_nil]
      apply List.ext_getElem
      · simp [vadd, smul, hQ]
      · intro i h1 h2
        simp [vadd, smul]
  | x :: Llo, h => by
      have hL := fun z hz => h z (List.mem_cons_of_mem _ hz)
      have ih := outer_comb d c Lhi hhi U f g Q hQ Llo hL
      obtain ⟨hx, hUx, hxe⟩ := h x List.mem_cons_self
      have h2 : ∀ p ∈ Llo.flatMap (fun x => Lhi.map (fun y => lineToSimplex x.2 y.2 c)),
          p.length = d := by
        intro p hp
        rw [List.mem_flatMap] at hp
        obtain ⟨z, hz, hp⟩ := hp
        rw [List.mem_map] at hp
        obtain ⟨y, hy, rfl⟩ := hp
        rw [lineToSimplex_length _ _ _ (by rw [(hL z hz).1, hhi y hy]), (hL z hz).1]
      have hC : (linComb d (Llo.map f) (Llo.map Prod.snd)).length = d := by
        apply linComb_length
        intro r hr
        rw [List.mem_map] at hr
        obtain ⟨z, hz, rfl⟩ := hr
        exact (hL z hz).1
      rw [List.flatMap_cons, List.flatMap_cons, linComb_append d _ _ h2 _ _ (by simp [hUx]), hxe, ih,
        List.map_cons, List.map_cons, List.map_cons, List.sum_cons, linComb_cons]
      apply List.ext_getElem
      · simp [vadd, smul, hx, hQ, hC]
      · intro i h1 h2
        simp only [vadd, smul, List.getElem_zipWith, List.getElem_map]
        ring

theorem section_abs (d : ℕ) (c : α) (Llo Lhi : List (α × List α))
    (hloP : ∀ x ∈ Llo, 0 ≤ x.1 ∧ x.2.length = d ∧ x.2.sum ≤ c)
    (hhiP : ∀ y ∈ Lhi, 0 ≤ y.1 ∧ y.2.length = d ∧ c < y.2.sum)
    (hne : Lhi ≠ [])
    (hS1 : (Llo.map Prod.fst).sum + (Lhi.map Prod.fst).sum = 1)
    (hAM : (Llo.map (fun x => x.1 * (c - x.2.sum))).sum
      = (Lhi.map (fun y => y.1 * (y.2.sum - c))).sum) :
    ∃ u : List α, (∀ v ∈ u, 0 ≤ v) ∧ u.sum = 1 ∧
      u.length = (Llo.flatMap (fun x => Lhi.map (fun y => lineToSimplex x.2 y.2 c))).length ∧
      linComb d u (Llo.flatMap (fun x => Lhi.map (fun y => lineToSimplex x.2 y.2 c)))
        = vadd (wc d Llo) (wc d Lhi) := by
  have hhid : ∀ y ∈ Lhi, y.2.length = d := fun y hy => (hhiP y hy).2.1
  have hQ : (wc d Lhi).length = d := wc_length d Lhi hhid
  have hDnn : ∀ v ∈ Lhi.map (fun y => y.1 * (y.2.sum - c)), 0 ≤ v := by
    intro v hv
    rw [List.mem_map] at hv
    obtain ⟨y, hy, rfl⟩ := hv
    obtain ⟨h1, _, h3⟩ := hhiP y hy
    exact mul_nonneg h1 (by linarith)
  have hAnn : ∀ v ∈ Llo.map (fun x => x.1 * (c - x.2.sum)), 0 ≤ v := by
    intro v hv
    rw [List.mem_map] at hv
    obtain ⟨y, hy, rfl⟩ := hv
    obtain ⟨h1, _, h3⟩ := hloP y hy
    exact mul_nonneg h1 (by linarith)
  obtain ⟨M, hM⟩ : ∃ M, M = (Lhi.map (fun y => y.1 * (y.2.sum - c))).sum := ⟨_, rfl⟩
  rw [← hM] at hAM
  have hM0 : 0 ≤ M := hM ▸ list_sum_nonneg _ hDnn
  by_cases hMz : M = 0
  · -- degenerate case
    have hmu : ∀ y ∈ Lhi, y.1 = 0 := by
      intro y hy
      have := list_sum_eq_zero _ hDnn (by rw [← hM, hMz]) (y.1 * (y.2.sum - c))
        (List.mem_map.2 ⟨y, hy, rfl⟩)
      rcases mul_eq_zero.1 this with h | h
      · exact h
      · have := (hhiP y hy).2.2; linarith
    have hla : ∀ x ∈ Llo, x.1 * (c - x.2.sum) = 0 := by
      intro x hx
      exact list_sum_eq_zero _ hAnn (by rw [hAM, hMz]) _ (List.mem_map.2 ⟨x, hx, rfl⟩)
    have hmusum : (Lhi.map Prod.fst).sum = 0 := by
      have : ∀ v ∈ Lhi.map Prod.fst, v = 0 := by
        intro v hv
        rw [List.mem_map] at hv
        obtain ⟨y, hy, rfl⟩ := hv
        exact hmu y hy
      exact List.sum_eq_zero this
    have hQ0 : wc d Lhi = List.replicate d 0 := by
      unfold wc
      apply linComb_zero_weights
      · intro v hv
        rw [List.mem_map] at hv
        obtain ⟨y, hy, rfl⟩ := hv
        exact hmu y hy
      · intro r hr
        rw [List.mem_map] at hr
        obtain ⟨y, hy, rfl⟩ := hr
        exact hhid y hy
    obtain ⟨y0, rest, hcons⟩ : ∃ y0 rest, Lhi = y0 :: rest := by
      cases Lhi with
      | nil => exact absurd rfl hne
      | cons y0 rest => exact ⟨y0, rest, rfl⟩
    have hy0 : y0.2.length = d := hhid y0 (by rw [hcons]; exact List.mem_cons_self)
    have hrest : ∀ z ∈ rest, z.2.length = d :=
      fun z hz => hhid z (by rw [hcons]; exact List.mem_cons_of_mem _ hz)
    have hcomb := outer_comb d c Lhi hhid (fun x => x.1 :: rest.map (fun _ => (0 : α)))
      Prod.fst (fun _ => 0) (wc d Lhi) hQ Llo (by
        intro x hx
        refine ⟨(hloP x hx).2.1, by simp [hcons], ?_⟩
        rw [hcons]
        have := inner_zero d c x (hloP x hx).2.1 (hla x hx) y0 hy0 rest hrest (wc d (y0 :: rest))
          (by rw [← hcons]; exact hQ)
        exact this)
    refine ⟨Llo.flatMap (fun x => x.1 :: rest.map (fun _ => (0 : α))), ?_, ?_, ?_, ?_⟩
    · intro v hv
      rw [List.mem_flatMap] at hv
      obtain ⟨x, hx, hv⟩ := hv
      rcases List.mem_cons.1 hv with rfl | hv
      · exact (hloP x hx).1
      · rw [List.mem_map] at hv
        obtain ⟨_, _, rfl⟩ := hv
        exact le_rfl
    · rw [sum_flatMap']
      have : ∀ x : α × List α, (x.1 :: rest.map (fun _ => (0 : α))).sum = x.1 := by
        intro x
        rw [List.sum_cons, List.sum_eq_zero (by simp), add_zero]
      simp only [this]
      linarith
    · simp only [List.length_flatMap, List.length_cons, List.length_map, hcons]
    · rw [hcomb, hQ0]
      change vadd (wc d Llo) _ = _
      have hlo := wc_length d Llo (fun x hx => (hloP x hx).2.1)
      apply List.ext_getElem
      · simp [vadd, smul, hlo]
      · intro i h1 h2
        simp [vadd, smul]
  · -- generic case
    have hMpos : 0 < M := lt_of_le_of_ne hM0 (Ne.symm hMz)
    have hcomb := outer_comb d c Lhi hhid
      (fun x => Lhi.map (fun y => x.1 * y.1 * ((c - x.2.sum) + (y.2.sum - c)) / M))
      (fun x => x.1 * M / M) (fun x => x.1 * (c - x.2.sum) / M) (wc d Lhi) hQ Llo (by
        intro x hx
        refine ⟨(hloP x hx).2.1, by simp, ?_⟩
        have := inner_comb d c M hMz x (hloP x hx).2.1 (hloP x hx).2.2 Lhi
          (fun y hy => (hhiP y hy).2)
        rw [← hM] at this
        exact this)
    refine ⟨Llo.flatMap (fun x => Lhi.map (fun y => x.1 * y.1 * ((c - x.2.sum) + (y.2.sum - c)) / M)),
      ?_, ?_, ?_, ?_⟩
    · intro v hv
      rw [List.mem_flatMap] at hv
      obtain ⟨x, hx, hv⟩ := hv
      rw [List.mem_map] at hv
      obtain ⟨y, hy, rfl⟩ := hv
      obtain ⟨h1, _, h3⟩ := hloP x hx
      obtain ⟨h4, _, h6⟩ := hhiP y hy
      exact div_nonneg (mul_nonneg (mul_nonneg h1 h4) (by linarith)) hM0
    · rw [sum_flatMap']
      simp only [inner_sum]
      rw [outer_sum, hAM, ← hM]
      field_simp
      linarith
    · simp only [List.length_flatMap, List.length_map]
    · rw [hcomb]
      have h1 : Llo.map (fun x => x.1 * M / M) = Llo.map Prod.fst := by
        apply List.map_congr_left
        intro x _
        field_simp
      have h2 : (Llo.map (fun x => x.1 * (c - x.2.sum) / M)).sum = 1 := by
        have : ∀ L : List (α × List α), (L.map (fun x => x.1 * (c - x.2.sum) / M)).sum
            = (L.map (fun x => x.1 * (c - x.2.sum))).sum / M := by
          intro L
          induction L with
          | nil => simp
          | cons x L ih => simp only [List.map_cons, List.sum_cons]; rw [ih]; ring
        rw [this, hAM, div_self hMz]
      rw [h1, h2]
      have : smul 1 (wc d Lhi) = wc d Lhi := by simp [smul]
      rw [this]
      rfl

theorem sectionPoints_eq (L : List (α × List α)) (c : α) :
    sectionPoints (L.map Prod.snd) c
      = (L.filter (fun x => decide (x.2.sum ≤ c))).flatMap (fun x =>
          (L.filter (fun x => !decide (x.2.sum ≤ c))).map (fun y => lineToSimplex x.2 y.2 c)) := by
  unfold sectionPoints crossingPairs
  simp only [List.filter_map, List.flatMap_map, List.map_flatMap, List.map_map]
  rfl

/-- **C17 (slice ⊇, all dimensions and cloud sizes)**: every point of `conv P` whose coordinates sum to
    `c` is a convex combination of the returned points — provided some point of the cloud lies strictly
    above the plane (the code asserts this: "Target `c` too high"). -/
theorem section_all_pairs (d : ℕ) (P : List (List α)) (c : α) (w : List α)
    (hP : ∀ p ∈ P, p.length = d)
    (hw : (∀ v ∈ w, 0 ≤ v) ∧ w.sum = 1 ∧ w.length = P.length)
    (hsum : (convComb d w P).sum = c)
    (hhi : ∃ q ∈ P, c < q.sum) :
    ∃ u : List α, (∀ v ∈ u, 0 ≤ v) ∧ u.sum = 1 ∧ u.length = (sectionPoints P c).length ∧
      convComb d u (sectionPoints P c) = convComb d w P := by
  obtain ⟨hw0, hw1, hwl⟩ := hw
  obtain ⟨L, hLdef⟩ : ∃ L, L = w.zip P := ⟨_, rfl⟩
  have hLw : L.map Prod.fst = w := by rw [hLdef]; exact List.map_fst_zip (le_of_eq hwl)
  have hLP : L.map Prod.snd = P := by rw [hLdef]; exact List.map_snd_zip (le_of_eq hwl.symm)
  have hLmem : ∀ x ∈ L, 0 ≤ x.1 ∧ x.2.length = d := by
    intro x hx
    rw [hLdef] at hx
    have := List.of_mem_zip (a := x.1) (b := x.2) hx
    exact ⟨hw0 _ this.1, hP _ this.2⟩
  have hLd : ∀ x ∈ L, x.2.length = d := fun x hx => (hLmem x hx).2
  have hcc : convComb d w P = wc d L := by unfold convComb wc; rw [hLw, hLP]
  rw [hcc] at hsum ⊢
  rw [← hLP] at hhi ⊢
  rw [← hLw] at hw1
  obtain ⟨q, hq, hqc⟩ := hhi
  rw [List.mem_map] at hq
  obtain ⟨y0, hy0, rfl⟩ := hq
  let f : α × List α → Bool := fun x => decide (x.2.sum ≤ c)
  have hS1 := sum_filter_split f Prod.fst L
  have hS2 := sum_filter_split f (fun x => x.1 * x.2.sum) L
  rw [← wc_sum d L hLd, hsum] at hS2
  rw [hw1] at hS1
  have hA := sum_A c (L.filter f)
  have hD := sum_D c (L.filter (fun x => !f x))
  obtain ⟨u, hu0, hu1, hul, hue⟩ := section_abs d c (L.filter f) (L.filter (fun x => !f x))
    (by
      intro x hx
      rw [List.mem_filter] at hx
      exact ⟨(hLmem x hx.1).1, (hLmem x hx.1).2, by simpa [f] using hx.2⟩)
    (by
      intro x hx
      rw [List.mem_filter] at hx
      exact ⟨(hLmem x hx.1).1, (hLmem x hx.1).2, by simpa [f] using hx.2⟩)
    (by
      intro h
      have : y0 ∈ L.filter (fun x => !f x) := by
        rw [List.mem_filter]; exact ⟨hy0, by simpa [f] using hqc⟩
      rw [h] at this
      simp at this)
    hS1.symm
    (by rw [hA, hD]; linear_combination (-c) * hS1 + hS2)
  refine ⟨u, hu0, hu1, ?_, ?_⟩
  · rw [sectionPoints_eq]; exact hul
  · rw [sectionPoints_eq, wc_filter d f L hLd]
    exact hue

end C17
end Dreye
