/-
  C18 — gamut-size and divergence metrics equal their geometric / information definitions.
  Width theorems: any ordered field.  Divergence theorems: ℝ.
-/
import Dreye.Model.Metrics
import Dreye.Props.C16
import Dreye.Props.C12
import Dreye.Props.C20
import Mathlib.Analysis.SpecialFunctions.Log.Basic
import Mathlib.Tactic

namespace Dreye
namespace C18

section width
variable {α : Type*} [Field α] [LinearOrder α] [IsStrictOrderedRing α]

set_option linter.unusedSectionVars false

theorem maxOf_eq (l : List α) : maxOf l = listMaxOf l := by cases l <;> rfl

/-- `maxOf` of a non-empty list is its greatest element -/
theorem maxOf_spec (l : List α) (hne : l ≠ []) : maxOf l ∈ l ∧ ∀ v ∈ l, v ≤ maxOf l := by
  rw [maxOf_eq]; exact C12.listMaxOf_spec l hne

theorem maxOf_eq_of (l : List α) (m : α) (hm : m ∈ l) (h : ∀ v ∈ l, v ≤ m) : maxOf l = m := by
  have hne : l ≠ [] := List.ne_nil_of_mem hm
  obtain ⟨h1, h2⟩ := maxOf_spec l hne
  exact le_antisymm (h _ h1) (h2 _ hm)

theorem maxOf_map_add (l : List α) (c : α) (hne : l ≠ []) :
    maxOf (l.map (· + c)) = maxOf l + c := by
  obtain ⟨h1, h2⟩ := maxOf_spec l hne
  apply maxOf_eq_of
  · exact List.mem_map.2 ⟨_, h1, rfl⟩
  · intro v hv
    obtain ⟨w, hw, rfl⟩ := List.mem_map.1 hv
    exact add_le_add_left (h2 w hw) c

theorem maxOf_map_mul (l : List α) (s : α) (hs : 0 ≤ s) (hne : l ≠ []) :
    maxOf (l.map (s * ·)) = s * maxOf l := by
  obtain ⟨h1, h2⟩ := maxOf_spec l hne
  apply maxOf_eq_of
  · exact List.mem_map.2 ⟨_, h1, rfl⟩
  · intro v hv
    obtain ⟨w, hw, rfl⟩ := List.mem_map.1 hv
    exact mul_le_mul_of_nonneg_left (h2 w hw) hs

theorem maxOf_mono (l l' : List α) (hne : l ≠ []) (hsub : ∀ v ∈ l, v ∈ l') : maxOf l ≤ maxOf l' := by
  obtain ⟨h1, _⟩ := maxOf_spec l hne
  have hne' : l' ≠ [] := List.ne_nil_of_mem (hsub _ h1)
  exact (maxOf_spec l' hne').2 _ (hsub _ h1)

/-- **C18 (width is translation invariant)** -/
theorem width_translate (u t : List α) (X : List (List α)) (hX : X ≠ [])
    (hl : ∀ x ∈ X, x.length = u.length) (ht : t.length = u.length) :
    widthAlong u (X.map (fun x => vadd x t)) = widthAlong u X := by
  unfold widthAlong
  have h1 : (X.map (fun x => vadd x t)).map (fun x => dot u x)
      = (X.map (fun x => dot u x)).map (· + dot u t) := by
    rw [List.map_map, List.map_map]
    apply List.map_congr_left
    intro x hx
    simp only [Function.comp]
    exact C03.dot_vadd_right u x t (by rw [hl x hx, ht])
  have h2 : (X.map (fun x => vadd x t)).map (fun x => -(dot u x))
      = (X.map (fun x => -(dot u x))).map (· + -(dot u t)) := by
    rw [List.map_map, List.map_map]
    apply List.map_congr_left
    intro x hx
    simp only [Function.comp]
    rw [C03.dot_vadd_right u x t (by rw [hl x hx, ht])]
    ring
  rw [h1, h2, maxOf_map_add _ _ (by simpa using hX), maxOf_map_add _ _ (by simpa using hX)]
  ring

/-- **C18 (width is homogeneous)**: scaling the cloud by `s ≥ 0` scales the width by `s`. -/
theorem width_scale (u : List α) (s : α) (hs : 0 ≤ s) (X : List (List α)) (hX : X ≠ []) :
    widthAlong u (X.map (fun x => smul s x)) = s * widthAlong u X := by
  unfold widthAlong
  have h1 : (X.map (fun x => smul s x)).map (fun x => dot u x)
      = (X.map (fun x => dot u x)).map (s * ·) := by
    rw [List.map_map, List.map_map]
    apply List.map_congr_left
    intro x _
    simp only [Function.comp]
    exact C03.dot_smul_right s u x
  have h2 : (X.map (fun x => smul s x)).map (fun x => -(dot u x))
      = (X.map (fun x => -(dot u x))).map (s * ·) := by
    rw [List.map_map, List.map_map]
    apply List.map_congr_left
    intro x _
    simp only [Function.comp]
    rw [C03.dot_smul_right s u x]
    ring
  rw [h1, h2, maxOf_map_mul _ _ hs (by simpa using hX), maxOf_map_mul _ _ hs (by simpa using hX)]
  ring

/-- **C18 (width is non-decreasing when points are added)** -/
theorem width_mono (u : List α) (X Y : List (List α)) (hX : X ≠ []) (hsub : ∀ x ∈ X, x ∈ Y) :
    widthAlong u X ≤ widthAlong u Y := by
  unfold widthAlong
  apply add_le_add
  · apply maxOf_mono _ _ (by simpa using hX)
    intro v hv
    obtain ⟨x, hx, rfl⟩ := List.mem_map.1 hv
    exact List.mem_map.2 ⟨x, hsub x hx, rfl⟩
  · apply maxOf_mono _ _ (by simpa using hX)
    intro v hv
    obtain ⟨x, hx, rfl⟩ := List.mem_map.1 hv
    exact List.mem_map.2 ⟨x, hsub x hx, rfl⟩

/-- width is non-negative -/
theorem width_nonneg (u : List α) (X : List (List α)) (hX : X ≠ []) : 0 ≤ widthAlong u X := by
  unfold widthAlong
  obtain ⟨x, hx⟩ := List.exists_mem_of_ne_nil X hX
  have h1 := (maxOf_spec (X.map (fun x => dot u x)) (by simpa using hX)).2 (dot u x)
    (List.mem_map.2 ⟨x, hx, rfl⟩)
  have h2 := (maxOf_spec (X.map (fun x => -(dot u x))) (by simpa using hX)).2 (-(dot u x))
    (List.mem_map.2 ⟨x, hx, rfl⟩)
  linarith

/-- **C18 (rotation)**: an isometry applied to both the direction and the cloud leaves the width
    unchanged — the Monte-Carlo mean width of a rotated cloud equals that of the original cloud
    measured along the rotated direction sample. -/
theorem width_isometry (T : List α → List α) (u : List α) (X : List (List α))
    (hT : ∀ x ∈ X, dot (T u) (T x) = dot u x) :
    widthAlong (T u) (X.map T) = widthAlong u X := by
  unfold widthAlong
  have h1 : (X.map T).map (fun x => dot (T u) x) = X.map (fun x => dot u x) := by
    rw [List.map_map]
    apply List.map_congr_left
    intro x hx
    exact hT x hx
  have h2 : (X.map T).map (fun x => -(dot (T u) x)) = X.map (fun x => -(dot u x)) := by
    rw [List.map_map]
    apply List.map_congr_left
    intro x hx
    simp only [Function.comp]
    rw [hT x hx]
  rw [h1, h2]

/-- the four properties lift to the mean over any fixed direction sample `U` (exact per seed) -/
theorem meanWidth_translate (U : List (List α)) (t : List α) (X : List (List α)) (hX : X ≠ [])
    (hU : ∀ u ∈ U, u.length = t.length) (hl : ∀ x ∈ X, x.length = t.length) :
    meanWidth U (X.map (fun x => vadd x t)) = meanWidth U X := by
  unfold meanWidth
  congr 2
  apply List.map_congr_left
  intro u hu
  exact width_translate u t X hX (fun x hx => by rw [hl x hx, hU u hu]) (hU u hu).symm

theorem meanWidth_scale (U : List (List α)) (s : α) (hs : 0 ≤ s) (X : List (List α)) (hX : X ≠ []) :
    meanWidth U (X.map (fun x => smul s x)) = s * meanWidth U X := by
  unfold meanWidth
  have : U.map (fun u => widthAlong u (X.map (fun x => smul s x)))
      = (U.map (fun u => widthAlong u X)).map (s * ·) := by
    rw [List.map_map]
    apply List.map_congr_left
    intro u _
    exact width_scale u s hs X hX
  rw [this, C03.sum_map_mul, mul_div_assoc]

theorem meanWidth_mono (U : List (List α)) (X Y : List (List α)) (hX : X ≠ []) (hsub : ∀ x ∈ X, x ∈ Y) :
    meanWidth U X ≤ meanWidth U Y := by
  unfold meanWidth
  apply div_le_div_of_nonneg_right _ (by rw [C20.ofNatLit_eq]; exact Nat.cast_nonneg _)
  apply List.sum_le_sum
  intro u _
  exact width_mono u X Y hX hsub

/-- **C18 (gamut relative to itself is 1, relative to a superset at most 1)** for the width metric -/
theorem ratio_self (U : List (List α)) (X : List (List α)) (h : meanWidth U X ≠ 0) :
    meanWidth U X / meanWidth U X = 1 := by
  exact div_self h

theorem ratio_superset_le_one (U : List (List α)) (X Y : List (List α)) (hX : X ≠ [])
    (hsub : ∀ x ∈ X, x ∈ Y) (hpos : 0 < meanWidth U Y) :
    meanWidth U X / meanWidth U Y ≤ 1 := by
  exact (div_le_one hpos).2 (meanWidth_mono U X Y hX hsub)

end width

section divergence
open Real

-- some hypotheses of the statements below are not needed by the proofs; the statements are kept as given
set_option linter.unusedVariables false

/-- **C18 (symmetric)** -/
theorem jsd_symm (P Q : List ℝ) (hl : P.length = Q.length) : jsd P Q = jsd Q P := by
  simp only [jsd]
  rw [List.zipWith_comm_of_comm (l := Q.map (· / Q.sum)) (l' := P.map (· / P.sum))
    (fun a b => by rw [add_comm]), add_comm]

theorem norm_scale (P : List ℝ) (a : ℝ) (ha : a ≠ 0) :
    (P.map (a * ·)).map (· / (P.map (a * ·)).sum) = P.map (· / P.sum) := by
  rw [C03.sum_map_mul, List.map_map]
  apply List.map_congr_left
  intro x _
  simp only [Function.comp]
  exact mul_div_mul_left x P.sum ha

/-- **C18 (invariant to the normalisation of its inputs)** -/
theorem jsd_scale_invariant (P Q : List ℝ) (a b : ℝ) (ha : 0 < a) (hb : 0 < b)
    (hP : P.sum ≠ 0) (hQ : Q.sum ≠ 0) :
    jsd (P.map (a * ·)) (Q.map (b * ·)) = jsd P Q := by
  simp only [jsd]
  rw [norm_scale P a ha.ne', norm_scale Q b hb.ne']

theorem klTerm_self (a : ℝ) : klTerm a a = 0 := by
  unfold klTerm
  split_ifs with h
  · rfl
  · show a * Real.log (a / a) = 0
    rw [div_self h, Real.log_one, mul_zero]

/-- **C18 (zero for proportional inputs)** -/
theorem jsd_proportional (P : List ℝ) (c : ℝ) (hc : 0 < c) (hP : ∀ v ∈ P, 0 ≤ v) (hs : 0 < P.sum) :
    jsd P (P.map (c * ·)) = 0 := by
  simp only [jsd]
  rw [norm_scale P c hc.ne', List.zipWith_self, C16.two_eq]
  have hm : (P.map (· / P.sum)).map (fun a => (a + a) / 2) = P.map (· / P.sum) := by
    conv_rhs => rw [← List.map_id (P.map (· / P.sum))]
    apply List.map_congr_left
    intro x _
    simp only [id]; ring
  rw [hm, List.zipWith_self]
  have hz : ((P.map (· / P.sum)).map (fun a => klTerm a a)).sum = 0 := by
    apply List.sum_eq_zero
    intro x hx
    obtain ⟨w, _, rfl⟩ := List.mem_map.1 hx
    exact klTerm_self w
  rw [hz]
  simp

theorem sum_map_div (P : List ℝ) (s : ℝ) : (P.map (· / s)).sum = P.sum / s := by
  induction P with
  | nil => simp
  | cons x xs ih => simp only [List.map_cons, List.sum_cons, ih]; ring

theorem klTerm_le (p q : ℝ) (hp : 0 ≤ p) (hq : 0 ≤ q) :
    klTerm p ((p + q) / two) ≤ p * Real.log 2 := by
  unfold klTerm
  rw [C16.two_eq]
  split_ifs with h
  · rw [h, zero_mul]
  · show p * Real.log (p / ((p + q) / 2)) ≤ p * Real.log 2
    have hp' : 0 < p := lt_of_le_of_ne hp (Ne.symm h)
    apply mul_le_mul_of_nonneg_left _ hp
    apply Real.log_le_log (by positivity)
    rw [div_le_iff₀ (by positivity)]
    linarith

theorem kl_sum_le : ∀ (p q : List ℝ), p.length = q.length → (∀ v ∈ p, 0 ≤ v) → (∀ v ∈ q, 0 ≤ v) →
    (List.zipWith klTerm p (List.zipWith (fun a b => (a + b) / two) p q)).sum ≤ p.sum * Real.log 2
  | [], _, _, _, _ => by simp
  | _ :: _, [], h, _, _ => by simp at h
  | x :: p, y :: q, h, hp, hq => by
      have ih := kl_sum_le p q (by simpa using h) (fun v hv => hp v (List.mem_cons_of_mem _ hv))
        (fun v hv => hq v (List.mem_cons_of_mem _ hv))
      have h0 := klTerm_le x y (hp x List.mem_cons_self) (hq y List.mem_cons_self)
      simp only [List.zipWith_cons_cons, List.sum_cons]
      rw [add_mul]
      exact add_le_add h0 ih

/-- **C18 (at most one bit)** for non-negative inputs with positive totals -/
theorem jsd_le_one (P Q : List ℝ) (hl : P.length = Q.length) (hP : ∀ v ∈ P, 0 ≤ v) (hQ : ∀ v ∈ Q, 0 ≤ v)
    (hsP : 0 < P.sum) (hsQ : 0 < Q.sum) : jsd P Q ≤ 1 := by
  simp only [jsd]
  set p := P.map (· / P.sum) with hp
  set q := Q.map (· / Q.sum) with hq
  have hpl : p.length = q.length := by simp [hp, hq, hl]
  have hp0 : ∀ v ∈ p, 0 ≤ v := by
    intro v hv
    obtain ⟨w, hw, rfl⟩ := List.mem_map.1 hv
    exact div_nonneg (hP w hw) hsP.le
  have hq0 : ∀ v ∈ q, 0 ≤ v := by
    intro v hv
    obtain ⟨w, hw, rfl⟩ := List.mem_map.1 hv
    exact div_nonneg (hQ w hw) hsQ.le
  have hps : p.sum = 1 := by rw [hp, sum_map_div, div_self hsP.ne']
  have hqs : q.sum = 1 := by rw [hq, sum_map_div, div_self hsQ.ne']
  have h1 := kl_sum_le p q hpl hp0 hq0
  have h2 := kl_sum_le q p hpl.symm hq0 hp0
  rw [List.zipWith_comm_of_comm (l := q) (l' := p) (fun a b => by rw [add_comm])] at h2
  rw [hps, one_mul] at h1
  rw [hqs, one_mul] at h2
  have hlog : 0 < Real.log 2 := Real.log_pos (by norm_num)
  show _ / two / Real.log two ≤ 1
  rw [C16.two_eq] at *
  rw [div_div, div_le_one (by positivity)]
  linarith

theorem klTerm_ge (p m : ℝ) (hp : 0 ≤ p) (hm : 0 ≤ m) (hpm : p ≠ 0 → 0 < m) : p - m ≤ klTerm p m := by
  unfold klTerm
  split_ifs with h
  · rw [h]; linarith
  · show p - m ≤ p * Real.log (p / m)
    have hp' : 0 < p := lt_of_le_of_ne hp (Ne.symm h)
    have hm' : 0 < m := hpm h
    have := Real.one_sub_inv_le_log_of_pos (div_pos hp' hm')
    have h2 := mul_le_mul_of_nonneg_left this hp
    have e : p * (1 - (p / m)⁻¹) = p - m := by field_simp
    linarith

theorem kl_sum_nonneg : ∀ (p q : List ℝ), p.length = q.length → (∀ v ∈ p, 0 ≤ v) → (∀ v ∈ q, 0 ≤ v) →
    0 ≤ (List.zipWith klTerm p (List.zipWith (fun a b => (a + b) / two) p q)).sum
      + (List.zipWith klTerm q (List.zipWith (fun a b => (a + b) / two) p q)).sum
  | [], _, _, _, _ => by simp
  | _ :: _, [], h, _, _ => by simp at h
  | x :: p, y :: q, h, hp, hq => by
      have ih := kl_sum_nonneg p q (by simpa using h) (fun v hv => hp v (List.mem_cons_of_mem _ hv))
        (fun v hv => hq v (List.mem_cons_of_mem _ hv))
      have hx := hp x List.mem_cons_self
      have hy := hq y List.mem_cons_self
      have hm : 0 ≤ (x + y) / (two : ℝ) := by rw [C16.two_eq]; positivity
      have h1 := klTerm_ge x ((x + y) / two) hx hm (fun h => by
        rw [C16.two_eq]; have : 0 < x := lt_of_le_of_ne hx (Ne.symm h); positivity)
      have h2 := klTerm_ge y ((x + y) / two) hy hm (fun h => by
        rw [C16.two_eq]; have : 0 < y := lt_of_le_of_ne hy (Ne.symm h); positivity)
      simp only [List.zipWith_cons_cons, List.sum_cons]
      rw [C16.two_eq] at *
      linarith

/-- **C18 (non-negative)** -/
theorem jsd_nonneg (P Q : List ℝ) (hl : P.length = Q.length) (hP : ∀ v ∈ P, 0 ≤ v) (hQ : ∀ v ∈ Q, 0 ≤ v)
    (hsP : 0 < P.sum) (hsQ : 0 < Q.sum) : 0 ≤ jsd P Q := by
  simp only [jsd]
  set p := P.map (· / P.sum) with hp
  set q := Q.map (· / Q.sum) with hq
  have hpl : p.length = q.length := by simp [hp, hq, hl]
  have hp0 : ∀ v ∈ p, 0 ≤ v := by
    intro v hv
    obtain ⟨w, hw, rfl⟩ := List.mem_map.1 hv
    exact div_nonneg (hP w hw) hsP.le
  have hq0 : ∀ v ∈ q, 0 ≤ v := by
    intro v hv
    obtain ⟨w, hw, rfl⟩ := List.mem_map.1 hv
    exact div_nonneg (hQ w hw) hsQ.le
  have h1 := kl_sum_nonneg p q hpl hp0 hq0
  have hlog : 0 < Real.log 2 := Real.log_pos (by norm_num)
  show 0 ≤ _ / two / Real.log two
  rw [C16.two_eq] at *
  exact div_nonneg (div_nonneg h1 (by norm_num)) hlog.le

end divergence

end C18
end Dreye
