/-
  Correctness of the exact Gauss–Jordan routines of `Dreye/Model/Linalg.lean` (the model of
  `np.linalg.solve` / `np.linalg.inv`), over any field.
-/
import Dreye.Model.Linalg
import Dreye.Props.Cert
import Mathlib.Algebra.Field.Basic
import Mathlib.Algebra.BigOperators.Group.List.Basic
import Mathlib.Tactic

namespace Dreye
namespace LinalgProps

variable {α : Type*} [Field α] [DecidableEq α]

set_option linter.unusedSectionVars false

open Cert

/-! ### basic list algebra -/

theorem rowSub_eq (c : α) (pn r : List α) : rowSub c pn r = vsub r (smul c pn) := by
  simp [rowSub, vsub, smul, List.zipWith_map_right]

theorem rowSub_length (c : α) (pn r : List α) : (rowSub c pn r).length = min r.length pn.length := by
  simp [rowSub]

theorem dot_rowSub (c : α) (pn r y : List α) (h : r.length = pn.length) :
    dot (rowSub c pn r) y = dot r y - c * dot pn y := by
  rw [rowSub_eq, dot_vsub_left _ _ _ (by simp [smul, h]), dot_smul_left]

theorem map_div_eq (pv : α) (p : List α) : p.map (· / pv) = smul pv⁻¹ p := by
  simp [smul, div_eq_inv_mul]

theorem dot_map_div (pv : α) (p y : List α) : dot (p.map (· / pv)) y = pv⁻¹ * dot p y := by
  rw [map_div_eq, dot_smul_left]

theorem getD_rowSub (c : α) (pn r : List α) (j : ℕ) (h1 : j < r.length) (h2 : j < pn.length) :
    (rowSub c pn r).getD j 0 = r.getD j 0 - c * pn.getD j 0 := by
  simp [rowSub, List.getD_eq_getElem?_getD, h1, h2]

theorem getD_map_div (pv : α) (p : List α) (j : ℕ) :
    (p.map (· / pv)).getD j 0 = p.getD j 0 / pv := by
  by_cases h : j < p.length
  · simp [List.getD_eq_getElem?_getD, h]
  · simp [List.getD_eq_getElem?_getD, h]

theorem getD_append_left' (l l' : List α) (j : ℕ) (h : j < l.length) :
    (l ++ l').getD j 0 = l.getD j 0 := by
  simp [List.getD_eq_getElem?_getD, List.getElem?_append_left h]

theorem getD_append_right' (l l' : List α) (j : ℕ) (h : l.length ≤ j) :
    (l ++ l').getD j 0 = l'.getD (j - l.length) 0 := by
  simp [List.getD_eq_getElem?_getD, List.getElem?_append_right h]

/-- the dot product as a finite sum of products of entries -/
theorem dot_eq_sum : ∀ (a y : List α) (N : ℕ), a.length ≤ N →
    dot a y = ∑ j ∈ Finset.range N, a.getD j 0 * y.getD j 0
  | [], y, N, _ => by simp [dot_nil_left]
  | _ :: _, [], N, _ => by simp [dot_nil_right]
  | a :: as, y :: ys, 0, h => by simp at h
  | a :: as, y :: ys, N + 1, h => by
      rw [dot_cons, Finset.sum_range_succ', dot_eq_sum as ys N (by simpa using h)]
      simp [add_comm]

theorem dot_append : ∀ (a a' x x' : List α), a.length = x.length →
    dot (a ++ a') (x ++ x') = dot a x + dot a' x'
  | [], a', [], x', _ => by simp [dot_nil_left]
  | [], _, _ :: _, _, h => by simp at h
  | _ :: _, _, [], _, h => by simp at h
  | a :: as, a', x :: xs, x', h => by
      rw [List.cons_append, List.cons_append, dot_cons, dot_cons,
        dot_append as a' xs x' (by simpa using h)]
      ring

/-! ### `findPivot` -/

theorem findPivot_some (col : ℕ) : ∀ (rest : List (List α)) (i : ℕ) (p : List α),
    findPivot col rest = some (i, p) → rest[i]? = some p ∧ p.getD col 0 ≠ 0
  | [], i, p, h => by simp [findPivot] at h
  | r :: rs, i, p, h => by
      rw [findPivot] at h
      split_ifs at h with hr
      · simp only [Option.some.injEq, Prod.mk.injEq] at h
        obtain ⟨rfl, rfl⟩ := h
        exact ⟨by simp, hr⟩
      · cases hf : findPivot col rs with
        | none => simp [hf] at h
        | some ip =>
          obtain ⟨i', p'⟩ := ip
          simp only [hf, Option.some.injEq, Prod.mk.injEq] at h
          obtain ⟨rfl, rfl⟩ := h
          have := findPivot_some col rs i' p' hf
          exact ⟨by simpa using this.1, this.2⟩

theorem findPivot_none (col : ℕ) : ∀ (rest : List (List α)),
    findPivot col rest = none → ∀ r ∈ rest, r.getD col 0 = 0
  | [], _ => by simp
  | r :: rs, h => by
      rw [findPivot] at h
      split_ifs at h with hr
      cases hf : findPivot col rs with
      | none =>
        intro t ht
        rcases List.mem_cons.1 ht with rfl | ht
        · exact not_not.1 hr
        · exact findPivot_none col rs hf t ht
      | some ip => simp [hf] at h

/-- membership in a list, split at an index -/
theorem mem_split_eraseIdx (l : List (List α)) (i : ℕ) (p : List α) (h : l[i]? = some p)
    (r : List α) (hr : r ∈ l) : r = p ∨ r ∈ l.eraseIdx i := by
  obtain ⟨k, hk, rfl⟩ := List.getElem_of_mem hr
  by_cases hki : k = i
  · subst hki
    left
    rw [List.getElem?_eq_getElem hk] at h
    exact Option.some.inj h
  · right
    rw [List.mem_eraseIdx_iff_getElem]
    exact ⟨k, hk, hki, rfl⟩

/-! ### the solution-set invariant -/

/-- `y` is orthogonal to every row of `M` -/
def Sol (y : List α) (M : List (List α)) : Prop := ∀ r ∈ M, dot r y = 0

/-- one elimination step is reversible: a vector orthogonal to the new rows is orthogonal to the old ones -/
theorem sol_step (m col : ℕ) (y : List α) (done rest : List (List α)) (i : ℕ) (p : List α)
    (hlen : ∀ r ∈ done ++ rest, r.length = m)
    (hp : rest[i]? = some p) (hpv : p.getD col 0 ≠ 0)
    (h : Sol y (done.map (fun r => rowSub (r.getD col 0) (p.map (· / p.getD col 0)) r)
        ++ [p.map (· / p.getD col 0)]
        ++ (rest.eraseIdx i).map (fun r => rowSub (r.getD col 0) (p.map (· / p.getD col 0)) r))) :
    Sol y (done ++ rest) := by
  set pn := p.map (· / p.getD col 0) with hpn
  have hpmem : p ∈ rest := List.mem_of_getElem? hp
  have hplen : p.length = m := hlen p (List.mem_append_right _ hpmem)
  have hpnlen : pn.length = m := by simp [hpn, hplen]
  have hpn0 : dot pn y = 0 := h pn (by simp)
  have hp0 : dot p y = 0 := by
    rw [hpn, dot_map_div] at hpn0
    rcases mul_eq_zero.1 hpn0 with h0 | h0
    · exact absurd (inv_eq_zero.1 h0) hpv
    · exact h0
  have key : ∀ r : List α, r.length = m → dot (rowSub (r.getD col 0) pn r) y = 0 → dot r y = 0 := by
    intro r hr h0
    rw [dot_rowSub _ _ _ _ (by rw [hr, hpnlen]), hpn0] at h0
    simpa using h0
  intro r hr
  rcases List.mem_append.1 hr with hr | hr
  · exact key r (hlen r (List.mem_append_left _ hr)) (h _ (by
      simp only [List.mem_append, List.mem_map]; exact Or.inl (Or.inl ⟨r, hr, rfl⟩)))
  · rcases mem_split_eraseIdx rest i p hp r hr with rfl | hr'
    · exact hp0
    · exact key r (hlen r (List.mem_append_right _ hr)) (h _ (by
        simp only [List.mem_append, List.mem_map]; exact Or.inr ⟨r, hr', rfl⟩))

/-! ### the shape invariant -/

/-- rows have length `m`; there are `n` rows in total; `done` has unit pivots; `rest` is zero in pivot columns -/
structure Inv (n m : ℕ) (done rest : List (List α)) : Prop where
  hnm : n ≤ m
  len : ∀ r ∈ done ++ rest, r.length = m
  cnt : done.length + rest.length = n
  diag : ∀ i j : ℕ, i < done.length → j < done.length →
    (done.getD i []).getD j 0 = if i = j then 1 else 0
  zero : ∀ r ∈ rest, ∀ j < done.length, r.getD j 0 = 0

theorem inv_step (n m : ℕ) (done rest : List (List α)) (i : ℕ) (p : List α)
    (hI : Inv n m done rest) (hcol : done.length < n)
    (hp : rest[i]? = some p) (hpv : p.getD done.length 0 ≠ 0) :
    Inv n m (done.map (fun r => rowSub (r.getD done.length 0) (p.map (· / p.getD done.length 0)) r)
        ++ [p.map (· / p.getD done.length 0)])
      ((rest.eraseIdx i).map (fun r => rowSub (r.getD done.length 0) (p.map (· / p.getD done.length 0)) r)) := by
  set col := done.length with hcoldef
  set pn := p.map (· / p.getD col 0) with hpn
  have hpmem : p ∈ rest := List.mem_of_getElem? hp
  have hplen : p.length = m := hI.len p (List.mem_append_right _ hpmem)
  have hpnlen : pn.length = m := by simp [hpn, hplen]
  have hcm : col < m := lt_of_lt_of_le hcol hI.hnm
  have hpncol : pn.getD col 0 = 1 := by rw [hpn, getD_map_div]; exact div_self hpv
  have hpnj : ∀ j < col, pn.getD j 0 = 0 := by
    intro j hj
    rw [hpn, getD_map_div, hI.zero p hpmem j hj, zero_div]
  have hilt : i < rest.length := by
    by_contra hc
    rw [List.getElem?_eq_none (not_lt.1 hc)] at hp
    exact absurd hp (by simp)
  have hsub : ∀ r ∈ rest.eraseIdx i, r ∈ rest := fun r hr => List.mem_of_mem_eraseIdx hr
  refine ⟨hI.hnm, ?_, ?_, ?_, ?_⟩
  · intro r hr
    simp only [List.mem_append, List.mem_map, List.mem_singleton] at hr
    rcases hr with (⟨t, ht, rfl⟩ | rfl) | ⟨t, ht, rfl⟩
    · rw [rowSub_length, hpnlen, hI.len t (List.mem_append_left _ ht), min_self]
    · exact hpnlen
    · rw [rowSub_length, hpnlen, hI.len t (List.mem_append_right _ (hsub t ht)), min_self]
  · have := hI.cnt
    simp only [List.length_append, List.length_map, List.length_singleton, List.length_eraseIdx, hilt,
      if_true]
    omega
  · intro a b ha hb
    simp only [List.length_append, List.length_map, List.length_singleton] at ha hb
    by_cases hac : a < col
    · have hget : (done.map (fun r => rowSub (r.getD col 0) pn r) ++ [pn]).getD a []
          = rowSub ((done.getD a []).getD col 0) pn (done.getD a []) := by
        simp [List.getD_eq_getElem?_getD, List.getElem?_append_left, hac, ← hcoldef]
      have hmem : done.getD a [] ∈ done := by
        simp [List.getD_eq_getElem?_getD, ← hcoldef, hac]
      have hl := hI.len _ (List.mem_append_left _ hmem)
      rw [hget]
      by_cases hbc : b < col
      · rw [getD_rowSub _ _ _ _ (by omega) (by omega), hpnj b hbc, hI.diag a b hac hbc]
        simp
      · have hbe : b = col := by omega
        subst hbe
        rw [getD_rowSub _ _ _ _ (by omega) (by omega), hpncol]
        have : a ≠ col := by omega
        simp [this]
    · have hae : a = col := by omega
      subst hae
      have hget : (done.map (fun r => rowSub (r.getD col 0) pn r) ++ [pn]).getD col [] = pn := by
        simp [List.getD_eq_getElem?_getD, ← hcoldef]
      rw [hget]
      by_cases hbc : b < col
      · rw [hpnj b hbc]
        have : col ≠ b := by omega
        simp [this]
      · have hbe : b = col := by omega
        subst hbe
        rw [hpncol]; simp
  · intro r hr j hj
    simp only [List.length_append, List.length_map, List.length_singleton] at hj
    simp only [List.mem_map] at hr
    obtain ⟨t, ht, rfl⟩ := hr
    have htr := hsub t ht
    have hl := hI.len t (List.mem_append_right _ htr)
    by_cases hjc : j < col
    · rw [getD_rowSub _ _ _ _ (by omega) (by omega), hpnj j hjc, hI.zero t htr j hjc]
      simp
    · have hje : j = col := by omega
      subst hje
      rw [getD_rowSub _ _ _ _ (by omega) (by omega), hpncol]
      simp

/-! ### `gaussJordan` -/

theorem gj_sound (n m : ℕ) : ∀ (fuel : ℕ) (done rest rows : List (List α)),
    Inv n m done rest → rest.length ≤ fuel → gaussJordan n fuel done rest = some rows →
    Inv n m rows [] ∧ ∀ y, Sol y rows → Sol y (done ++ rest)
  | 0, done, rest, rows, hI, hf, h => by
      have hr : rest = [] := List.length_eq_zero_iff.1 (by omega)
      subst hr
      simp only [gaussJordan, Option.some.injEq] at h
      subst h
      exact ⟨hI, fun y hy => by simpa using hy⟩
  | fuel + 1, done, rest, rows, hI, hf, h => by
      rw [gaussJordan] at h
      simp only at h
      split_ifs at h with hc
      · have hr : rest = [] := List.length_eq_zero_iff.1 (by have := hI.cnt; omega)
        subst hr
        simp only [Option.some.injEq] at h
        subst h
        exact ⟨hI, fun y hy => by simpa using hy⟩
      · cases hfp : findPivot done.length rest with
        | none => simp [hfp] at h
        | some ip =>
          obtain ⟨i, p⟩ := ip
          simp only [hfp] at h
          obtain ⟨hp, hpv⟩ := findPivot_some _ _ _ _ hfp
          have hI' := inv_step n m done rest i p hI (by omega) hp hpv
          have hilt : i < rest.length := by
            by_contra hc'
            rw [List.getElem?_eq_none (not_lt.1 hc')] at hp
            exact absurd hp (by simp)
          obtain ⟨h1, h2⟩ := gj_sound n m fuel _ _ rows hI'
            (by simp only [List.length_map, List.length_eraseIdx, hilt, if_true]; omega) h
          refine ⟨h1, fun y hy => ?_⟩
          exact sol_step m done.length y done rest i p hI.len hp hpv (h2 y hy)

/-- non-singularity of the coefficient part (first `n` columns) of the rows `M` -/
def NS (n m : ℕ) (M : List (List α)) : Prop :=
  ∀ g : ℕ → α, (∀ j, n ≤ j → g j = 0) → Sol ((List.range m).map g) M → ∀ j < n, g j = 0

theorem dot_map_range (r : List α) (m : ℕ) (g : ℕ → α) (h : r.length ≤ m) :
    dot r ((List.range m).map g) = ∑ j ∈ Finset.range m, r.getD j 0 * g j := by
  rw [dot_eq_sum r _ m h]
  refine Finset.sum_congr rfl (fun j hj => ?_)
  have : j < m := Finset.mem_range.1 hj
  simp [List.getD_eq_getElem?_getD, this]

theorem gj_complete (n m : ℕ) : ∀ (fuel : ℕ) (done rest : List (List α)),
    Inv n m done rest → rest.length ≤ fuel → NS n m (done ++ rest) →
    ∃ rows, gaussJordan n fuel done rest = some rows
  | 0, done, rest, _, _, _ => ⟨done, by simp [gaussJordan]⟩
  | fuel + 1, done, rest, hI, hf, hns => by
      rw [gaussJordan]
      simp only
      split_ifs with hc
      · exact ⟨done, rfl⟩
      · have hcol : done.length < n := by omega
        have hcm : done.length < m := lt_of_lt_of_le hcol hI.hnm
        cases hfp : findPivot done.length rest with
        | none =>
          exfalso
          have hz := findPivot_none _ _ hfp
          set col := done.length with hcoldef
          let g : ℕ → α := fun j =>
            if j < col then -((done.getD j []).getD col 0) else if j = col then 1 else 0
          have hg : g col = 0 := by
            apply hns g
            · intro j hj
              have h1 : ¬ j < col := by omega
              have h2 : j ≠ col := by omega
              simp [g, h1, h2]
            · intro r hr
              have hl : r.length = m := hI.len r hr
              rw [dot_map_range r m g (le_of_eq hl)]
              rcases List.mem_append.1 hr with hr | hr
              · obtain ⟨a, ha, rfl⟩ := List.getElem_of_mem hr
                have hd : ∀ j, j < col → (done[a]).getD j 0 = if a = j then 1 else 0 := by
                  intro j hj
                  have := hI.diag a j ha hj
                  simpa [List.getD_eq_getElem?_getD, ha] using this
                have hterm : ∀ j ∈ Finset.range m, (done[a]).getD j 0 * g j
                    = (if j = a then -((done[a]).getD col 0) else 0)
                      + (if j = col then (done[a]).getD col 0 else 0) := by
                  intro j _
                  by_cases hj : j < col
                  · have hjc : j ≠ col := by omega
                    rw [hd j hj]
                    by_cases haj : a = j
                    · subst haj
                      simp [g, hj, ha, hjc]
                    · have : j ≠ a := fun h => haj h.symm
                      simp [haj, this, hjc]
                  · by_cases hjc : j = col
                    · subst hjc
                      have : col ≠ a := by omega
                      simp [g, this]
                    · have : j ≠ a := by omega
                      simp [g, hj, hjc, this]
                rw [Finset.sum_congr rfl hterm, Finset.sum_add_distrib, Finset.sum_ite_eq',
                  Finset.sum_ite_eq']
                have h1 : a ∈ Finset.range m := Finset.mem_range.2 (by omega)
                have h2 : col ∈ Finset.range m := Finset.mem_range.2 hcm
                simp [h1, h2]
              · apply Finset.sum_eq_zero
                intro j _
                by_cases hj : j < col
                · rw [hI.zero r hr j hj, zero_mul]
                · by_cases hjc : j = col
                  · subst hjc
                    rw [hz r hr, zero_mul]
                  · simp [g, hj, hjc]
            · exact hcol
          simp [g] at hg
        | some ip =>
          obtain ⟨i, p⟩ := ip
          simp only
          obtain ⟨hp, hpv⟩ := findPivot_some _ _ _ _ hfp
          have hI' := inv_step n m done rest i p hI hcol hp hpv
          have hilt : i < rest.length := by
            by_contra hc'
            rw [List.getElem?_eq_none (not_lt.1 hc')] at hp
            exact absurd hp (by simp)
          apply gj_complete n m fuel _ _ hI'
            (by simp only [List.length_map, List.length_eraseIdx, hilt, if_true]; omega)
          intro g hg hs
          exact hns g hg (sol_step m done.length _ done rest i p hI.len hp hpv hs)

theorem inv_init (n m : ℕ) (rest : List (List α)) (hnm : n ≤ m) (hlen : ∀ r ∈ rest, r.length = m)
    (hcnt : rest.length = n) : Inv n m [] rest :=
  ⟨hnm, by simpa using hlen, by simpa using hcnt, by simp, by simp⟩

/-- the `a`-th reduced row dotted with a vector whose first `n` entries are `x`: picks `x_a` -/
theorem sum_unit_row {m : ℕ} (n : ℕ) (rows : List (List α)) (hI : Inv n m rows []) (a : ℕ) (ha : a < n) (f : ℕ → α) :
    ∑ j ∈ Finset.range n, (rows.getD a []).getD j 0 * f j = f a := by
  have hn : rows.length = n := by simpa using hI.cnt
  have hterm : ∀ j ∈ Finset.range n, (rows.getD a []).getD j 0 * f j = if j = a then f a else 0 := by
    intro j hj
    rw [hI.diag a j (by omega) (by rw [hn]; exact Finset.mem_range.1 hj)]
    by_cases h : a = j
    · subst h; simp
    · have : j ≠ a := fun h' => h h'.symm
      simp [h, this]
  rw [Finset.sum_congr rfl hterm, Finset.sum_ite_eq']
  simp [ha]

/-- **`solve` is sound**: whatever it returns solves the system. -/
theorem solve_sound (A : List (List α)) (b x : List α)
    (hA : ∀ r ∈ A, r.length = A.length) (hb : b.length = A.length)
    (h : solve A b = some x) : matVec A x = b ∧ x.length = A.length := by
  set n := A.length with hn
  unfold solve at h
  simp only [← hn] at h
  cases hg : gaussJordan n n [] (List.zipWith (fun r v => r ++ [v]) A b) with
  | none => simp [hg] at h
  | some rows =>
    simp only [hg, Option.some.injEq] at h
    have hinit : Inv n (n + 1) [] (List.zipWith (fun r v => r ++ [v]) A b) := by
      apply inv_init n (n + 1) _ (Nat.le_succ n)
      · intro r hr
        obtain ⟨k, hk, rfl⟩ := List.getElem_of_mem hr
        simp only [List.getElem_zipWith, List.length_append, List.length_singleton]
        rw [hA _ (List.getElem_mem _)]
      · simp [hb, ← hn]
    obtain ⟨hR, hS⟩ := gj_sound n (n + 1) n [] _ rows hinit (by simp [hb, ← hn]) hg
    have hrn : rows.length = n := by simpa using hR.cnt
    have hxl : x.length = n := by rw [← h]; simpa using hrn
    refine ⟨?_, hxl⟩
    have hsol : Sol (x ++ [-1]) rows := by
      intro r hr
      obtain ⟨a, ha, rfl⟩ := List.getElem_of_mem hr
      have hl : (rows[a]).length = n + 1 := hR.len _ (by simp)
      have hra : rows[a] = rows.getD a [] := by simp [List.getD_eq_getElem?_getD, ha]
      rw [dot_eq_sum _ _ (n + 1) (le_of_eq hl), Finset.sum_range_succ]
      have h1 : ∀ j ∈ Finset.range n, (rows[a]).getD j 0 * (x ++ [-1]).getD j 0
          = (rows.getD a []).getD j 0 * x.getD j 0 := by
        intro j hj
        have : j < x.length := by rw [hxl]; exact Finset.mem_range.1 hj
        rw [hra, getD_append_left' _ _ _ this]
      rw [Finset.sum_congr rfl h1, sum_unit_row n rows hR a (by omega) (fun j => x.getD j 0)]
      have h2 : (x ++ [-1]).getD n 0 = -1 := by
        rw [getD_append_right' _ _ _ (by omega)]
        simp [hxl]
      rw [h2, ← h]
      simp [List.getD_eq_getElem?_getD, ha]
    have hs0 := hS _ hsol
    apply List.ext_getElem
    · rw [matVec_length, hb]
    · intro k hk1 hk2
      rw [matVec_length] at hk1
      have hkb : k < b.length := hk2
      have hmem : A[k] ++ [b[k]] ∈ [] ++ List.zipWith (fun r v => r ++ [v]) A b := by
        rw [List.nil_append, List.mem_iff_getElem]
        exact ⟨k, by simpa using ⟨hk1, hkb⟩, by simp⟩
      have := hs0 _ hmem
      rw [dot_append _ _ _ _ (by rw [hxl]; exact hA _ (List.getElem_mem _)), dot_cons, dot_nil_left] at this
      simp only [matVec, List.getElem_map]
      linear_combination this

theorem getD_linComb (n k : ℕ) (hk : k < n) : ∀ (w : List α) (R : List (List α)),
    (∀ r ∈ R, r.length = n) → (linComb n w R).getD k 0 = dot w (R.map (fun r => r.getD k 0))
  | [], R, _ => by simp [linComb_nil_left, dot_nil_left, List.getD_eq_getElem?_getD, hk]
  | _ :: _, [], _ => by simp [linComb_nil_right, dot_nil_right, List.getD_eq_getElem?_getD, hk]
  | c :: w, r :: R, h => by
      have hR : ∀ t ∈ R, t.length = n := fun t ht => h t (List.mem_cons_of_mem _ ht)
      have ih := getD_linComb n k hk w R hR
      have hl := linComb_length n w R hR
      have hr := h r List.mem_cons_self
      rw [linComb_cons, List.map_cons, dot_cons, ← ih]
      simp [vadd, smul, List.getD_eq_getElem?_getD, hl, hr, hk]

theorem eye_length (n : ℕ) : (eye n : List (List α)).length = n := by simp [eye]

theorem eye_getElem (n a : ℕ) (ha : a < (eye n : List (List α)).length) :
    (eye n : List (List α))[a] = (List.range n).map (fun j => if a = j then (1 : α) else 0) := by
  simp [eye]

/-- **`inverse` is sound**: whatever it returns is a right inverse, `A · A⁻¹ = I`, row by row. -/
theorem inverse_sound (A Ainv : List (List α))
    (hA : ∀ r ∈ A, r.length = A.length)
    (h : inverse A = some Ainv) :
    Ainv.length = A.length ∧ (∀ r ∈ Ainv, r.length = A.length) ∧
    A.map (fun r => linComb A.length r Ainv) = eye A.length := by
  set n := A.length with hn
  unfold inverse at h
  simp only [← hn] at h
  cases hg : gaussJordan n n [] (List.zipWith (fun r e => r ++ e) A (eye n)) with
  | none => simp [hg] at h
  | some rows =>
    simp only [hg, Option.some.injEq] at h
    have hinit : Inv n (n + n) [] (List.zipWith (fun r e => r ++ e) A (eye n)) := by
      apply inv_init n (n + n) _ (Nat.le_add_right n n)
      · intro r hr
        obtain ⟨k, hk, rfl⟩ := List.getElem_of_mem hr
        simp only [List.getElem_zipWith, List.length_append, eye_getElem, List.length_map,
          List.length_range]
        rw [hA _ (List.getElem_mem _)]
      · simp [eye_length, ← hn]
    obtain ⟨hR, hS⟩ := gj_sound n (n + n) n [] _ rows hinit (by simp [eye_length, ← hn]) hg
    have hrn : rows.length = n := by simpa using hR.cnt
    have hAl : Ainv.length = n := by rw [← h]; simpa using hrn
    have hAr : ∀ r ∈ Ainv, r.length = n := by
      intro r hr
      rw [← h] at hr
      obtain ⟨t, ht, rfl⟩ := List.mem_map.1 hr
      have := hR.len t (by simpa using ht)
      simp [this]
    refine ⟨hAl, hAr, ?_⟩
    -- the `k`-th column of the inverse
    have hcol : ∀ k, k < n → ∀ a (ha : a < n),
        dot (A[a]'(by rw [← hn]; exact ha)) (Ainv.map (fun r => r.getD k 0)) = if a = k then 1 else 0 := by
      intro k hk a ha
      set c : List α := rows.map (fun r => r.getD (n + k) 0) with hc
      have hcl : c.length = n := by simp [hc, hrn]
      have hce : Ainv.map (fun r => r.getD k 0) = c := by
        rw [← h, hc, List.map_map]
        apply List.map_congr_left
        intro r _
        simp [List.getD_eq_getElem?_getD]
      set e : List α := (List.range n).map (fun j => if j = k then (-1 : α) else 0) with he
      have hel : e.length = n := by simp [he]
      have hsol : Sol (c ++ e) rows := by
        intro r hr
        obtain ⟨i, hi, rfl⟩ := List.getElem_of_mem hr
        have hl : (rows[i]).length = n + n := hR.len _ (by simp)
        have hra : rows[i] = rows.getD i [] := by simp [List.getD_eq_getElem?_getD, hi]
        rw [dot_eq_sum _ _ (n + n) (le_of_eq hl), Finset.sum_range_add]
        have h1 : ∀ j ∈ Finset.range n, (rows[i]).getD j 0 * (c ++ e).getD j 0
            = (rows.getD i []).getD j 0 * (rows.getD j []).getD (n + k) 0 := by
          intro j hj
          have hjn : j < n := Finset.mem_range.1 hj
          rw [hra, getD_append_left' _ _ _ (by rw [hcl]; exact hjn)]
          simp [hc, List.getD_eq_getElem?_getD, hrn, hjn]
        have h2 : ∀ j ∈ Finset.range n, (rows[i]).getD (n + j) 0 * (c ++ e).getD (n + j) 0
            = if j = k then -((rows[i]).getD (n + k) 0) else 0 := by
          intro j hj
          have hjn : j < n := Finset.mem_range.1 hj
          rw [getD_append_right' _ _ _ (by rw [hcl]; omega), hcl]
          by_cases hjk : j = k
          · subst hjk
            simp [he, List.getD_eq_getElem?_getD, hjn]
          · simp [he, List.getD_eq_getElem?_getD, hjn, hjk]
        rw [Finset.sum_congr rfl h1, Finset.sum_congr rfl h2,
          sum_unit_row n rows hR i (by omega) (fun j => (rows.getD j []).getD (n + k) 0),
          Finset.sum_ite_eq']
        simp only [Finset.mem_range, hk, if_true, ← hra]
        ring
      have hs0 := hS _ hsol
      have hka : a < A.length := by rw [← hn]; exact ha
      have hmem : A[a] ++ (eye n)[a]'(by rw [eye_length]; exact ha)
          ∈ [] ++ List.zipWith (fun r e => r ++ e) A (eye n) := by
        rw [List.nil_append, List.mem_iff_getElem]
        exact ⟨a, by simpa [eye_length] using ⟨hka, ha⟩, by simp⟩
      have := hs0 _ hmem
      rw [dot_append _ _ _ _ (by rw [hcl]; exact hA _ (List.getElem_mem _)), eye_getElem,
        dot_eq_sum (List.map _ (List.range n)) e n (by simp)] at this
      have h3 : ∀ j ∈ Finset.range n,
          ((List.range n).map (fun j => if a = j then (1 : α) else 0)).getD j 0 * e.getD j 0
            = if j = a then (if a = k then -1 else 0) else 0 := by
        intro j hj
        have hjn : j < n := Finset.mem_range.1 hj
        by_cases hja : j = a
        · subst hja
          simp [he, List.getD_eq_getElem?_getD, hjn]
        · have : a ≠ j := fun h' => hja h'.symm
          simp [List.getD_eq_getElem?_getD, hjn, hja, this]
      rw [Finset.sum_congr rfl h3, Finset.sum_ite_eq'] at this
      simp only [Finset.mem_range, ha, if_true] at this
      rw [hce]
      by_cases hak : a = k
      · simp only [hak, if_true] at this ⊢
        linear_combination this
      · simp only [hak, if_false] at this ⊢
        linear_combination this
    apply List.ext_getElem
    · simp [eye_length, ← hn]
    · intro a ha1 ha2
      have han : a < n := by simpa [← hn] using ha1
      rw [eye_getElem, List.getElem_map]
      apply List.ext_getElem
      · simp [linComb_length n _ Ainv hAr]
      · intro k hk1 hk2
        have hkn : k < n := by simpa using hk2
        have := getD_linComb n k hkn A[a] Ainv hAr
        rw [hcol k hkn a han] at this
        simpa [List.getD_eq_getElem?_getD, hk1] using this

/-- **`solve` is complete**: if the homogeneous system has only the trivial solution, `solve` succeeds. -/
theorem solve_complete (A : List (List α)) (b : List α)
    (hA : ∀ r ∈ A, r.length = A.length) (hb : b.length = A.length)
    (hinj : ∀ z : List α, z.length = A.length → matVec A z = List.replicate A.length 0 → z = List.replicate A.length 0) :
    ∃ x, solve A b = some x := by
  set n := A.length with hn
  have hinit : Inv n (n + 1) [] (List.zipWith (fun r v => r ++ [v]) A b) := by
    apply inv_init n (n + 1) _ (Nat.le_succ n)
    · intro r hr
      obtain ⟨k, hk, rfl⟩ := List.getElem_of_mem hr
      simp only [List.getElem_zipWith, List.length_append, List.length_singleton]
      rw [hA _ (List.getElem_mem _)]
    · simp [hb, ← hn]
  have hns : NS n (n + 1) ([] ++ List.zipWith (fun r v => r ++ [v]) A b) := by
    intro g hg hs j hj
    rw [List.range_succ, List.map_append, List.map_singleton, hg n le_rfl] at hs
    have hzl : ((List.range n).map g).length = n := by simp
    have hz := hinj ((List.range n).map g) hzl (by
      apply List.ext_getElem
      · simp [matVec, ← hn]
      · intro k hk1 hk2
        rw [matVec_length] at hk1
        have hkb : k < b.length := by rw [hb]; exact hk1
        have hmem : A[k] ++ [b[k]] ∈ [] ++ List.zipWith (fun r v => r ++ [v]) A b := by
          rw [List.nil_append, List.mem_iff_getElem]
          exact ⟨k, by simpa using ⟨hk1, hkb⟩, by simp⟩
        have := hs _ hmem
        rw [dot_append _ _ _ _ (by rw [hzl]; exact hA _ (List.getElem_mem _)), dot_cons,
          dot_nil_left] at this
        simp only [matVec, List.getElem_map, List.getElem_replicate]
        linear_combination this)
    have : ((List.range n).map g)[j]'(by rw [hzl]; exact hj) = 0 := by
      simp only [hz, List.getElem_replicate]
    simpa using this
  obtain ⟨rows, hr⟩ := gj_complete n (n + 1) n [] _ hinit (by simp [hb, ← hn]) hns
  exact ⟨rows.map (fun r => r.getD n 0), by unfold solve; simp only [← hn, hr]⟩

end LinalgProps
end Dreye
