/-
  C19 — domain equalisation interpolates onto the exact overlap at the coarsest resolution.
-/
import Dreye.Model.Domain
import Dreye.Props.C20
import Mathlib.Algebra.Order.Field.Basic
import Mathlib.Algebra.BigOperators.Group.List.Basic
import Mathlib.Algebra.Order.Floor.Ring
import Mathlib.Data.Rat.Floor
import Mathlib.Tactic.Ring
import Mathlib.Tactic.Linarith
import Mathlib.Tactic.FieldSimp

namespace Dreye
namespace C19
open C20 (ofNatLit_eq)

variable {α : Type*} [Field α] [LinearOrder α] [IsStrictOrderedRing α]

/-! ### the step: mean of the differences of the sorted domain -/

/-- telescoping: the differences of a list sum to `last − first` -/
theorem sum_diffs (x : α) (xs : List α) :
    (diffs (x :: xs)).sum = (x :: xs).getLast (List.cons_ne_nil _ _) - x := by
  induction xs generalizing x with
  | nil => simp [diffs]
  | cons y ys ih =>
    have := ih y
    simp only [diffs, List.sum_cons, this]
    rw [List.getLast_cons (List.cons_ne_nil _ _)]
    ring

/-- **C19 (coarsest mean step)**: the step contributed by one domain is `(last − first)/(n−1)` of its
    sorted values, i.e. `(max − min)/(n − 1)`. -/
theorem meanStep_eq (d : List α) (s0 : α) (ss : List α) (h : sortAsc d = s0 :: ss) :
    meanStep d = ((s0 :: ss).getLast (List.cons_ne_nil _ _) - s0) / ((d.length - 1 : ℕ) : α) := by
  unfold meanStep
  rw [h, sum_diffs, ofNatLit_eq]

/-! ### the grid -/

theorem linspace_length (lo hi : α) (k : ℕ) : (linspace lo hi k).length = k + 1 := by
  simp [linspace]

/-- **C19 (starts exactly at the overlap's lower end)** -/
theorem linspace_head (lo hi : α) (k : ℕ) (hk : 0 < k) : (linspace lo hi k)[0]? = some lo := by
  have : (0:ℕ) ≠ k := by omega
  simp [linspace, this, ofNatLit_eq]

/-- **C19 (ends exactly at the overlap's upper end)** -/
theorem linspace_last (lo hi : α) (k : ℕ) : (linspace lo hi k)[k]? = some hi := by
  simp [linspace]

/-- **C19 (uniformly spaced)**: entry `i` is `lo + i·(hi−lo)/k` — also for the last one. -/
theorem linspace_entry (lo hi : α) (k i : ℕ) (hk : 0 < k) (hi' : i ≤ k) :
    (linspace lo hi k)[i]? = some (lo + (i : α) * ((hi - lo) / (k : α))) := by
  have hlt : i < k + 1 := by omega
  simp only [linspace, List.getElem?_map, List.getElem?_range hlt, Option.map_some]
  congr 1
  split
  · rename_i h; subst h
    have : ((i : ℕ) : α) ≠ 0 := by exact_mod_cast (by omega : i ≠ 0)
    field_simp; ring
  · rw [ofNatLit_eq, ofNatLit_eq]

/-! ### rounding: the number of intervals is the integer nearest to overlap/step -/

/-- **C19 (closest step that fits)**: `np.around` picks an integer within ½ of its argument. -/
theorem roundHalfEven_nearest (x : ℚ) : |(roundHalfEven x : ℚ) - x| ≤ 1 / 2 := by
  unfold roundHalfEven
  have h1 : ((x.floor : ℤ) : ℚ) ≤ x := Rat.floor_le x
  have h2 : x < (x.floor : ℚ) + 1 := by
    have := Rat.lt_floor_add_one x
    push_cast at this; exact this
  simp only
  split
  · rename_i h; rw [abs_le]; constructor <;> linarith
  · split
    · rename_i h h'; push_cast; rw [abs_le]; constructor <;> linarith
    · rename_i h h'
      have he : x - (x.floor : ℚ) = 1 / 2 := le_antisymm (not_lt.mp h') (not_lt.mp h)
      split
      · rw [abs_le]; constructor <;> linarith
      · push_cast; rw [abs_le]; constructor <;> linarith

/-- ties go to the even neighbour (what `np.around` does) -/
theorem roundHalfEven_tie_even (x : ℚ) (h : x - (x.floor : ℚ) = 1 / 2) : roundHalfEven x % 2 = 0 := by
  unfold roundHalfEven
  simp only
  have h1 : ¬ (x - (x.floor : ℚ) < 1 / 2) := by rw [h]; exact lt_irrefl _
  have h2 : ¬ (1 / 2 < x - (x.floor : ℚ)) := by rw [h]; exact lt_irrefl _
  rw [if_neg h1, if_neg h2]
  split
  · assumption
  · omega

/-! ### linear interpolation -/

/-- left of the first knot: the fill value -/
theorem interp_left (fill t x0 x1 y0 y1 : α) (xs ys : List α) (h : t < x0) :
    interpSorted fill t (x0 :: x1 :: xs) (y0 :: y1 :: ys) = fill := by
  simp [interpSorted, h]

/-- **C19 (linear between neighbouring samples)**: inside the first interval the value is the convex
    combination `(1−λ) y0 + λ y1`, `λ = (t−x0)/(x1−x0) ∈ [0,1]`. -/
theorem interp_first (fill t x0 x1 y0 y1 : α) (xs ys : List α) (h0 : x0 ≤ t) (h1 : t ≤ x1) (hx : x0 < x1) :
    interpSorted fill t (x0 :: x1 :: xs) (y0 :: y1 :: ys)
      = (1 - (t - x0) / (x1 - x0)) * y0 + (t - x0) / (x1 - x0) * y1
    ∧ 0 ≤ (t - x0) / (x1 - x0) ∧ (t - x0) / (x1 - x0) ≤ 1 := by
  have hd : 0 < x1 - x0 := sub_pos.mpr hx
  refine ⟨?_, div_nonneg (sub_nonneg.mpr h0) hd.le, (div_le_one hd).mpr (by linarith)⟩
  simp only [interpSorted, not_lt.mpr h0, if_false, h1, if_true]
  field_simp; ring

/-- right of the first interval: the first knot is irrelevant -/
theorem interp_skip (fill t x0 x1 y0 y1 : α) (xs ys : List α) (h0 : x0 ≤ x1) (h1 : x1 < t) :
    interpSorted fill t (x0 :: x1 :: xs) (y0 :: y1 :: ys) = interpSorted fill t (x1 :: xs) (y1 :: ys) := by
  have : ¬ t < x0 := not_lt.mpr (le_trans h0 h1.le)
  simp [interpSorted, this, not_le.mpr h1]

/-- right of the last knot: the fill value -/
theorem interp_right (fill t : α) : ∀ (xs ys : List α), List.Pairwise (· < ·) xs →
    (∀ x ∈ xs, x < t) → interpSorted fill t xs ys = fill
  | [], _, _, _ => by simp [interpSorted]
  | [_], _, _, _ => by simp [interpSorted]
  | _ :: _ :: _, [], _, _ => by simp [interpSorted]
  | _ :: _ :: _, [_], _, _ => by simp [interpSorted]
  | x0 :: x1 :: xs, y0 :: y1 :: ys, hs, hlt => by
      have h01 : x0 < x1 := (List.pairwise_cons.mp hs).1 x1 List.mem_cons_self
      have h1t : x1 < t := hlt x1 (List.mem_cons_of_mem _ List.mem_cons_self)
      rw [interp_skip fill t x0 x1 y0 y1 xs ys h01.le h1t]
      exact interp_right fill t (x1 :: xs) (y1 :: ys) (List.pairwise_cons.mp hs).2
        (fun x hx => hlt x (List.mem_cons_of_mem _ hx))

/-- **C19 (interpolation reproduces the samples)**: at the knot `xs[i]` of a strictly ascending domain
    the interpolant takes the value `ys[i]`. -/
theorem interp_knot (fill : α) : ∀ (xs ys : List α) (i : ℕ) (hi : i < xs.length) (hy : ys.length = xs.length),
    2 ≤ xs.length → List.Pairwise (· < ·) xs →
    interpSorted fill (xs[i]) xs ys = ys[i]'(by omega)
  | [], _, _, hi, _, _, _ => by simp at hi
  | [_], _, _, _, _, h2, _ => by simp at h2
  | _ :: _ :: _, [], _, _, hy, _, _ => by simp at hy
  | _ :: _ :: _, [_], _, _, hy, _, _ => by simp at hy
  | x0 :: x1 :: xs, y0 :: y1 :: ys, i, hi, hy, _, hs => by
      have h01 : x0 < x1 := (List.pairwise_cons.mp hs).1 x1 List.mem_cons_self
      have hs' := (List.pairwise_cons.mp hs).2
      match i with
      | 0 =>
        have := (interp_first fill x0 x0 x1 y0 y1 xs ys le_rfl h01.le h01).1
        simp only [List.getElem_cons_zero]
        rw [this]; simp
      | 1 =>
        have := (interp_first fill x1 x0 x1 y0 y1 xs ys h01.le le_rfl h01).1
        simp only [List.getElem_cons_succ, List.getElem_cons_zero]
        rw [this]
        have hd : x1 - x0 ≠ 0 := (sub_pos.mpr h01).ne'
        field_simp; ring
      | i + 2 =>
        have hi' : i + 1 < (x1 :: xs).length := by simpa using hi
        have hlt : x1 < (x1 :: xs)[i + 1] := by
          have := List.pairwise_iff_getElem.mp hs' 0 (i + 1) (by simp) hi' (by omega)
          simpa using this
        simp only [List.getElem_cons_succ] at hlt ⊢
        have hxs : 1 ≤ xs.length := by simp at hi'; omega
        rw [interp_skip fill _ x0 x1 y0 y1 xs ys h01.le (by simpa using hlt)]
        have hy' : (y1 :: ys).length = (x1 :: xs).length := by simpa using hy
        have := interp_knot fill (x1 :: xs) (y1 :: ys) (i + 1) hi' hy' (by simp; omega) hs'
        simpa using this

/-- **C19 (linear in the array values)**: with fill value 0, interpolating `a•y + z` gives
    `a·interp y + interp z` at every point of any domain. -/
theorem interp_linear (a t : α) : ∀ (xs ys zs : List α), ys.length = zs.length →
    interpSorted 0 t xs (vadd (smul a ys) zs) = a * interpSorted 0 t xs ys + interpSorted 0 t xs zs
  | [], _, _, _ => by simp [interpSorted]
  | [_], _, _, _ => by simp [interpSorted]
  | _ :: _ :: _, [], [], _ => by simp [interpSorted, vadd, smul]
  | _ :: _ :: _, [_], [_], _ => by simp [interpSorted, vadd, smul]
  | x0 :: x1 :: xs, y0 :: y1 :: ys, z0 :: z1 :: zs, h => by
      have h' : (y1 :: ys).length = (z1 :: zs).length := by simpa using h
      have ih := interp_linear a t (x1 :: xs) (y1 :: ys) (z1 :: zs) h'
      simp only [vadd, smul, List.map_cons, List.zipWith_cons_cons] at ih ⊢
      simp only [interpSorted]
      split
      · simp
      · split
        · ring
        · exact ih

/-! ### the whole procedure -/

/-- **C19 (arrays that already share a domain are returned unchanged)** -/
theorem equalize_same (fill : ℚ) (d0 : List ℚ) (ds : List (List ℚ)) (arrs : List (List (List ℚ)))
    (h : ∀ d ∈ ds, d = d0) : (match equalize fill (d0 :: ds) arrs with | .same => True | _ => False) := by
  have : ds.all (· == d0) = true := by
    simp only [List.all_eq_true, beq_iff_eq]; exact h
  simp [equalize, this]

/-- **C19 (non-overlapping domains are rejected)** -/
theorem rejected_of_disjoint (lo hi step : α) (h : hi ≤ lo) : rejected lo hi step = true := by
  simp [rejected, h]

/-! non-vacuity: two partially overlapping domains, the second unsorted and non-uniform -/
example :
    equalize 0 [[0, 2, 4, 6], [5, 1, 3, (11:ℚ)/2]] [[[0, 2, 4, 6]], [[50, 10, 30, 55]]]
      = .interp [1, 13/4, 11/2] [[[1, 13/4, 11/2]], [[10, 65/2, 55]]] := by
  decide +kernel

end C19
end Dreye
