/-
  C07 — Poisson and excitation models minimise their documented objective; all agree in gamut.
  Excitation: any ordered field.  Poisson: ℝ (`Transc ℝ` from Dreye.Props.C16).
-/
import Dreye.Model.Models
import Dreye.Props.Cert
import Dreye.Props.C16
import Mathlib.Analysis.SpecialFunctions.Log.Basic
import Mathlib.Tactic

namespace Dreye
namespace C07

section excitation
variable {α : Type*} [Field α] [LinearOrder α] [IsStrictOrderedRing α]

/-- the excitation difference over the common denominator -/
theorem excite_sub (b p : α) (hb : 0 < 1 + b) (hp : 0 < 1 + p) :
    excite b - excite p = (b - p) / ((1 + b) * (1 + p)) := by
  unfold excite
  have hb' := ne_of_gt hb
  have hp' := ne_of_gt hp
  have _ : IsStrictOrderedRing α := inferInstance
  field_simp
  ring

/-- **C07 (the code's quasi-convex term is the documented excitation difference)**:
    `|b − p| / ((1+b)(1+p)) = |b/(1+b) − p/(1+p)|` whenever `1+b, 1+p > 0`. -/
theorem exc_identity (b p : α) (hb : 0 < 1 + b) (hp : 0 < 1 + p) : excCodeTerm b p = excDocTerm b p := by
  have hD : 0 < (1 + b) * (1 + p) := mul_pos hb hp
  unfold excCodeTerm excDocTerm
  simp only []
  rw [excite_sub b p hb hp]
  by_cases h : 0 ≤ b - p
  · have h' : 0 ≤ (b - p) / ((1 + b) * (1 + p)) := div_nonneg h hD.le
    rw [if_pos h, if_pos h']
  · have h' : ¬ 0 ≤ (b - p) / ((1 + b) * (1 + p)) :=
      not_le.2 (div_neg_of_neg_of_pos (not_le.1 h) hD)
    rw [if_neg h, if_neg h', neg_div]

/-- **C07 (weighted excitation fits)**: with a channel weight `w > 0` the programme compares the excitations of the weighted captures
    `w·b` and `w·p`; the documented (unweighted) excitation difference is at most `max(w, 1/w)` times the weighted one, for
    non-negative captures. (Used to carry the accuracy of a weighted excitation fit over to the documented objective.) -/
theorem excite_weight_bound (w b p : α) (hw : 0 < w) (hb : 0 ≤ b) (hp : 0 ≤ p) :
    |excite b - excite p| ≤ max w (1 / w) * |excite (w * b) - excite (w * p)| := by
  have h1b : 0 < 1 + b := by linarith
  have h1p : 0 < 1 + p := by linarith
  have hwb : 0 ≤ w * b := mul_nonneg hw.le hb
  have hwp : 0 ≤ w * p := mul_nonneg hw.le hp
  have h1wb : 0 < 1 + w * b := by linarith
  have h1wp : 0 < 1 + w * p := by linarith
  rw [excite_sub b p h1b h1p, excite_sub (w * b) (w * p) h1wb h1wp]
  have hD1 : 0 < (1 + b) * (1 + p) := mul_pos h1b h1p
  have hD2 : 0 < (1 + w * b) * (1 + w * p) := mul_pos h1wb h1wp
  rw [abs_div, abs_div, abs_of_pos hD1, abs_of_pos hD2, ← mul_sub, abs_mul, abs_of_pos hw]
  have hM : 0 < max w (1 / w) := lt_max_of_lt_left hw
  have habs : 0 ≤ |b - p| := abs_nonneg _
  -- key: D2 ≤ (max w (1/w)) * w * D1
  have key : (1 + w * b) * (1 + w * p) ≤ max w (1 / w) * w * ((1 + b) * (1 + p)) := by
    rcases le_total 1 w with h | h
    · have hm : w ≤ max w (1 / w) := le_max_left _ _
      have e1 : 1 + w * b ≤ w * (1 + b) := by nlinarith
      have e2 : 1 + w * p ≤ w * (1 + p) := by nlinarith
      have : (1 + w * b) * (1 + w * p) ≤ (w * (1 + b)) * (w * (1 + p)) :=
        mul_le_mul e1 e2 h1wp.le (by positivity)
      calc (1 + w * b) * (1 + w * p) ≤ (w * (1 + b)) * (w * (1 + p)) := this
        _ = w * w * ((1 + b) * (1 + p)) := by ring
        _ ≤ max w (1 / w) * w * ((1 + b) * (1 + p)) := by
            apply mul_le_mul_of_nonneg_right _ hD1.le
            exact mul_le_mul_of_nonneg_right hm hw.le
    · have hm : 1 / w ≤ max w (1 / w) := le_max_right _ _
      have e1 : 1 + w * b ≤ 1 + b := by nlinarith
      have e2 : 1 + w * p ≤ 1 + p := by nlinarith
      have : (1 + w * b) * (1 + w * p) ≤ (1 + b) * (1 + p) := mul_le_mul e1 e2 h1wp.le h1b.le
      have hone : (1 : α) ≤ max w (1 / w) * w := by
        calc (1 : α) = 1 / w * w := by field_simp
          _ ≤ max w (1 / w) * w := mul_le_mul_of_nonneg_right hm hw.le
      calc (1 + w * b) * (1 + w * p) ≤ (1 + b) * (1 + p) := this
        _ = 1 * ((1 + b) * (1 + p)) := by ring
        _ ≤ max w (1 / w) * w * ((1 + b) * (1 + p)) := mul_le_mul_of_nonneg_right hone hD1.le
  rw [div_le_iff₀ hD1]
  calc |b - p| = |b - p| * ((1 + w * b) * (1 + w * p)) / ((1 + w * b) * (1 + w * p)) := by
        field_simp
    _ ≤ |b - p| * (max w (1 / w) * w * ((1 + b) * (1 + p))) / ((1 + w * b) * (1 + w * p)) := by
        apply div_le_div_of_nonneg_right _ hD2.le
        exact mul_le_mul_of_nonneg_left key habs
    _ = max w (1 / w) * (w * |b - p| / ((1 + w * b) * (1 + w * p))) * ((1 + b) * (1 + p)) := by ring

/-- one receptor: excitation error `≤ t` is the pair of linear inequalities used by `excLevelRows` -/
theorem exc_term_le_iff (b p t : α) (hb : 0 < 1 + b) (hp : 0 < 1 + p) :
    excDocTerm b p ≤ t ↔ (b - p ≤ t * (1 + b) * (1 + p) ∧ p - b ≤ t * (1 + b) * (1 + p)) := by
  have hD : 0 < (1 + b) * (1 + p) := mul_pos hb hp
  rw [← exc_identity b p hb hp]
  unfold excCodeTerm
  rw [div_le_iff₀ hD, mul_assoc]
  by_cases h : 0 ≤ b - p
  · rw [if_pos h]
    constructor
    · intro h1; constructor <;> linarith
    · intro h1; exact h1.1
  · rw [if_neg h]
    have h' := not_le.1 h
    constructor
    · intro h1; constructor <;> linarith
    · intro h1; linarith [h1.2]

/-- **C07 (excitation: certified lower bound on the achievable level)**: if the verified checker accepts
    multipliers for the zero cost over the level-`t` rows with a *positive* value, then no in-bound
    intensity vector satisfies those rows — no in-bound fit has excitation error `≤ t` in all receptors. -/
theorem level_infeasible_of_cert (n : ℕ) (G : List (List α)) (h lam lb : List α) (ub : List (Option α)) (v : α)
    (hc : linLower n (List.replicate n 0) G h [] [] 0 lam [] 0 lb ub = some v) (hv : 0 < v) :
    ¬ ∃ x : List α, x.length = n ∧ inBox lb ub x = true ∧ (∀ p ∈ (matVec G x).zip h, p.1 ≤ p.2) := by
  rintro ⟨x, hxn, hxb, hG⟩
  have hf : linFeasible G h ([] : List (List α)) ([] : List α) 0 lb ub x := by
    refine ⟨hxb, hG, ?_, le_refl 0⟩
    simp [lsObj, residual, matVec, vsub, Cert.dot_nil_left]
  have h1 := Cert.lin_lower_sound n _ G h [] [] 0 lam [] 0 lb ub v x hc hf hxn
  rw [Cert.dot_replicate_zero] at h1
  exact absurd hv (not_lt.2 h1)

end excitation

section poisson
open Real

/-- one term of the Poisson objective is convex in the predicted capture: for `p, q > 0`, `b ≥ 0`,
    `q − b log q ≥ p − b log p + (1 − b/p)(q − p)` -/
theorem poisson_term_tangent (b p q : ℝ) (hb : 0 ≤ b) (hp : 0 < p) (hq : 0 < q) :
    p - b * Real.log p + (1 - b / p) * (q - p) ≤ q - b * Real.log q := by
  have h := Real.log_le_sub_one_of_pos (div_pos hq hp)
  rw [Real.log_div hq.ne' hp.ne'] at h
  have h2 := mul_le_mul_of_nonneg_left h hb
  have e : (1 - b / p) * (q - p) = (q - p) - b * (q / p - 1) := by
    have hp' := hp.ne'
    field_simp
  rw [e]
  linarith

theorem log_eq (x : ℝ) : (Transc.log x : ℝ) = Real.log x := rfl

theorem poissonObj_cons (w b p : ℝ) (ws bs ps : List ℝ) :
    poissonObj (w :: ws) (b :: bs) (p :: ps) = (w * p - w * b * Real.log p) + poissonObj ws bs ps := by
  simp only [poissonObj, vmul, List.zipWith_cons_cons, List.sum_cons, log_eq]
  ring

theorem poissonObj_nil (b p : List ℝ) : poissonObj ([] : List ℝ) b p = 0 := by
  simp [poissonObj, vmul]

theorem vsub_vadd_vadd : ∀ (a b c : List ℝ), a.length = c.length → b.length = c.length →
    vsub (vadd a c) (vadd b c) = vsub a b
  | [], _, _, _, _ => by simp [vsub, vadd]
  | _ :: _, [], [], h, _ => by simp at h
  | _ :: _, [], _ :: _, _, h => by simp at h
  | _ :: _, _ :: _, [], h, _ => by simp at h
  | a :: as, b :: bs, c :: cs, h, h' => by
      have ih := vsub_vadd_vadd as bs cs (by simpa using h) (by simpa using h')
      simp only [vsub, vadd, List.zipWith_cons_cons] at ih ⊢
      rw [ih]
      congr 1
      ring

/-- **C07 (Poisson: the tangent bound)**: for weights `w ≥ 0`, targets `b ≥ 0` and positive predicted
    captures `p`, `q` of equal length, the objective at `q` is at least the objective at `p` plus the
    directional derivative. -/
theorem poisson_tangent (w b p q : List ℝ) (hl1 : w.length = b.length) (hl2 : b.length = p.length)
    (hl3 : p.length = q.length) (hw : ∀ v ∈ w, 0 ≤ v) (hb : ∀ v ∈ b, 0 ≤ v) (hp : ∀ v ∈ p, 0 < v) (hq : ∀ v ∈ q, 0 < v) :
    poissonObj w b p +
      dot (List.zipWith (fun (wc : ℝ) (bp : ℝ × ℝ) => wc * (1 - bp.1 / bp.2)) w (b.zip p)) (vsub q p)
      ≤ poissonObj w b q := by
  induction w generalizing b p q with
  | nil => simp [poissonObj_nil, Cert.dot_nil_left]
  | cons wc ws ih =>
    cases b with
    | nil => simp at hl1
    | cons bc bs =>
      cases p with
      | nil => simp at hl2
      | cons pc ps =>
        cases q with
        | nil => simp at hl3
        | cons qc qs =>
          have ih' := ih bs ps qs (by simpa using hl1) (by simpa using hl2) (by simpa using hl3)
            (fun v hv => hw v (List.mem_cons_of_mem _ hv)) (fun v hv => hb v (List.mem_cons_of_mem _ hv))
            (fun v hv => hp v (List.mem_cons_of_mem _ hv)) (fun v hv => hq v (List.mem_cons_of_mem _ hv))
          have hwc : 0 ≤ wc := hw wc List.mem_cons_self
          have ht := poisson_term_tangent bc pc qc (hb bc List.mem_cons_self)
            (hp pc List.mem_cons_self) (hq qc List.mem_cons_self)
          have ht' := mul_le_mul_of_nonneg_left ht hwc
          rw [poissonObj_cons, poissonObj_cons, List.zip_cons_cons, List.zipWith_cons_cons, vsub,
            List.zipWith_cons_cons, Cert.dot_cons]
          rw [vsub] at ih'
          simp only at ih' ⊢
          nlinarith [ht', ih']

/-- **C07 (Poisson: certified near-optimality against every in-bound intensity vector)**: with the
    (logarithm-free) gradient `g` at `x̂`, and `m = min_{box} g·z`, every in-bound `y` with positive
    predicted capture satisfies `obj(x̂) ≤ obj(y) + (g·x̂ − m)`. -/
theorem poisson_gap_bound (n : ℕ) (A' : List (List ℝ)) (base' w b lb : List ℝ) (ub : List (Option ℝ))
    (x y : List ℝ) (m : ℝ)
    (hA : ∀ r ∈ A', r.length = n) (hbase : base'.length = A'.length) (hwl : w.length = A'.length)
    (hbl : b.length = A'.length) (hxn : x.length = n)
    (hx : inBox lb ub x = true) (hy : inBox lb ub y = true)
    (hw : ∀ v ∈ w, 0 ≤ v) (hb : ∀ v ∈ b, 0 ≤ v)
    (hpx : ∀ v ∈ totalCapture A' base' x, 0 < v) (hpy : ∀ v ∈ totalCapture A' base' y, 0 < v)
    (hm : boxMinLin (poissonGrad n A' w b (totalCapture A' base' x)) lb ub = some m) :
    poissonObj w b (totalCapture A' base' x) ≤ poissonObj w b (totalCapture A' base' y)
      + (dot (poissonGrad n A' w b (totalCapture A' base' x)) x - m) := by
  have _ := hxn
  have hxB := Cert.box_of_inBox _ _ _ hx
  have hyB := Cert.box_of_inBox _ _ _ hy
  have hyx : y.length = x.length := by rw [hyB.length_lb, hxB.length_lb]
  have hlp : (totalCapture A' base' x).length = A'.length := by
    simp [totalCapture, vadd, matVec, hbase]
  have hlq : (totalCapture A' base' y).length = A'.length := by
    simp [totalCapture, vadd, matVec, hbase]
  have ht := poisson_tangent w b (totalCapture A' base' x) (totalCapture A' base' y)
    (hwl.trans hbl.symm) (hbl.trans hlp.symm) (hlp.trans hlq.symm) hw hb hpx hpy
  have hvs : vsub (totalCapture A' base' y) (totalCapture A' base' x) = matVec A' (vsub y x) := by
    rw [Cert.matVec_vsub A' x y hyx]
    unfold totalCapture
    exact vsub_vadd_vadd _ _ _ (by simp [matVec, hbase]) (by simp [matVec, hbase])
  have hm' := Cert.boxMinLin_le hyB _ _ hm
  rw [hvs, ← Cert.dot_linComb n (vsub y x) _ A' hA, Cert.dot_vsub_right _ _ _ hyx] at ht
  unfold poissonGrad at hm' ⊢
  linarith

/-- **C07/C05 (a joint Poisson batch is separable)**: the objective of the stacked problem (weights, targets and predictions of
    several samples concatenated — what a batch of size > 1 hands to the solver) is the sum of the samples' own objectives; with
    block-diagonal predictions and a product feasible set, the batch is minimised iff every sample is (`C05` block theorem). -/
theorem poissonObj_append (w1 b1 p1 w2 b2 p2 : List ℝ) (h1 : w1.length = b1.length) (h2 : b1.length = p1.length) :
    poissonObj (w1 ++ w2) (b1 ++ b2) (p1 ++ p2) = poissonObj w1 b1 p1 + poissonObj w2 b2 p2 := by
  induction w1 generalizing b1 p1 with
  | nil =>
    cases b1 with
    | nil =>
      cases p1 with
      | nil => simp [poissonObj_nil]
      | cons _ _ => simp at h2
    | cons _ _ => simp at h1
  | cons w ws ih =>
    cases b1 with
    | nil => simp at h1
    | cons b bs =>
      cases p1 with
      | nil => simp at h2
      | cons p ps =>
        have := ih bs ps (by simpa using h1) (by simpa using h2)
        simp only [List.cons_append, poissonObj_cons, this]
        ring

/-- Tangent inequality in intensity space: with `g` the gradient at `x`, `obj(x) + (g·y − g·x) ≤ obj(y)` for any two intensity
    vectors with positive predicted capture (no bounds involved). -/
theorem poisson_tangent_x (n : ℕ) (A' : List (List ℝ)) (base' w b x y : List ℝ)
    (hA : ∀ r ∈ A', r.length = n) (hbase : base'.length = A'.length) (hwl : w.length = A'.length)
    (hbl : b.length = A'.length) (hyx : y.length = x.length)
    (hw : ∀ v ∈ w, 0 ≤ v) (hb : ∀ v ∈ b, 0 ≤ v)
    (hpx : ∀ v ∈ totalCapture A' base' x, 0 < v) (hpy : ∀ v ∈ totalCapture A' base' y, 0 < v) :
    poissonObj w b (totalCapture A' base' x)
      + (dot (poissonGrad n A' w b (totalCapture A' base' x)) y - dot (poissonGrad n A' w b (totalCapture A' base' x)) x)
      ≤ poissonObj w b (totalCapture A' base' y) := by
  have hlp : (totalCapture A' base' x).length = A'.length := by
    simp [totalCapture, vadd, matVec, hbase]
  have hlq : (totalCapture A' base' y).length = A'.length := by
    simp [totalCapture, vadd, matVec, hbase]
  have ht := poisson_tangent w b (totalCapture A' base' x) (totalCapture A' base' y)
    (hwl.trans hbl.symm) (hbl.trans hlp.symm) (hlp.trans hlq.symm) hw hb hpx hpy
  have hvs : vsub (totalCapture A' base' y) (totalCapture A' base' x) = matVec A' (vsub y x) := by
    rw [Cert.matVec_vsub A' x y hyx]
    unfold totalCapture
    exact vsub_vadd_vadd _ _ _ (by simp [matVec, hbase]) (by simp [matVec, hbase])
  rw [hvs, ← Cert.dot_linComb n (vsub y x) _ A' hA, Cert.dot_vsub_right _ _ _ hyx] at ht
  unfold poissonGrad
  linarith

/-- **C07 (Poisson certificate, unbounded sources)**: when the gradient at dreye's answer `x̂` has a slightly negative entry on a
    source without upper bound, the gap at `x̂` is infinite; the gap is then evaluated at a nearby in-bound point `x'`
    (where it is finite, `m' = min_box g'·z`) and carried back by the tangent inequality at `x̂`:
    `obj(x̂) ≤ obj(y) + (g·x̂ − g·x') + (g'·x' − m')` for every in-bound `y`. All three terms are rational. -/
theorem poisson_shifted_gap_bound (n : ℕ) (A' : List (List ℝ)) (base' w b lb : List ℝ) (ub : List (Option ℝ))
    (x x' y : List ℝ) (m : ℝ)
    (hA : ∀ r ∈ A', r.length = n) (hbase : base'.length = A'.length) (hwl : w.length = A'.length)
    (hbl : b.length = A'.length) (hxn : x'.length = n) (hxx : x'.length = x.length)
    (hx : inBox lb ub x' = true) (hy : inBox lb ub y = true)
    (hw : ∀ v ∈ w, 0 ≤ v) (hb : ∀ v ∈ b, 0 ≤ v)
    (hpx : ∀ v ∈ totalCapture A' base' x, 0 < v) (hpx' : ∀ v ∈ totalCapture A' base' x', 0 < v)
    (hpy : ∀ v ∈ totalCapture A' base' y, 0 < v)
    (hm : boxMinLin (poissonGrad n A' w b (totalCapture A' base' x')) lb ub = some m) :
    poissonObj w b (totalCapture A' base' x) ≤ poissonObj w b (totalCapture A' base' y)
      + (dot (poissonGrad n A' w b (totalCapture A' base' x)) x - dot (poissonGrad n A' w b (totalCapture A' base' x)) x')
      + (dot (poissonGrad n A' w b (totalCapture A' base' x')) x' - m) := by
  have h1 := poisson_tangent_x n A' base' w b x x' hA hbase hwl hbl hxx hw hb hpx hpx'
  have h2 := poisson_gap_bound n A' base' w b lb ub x' y m hA hbase hwl hbl hxn hx hy hw hb hpx' hpy hm
  linarith

/-- **C07 (in gamut, the Poisson optimum reproduces the target)**: the objective at `p = b` is not larger
    than at any other positive prediction (Gibbs' inequality). -/
theorem poisson_min_at_target (w b p : List ℝ) (hl1 : w.length = b.length) (hl2 : b.length = p.length)
    (hw : ∀ v ∈ w, 0 ≤ v) (hb : ∀ v ∈ b, 0 < v) (hp : ∀ v ∈ p, 0 < v) :
    poissonObj w b b ≤ poissonObj w b p := by
  induction w generalizing b p with
  | nil => simp [poissonObj_nil]
  | cons wc ws ih =>
    cases b with
    | nil => simp at hl1
    | cons bc bs =>
      cases p with
      | nil => simp at hl2
      | cons pc ps =>
        have ih' := ih bs ps (by simpa using hl1) (by simpa using hl2)
          (fun v hv => hw v (List.mem_cons_of_mem _ hv)) (fun v hv => hb v (List.mem_cons_of_mem _ hv))
          (fun v hv => hp v (List.mem_cons_of_mem _ hv))
        have hwc : 0 ≤ wc := hw wc List.mem_cons_self
        have hbc : 0 < bc := hb bc List.mem_cons_self
        have ht := poisson_term_tangent bc bc pc hbc.le hbc (hp pc List.mem_cons_self)
        rw [div_self hbc.ne', sub_self, zero_mul, add_zero] at ht
        have ht' := mul_le_mul_of_nonneg_left ht hwc
        rw [poissonObj_cons, poissonObj_cons]
        nlinarith [ht', ih']

end poisson

end C07
end Dreye
