/-
  C06 — range of solutions is the exact per-source extent of the solution polytope
  `F = { x | lb ≤ x ≤ ub ∧ A x = b }`.
-/
import Dreye.Model.Range
import Dreye.Props.Cert
import Mathlib.Algebra.Order.Field.Basic
import Mathlib.Algebra.BigOperators.Group.List.Basic
import Mathlib.Tactic

namespace Dreye
namespace C06

variable {α : Type*} [Field α] [LinearOrder α] [IsStrictOrderedRing α]

/-- membership in the solution polytope -/
def Feasible (A : List (List α)) (b lb ub x : List α) : Prop :=
  x.length = lb.length ∧ x.length = ub.length ∧
  (∀ p ∈ lb.zip x, p.1 ≤ p.2) ∧ (∀ p ∈ x.zip ub, p.1 ≤ p.2) ∧ matVec A x = b

omit [Field α] [IsStrictOrderedRing α] in
theorem vle_iff : ∀ (a b : List α), vle a b = true ↔ ∀ p ∈ a.zip b, p.1 ≤ p.2
  | [], _ => by simp [vle]
  | _ :: _, [] => by simp [vle]
  | a :: as, b :: bs => by
      have ih := vle_iff as bs
      simp only [vle, List.zipWith_cons_cons, List.all_cons, id, Bool.and_eq_true,
        decide_eq_true_eq, List.zip_cons_cons, List.mem_cons, forall_eq_or_imp] at ih ⊢
      rw [ih]

/-- **C06 (accepted candidates are genuine solutions)**: whatever passes the acceptance test lies
    within the bounds and reproduces the target exactly. -/
theorem accepted_sound (A : List (List α)) (b lb ub x : List α)
    (hl : x.length = lb.length) (hu : x.length = ub.length) (h : accepted A b lb ub x = true) :
    Feasible A b lb ub x := by
  simp only [accepted, Bool.and_eq_true, decide_eq_true_eq] at h
  obtain ⟨⟨h1, h2⟩, h3⟩ := h
  exact ⟨hl, hu, (vle_iff _ _).1 h1, (vle_iff _ _).1 h2, h3⟩

omit [LinearOrder α] [IsStrictOrderedRing α] in
theorem getD_zipWith (f : α → α → α) (a b : List α) (j : ℕ) (ha : j < a.length) (hb : j < b.length) :
    (List.zipWith f a b).getD j 0 = f (a.getD j 0) (b.getD j 0) := by
  simp [List.getD_eq_getElem?_getD, List.getElem?_zipWith, List.getElem?_eq_getElem ha,
    List.getElem?_eq_getElem hb]

omit [Field α] [IsStrictOrderedRing α] in
theorem mn_le_left (a b : α) : mn a b ≤ a := by
  unfold mn; split_ifs with h
  · exact le_rfl
  · exact le_of_lt (not_le.1 h)
omit [Field α] [IsStrictOrderedRing α] in
theorem mn_le_right (a b : α) : mn a b ≤ b := by
  unfold mn; split_ifs with h
  · exact h
  · exact le_rfl
omit [Field α] [IsStrictOrderedRing α] in
theorem mn_eq (a b : α) : mn a b = a ∨ mn a b = b := by
  unfold mn; split_ifs <;> simp
omit [Field α] [IsStrictOrderedRing α] in
theorem le_mx_left (a b : α) : a ≤ mx a b := by
  unfold mx; split_ifs with h
  · exact h
  · exact le_rfl
omit [Field α] [IsStrictOrderedRing α] in
theorem le_mx_right (a b : α) : b ≤ mx a b := by
  unfold mx; split_ifs with h
  · exact le_rfl
  · exact le_of_lt (not_le.1 h)
omit [Field α] [IsStrictOrderedRing α] in
theorem mx_eq (a b : α) : mx a b = a ∨ mx a b = b := by
  unfold mx; split_ifs <;> simp

omit [LinearOrder α] [IsStrictOrderedRing α] in
/-- generic fold lemma: `f` is `mn` or `mx`, `R` the corresponding order -/
theorem foldl_rel (f : α → α → α) (R : α → α → Prop) (hrefl : ∀ a, R a a)
    (htrans : ∀ a b c, R a b → R b c → R a c) (hl : ∀ a b, R (f a b) a) (hr : ∀ a b, R (f a b) b)
    (j : ℕ) : ∀ (acc : List (List α)) (ub : List α), (∀ x ∈ acc, x.length = ub.length) → j < ub.length →
    R ((acc.foldl (fun m x => List.zipWith f m x) ub).getD j 0) (ub.getD j 0) ∧
    ∀ x ∈ acc, R ((acc.foldl (fun m x => List.zipWith f m x) ub).getD j 0) (x.getD j 0)
  | [], ub, _, _ => by simp [hrefl]
  | y :: acc, ub, hlen, hj => by
      have hy : y.length = ub.length := hlen y List.mem_cons_self
      have hlen' : (List.zipWith f ub y).length = ub.length := by simp [hy]
      have ih := foldl_rel f R hrefl htrans hl hr j acc (List.zipWith f ub y)
        (fun x hx => by rw [hlen']; exact hlen x (List.mem_cons_of_mem _ hx)) (by rw [hlen']; exact hj)
      rw [getD_zipWith f ub y j hj (by rw [hy]; exact hj)] at ih
      rw [List.foldl_cons]
      refine ⟨htrans _ _ _ ih.1 (hl _ _), ?_⟩
      intro x hx
      rcases List.mem_cons.1 hx with rfl | hx
      · exact htrans _ _ _ ih.1 (hr _ _)
      · exact ih.2 x hx

omit [LinearOrder α] [IsStrictOrderedRing α] in
theorem foldl_attained (f : α → α → α) (hf : ∀ a b, f a b = a ∨ f a b = b)
    (j : ℕ) : ∀ (acc : List (List α)) (ub : List α), (∀ x ∈ acc, x.length = ub.length) → j < ub.length →
    (acc.foldl (fun m x => List.zipWith f m x) ub).getD j 0 = ub.getD j 0 ∨
    ∃ x ∈ acc, (acc.foldl (fun m x => List.zipWith f m x) ub).getD j 0 = x.getD j 0
  | [], ub, _, _ => by simp
  | y :: acc, ub, hlen, hj => by
      have hy : y.length = ub.length := hlen y List.mem_cons_self
      have hlen' : (List.zipWith f ub y).length = ub.length := by simp [hy]
      have ih := foldl_attained f hf j acc (List.zipWith f ub y)
        (fun x hx => by rw [hlen']; exact hlen x (List.mem_cons_of_mem _ hx)) (by rw [hlen']; exact hj)
      rw [getD_zipWith f ub y j hj (by rw [hy]; exact hj)] at ih
      rw [List.foldl_cons]
      rcases ih with ih | ⟨x, hx, ih⟩
      · rcases hf (ub.getD j 0) (y.getD j 0) with h | h
        · left; rw [ih, h]
        · right; exact ⟨y, List.mem_cons_self, by rw [ih, h]⟩
      · right; exact ⟨x, List.mem_cons_of_mem _ hx, ih⟩

/-- coordinate-wise running minimum: below the start value and below every folded vector -/
theorem foldl_min_le (ub : List α) (acc : List (List α)) (hlen : ∀ x ∈ acc, x.length = ub.length) (j : ℕ)
    (hj : j < ub.length) :
    (acc.foldl (fun m x => List.zipWith mn m x) ub).getD j 0 ≤ ub.getD j 0 ∧
    ∀ x ∈ acc, (acc.foldl (fun m x => List.zipWith mn m x) ub).getD j 0 ≤ x.getD j 0 :=
  foldl_rel mn (· ≤ ·) le_refl (fun _ _ _ => le_trans) mn_le_left mn_le_right j acc ub hlen hj

/-- … and it is attained: it is the start value or a coordinate of one of the folded vectors -/
theorem foldl_min_attained (ub : List α) (acc : List (List α)) (hlen : ∀ x ∈ acc, x.length = ub.length) (j : ℕ)
    (hj : j < ub.length) :
    (acc.foldl (fun m x => List.zipWith mn m x) ub).getD j 0 = ub.getD j 0 ∨
    ∃ x ∈ acc, (acc.foldl (fun m x => List.zipWith mn m x) ub).getD j 0 = x.getD j 0 :=
  foldl_attained mn mn_eq j acc ub hlen hj

theorem foldl_max_ge (lb : List α) (acc : List (List α)) (hlen : ∀ x ∈ acc, x.length = lb.length) (j : ℕ)
    (hj : j < lb.length) :
    lb.getD j 0 ≤ (acc.foldl (fun m x => List.zipWith mx m x) lb).getD j 0 ∧
    ∀ x ∈ acc, x.getD j 0 ≤ (acc.foldl (fun m x => List.zipWith mx m x) lb).getD j 0 :=
  foldl_rel mx (· ≥ ·) le_refl (fun _ _ _ h1 h2 => le_trans h2 h1) le_mx_left le_mx_right j acc lb hlen hj

theorem foldl_max_attained (lb : List α) (acc : List (List α)) (hlen : ∀ x ∈ acc, x.length = lb.length) (j : ℕ)
    (hj : j < lb.length) :
    (acc.foldl (fun m x => List.zipWith mx m x) lb).getD j 0 = lb.getD j 0 ∨
    ∃ x ∈ acc, (acc.foldl (fun m x => List.zipWith mx m x) lb).getD j 0 = x.getD j 0 :=
  foldl_attained mx mx_eq j acc lb hlen hj

theorem mapM_some_mem {β γ : Type*} (f : β → Option γ) : ∀ (l : List β) (cs : List γ),
    l.mapM f = some cs → ∀ c ∈ cs, ∃ a ∈ l, f a = some c
  | [], cs, h, c, hc => by
      simp at h; subst h; simp at hc
  | a :: l, cs, h, c, hc => by
      rw [List.mapM_cons] at h
      cases hfa : f a with
      | none => simp [hfa] at h
      | some b =>
        cases hl : l.mapM f with
        | none => simp [hfa, hl] at h
        | some bs =>
          simp [hfa, hl] at h
          subst h
          rcases List.mem_cons.1 hc with rfl | hc
          · exact ⟨a, List.mem_cons_self, hfa⟩
          · obtain ⟨a', ha', h'⟩ := mapM_some_mem f l bs hl c hc
            exact ⟨a', List.mem_cons_of_mem _ ha', h'⟩

omit [LinearOrder α] [IsStrictOrderedRing α] in
theorem basicSolution_length [DecidableEq α] (n : ℕ) (A : List (List α)) (b lb ub : List α) (r : List ℕ) (o : List Bool)
    (x : List α) (h : basicSolution n A b lb ub r o = some x) : x.length = n := by
  unfold basicSolution at h
  simp only at h
  split at h
  · simp at h
  · simp only [Option.some.injEq] at h
    subst h
    simp

omit [IsStrictOrderedRing α] in
theorem candidates_length (n : ℕ) (A : List (List α)) (b lb ub : List α) (cs : List (List α))
    (h : candidates n A b lb ub = some cs) : ∀ x ∈ cs, x.length = n := by
  intro x hx
  unfold candidates at h
  obtain ⟨ro, _, hro⟩ := mapM_some_mem _ _ _ h x hx
  exact basicSolution_length n A b lb ub ro.1 ro.2 x hro

omit [IsStrictOrderedRing α] in
theorem zip_le_getD (a b : List α) (j : ℕ) (h : ∀ p ∈ a.zip b, p.1 ≤ p.2) (ha : j < a.length)
    (hb : j < b.length) : a.getD j 0 ≤ b.getD j 0 := by
  have hz : j < (a.zip b).length := by simp [ha, hb]
  have hm : (a.zip b)[j] ∈ a.zip b := List.getElem_mem hz
  have := h _ hm
  rw [List.getElem_zip] at this
  simpa [List.getD_eq_getElem?_getD, List.getElem?_eq_getElem ha, List.getElem?_eq_getElem hb]
    using this

/-- **C06 (min ≤ max, both within the bounds, both attained by feasible points)**: if at least one
    candidate is accepted, then for every source `j` the reported ends satisfy
    `lb_j ≤ min_j ≤ max_j ≤ ub_j`, and each end is the `j`-th intensity of a feasible solution. -/
theorem range_ends (n : ℕ) (A : List (List α)) (b lb ub mins maxs : List α) (nc na : ℕ)
    (hlb : lb.length = n) (hub : ub.length = n)
    (hr : rangeOfSolutions n A b lb ub = some (mins, maxs, nc, na)) (hna : 0 < na) (j : ℕ) (hj : j < n) :
    lb.getD j 0 ≤ mins.getD j 0 ∧ mins.getD j 0 ≤ maxs.getD j 0 ∧ maxs.getD j 0 ≤ ub.getD j 0 ∧
    (∃ x, Feasible A b lb ub x ∧ x.getD j 0 = mins.getD j 0) ∧
    (∃ x, Feasible A b lb ub x ∧ x.getD j 0 = maxs.getD j 0) := by
  unfold rangeOfSolutions at hr
  cases hcs : candidates n A b lb ub with
  | none => simp [hcs] at hr
  | some cs =>
    simp only [hcs, Option.some.injEq, Prod.mk.injEq] at hr
    obtain ⟨hmins, hmaxs, _, hnacc⟩ := hr
    set acc := cs.filter (accepted A b lb ub) with hacc
    have hlen : ∀ x ∈ acc, x.length = n := fun x hx =>
      candidates_length n A b lb ub cs hcs x (List.mem_of_mem_filter hx)
    have hfeas : ∀ x ∈ acc, Feasible A b lb ub x := fun x hx =>
      accepted_sound A b lb ub x (by rw [hlen x hx, hlb]) (by rw [hlen x hx, hub])
        (List.mem_filter.1 hx).2
    have hbnd : ∀ x ∈ acc, lb.getD j 0 ≤ x.getD j 0 ∧ x.getD j 0 ≤ ub.getD j 0 := fun x hx => by
      obtain ⟨_, _, h1, h2, _⟩ := hfeas x hx
      have hxl := hlen x hx
      exact ⟨zip_le_getD lb x j h1 (by rw [hlb]; exact hj) (by rw [hxl]; exact hj),
        zip_le_getD x ub j h2 (by rw [hxl]; exact hj) (by rw [hub]; exact hj)⟩
    obtain ⟨x0, hx0⟩ : ∃ x0, x0 ∈ acc := by
      apply List.exists_mem_of_length_pos
      rw [hnacc]; exact hna
    have hlu : ∀ x ∈ acc, x.length = ub.length := fun x hx => by rw [hlen x hx, hub]
    have hll : ∀ x ∈ acc, x.length = lb.length := fun x hx => by rw [hlen x hx, hlb]
    have m1 := foldl_min_le ub acc hlu j (by rw [hub]; exact hj)
    have m2 := foldl_min_attained ub acc hlu j (by rw [hub]; exact hj)
    have M1 := foldl_max_ge lb acc hll j (by rw [hlb]; exact hj)
    have M2 := foldl_max_attained lb acc hll j (by rw [hlb]; exact hj)
    rw [hmins] at m1 m2
    rw [hmaxs] at M1 M2
    have hmin : ∃ x ∈ acc, x.getD j 0 = mins.getD j 0 := by
      rcases m2 with e | ⟨x, hx, e⟩
      · refine ⟨x0, hx0, le_antisymm ?_ (m1.2 x0 hx0)⟩
        rw [e]; exact (hbnd x0 hx0).2
      · exact ⟨x, hx, e.symm⟩
    have hmax : ∃ x ∈ acc, x.getD j 0 = maxs.getD j 0 := by
      rcases M2 with e | ⟨x, hx, e⟩
      · refine ⟨x0, hx0, le_antisymm (M1.2 x0 hx0) ?_⟩
        rw [e]; exact (hbnd x0 hx0).1
      · exact ⟨x, hx, e.symm⟩
    obtain ⟨xm, hxm, em⟩ := hmin
    obtain ⟨xM, hxM, eM⟩ := hmax
    refine ⟨?_, ?_, ?_, ⟨xm, hfeas xm hxm, em⟩, ⟨xM, hfeas xM hxM, eM⟩⟩
    · rw [← em]; exact (hbnd xm hxm).1
    · exact le_trans (m1.2 x0 hx0) (M1.2 x0 hx0)
    · rw [← eM]; exact (hbnd xM hxM).2

/-- the `j`-th unit vector of length `n` -/
def unitVec (n j : ℕ) : List α := (List.range n).map (fun i => if i = j then 1 else 0)

omit [LinearOrder α] [IsStrictOrderedRing α] in
theorem unitVec_succ_succ (n j : ℕ) : (unitVec (n + 1) (j + 1) : List α) = 0 :: unitVec n j := by
  simp [unitVec, List.range_succ_eq_map]

omit [LinearOrder α] [IsStrictOrderedRing α] in
theorem unitVec_succ_zero (n : ℕ) : (unitVec (n + 1) 0 : List α) = 1 :: List.replicate n 0 := by
  simp [unitVec, List.range_succ_eq_map, List.eq_replicate_iff]

omit [LinearOrder α] [IsStrictOrderedRing α] in
theorem dot_unitVec : ∀ (n j : ℕ) (x : List α), x.length = n → j < n →
    dot (unitVec n j) x = x.getD j 0
  | 0, _, _, _, hj => by omega
  | _ + 1, _, [], hx, _ => by simp at hx
  | n + 1, 0, a :: x, _, _ => by
      rw [unitVec_succ_zero, Cert.dot_cons, Cert.dot_replicate_zero]; simp
  | n + 1, j + 1, a :: x, hx, hj => by
      rw [unitVec_succ_succ, Cert.dot_cons, dot_unitVec n j x (by simpa using hx) (by omega)]
      simp

omit [LinearOrder α] [IsStrictOrderedRing α] in
theorem dot_neg_left : ∀ (r x : List α), dot (r.map (fun t => -t)) x = - dot r x
  | [], x => by simp [Cert.dot_nil_left]
  | _ :: _, [] => by simp [Cert.dot_nil_right]
  | a :: r, c :: x => by
      rw [List.map_cons, Cert.dot_cons, Cert.dot_cons, dot_neg_left r x]; ring

omit [LinearOrder α] [IsStrictOrderedRing α] in
theorem matVec_sym (A : List (List α)) (x : List α) :
    matVec (A ++ A.map (fun r => r.map (fun t => -t))) x
      = matVec A x ++ (matVec A x).map (fun t => -t) := by
  simp [matVec, dot_neg_left]

omit [Field α] [IsStrictOrderedRing α] in
theorem box_of_bounds : ∀ (lb ub x : List α), x.length = lb.length → x.length = ub.length →
    (∀ p ∈ lb.zip x, p.1 ≤ p.2) → (∀ p ∈ x.zip ub, p.1 ≤ p.2) → Cert.Box lb (ub.map some) x
  | [], [], [], _, _, _, _ => Cert.Box.nil
  | [], _, _ :: _, h, _, _, _ => by simp at h
  | _ :: _, _, [], h, _, _, _ => by simp at h
  | _, [], _ :: _, _, h, _, _ => by simp at h
  | _, _ :: _, [], _, h, _, _ => by simp at h
  | l :: lb, u :: ub, v :: x, h1, h2, h3, h4 => by
      simp only [List.zip_cons_cons, List.mem_cons, forall_eq_or_imp] at h3 h4
      rw [List.map_cons]
      refine Cert.Box.cons h3.1 ?_ (box_of_bounds lb ub x (by simpa using h1) (by simpa using h2) h3.2 h4.2)
      intro u' hu'
      simp only [Option.some.injEq] at hu'
      subst hu'
      exact h4.1

omit [Field α] [LinearOrder α] [IsStrictOrderedRing α] in
theorem zip_self_eq : ∀ (h : List α), ∀ p ∈ h.zip h, p.1 = p.2
  | [] => by simp
  | a :: h => by
      have ih := zip_self_eq h
      simp only [List.zip_cons_cons, List.mem_cons, forall_eq_or_imp]
      exact ⟨trivial, ih⟩

omit [IsStrictOrderedRing α] in
theorem linFeasible_of_feasible (A : List (List α)) (b lb ub x : List α) (hx : Feasible A b lb ub x) :
    linFeasible (A ++ A.map (fun r => r.map (fun t => -t))) (b ++ b.map (fun t => -t)) [] [] 0
      lb (ub.map some) x := by
  obtain ⟨h1, h2, h3, h4, h5⟩ := hx
  refine ⟨Cert.inBox_of_box (box_of_bounds lb ub x h1 h2 h3 h4), ?_, ?_, le_refl _⟩
  · rw [matVec_sym, h5]
    intro p hp
    exact le_of_eq (zip_self_eq _ p hp)
  · simp [lsObj, residual, matVec, vsub, Cert.dot_nil_left]

/-- **C06 (extremality from a dual certificate)**: multipliers accepted by the verified checker for the
    cost `e_j` over `{A x ≤ b, −A x ≤ −b, box}` bound the `j`-th intensity of *every* feasible solution
    from below; with cost `−e_j` from above. (Instance of `Cert.lin_lower_sound`.) -/
theorem lower_end_of_cert (n : ℕ) (A : List (List α)) (b lb : List α) (ub : List α) (lam : List α) (v : α) (j : ℕ)
    (x : List α) (hx : Feasible A b lb ub x) (hn : x.length = n) (hj : j < n)
    (hA : ∀ r ∈ A, r.length = n) (hb : A.length = b.length)
    (hc : linLower n (unitVec n j) (A ++ A.map (fun r => r.map (fun t => -t))) (b ++ b.map (fun t => -t))
            [] [] 0 lam [] 0 lb (ub.map some) = some v) :
    v ≤ x.getD j 0 := by
  have _ := hA; have _ := hb  -- not needed: the checker itself tests the shapes
  have h := Cert.lin_lower_sound n _ _ _ _ _ _ _ _ _ _ _ v x hc
    (linFeasible_of_feasible A b lb ub x hx) hn
  rwa [dot_unitVec n j x hn hj] at h

theorem upper_end_of_cert (n : ℕ) (A : List (List α)) (b lb : List α) (ub : List α) (lam : List α) (v : α) (j : ℕ)
    (x : List α) (hx : Feasible A b lb ub x) (hn : x.length = n) (hj : j < n)
    (hA : ∀ r ∈ A, r.length = n) (hb : A.length = b.length)
    (hc : linLower n ((unitVec n j).map (fun t => -t)) (A ++ A.map (fun r => r.map (fun t => -t)))
            (b ++ b.map (fun t => -t)) [] [] 0 lam [] 0 lb (ub.map some) = some v) :
    x.getD j 0 ≤ -v := by
  have _ := hA; have _ := hb  -- not needed: the checker itself tests the shapes
  have h := Cert.lin_lower_sound n _ _ _ _ _ _ _ _ _ _ _ v x hc
    (linFeasible_of_feasible A b lb ub x hx) hn
  rw [dot_neg_left, dot_unitVec n j x hn hj] at h
  linarith

theorem seg_lower (a c t : α) (hat : a ≤ t) (htc : t ≤ c) : ∀ (lb p q : List α),
    (∀ z ∈ lb.zip (vadd p (smul a q)), z.1 ≤ z.2) → (∀ z ∈ lb.zip (vadd p (smul c q)), z.1 ≤ z.2) →
    ∀ z ∈ lb.zip (vadd p (smul t q)), z.1 ≤ z.2
  | [], _, _ => by simp
  | _ :: _, [], _ => by simp [vadd]
  | _ :: _, _ :: _, [] => by simp [vadd, smul]
  | l :: lb, p :: ps, q :: qs => by
      have ih := seg_lower a c t hat htc lb ps qs
      simp only [vadd, smul, List.map_cons, List.zipWith_cons_cons, List.zip_cons_cons,
        List.mem_cons, forall_eq_or_imp] at ih ⊢
      rintro ⟨h1, h2⟩ ⟨h3, h4⟩
      refine ⟨?_, ih h2 h4⟩
      rcases le_total 0 q with hq | hq
      · have := mul_le_mul_of_nonneg_right hat hq
        linarith
      · have := mul_le_mul_of_nonpos_right htc hq
        linarith

theorem seg_upper (a c t : α) (hat : a ≤ t) (htc : t ≤ c) : ∀ (ub p q : List α),
    (∀ z ∈ (vadd p (smul a q)).zip ub, z.1 ≤ z.2) → (∀ z ∈ (vadd p (smul c q)).zip ub, z.1 ≤ z.2) →
    ∀ z ∈ (vadd p (smul t q)).zip ub, z.1 ≤ z.2
  | [], _, _ => by simp
  | _ :: _, [], _ => by simp [vadd]
  | _ :: _, _ :: _, [] => by simp [vadd, smul]
  | u :: ub, p :: ps, q :: qs => by
      have ih := seg_upper a c t hat htc ub ps qs
      simp only [vadd, smul, List.map_cons, List.zipWith_cons_cons, List.zip_cons_cons,
        List.mem_cons, forall_eq_or_imp] at ih ⊢
      rintro ⟨h1, h2⟩ ⟨h3, h4⟩
      refine ⟨?_, ih h2 h4⟩
      rcases le_total 0 q with hq | hq
      · have := mul_le_mul_of_nonneg_right htc hq
        linarith
      · have := mul_le_mul_of_nonpos_right hat hq
        linarith

/-- **C06 (spaced solutions stay in the polytope)**: points of an affine line `p + t q` between two
    parameter values at which the line is inside the box are inside the box. -/
theorem affine_segment_in_box (lb ub p q : List α) (a c t : α) (hat : a ≤ t) (htc : t ≤ c)
    (hl : p.length = lb.length) (hu : p.length = ub.length) (hq : q.length = p.length)
    (ha : (∀ z ∈ lb.zip (vadd p (smul a q)), z.1 ≤ z.2) ∧ (∀ z ∈ (vadd p (smul a q)).zip ub, z.1 ≤ z.2))
    (hc : (∀ z ∈ lb.zip (vadd p (smul c q)), z.1 ≤ z.2) ∧ (∀ z ∈ (vadd p (smul c q)).zip ub, z.1 ≤ z.2)) :
    (∀ z ∈ lb.zip (vadd p (smul t q)), z.1 ≤ z.2) ∧ (∀ z ∈ (vadd p (smul t q)).zip ub, z.1 ≤ z.2) :=
  have _ := hl; have _ := hu; have _ := hq  -- not needed: `zip`/`zipWith` truncate consistently
  ⟨seg_lower a c t hat htc lb p q ha.1 hc.1, seg_upper a c t hat htc ub p q ha.2 hc.2⟩

end C06
end Dreye
