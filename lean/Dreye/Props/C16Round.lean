/-
  C16 (barycentric half, round trips) — `cartesian_to_barycentric` really inverts `barycentric_to_cartesian`.
  The reverse conversion is `[x | 1] @ inv([T | 1])` with the Gauss–Jordan `inverse` of `Dreye/Model/Linalg.lean`;
  `LinalgProps.inverse_sound` says the result is a right inverse. Here: it is two-sided, it exists whenever the
  matrix has a trivial left kernel, and hence the conversions are mutual inverses (all option variants).
-/
import Dreye.Props.C16Bary
import Dreye.Props.Linalg
import Mathlib.LinearAlgebra.Matrix.NonsingularInverse
import Mathlib.LinearAlgebra.Matrix.ToLin

namespace Dreye
namespace LinalgProps

variable {α : Type*} [Field α] [DecidableEq α]

open Cert

set_option linter.unusedSectionVars false

/-- list-of-rows → Mathlib matrix -/
def toM (n : ℕ) (A : List (List α)) : Matrix (Fin n) (Fin n) α := fun i j => (A.getD i []).getD j 0
/-- list → vector -/
def toV (n : ℕ) (w : List α) : Fin n → α := fun i => w.getD i 0

theorem toV_injective (n : ℕ) (a b : List α) (ha : a.length = n) (hb : b.length = n)
    (h : toV n a = toV n b) : a = b := by
  apply List.ext_getElem (by rw [ha, hb])
  intro k hk1 hk2
  have := congrFun h ⟨k, by rw [← ha]; exact hk1⟩
  simpa [toV, List.getD_eq_getElem?_getD, hk1, hk2] using this

theorem getD_map_getD (R : List (List α)) (k j : ℕ) :
    (R.map (fun r => r.getD k 0)).getD j 0 = (R.getD j []).getD k 0 := by
  by_cases h : j < R.length
  · simp [List.getD_eq_getElem?_getD, h]
  · simp [List.getD_eq_getElem?_getD, h]

theorem toV_linComb (n : ℕ) (w : List α) (R : List (List α)) (hw : w.length ≤ n)
    (hR : ∀ r ∈ R, r.length = n) :
    toV n (linComb n w R) = Matrix.vecMul (toV n w) (toM n R) := by
  funext k
  simp only [toV, Matrix.vecMul, dotProduct, toM]
  rw [getD_linComb n k k.2 w R hR, dot_eq_sum w _ n hw, ← Fin.sum_univ_eq_sum_range
    (fun j => w.getD j 0 * (R.map (fun r => r.getD (↑k) 0)).getD j 0)]
  refine Finset.sum_congr rfl (fun j _ => ?_)
  rw [getD_map_getD]

theorem toM_mul_eq_one (A Ainv : List (List α)) (hA : ∀ r ∈ A, r.length = A.length)
    (h : inverse A = some Ainv) : toM A.length A * toM A.length Ainv = 1 := by
  obtain ⟨hl, hr, he⟩ := inverse_sound A Ainv hA h
  ext i k
  have hi : (i : ℕ) < A.length := i.2
  have h1 : linComb A.length A[(i : ℕ)] Ainv = (eye A.length : List (List α))[(i : ℕ)]'(by rw [eye_length]; exact hi) := by
    have := congrArg (fun L => L[(i : ℕ)]?) he
    simpa [hi, eye_length] using this
  have h2 := congrFun (toV_linComb A.length A[(i : ℕ)] Ainv (le_of_eq (hA _ (List.getElem_mem _))) hr) k
  rw [h1, eye_getElem] at h2
  have h3 : toV A.length A[(i : ℕ)] = fun j => toM A.length A i j := by
    funext j; simp [toV, toM, List.getD_eq_getElem?_getD, hi]
  rw [h3] at h2
  have h4 : Matrix.vecMul (fun j => toM A.length A i j) (toM A.length Ainv) k
      = (toM A.length A * toM A.length Ainv) i k := by
    simp [Matrix.vecMul, Matrix.mul_apply, dotProduct]
  rw [← h4, ← h2]
  simp [toV, List.getD_eq_getElem?_getD, Matrix.one_apply, Fin.ext_iff]

/-- **`inverse` is two-sided**: the right inverse returned by Gauss–Jordan is also a left inverse: `(w · A⁻¹) · A = w`. -/
theorem inverse_left (A Ainv : List (List α)) (hA : ∀ r ∈ A, r.length = A.length)
    (h : inverse A = some Ainv) (w : List α) (hw : w.length = A.length) :
    linComb A.length (linComb A.length w Ainv) A = w := by
  obtain ⟨hl, hr, he⟩ := inverse_sound A Ainv hA h
  have h1 := toM_mul_eq_one A Ainv hA h
  have h2 := mul_eq_one_comm.1 h1
  have hl1 := linComb_length A.length w Ainv hr
  apply toV_injective A.length _ _ (linComb_length _ _ _ hA) hw
  rw [toV_linComb _ _ _ (le_of_eq hl1) hA, toV_linComb _ _ _ (le_of_eq hw) hr,
    Matrix.vecMul_vecMul, h2, Matrix.vecMul_one]

/-- … and `(w · A) · A⁻¹ = w`. -/
theorem inverse_right (A Ainv : List (List α)) (hA : ∀ r ∈ A, r.length = A.length)
    (h : inverse A = some Ainv) (w : List α) (hw : w.length = A.length) :
    linComb A.length (linComb A.length w A) Ainv = w := by
  obtain ⟨hl, hr, he⟩ := inverse_sound A Ainv hA h
  have h1 := toM_mul_eq_one A Ainv hA h
  have hl1 := linComb_length A.length w A hA
  apply toV_injective A.length _ _ (linComb_length _ _ _ hr) hw
  rw [toV_linComb _ _ _ (le_of_eq hl1) hr, toV_linComb _ _ _ (le_of_eq hw) hA,
    Matrix.vecMul_vecMul, h1, Matrix.vecMul_one]

theorem toV_ofFn (n : ℕ) (v : Fin n → α) : toV n (List.ofFn v) = v := by
  funext i
  simp [toV, List.getD_eq_getElem?_getD]

/-- **`inverse` is complete**: a square matrix with trivial left kernel (`w · A = 0 → w = 0`) is inverted. -/
theorem inverse_complete (A : List (List α)) (hA : ∀ r ∈ A, r.length = A.length)
    (hinj : ∀ w : List α, w.length = A.length → linComb A.length w A = List.replicate A.length 0 →
      w = List.replicate A.length 0) :
    ∃ Ainv, inverse A = some Ainv := by
  set n := A.length with hn
  -- the matrix is a unit
  have hzero : toV n (List.replicate n (0 : α)) = 0 := by
    funext i; simp [toV, List.getD_eq_getElem?_getD]
  have hvinj : Function.Injective (toM n A).vecMul := by
    intro v1 v2 hv
    have hd : Matrix.vecMul (v1 - v2) (toM n A) = 0 := by
      rw [Matrix.sub_vecMul]; exact sub_eq_zero.2 hv
    have hwl : (List.ofFn (v1 - v2)).length = n := by simp
    have hw := hinj (List.ofFn (v1 - v2)) hwl (by
      apply toV_injective n _ _ (linComb_length _ _ _ hA) (by simp)
      rw [toV_linComb n _ _ (le_of_eq hwl) hA, toV_ofFn, hd, hzero])
    have := congrArg (toV n) hw
    rw [toV_ofFn, hzero] at this
    exact sub_eq_zero.1 this
  have hmv : Function.Injective (toM n A).mulVec :=
    Matrix.mulVec_injective_iff_isUnit.2 (Matrix.vecMul_injective_iff_isUnit.1 hvinj)
  have hinit : Inv n (n + n) [] (List.zipWith (fun r e => r ++ e) A (eye n)) := by
    apply inv_init n (n + n) _ (Nat.le_add_right n n)
    · intro r hr
      obtain ⟨k, hk, rfl⟩ := List.getElem_of_mem hr
      simp only [List.getElem_zipWith, List.length_append, eye_getElem, List.length_map,
        List.length_range]
      rw [hA _ (List.getElem_mem _)]
    · simp [eye_length, ← hn]
  have hns : NS n (n + n) ([] ++ List.zipWith (fun r e => r ++ e) A (eye n)) := by
    intro g hg hs j hj
    have hv : (toM n A).mulVec (fun i : Fin n => g i) = 0 := by
      funext a
      have ha : (a : ℕ) < A.length := a.2
      have hmem : A[(a : ℕ)] ++ (eye n)[(a : ℕ)]'(by rw [eye_length]; exact a.2)
          ∈ [] ++ List.zipWith (fun r e => r ++ e) A (eye n) := by
        rw [List.nil_append, List.mem_iff_getElem]
        exact ⟨a, by simp [eye_length, ← hn], by simp⟩
      have := hs _ hmem
      have hl : (A[(a : ℕ)] ++ (eye n : List (List α))[(a : ℕ)]'(by rw [eye_length]; exact a.2)).length = n + n := by
        rw [List.length_append, hA _ (List.getElem_mem _), eye_getElem]; simp
      rw [dot_map_range _ (n + n) g (le_of_eq hl), Finset.sum_range_add] at this
      have hz : ∑ x ∈ Finset.range n, (A[(a : ℕ)] ++ (eye n : List (List α))[(a : ℕ)]'(by rw [eye_length]; exact a.2)).getD (n + x) 0 * g (n + x) = 0 := by
        apply Finset.sum_eq_zero
        intro x _
        rw [hg (n + x) (by omega), mul_zero]
      rw [hz, add_zero, ← Fin.sum_univ_eq_sum_range (fun j => (A[(a : ℕ)] ++ (eye n : List (List α))[(a : ℕ)]'(by rw [eye_length]; exact a.2)).getD j 0 * g j)] at this
      simp only [Matrix.mulVec, dotProduct, toM, Pi.zero_apply]
      refine (Finset.sum_congr rfl (fun j _ => ?_)).trans this
      rw [getD_append_left' _ _ _ (by rw [hA _ (List.getElem_mem _)]; exact j.2)]
      simp [List.getD_eq_getElem?_getD, ha]
    have := hmv (a₁ := fun i : Fin n => g i) (a₂ := 0) (by rw [hv, Matrix.mulVec_zero])
    exact congrFun this ⟨j, hj⟩
  obtain ⟨rows, hr⟩ := gj_complete n (n + n) n [] _ hinit (by simp [eye_length, ← hn]) hns
  exact ⟨rows.map (fun r => r.drop n), by unfold inverse; simp only [← hn, hr]⟩

end LinalgProps
namespace C16
open LinalgProps

theorem rt_vsub_vadd_cancel : ∀ (a c : List ℝ), a.length = c.length → vsub (vadd a c) c = a
  | [], [], _ => by simp [vsub, vadd]
  | [], _ :: _, h => by simp at h
  | _ :: _, [], h => by simp at h
  | x :: a, z :: c, h => by
      have ih := rt_vsub_vadd_cancel a c (by simpa using h)
      simp only [vsub, vadd, List.zipWith_cons_cons] at ih ⊢
      rw [ih]; simp

theorem rt_vadd_vsub_cancel : ∀ (a c : List ℝ), a.length = c.length → vadd (vsub a c) c = a
  | [], [], _ => by simp [vsub, vadd]
  | [], _ :: _, h => by simp at h
  | _ :: _, [], h => by simp at h
  | x :: a, z :: c, h => by
      have ih := rt_vadd_vsub_cancel a c (by simpa using h)
      simp only [vsub, vadd, List.zipWith_cons_cons] at ih ⊢
      rw [ih]; simp

theorem aug_length (n : ℕ) : ((baryT n : List (List ℝ)).map (· ++ [(1 : ℝ)])).length = n := by
  simp [baryT_length]

theorem aug_row_length (n : ℕ) (hn : 1 ≤ n) :
    ∀ r ∈ (baryT n : List (List ℝ)).map (· ++ [(1 : ℝ)]), r.length = n := by
  intro r hr
  obtain ⟨t, ht, rfl⟩ := List.mem_map.1 hr
  rw [List.length_append, baryT_row_length n t ht]
  simp; omega

theorem aug_square (n : ℕ) (hn : 1 ≤ n) :
    ∀ r ∈ (baryT n : List (List ℝ)).map (· ++ [(1 : ℝ)]),
      r.length = ((baryT n : List (List ℝ)).map (· ++ [(1 : ℝ)])).length := by
  intro r hr
  rw [aug_length, aug_row_length n hn r hr]

theorem linComb_replicate_zero (m k : ℕ) (rows : List (List ℝ)) (hr : ∀ r ∈ rows, r.length = m) :
    linComb m (List.replicate k (0 : ℝ)) rows = List.replicate m 0 := by
  apply List.ext_getElem (by simp [linComb_length m _ _ hr])
  intro i h1 h2
  have hi : i < m := by simpa using h2
  have := LinalgProps.getD_linComb m i hi (List.replicate k (0 : ℝ)) rows hr
  rw [Cert.dot_replicate_zero] at this
  simpa [List.getD_eq_getElem?_getD, h1] using this

theorem baryCenter_length (n : ℕ) : (baryCenter n : List ℝ).length = n - 1 := by
  unfold baryCenter vecMat
  exact linComb_length _ _ _ (baryT_row_length n)

/-- the augmented matrix `[T | 1]` is invertible for `n ≥ 2` corners -/
theorem aug_inverse_exists (n : ℕ) (hn : 2 ≤ n) :
    ∃ inv, inverse ((baryT n : List (List ℝ)).map (· ++ [(1 : ℝ)])) = some inv := by
  apply inverse_complete _ (aug_square n (by omega))
  intro w hw h
  rw [aug_length] at hw h ⊢
  obtain ⟨N, rfl⟩ : ∃ N, n = N + 1 := ⟨n - 1, by omega⟩
  have hrl := baryT_row_length (N + 1)
  simp only [Nat.add_sub_cancel] at hrl
  rw [linComb_map_snoc N 1 w _ (by rw [hw, baryT_length]) hrl, List.replicate_succ'] at h
  obtain ⟨h1, h2⟩ := List.append_inj h (by simp [linComb_length N w _ hrl])
  have h2' : w.sum = 0 := by simpa using h2
  apply bary_injective_on_plane w _ (by simp [hw]) (by omega) (by simp [h2'])
  simp only [baryToCart, hw, List.length_replicate, Nat.add_sub_cancel, vecMat, Bool.false_eq_true,
    if_false]
  rw [h1, linComb_replicate_zero N _ _ hrl]

theorem cartToBary_eq (centered : Bool) (l1 : Option ℝ) (x : List ℝ) (inv : List (List ℝ))
    (hinv : inverse ((baryT (x.length + 1) : List (List ℝ)).map (· ++ [(1 : ℝ)])) = some inv) :
    cartToBary centered l1 x
      = some (match l1 with
        | none => linComb (x.length + 1)
            ((if centered then vadd x (baryCenter (x.length + 1)) else x) ++ [1]) inv
        | some s => (linComb (x.length + 1)
            ((if centered then vadd x (baryCenter (x.length + 1)) else x) ++ [1]) inv).map (· * s)) := by
  unfold cartToBary
  simp only [hinv, vecMat]
  cases l1 <;> rfl

/-- the augmented matrix `[T | 1]` of `cartesian_to_barycentric` is always inverted (dimension ≥ 1, i.e. `n ≥ 2` corners) -/
theorem cart_to_bary_succeeds (centered : Bool) (l1 : Option ℝ) (x : List ℝ) (hx : 1 ≤ x.length) :
    ∃ b, cartToBary centered l1 x = some b := by
  obtain ⟨inv, hinv⟩ := aug_inverse_exists (x.length + 1) (by omega)
  exact ⟨_, cartToBary_eq centered l1 x inv hinv⟩

/-- reverse then forward, for the vector computed with a given inverse of `[T | 1]` -/
theorem cart_bary_core (centered : Bool) (x : List ℝ) (inv : List (List ℝ))
    (hinv : inverse ((baryT (x.length + 1) : List (List ℝ)).map (· ++ [(1 : ℝ)])) = some inv) :
    let b := linComb (x.length + 1)
      ((if centered then vadd x (baryCenter (x.length + 1)) else x) ++ [1]) inv
    b.length = x.length + 1 ∧ b.sum = 1 ∧ baryToCart centered b = x := by
  intro b
  have hsq := aug_square (x.length + 1) (by omega)
  obtain ⟨hil, hir, -⟩ := inverse_sound _ inv hsq hinv
  rw [aug_length] at hil hir
  have hcl := baryCenter_length (x.length + 1)
  simp only [Nat.add_sub_cancel] at hcl
  set x' := (if centered then vadd x (baryCenter (x.length + 1)) else x) with hx'
  have hx'l : x'.length = x.length := by
    rw [hx']; split_ifs
    · simp [vadd, hcl]
    · rfl
  have hbl : b.length = x.length + 1 := linComb_length _ _ _ hir
  have hleft := inverse_left _ inv hsq hinv (x' ++ [1]) (by rw [aug_length]; simp [hx'l])
  rw [aug_length] at hleft
  have hspec := cart_to_bary_spec x' b (by rw [hx'l]; exact hbl) (by rw [hx'l]; exact hleft)
  refine ⟨hbl, hspec.2, ?_⟩
  cases centered with
  | false => simpa [hx'] using hspec.1
  | true =>
    rw [bary_centered, hspec.1, hbl, hx']
    simp only [if_true]
    exact rt_vsub_vadd_cancel x _ hcl.symm

/-- **C16 (reverse then forward)**: whatever `cartesian_to_barycentric(x, L1=None, centered=c)` returns has `n` coordinates
    summing to 1 and is mapped back to `x` by `barycentric_to_cartesian(·, center=c)`. -/
theorem cart_bary_roundtrip (centered : Bool) (x b : List ℝ) (hx : 1 ≤ x.length)
    (h : cartToBary centered none x = some b) :
    b.length = x.length + 1 ∧ b.sum = 1 ∧ baryToCart centered b = x := by
  obtain ⟨inv, hinv⟩ := aug_inverse_exists (x.length + 1) (by omega)
  rw [cartToBary_eq centered none x inv hinv] at h
  simp only [Option.some.injEq] at h
  subst h
  exact cart_bary_core centered x inv hinv

/-- with a requested total `L1 = s`: the coordinates sum to `s`, and the point of the unit simplex they describe
    (coordinates divided by `s`) is mapped back to `x`. -/
theorem cart_bary_roundtrip_l1 (centered : Bool) (s : ℝ) (hs : s ≠ 0) (x b : List ℝ) (hx : 1 ≤ x.length)
    (h : cartToBary centered (some s) x = some b) :
    b.length = x.length + 1 ∧ b.sum = s ∧ baryToCart centered (b.map (· / s)) = x := by
  obtain ⟨inv, hinv⟩ := aug_inverse_exists (x.length + 1) (by omega)
  rw [cartToBary_eq centered (some s) x inv hinv] at h
  simp only [Option.some.injEq] at h
  subst h
  obtain ⟨h1, h2, h3⟩ := cart_bary_core centered x inv hinv
  refine ⟨by rw [List.length_map, h1], cart_to_bary_l1 _ s h2, ?_⟩
  have : ∀ b0 : List ℝ, (b0.map (· * s)).map (· / s) = b0 := by
    intro b0
    rw [List.map_map]
    conv_rhs => rw [← List.map_id b0]
    apply List.map_congr_left
    intro v _
    simp [hs]
  rw [this, h3]

/-- forward then reverse, both `L1` variants at once -/
theorem bary_cart_core (centered : Bool) (l1 : Option ℝ) (b : List ℝ) (hn : 2 ≤ b.length) (hsum : b.sum = 1) :
    cartToBary centered l1 (baryToCart centered b)
      = some (match l1 with | none => b | some s => b.map (· * s)) := by
  generalize hx : baryToCart centered b = x
  have hrl := baryT_row_length b.length
  have hyl : (linComb (b.length - 1) b (baryT b.length : List (List ℝ))).length = b.length - 1 :=
    linComb_length _ _ _ hrl
  have hxl : x.length = b.length - 1 := by
    rw [← hx]; unfold baryToCart vecMat
    split_ifs
    · simp [vsub, hyl, baryCenter_length]
    · exact hyl
  have e2 : b.length = x.length + 1 := by omega
  obtain ⟨inv, hinv⟩ := aug_inverse_exists (x.length + 1) (by omega)
  rw [cartToBary_eq centered l1 x inv hinv]
  have hcl := baryCenter_length (x.length + 1)
  simp only [Nat.add_sub_cancel] at hcl
  have hrl' := baryT_row_length (x.length + 1)
  simp only [Nat.add_sub_cancel] at hrl'
  have hyl' : (linComb x.length b (baryT (x.length + 1) : List (List ℝ))).length = x.length :=
    linComb_length _ _ _ hrl'
  have hx2 := hx
  unfold baryToCart vecMat at hx2
  rw [e2] at hx2
  simp only [Nat.add_sub_cancel] at hx2
  have hx' : (if centered then vadd x (baryCenter (x.length + 1)) else x)
      = linComb x.length b (baryT (x.length + 1)) := by
    cases centered with
    | false => simpa using hx2.symm
    | true =>
      simp only [if_true] at hx2 ⊢
      have := rt_vadd_vsub_cancel (linComb x.length b (baryT (x.length + 1) : List (List ℝ)))
        (baryCenter (x.length + 1)) (by rw [hyl', hcl])
      rw [hx2] at this
      exact this
  have hsq := aug_square (x.length + 1) (by omega)
  have hright := inverse_right _ inv hsq hinv b (by rw [aug_length]; exact e2)
  rw [aug_length, linComb_map_snoc x.length 1 b _ (by rw [baryT_length]; exact e2) hrl', hsum,
    one_mul, ← hx'] at hright
  rw [hright]

/-- **C16 (forward then reverse)**: barycentric coordinates summing to 1 are recovered exactly. -/
theorem bary_cart_roundtrip (centered : Bool) (b : List ℝ) (hn : 2 ≤ b.length) (hsum : b.sum = 1) :
    cartToBary centered none (baryToCart centered b) = some b :=
  bary_cart_core centered none b hn hsum

/-- forward then reverse with a requested total: coordinates summing to 1 come back multiplied by `L1`
    (so a capture vector with total `s` is recovered from its chromaticity when `L1 = s`). -/
theorem bary_cart_roundtrip_l1 (centered : Bool) (s : ℝ) (b : List ℝ) (hn : 2 ≤ b.length) (hsum : b.sum = 1) :
    cartToBary centered (some s) (baryToCart centered b) = some (b.map (· * s)) :=
  bary_cart_core centered (some s) b hn hsum

/-- non-vacuity: the premises are met by a concrete trichromatic point -/
example : (2 : ℕ) ≤ ([1/2, 1/4, 1/4] : List ℝ).length ∧ ([1/2, 1/4, 1/4] : List ℝ).sum = 1 := by
  constructor <;> norm_num

end C16
end Dreye
