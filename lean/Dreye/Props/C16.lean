/-
  C16 — barycentric and n-sphere coordinate transforms are exact mutual inverses.
  Theorems are over ℝ (`Transc ℝ` := Real.sqrt, Real.arccos, Real.cos, Real.sin, Real.pi).
-/
import Dreye.Model.Bary
import Dreye.Model.Sphere
import Mathlib.Analysis.SpecialFunctions.Trigonometric.Inverse
import Mathlib.Analysis.SpecialFunctions.Log.Basic
import Mathlib.Analysis.SpecialFunctions.Sqrt
import Mathlib.Algebra.BigOperators.Group.List.Basic
import Mathlib.Tactic

namespace Dreye

noncomputable instance instTranscReal : Transc ℝ where
  sqrt := Real.sqrt
  arccos := Real.arccos
  cos := Real.cos
  sin := Real.sin
  pi := Real.pi
  log := Real.log

namespace C16

/-! ## n-sphere coordinates -/

/-! ### helper lemmas -/

@[simp] theorem tsqrt (x : ℝ) : (Transc.sqrt x : ℝ) = Real.sqrt x := rfl
@[simp] theorem tarccos (x : ℝ) : (Transc.arccos x : ℝ) = Real.arccos x := rfl
@[simp] theorem tcos (x : ℝ) : (Transc.cos x : ℝ) = Real.cos x := rfl
@[simp] theorem tsin (x : ℝ) : (Transc.sin x : ℝ) = Real.sin x := rfl
@[simp] theorem tpi : (Transc.pi : ℝ) = Real.pi := rfl
@[simp] theorem two_eq : (two : ℝ) = 2 := by norm_num [two]

/-- sum of squares -/
noncomputable def Q (s : List ℝ) : ℝ := (s.map (fun v => v * v)).sum

theorem Q_nil : Q [] = 0 := by simp [Q]
theorem Q_cons (a : ℝ) (t : List ℝ) : Q (a :: t) = a * a + Q t := by simp [Q]

theorem Q_nonneg (s : List ℝ) : 0 ≤ Q s := by
  induction s with
  | nil => simp [Q_nil]
  | cons a t ih => rw [Q_cons]; nlinarith [mul_self_nonneg a]

theorem Q_eq_zero (s : List ℝ) : Q s = 0 ↔ ∀ v ∈ s, v = 0 := by
  induction s with
  | nil => simp [Q_nil]
  | cons a t ih =>
    rw [Q_cons]
    constructor
    · intro h
      have h1 : a * a = 0 := by nlinarith [mul_self_nonneg a, Q_nonneg t]
      have h2 : Q t = 0 := by nlinarith [mul_self_nonneg a, Q_nonneg t]
      intro v hv
      rcases List.mem_cons.1 hv with rfl | hv
      · exact mul_self_eq_zero.1 h1
      · exact ih.1 h2 v hv
    · intro h
      have ha : a = 0 := h a (List.mem_cons_self)
      have ht : Q t = 0 := ih.2 (fun v hv => h v (List.mem_cons_of_mem _ hv))
      rw [ha, ht]; ring

theorem l2_eq (s : List ℝ) : l2 s = Real.sqrt (Q s) := rfl

theorem l2_eq_zero (s : List ℝ) : l2 s = 0 ↔ ∀ v ∈ s, v = 0 := by
  rw [l2_eq, Real.sqrt_eq_zero (Q_nonneg s), Q_eq_zero]

theorem allZero_iff (s : List ℝ) : allZero s = true ↔ ∀ v ∈ s, v = 0 := by
  simp [allZero]

theorem allZero_iff_l2 (s : List ℝ) : allZero s = true ↔ l2 s = 0 := by
  rw [allZero_iff, l2_eq_zero]

theorem map_mul_of_zero (t : List ℝ) (k : ℝ) (h : ∀ v ∈ t, v = 0) :
    t.map (fun v => v * k) = t := by
  induction t with
  | nil => rfl
  | cons a t ih =>
    have ha : a = 0 := h a (List.mem_cons_self)
    rw [List.map_cons, ih (fun v hv => h v (List.mem_cons_of_mem _ hv)), ha, zero_mul]

/-- the trigonometric core: `cos (arccos (a/ρ)) = a/ρ` and `sin (arccos (a/ρ)) = √q/ρ` for `ρ = √(a²+q)` -/
theorem trig (a q : ℝ) (hq : 0 ≤ q) (hρ : Real.sqrt (a * a + q) ≠ 0) :
    Real.cos (Real.arccos (a / Real.sqrt (a * a + q))) = a / Real.sqrt (a * a + q) ∧
    Real.sin (Real.arccos (a / Real.sqrt (a * a + q))) = Real.sqrt q / Real.sqrt (a * a + q) := by
  set ρ := Real.sqrt (a * a + q) with hρdef
  have hρ0 : 0 ≤ ρ := Real.sqrt_nonneg _
  have hρpos : 0 < ρ := lt_of_le_of_ne hρ0 (Ne.symm hρ)
  have hsum : 0 ≤ a * a + q := by nlinarith [mul_self_nonneg a]
  have hρsq : ρ ^ 2 = a * a + q := Real.sq_sqrt hsum
  have habs : |a| ≤ ρ := Real.abs_le_sqrt (by nlinarith)
  have hle : |a / ρ| ≤ 1 := by
    rw [abs_div, abs_of_pos hρpos]
    exact (div_le_one hρpos).2 habs
  have hb := abs_le.1 hle
  refine ⟨Real.cos_arccos hb.1 hb.2, ?_⟩
  rw [Real.sin_arccos]
  have : 1 - (a / ρ) ^ 2 = q / ρ ^ 2 := by
    field_simp
    nlinarith
  rw [this, Real.sqrt_div hq, Real.sqrt_sq hρ0]

/-- `sphCoords` of the angles of a suffix `s`, started with running product `p`. -/
theorem sphCoords_sphAngles : ∀ (s : List ℝ), 2 ≤ s.length → ∀ p : ℝ,
    (l2 s ≠ 0 → sphCoords p (sphAngles s) = s.map (fun v => v * (p / l2 s))) ∧
    (l2 s = 0 → sphCoords p (sphAngles s) = p :: s.tail)
  | [], h, _ => by simp at h
  | [_], h, _ => by simp at h
  | [a, b], _, p => by
    have hQ : Q [a, b] = a * a + b * b := by simp [Q_cons, Q_nil]
    constructor
    · intro hne
      have hnz : allZero [a, b] = false := by
        rw [← Bool.not_eq_true, allZero_iff_l2]; exact hne
      rw [l2_eq, hQ] at hne
      obtain ⟨hc, hs⟩ := trig a (b * b) (mul_self_nonneg b) hne
      rw [Real.sqrt_mul_self_eq_abs] at hs
      have hρ : l2 [a, b] = Real.sqrt (a * a + b * b) := by rw [l2_eq, hQ]
      simp only [sphAngles, hnz, Bool.false_eq_true, if_false, hρ, tarccos, tpi, two_eq]
      split_ifs with hb
      · simp only [sphCoords, tcos, tsin, hc, hs, abs_of_nonneg hb, List.map_cons, List.map_nil]
        congr 1
        · ring
        · congr 1; ring
      · have hb' : b < 0 := lt_of_not_ge hb
        simp only [sphCoords, tcos, tsin, Real.cos_two_pi_sub, Real.sin_two_pi_sub, hc, hs,
          abs_of_neg hb', List.map_cons, List.map_nil]
        congr 1
        · ring
        · congr 1; ring
    · intro h0
      have hz : allZero [a, b] = true := (allZero_iff_l2 _).2 h0
      have hb : b = 0 := (l2_eq_zero _).1 h0 b (by simp)
      simp only [sphAngles, hz, if_true, sphCoords, tcos, tsin, Real.cos_zero, Real.sin_zero,
        mul_zero, one_mul, List.tail_cons]
      rw [hb]
  | a :: b :: c :: rest, _, p => by
    have ih := sphCoords_sphAngles (b :: c :: rest) (by simp)
    have hQ : Q (a :: b :: c :: rest) = a * a + Q (b :: c :: rest) := Q_cons _ _
    constructor
    · intro hne
      have hnz : allZero (a :: b :: c :: rest) = false := by
        rw [← Bool.not_eq_true, allZero_iff_l2]; exact hne
      have hρ : l2 (a :: b :: c :: rest) = Real.sqrt (a * a + Q (b :: c :: rest)) := by
        rw [l2_eq, hQ]
      rw [hρ] at hne
      obtain ⟨hc, hs⟩ := trig a (Q (b :: c :: rest)) (Q_nonneg _) hne
      rw [← l2_eq] at hs
      simp only [sphAngles, hnz, Bool.false_eq_true, if_false, hρ, tarccos, sphCoords, tcos, tsin,
        hc, hs, List.map_cons]
      rw [← hρ] at hne ⊢
      set ρ := l2 (a :: b :: c :: rest) with hρd
      congr 1
      · ring
      · by_cases ht : l2 (b :: c :: rest) = 0
        · have h2 := (ih (p * (l2 (b :: c :: rest) / ρ))).2 ht
          have hall := (l2_eq_zero _).1 ht
          have hb : b = 0 := hall b (by simp)
          rw [h2, ht]
          have := map_mul_of_zero (b :: c :: rest) (p / ρ) hall
          simp only [List.map_cons] at this
          rw [this]
          simp [hb]
        · have h1 := (ih (p * (l2 (b :: c :: rest) / ρ))).1 ht
          rw [h1]
          simp only [List.map_cons]
          have hk : p * (l2 (b :: c :: rest) / ρ) / l2 (b :: c :: rest) = p / ρ := by
            field_simp
          rw [hk]
    · intro h0
      have hz : allZero (a :: b :: c :: rest) = true := (allZero_iff_l2 _).2 h0
      have hall := (l2_eq_zero _).1 h0
      have hb : b = 0 := hall b (by simp)
      have ht : l2 (b :: c :: rest) = 0 :=
        (l2_eq_zero _).2 (fun v hv => hall v (List.mem_cons_of_mem _ hv))
      have h2 := (ih 0).2 ht
      simp only [sphAngles, hz, if_true, sphCoords, tcos, tsin, Real.cos_zero, Real.sin_zero,
        mul_zero, one_mul, h2, List.tail_cons]
      rw [hb]

theorem sphAngles_length : ∀ (s : List ℝ), (sphAngles s).length = s.length - 1
  | [] => rfl
  | [_] => rfl
  | [_, _] => rfl
  | a :: b :: c :: rest => by
    have ih := sphAngles_length (b :: c :: rest)
    simp only [sphAngles, List.length_cons] at ih ⊢
    omega

/-- every angle is in `[0, π]` except the last, which is in `[0, 2π]` -/
theorem sphAngles_ranges : ∀ (s : List ℝ), 2 ≤ s.length →
    (∀ i, i + 1 < (sphAngles s).length →
      0 ≤ (sphAngles s).getD i 0 ∧ (sphAngles s).getD i 0 ≤ Real.pi) ∧
    (0 ≤ (sphAngles s).getLastD 0 ∧ (sphAngles s).getLastD 0 ≤ 2 * Real.pi)
  | [], h => by simp at h
  | [_], h => by simp at h
  | [a, b], _ => by
    constructor
    · intro i hi
      simp [sphAngles] at hi
    · have h0 := Real.arccos_nonneg (a / l2 [a, b])
      have h1 := Real.arccos_le_pi (a / l2 [a, b])
      have hpi := Real.pi_pos
      simp only [sphAngles, tarccos, tpi, two_eq, List.getLastD_cons, List.getLastD_nil]
      split_ifs <;> constructor <;> linarith
  | a :: b :: c :: rest, _ => by
    have ih := sphAngles_ranges (b :: c :: rest) (by simp)
    have hlen := sphAngles_length (b :: c :: rest)
    obtain ⟨y, ys, hy⟩ : ∃ y ys, sphAngles (b :: c :: rest) = y :: ys := by
      cases hh : sphAngles (b :: c :: rest) with
      | nil => rw [hh] at hlen; simp at hlen
      | cons y ys => exact ⟨y, ys, rfl⟩
    have hhead : 0 ≤ (if allZero (a :: b :: c :: rest) then (0 : ℝ)
        else Real.arccos (a / l2 (a :: b :: c :: rest))) ∧
        (if allZero (a :: b :: c :: rest) then (0 : ℝ)
        else Real.arccos (a / l2 (a :: b :: c :: rest))) ≤ Real.pi := by
      have hpi := Real.pi_pos
      split_ifs
      · constructor <;> linarith
      · exact ⟨Real.arccos_nonneg _, Real.arccos_le_pi _⟩
    simp only [sphAngles, tarccos] at ih ⊢
    constructor
    · intro i hi
      cases i with
      | zero => simpa using hhead
      | succ j =>
        simp only [List.length_cons] at hi
        simpa using ih.1 j (by omega)
    · rw [hy] at ih ⊢
      simpa [List.getLastD_cons] using ih.2

/-! ### main theorems -/

/-- **C16 (radius)**: the first spherical coordinate is the Euclidean norm. -/
theorem sph_radius (x : List ℝ) (h : 2 ≤ x.length) :
    (cartToSph x).head? = some (Real.sqrt ((x.map (fun v => v * v)).sum)) := by
  match x, h with
  | [], h => simp at h
  | [_], h => simp at h
  | a :: b :: rest, _ => rfl

/-- shape: one radius and `d-1` angles -/
theorem sph_length (x : List ℝ) (h : 1 ≤ x.length) : (cartToSph x).length = x.length := by
  match x, h with
  | [], h => simp at h
  | [_], _ => rfl
  | a :: b :: rest, _ =>
    have := sphAngles_length (a :: b :: rest)
    simp only [cartToSph, List.length_cons] at this ⊢
    omega

/-- **C16 (polar angles in [0, π], azimuth in [0, 2π])**: every angle but the last lies in `[0, π]`,
    the last one in `[0, 2π]`. -/
theorem sph_angle_ranges (x : List ℝ) (h : 2 ≤ x.length) :
    (∀ i, i + 1 < (sphAngles x).length → 0 ≤ (sphAngles x).getD i 0 ∧ (sphAngles x).getD i 0 ≤ Real.pi) ∧
    (0 ≤ (sphAngles x).getLastD 0 ∧ (sphAngles x).getLastD 0 ≤ 2 * Real.pi) :=
  sphAngles_ranges x h

/-- **C16 (round trip)**: converting to n-sphere coordinates and back recovers the point — every
    dimension ≥ 2, every point, including the origin, axis points and negative coordinates. -/
theorem sph_roundtrip (x : List ℝ) (h : 2 ≤ x.length) : sphToCart (cartToSph x) = x := by
  match x, h with
  | [], h => simp at h
  | [_], h => simp at h
  | a :: b :: rest, h =>
    have hlen := sphAngles_length (a :: b :: rest)
    obtain ⟨y, ys, hy⟩ : ∃ y ys, sphAngles (a :: b :: rest) = y :: ys := by
      cases hh : sphAngles (a :: b :: rest) with
      | nil => rw [hh] at hlen; simp at hlen
      | cons y ys => exact ⟨y, ys, rfl⟩
    have hmain := sphCoords_sphAngles (a :: b :: rest) h 1
    have hcs : cartToSph (a :: b :: rest) = l2 (a :: b :: rest) :: sphAngles (a :: b :: rest) := rfl
    rw [hcs, hy]
    show (sphCoords 1 (y :: ys)).map (· * l2 (a :: b :: rest)) = a :: b :: rest
    rw [← hy]
    by_cases h0 : l2 (a :: b :: rest) = 0
    · have hall := (l2_eq_zero _).1 h0
      have ha : a = 0 := hall a (by simp)
      rw [hmain.2 h0, h0, List.map_cons, List.tail_cons, ha]
      have := map_mul_of_zero (b :: rest) 0 (fun v hv => hall v (List.mem_cons_of_mem _ hv))
      rw [this]; simp
    · rw [hmain.1 h0, List.map_map]
      have : ((fun v => v * l2 (a :: b :: rest)) ∘ fun v => v * (1 / l2 (a :: b :: rest))) = id := by
        funext v
        simp only [Function.comp, id]
        field_simp
      rw [this, List.map_id]

end C16
end Dreye
