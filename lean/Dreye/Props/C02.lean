/-
  C02 — a registered system is the exact linear model of the receptor responses.
-/
import Dreye.Model.System
import Dreye.Props.C01
import Mathlib.Algebra.Field.Basic
import Mathlib.Algebra.BigOperators.Group.List.Basic
import Mathlib.Tactic.Ring
import Mathlib.Tactic.FieldSimp

namespace Dreye
namespace C02
open C01

variable {α : Type*} [Field α]

/-! helper facts about the list algebra -/

private theorem integrate_zero (d : Dom α) (n : ℕ) : integrate d (List.replicate n (0:α)) = 0 := by
  have h := integrate_smul d (0:α) (List.replicate n (0:α))
  have e : smul (0:α) (List.replicate n (0:α)) = List.replicate n 0 := by
    simp [smul]
  rw [e] at h; simpa using h

private theorem vmul_replicate_zero (f : List α) (n : ℕ) (h : f.length = n) :
    vmul f (List.replicate n (0:α)) = List.replicate n 0 := by
  subst h
  induction f with
  | nil => simp [vmul]
  | cons a f ih =>
    simp only [vmul, List.length_cons, List.replicate_succ, List.zipWith_cons_cons, mul_zero] at ih ⊢
    rw [ih]

private theorem vadd_length (a b : List α) : (vadd a b).length = min a.length b.length := by
  simp [vadd]

private theorem linComb_length (n : ℕ) : ∀ (x : List α) (S : List (List α)),
    (∀ s ∈ S, s.length = n) → (linComb n x S).length = n
  | [], _, _ => by simp [linComb]
  | _ :: _, [], _ => by simp [linComb]
  | c :: x, s :: S, h => by
      have ih := linComb_length n x S (fun t ht => h t (List.mem_cons_of_mem _ ht))
      have hs := h s List.mem_cons_self
      simp only [linComb, List.zipWith_cons_cons, List.foldr_cons] at ih ⊢
      rw [vadd_length, ih]
      simp [smul, hs]

private theorem dot_cons (a : α) (r : List α) (c : α) (x : List α) :
    dot (a :: r) (c :: x) = a * c + dot r x := by
  simp [dot, vmul]

/-- **C02 (physical mixture)**: the capture predicted from intensities `x` through the registered
    matrix `A` equals the capture of the physically mixed spectrum `Σ_k x_k • source_k`, receptor by
    receptor, for any number of receptors, sources and domain points and all three integration rules. -/
theorem system_capture_eq_capture_of_mixture (d : Dom α) (n : ℕ) (F : List (List α))
    (hF : ∀ f ∈ F, f.length = n) :
    ∀ (x : List α) (S : List (List α)), x.length = S.length → (∀ s ∈ S, s.length = n) →
      systemCapture (systemA d F S) x = F.map (fun f => integrate d (vmul f (linComb n x S))) := by
  intro x S hx hS
  simp only [systemCapture, systemA, matVec, List.map_map]
  apply List.map_congr_left
  intro f hf
  have hfn := hF f hf
  simp only [Function.comp]
  clear hF hf
  induction S generalizing x with
  | nil =>
    cases x with
    | nil =>
      rw [show linComb n ([] : List α) [] = List.replicate n 0 from rfl,
        vmul_replicate_zero f n hfn, integrate_zero]
      rfl
    | cons _ _ => simp at hx
  | cons s S ih =>
    cases x with
    | nil => simp at hx
    | cons c x =>
      have hx' : x.length = S.length := by simpa using hx
      have hS' : ∀ t ∈ S, t.length = n := fun t ht => hS t (List.mem_cons_of_mem _ ht)
      have hs := hS s List.mem_cons_self
      have ih' := ih x hx' hS'
      simp only [List.map_cons, dot_cons]
      rw [ih']
      simp only [linComb, List.zipWith_cons_cons, List.foldr_cons]
      have hl : s.length = (List.foldr vadd (List.replicate n 0)
          (List.zipWith (fun c r => smul c r) x S)).length := by
        have := linComb_length n x S hS'
        simp only [linComb] at this
        rw [this, hs]
      rw [capture_linear_signal d c f s _ hl]
      ring

/-- **C02 (relative capture, per-receptor K)**: entry `i` is `K_i (q_i + baseline_i)`. -/
theorem relCapture_vec_entry (k base q : List α) (i : ℕ) (hq : i < q.length)
    (hk : k.length = q.length) (hb : base.length = q.length) (hk1 : k.length ≠ 1) (hb1 : base.length ≠ 1) :
    (relCapture (.vec k) base q)[i]? = some ((q[i] + base[i]'(by omega)) * k[i]'(by omega)) := by
  have eb : bcast q.length base = base := by
    unfold bcast; split
    · simp_all
    · rfl
  have ek : bcast q.length k = k := by
    unfold bcast; split
    · simp_all
    · rfl
  simp [relCapture, eb, ek, vmul, vadd, List.getElem?_zipWith, hq, hk, hb]

/-- **C02 (relative capture, scalar K and scalar baseline)**: entry `i` is `K (q_i + baseline)`. -/
theorem relCapture_scalar_entry (k base : α) (q : List α) (i : ℕ) (hq : i < q.length) :
    (relCapture (.vec [k]) [base] q)[i]? = some ((q[i] + base) * k) := by
  simp [relCapture, bcast, vmul, vadd, List.getElem?_zipWith, hq]

/-- **C02 (relative capture, matrix K)**: the result is the matrix–vector product `K (q + baseline)`. -/
theorem relCapture_mat (M : List (List α)) (base q : List α) :
    relCapture (.mat M) base q = matVec M (vadd q (bcast q.length base)) := rfl

/-- **C02 (adaptation to a background)**: after `K := 1/(q_bg + baseline)` the relative capture of that
    same background is exactly 1 in every receptor, provided no `q_bg + baseline` entry is zero. -/
theorem adapted_background_is_one (base qb : List α)
    (hshape : base.length = qb.length ∨ base.length = 1)
    (hne : ∀ v ∈ vadd qb (bcast qb.length base), v ≠ 0) :
    relCapture (.vec (adaptTo true base qb)) base qb = List.replicate qb.length 1 := by
  simp only [relCapture, adaptTo, if_true]
  have hw : (vadd qb (bcast qb.length base)).length = qb.length := by
    unfold vadd bcast
    rcases hshape with h | h
    · split
      · simp
      · simp [h]
    · match base, h with
      | [c], _ => simp
  generalize vadd qb (bcast qb.length base) = w at hne hw
  have key : ∀ (u : List α), (∀ v ∈ u, v ≠ 0) →
      vmul u (u.map fun v => 1 / v) = List.replicate u.length 1 := by
    intro u hu
    induction u with
    | nil => simp [vmul]
    | cons a u ih =>
      have ha : a ≠ 0 := hu a List.mem_cons_self
      have := ih (fun v hv => hu v (List.mem_cons_of_mem _ hv))
      simp only [vmul, List.map_cons, List.zipWith_cons_cons, List.length_cons, List.replicate_succ] at this ⊢
      rw [this]; congr 1; field_simp
  have hb : bcast qb.length (w.map fun v => 1 / v) = (w.map fun v => 1 / v) := by
    unfold bcast
    split
    · rename_i c hc
      have : w.length = 1 := by
        have := congrArg List.length hc
        simpa using this
      rw [hc, ← hw, this]; rfl
    · rfl
  rw [hb, key w hne, hw]

/-- same, for the intensity-vector form (`register_system_adaptation`): the background capture is
    `A x_bg`, so the statement is literally the previous one with `qb := systemCapture A x` -/
theorem adapted_system_is_one (A : List (List α)) (x base : List α)
    (hshape : base.length = (systemCapture A x).length ∨ base.length = 1)
    (hne : ∀ v ∈ vadd (systemCapture A x) (bcast (systemCapture A x).length base), v ≠ 0) :
    relCapture (.vec (adaptTo true base (systemCapture A x))) base (systemCapture A x) =
      List.replicate (systemCapture A x).length 1 :=
  adapted_background_is_one base (systemCapture A x) hshape hne

/-! non-vacuity: 3 receptors × 2 sources × 4 domain points, non-zero baseline -/
example :
    let F : List (List ℚ) := [[1,2,0,1],[0,1,1,2],[5,0,1,0]]
    let S : List (List ℚ) := [[1,1,2,0],[2,0,1,3]]
    let A := systemA (.step (1/2) true) F S
    systemCapture A [3, 1/2] = F.map (fun f => integrate (.step (1/2) true) (vmul f (linComb 4 [3, 1/2] S)))
    ∧ relCapture (.vec (adaptTo true [1,2,3] (systemCapture A [3,1/2]))) [1,2,3] (systemCapture A [3,1/2]) = [1,1,1] := by
  decide +kernel

end C02
end Dreye
