/-
  C13 — samples drawn in the gamut are in the gamut (the deterministic content), and the mixture
  scheme "simplex ∝ volume, uniform inside" is uniform on the union (finite additivity).
-/
import Dreye.Model.Sampling
import Dreye.Props.C03
import Mathlib.MeasureTheory.Measure.MeasureSpace
import Mathlib.MeasureTheory.Measure.AEDisjoint
import Mathlib.Tactic

namespace Dreye
namespace C13

section algebra
variable {α : Type*} [Field α] [LinearOrder α] [IsStrictOrderedRing α]

open Cert C03

section helpers
variable {β : Type*} [Field β]

theorem sum_map_div (c : β) (p : List β) : (p.map (· / c)).sum = p.sum / c := by
  induction p with
  | nil => simp
  | cons x p ih => simp only [List.map_cons, List.sum_cons, ih]; ring

theorem vadd_zero (n : ℕ) (a : List β) (h : a.length = n) : vadd a (List.replicate n 0) = a := by
  apply List.ext_getElem
  · simp [vadd, h]
  · intro i h1 h2
    simp [vadd]

theorem smul_zero_left (n : ℕ) (a : List β) (h : a.length = n) :
    smul (0 : β) a = List.replicate n 0 := by
  apply List.ext_getElem
  · simp [smul, h]
  · intro i h1 h2
    simp [smul]

theorem linComb_replicate_zero (d : ℕ) : ∀ (P : List (List β)) (m : ℕ), (∀ p ∈ P, p.length = d) →
    linComb d (List.replicate m (0 : β)) P = List.replicate d 0
  | [], m, _ => by rw [linComb_nil_right]
  | _ :: _, 0, _ => by rw [List.replicate_zero, linComb_nil_left]
  | r :: P, m + 1, hP => by
      have hP' : ∀ p ∈ P, p.length = d := fun p hp => hP p (List.mem_cons_of_mem _ hp)
      rw [List.replicate_succ, linComb_cons, linComb_replicate_zero d P m hP',
        smul_zero_left d r (hP r List.mem_cons_self), zero_vadd d _ (by simp)]

/-- weight `c` on position `i`, zero elsewhere -/
theorem linComb_single (d : ℕ) (c : β) : ∀ (P : List (List β)) (i : ℕ), i < P.length →
    (∀ p ∈ P, p.length = d) →
    linComb d ((List.replicate P.length (0 : β)).set i c) P = smul c (P.getD i [])
  | [], _, h, _ => by simp at h
  | r :: P, 0, _, hP => by
      have hP' : ∀ p ∈ P, p.length = d := fun p hp => hP p (List.mem_cons_of_mem _ hp)
      have hr := hP r List.mem_cons_self
      rw [List.length_cons, List.replicate_succ, List.set_cons_zero, linComb_cons,
        linComb_replicate_zero d P _ hP', vadd_zero d _ (by simp [smul, hr])]
      simp
  | r :: P, i + 1, h, hP => by
      have hP' : ∀ p ∈ P, p.length = d := fun p hp => hP p (List.mem_cons_of_mem _ hp)
      have hr := hP r List.mem_cons_self
      have ih := linComb_single d c P i (by simpa using h) hP'
      rw [List.length_cons, List.replicate_succ, List.set_cons_succ, linComb_cons, ih,
        smul_zero_left d r hr, zero_vadd d _ (by
          rw [smul_length]
          have : P.getD i [] ∈ P := by
            have h' : i < P.length := by simpa using h
            simp only [List.getD_eq_getElem?_getD, List.getElem?_eq_getElem h', Option.getD_some]
            exact List.getElem_mem _
          exact hP' _ this)]
      simp

theorem sum_single (c : β) : ∀ (n i : ℕ), i < n → ((List.replicate n (0 : β)).set i c).sum = c
  | 0, _, h => by simp at h
  | n + 1, 0, _ => by simp [List.replicate_succ]
  | n + 1, i + 1, h => by
      simp [List.replicate_succ, sum_single c n i (by omega)]

end helpers

theorem mem_zipWith_add_nonneg (a b : List α) (ha : ∀ v ∈ a, 0 ≤ v) (hb : ∀ v ∈ b, 0 ≤ v) :
    ∀ v ∈ List.zipWith (· + ·) a b, 0 ≤ v := by
  intro v hv
  obtain ⟨n, hn, rfl⟩ := List.mem_iff_getElem.1 hv
  rw [List.getElem_zipWith]
  exact add_nonneg (ha _ (List.getElem_mem _)) (hb _ (List.getElem_mem _))

theorem sample_in_conv_aux (d : ℕ) (P : List (List α)) (hP : ∀ p ∈ P, p.length = d) :
    ∀ (idx : List ℕ) (probs : List α), (∀ i ∈ idx, i < P.length) → probs.length = idx.length →
      (∀ v ∈ probs, 0 ≤ v) →
      ∃ w : List α, (∀ v ∈ w, 0 ≤ v) ∧ w.sum = probs.sum ∧ w.length = P.length ∧
        linComb d w P = linComb d probs (idx.map (fun i => P.getD i []))
  | [], [], _, _, _ => by
      refine ⟨List.replicate P.length 0, ?_, by simp, by simp, ?_⟩
      · intro v hv; rw [(List.mem_replicate.1 hv).2]
      · rw [linComb_replicate_zero d P _ hP, linComb_nil_left]
  | [], _ :: _, _, h, _ => by simp at h
  | _ :: _, [], _, h, _ => by simp at h
  | i :: idx, c :: probs, hidx, hl, hp => by
      obtain ⟨w', hw0, hws, hwl, hwc⟩ := sample_in_conv_aux d P hP idx probs
        (fun j hj => hidx j (List.mem_cons_of_mem _ hj)) (by simpa using hl)
        (fun v hv => hp v (List.mem_cons_of_mem _ hv))
      have hi : i < P.length := hidx i List.mem_cons_self
      have hc : 0 ≤ c := hp c List.mem_cons_self
      have hel : ((List.replicate P.length (0 : α)).set i c).length = P.length := by simp
      refine ⟨List.zipWith (· + ·) ((List.replicate P.length (0 : α)).set i c) w', ?_, ?_, ?_, ?_⟩
      · apply mem_zipWith_add_nonneg _ _ _ hw0
        intro v hv
        rcases List.mem_or_eq_of_mem_set hv with h | h
        · rw [(List.mem_replicate.1 h).2]
        · rw [h]; exact hc
      · rw [sum_zipWith_add _ _ (by rw [hel, hwl]), sum_single c _ _ hi, hws, List.sum_cons]
      · simp [hwl]
      · rw [linComb_add_weights d _ _ P hel hwl hP, linComb_single d c P i hi hP, hwc,
          List.map_cons, linComb_cons]

/-- **C13 (every sample is in the hull)**: barycentric weights (non-negative, summing to one) applied to
    vertices that are points of the cloud give a convex combination of the cloud — hence, by C03, a
    capture that in-bound intensities reproduce. `idx` are the positions of the simplex vertices in `P`. -/
theorem sample_in_conv (d : ℕ) (P : List (List α)) (idx : List ℕ) (probs : List α)
    (hP : ∀ p ∈ P, p.length = d) (hidx : ∀ i ∈ idx, i < P.length) (hl : probs.length = idx.length)
    (hp : (∀ v ∈ probs, 0 ≤ v) ∧ probs.sum = 1) :
    ∃ w : List α, (∀ v ∈ w, 0 ≤ v) ∧ w.sum = 1 ∧ w.length = P.length ∧
      convComb d w P = combine d probs (idx.map (fun i => P.getD i [])) := by
  obtain ⟨w, h0, hs, hlen, hc⟩ := sample_in_conv_aux d P hP idx probs hidx hl hp.1
  exact ⟨w, h0, hs.trans hp.2, hlen, hc⟩

/-- **C13 (QMC weights are valid)**: L1-normalising a non-negative engine point with positive sum gives
    barycentric weights. -/
theorem normalizeProbs_valid (p : List α) (hp : ∀ v ∈ p, 0 ≤ v) (hs : 0 < p.sum) :
    (∀ v ∈ normalizeProbs p, 0 ≤ v) ∧ (normalizeProbs p).sum = 1 := by
  constructor
  · intro v hv
    obtain ⟨x, hx, rfl⟩ := List.mem_map.1 hv
    exact div_nonneg (hp x hx) hs.le
  · unfold normalizeProbs
    rw [sum_map_div, div_self hs.ne']

/-- selection probabilities are a probability vector -/
theorem pvals_valid (vols : List α) (hv : ∀ v ∈ vols, 0 ≤ v) (hs : 0 < vols.sum) :
    (∀ v ∈ pvals vols, 0 ≤ v) ∧ (pvals vols).sum = 1 :=
  normalizeProbs_valid vols hv hs

end algebra

section measure
open MeasureTheory ENNReal

/-- **C13 (uniformity of the scheme, finite additivity)**: choose piece `i` with probability
    `vol(S_i)/vol(⋃S)` and then a point uniformly in `S_i`; if the pieces overlap only in null sets, the
    probability of landing in a measurable region `A` is `vol(A ∩ ⋃S)/vol(⋃S)` — proportional to volume.
    (That Delaunay simplices tile the hull with null overlaps, that `Generator.choice` realises the
    probabilities and that Dirichlet(1,…,1) weights are uniform on a simplex are engine facts.) -/
theorem mixture_uniform {Ω : Type*} [MeasurableSpace Ω] (vol : Measure Ω) {ι : Type*} (s : Finset ι)
    (S : ι → Set Ω) (hS : ∀ i ∈ s, MeasurableSet (S i))
    (hd : (s : Set ι).Pairwise (fun i j => AEDisjoint vol (S i) (S j)))
    (hfin : ∀ i ∈ s, vol (S i) ≠ ∞) (hpos : ∀ i ∈ s, vol (S i) ≠ 0)
    (A : Set Ω) (hA : MeasurableSet A) :
    ∑ i ∈ s, (vol (S i) / vol (⋃ i ∈ s, S i)) * (vol (A ∩ S i) / vol (S i))
      = vol (A ∩ ⋃ i ∈ s, S i) / vol (⋃ i ∈ s, S i) := by
  have hterm : ∀ i ∈ s, (vol (S i) / vol (⋃ i ∈ s, S i)) * (vol (A ∩ S i) / vol (S i))
      = vol (A ∩ S i) * (vol (⋃ i ∈ s, S i))⁻¹ := by
    intro i hi
    rw [div_eq_mul_inv, div_eq_mul_inv]
    calc vol (S i) * (vol (⋃ i ∈ s, S i))⁻¹ * (vol (A ∩ S i) * (vol (S i))⁻¹)
        = vol (A ∩ S i) * (vol (⋃ i ∈ s, S i))⁻¹ * (vol (S i) * (vol (S i))⁻¹) := by ring
      _ = vol (A ∩ S i) * (vol (⋃ i ∈ s, S i))⁻¹ := by
          rw [ENNReal.mul_inv_cancel (hpos i hi) (hfin i hi), mul_one]
  have hU : vol (A ∩ ⋃ i ∈ s, S i) = ∑ i ∈ s, vol (A ∩ S i) := by
    rw [Set.inter_iUnion₂]
    apply measure_biUnion_finset₀
    · intro i hi j hj hij
      exact (hd hi hj hij).mono Set.inter_subset_right Set.inter_subset_right
    · intro i hi
      exact (hA.inter (hS i hi)).nullMeasurableSet
  rw [Finset.sum_congr rfl hterm, ← Finset.sum_mul, div_eq_mul_inv, hU]

end measure

end C13
end Dreye
