/-
  C06 (full strength) — the enumeration of basic solutions finds the exact per-source extremes of
  `F = { x | lb ≤ x ≤ ub ∧ A x = b }`, for every size, over any ordered field.
-/
import Dreye.Model.Range
import Dreye.Props.C06
import Dreye.Props.C06Pivot
import Dreye.Props.C06Bridge
import Mathlib.Algebra.Order.Field.Basic
import Mathlib.LinearAlgebra.Dimension.Constructions
import Mathlib.LinearAlgebra.FiniteDimensional.Defs
import Mathlib.Tactic

namespace Dreye
namespace C06

variable {α : Type*} [Field α] [LinearOrder α] [IsStrictOrderedRing α]

/-- the sources that are *not* fixed at a bound in a candidate (the code's `np.delete(A, ridcs, axis=1)`) -/
def restOf (n : ℕ) (ridcs : List ℕ) : List ℕ := (List.range n).filter (fun j => !ridcs.contains j)

/-- "every square system the enumeration solves is uniquely solvable and `solve` solves it": the code's
    `np.linalg.solve` never raises and returns the solution (all `m × m` column sub-matrices of `A`
    are invertible). -/
def SquareSystemsSolvable (n : ℕ) (A : List (List α)) : Prop :=
  ∀ r ∈ combinations n (n - A.length), ∀ v : List α, v.length = A.length →
    ∃ z : List α, solve (selectCols A (restOf n r)) v = some z ∧ z.length = A.length ∧
      matVec (selectCols A (restOf n r)) z = v ∧
      ∀ z' : List α, z'.length = A.length → matVec (selectCols A (restOf n r)) z' = v → z' = z


/-! ### bookkeeping: the enumeration contains every index set / every on-off pattern -/

theorem mem_combinationsFrom : ∀ (n s k : ℕ) (r : List ℕ), r.length = k → r.Pairwise (· < ·) →
    (∀ i ∈ r, s ≤ i ∧ i < s + n) → r ∈ combinationsFrom s n k := by
  intro n
  induction n with
  | zero =>
    intro s k r hk hp hr
    cases k with
    | zero =>
      have : r = [] := List.length_eq_zero_iff.1 hk
      subst this; simp [combinationsFrom]
    | succ k =>
      match r, hk with
      | a :: r', _ =>
        have := hr a (by simp); omega
  | succ n ih =>
    intro s k r hk hp hr
    cases k with
    | zero =>
      have : r = [] := List.length_eq_zero_iff.1 hk
      subst this; simp [combinationsFrom]
    | succ k =>
      match r, hk, hp, hr with
      | a :: r', hk, hp, hr =>
        rw [combinationsFrom, List.mem_append]
        rw [List.pairwise_cons] at hp
        by_cases ha : a = s
        · left
          subst ha
          refine List.mem_map.2 ⟨r', ih (a + 1) k r' (by simpa using hk) hp.2 ?_, rfl⟩
          intro i hi
          have h1 := hp.1 i hi
          have h2 := (hr i (List.mem_cons_of_mem _ hi)).2
          omega
        · right
          refine ih (s + 1) (k + 1) (a :: r') hk (List.pairwise_cons.2 hp) ?_
          intro i hi
          have h0 := hr a (by simp)
          rcases List.mem_cons.1 hi with rfl | hi'
          · omega
          · have h1 := hp.1 i hi'
            have h2 := hr i hi
            omega

theorem mem_product01 : ∀ (o : List Bool), o ∈ product01 o.length
  | [] => by simp [product01]
  | b :: o => by
    have ih := mem_product01 o
    simp only [List.length_cons, product01, List.mem_append, List.mem_map]
    cases b
    · left; exact ⟨o, ih, rfl⟩
    · right; exact ⟨o, ih, rfl⟩

theorem mapM_some_mem' {β γ : Type*} (f : β → Option γ) : ∀ (l : List β) (cs : List γ),
    l.mapM f = some cs → ∀ a ∈ l, ∀ c, f a = some c → c ∈ cs
  | [], cs, _, a, ha, _, _ => by simp at ha
  | a0 :: l, cs, h, a, ha, c, hc => by
      rw [List.mapM_cons] at h
      cases hfa : f a0 with
      | none => simp [hfa] at h
      | some b =>
        cases hl : l.mapM f with
        | none => simp [hfa, hl] at h
        | some bs =>
          simp [hfa, hl] at h
          subst h
          rcases List.mem_cons.1 ha with rfl | ha
          · rw [hfa] at hc
            simp only [Option.some.injEq] at hc
            subst hc
            exact List.mem_cons_self
          · exact List.mem_cons_of_mem _ (mapM_some_mem' f l bs hl a ha c hc)

theorem zipWith_map_right_self {β γ δ : Type*} (f : β → γ → δ) (g : β → γ) : ∀ (l : List β),
    List.zipWith f l (l.map g) = l.map (fun a => f a (g a))
  | [] => rfl
  | a :: l => by simp [zipWith_map_right_self f g l]

theorem zipWith_map_map_self {β γ δ ε : Type*} (h : γ → δ → ε) (f : β → γ) (g : β → δ) : ∀ (l : List β),
    List.zipWith h (l.map f) (l.map g) = l.map (fun a => h (f a) (g a))
  | [] => rfl
  | a :: l => by simp [zipWith_map_map_self h f g l]

omit [LinearOrder α] [IsStrictOrderedRing α] in
theorem dot_map_map (f g : ℕ → α) : ∀ (l : List ℕ),
    dot (l.map f) (l.map g) = (l.map (fun k => f k * g k)).sum
  | [] => by simp [Cert.dot_nil_left]
  | a :: l => by simp [Cert.dot_cons, dot_map_map f g l]

theorem restOf_nodup (n : ℕ) (r : List ℕ) : (restOf n r).Nodup :=
  List.Nodup.filter _ List.nodup_range

theorem mem_restOf (n : ℕ) (r : List ℕ) (k : ℕ) : k ∈ restOf n r ↔ k < n ∧ k ∉ r := by
  simp [restOf]

theorem restOf_toFinset (n : ℕ) (r : List ℕ) :
    (restOf n r).toFinset = Finset.range n \ r.toFinset := by
  ext k
  simp [mem_restOf]

theorem restOf_length (n : ℕ) (r : List ℕ) (hr : r.Nodup) (hrn : ∀ k ∈ r, k < n) :
    (restOf n r).length = n - r.length := by
  rw [← List.toFinset_card_of_nodup (restOf_nodup n r), restOf_toFinset,
    Finset.card_sdiff_of_subset, Finset.card_range, List.toFinset_card_of_nodup hr]
  intro k hk
  exact Finset.mem_range.2 (hrn k (List.mem_toFinset.1 hk))

omit [LinearOrder α] [IsStrictOrderedRing α] in
/-- a dot product splits into the part over an index list and the part over the remaining indices -/
theorem dot_split (n : ℕ) (ρ x : List α) (r : List ℕ) (hr : r.Nodup) (hrn : ∀ k ∈ r, k < n)
    (hρ : ρ.length = n) :
    dot ρ x = dot (r.map (fun k => ρ.getD k 0)) (r.map (fun k => x.getD k 0)) +
      dot ((restOf n r).map (fun k => ρ.getD k 0)) ((restOf n r).map (fun k => x.getD k 0)) := by
  rw [dot_eq_sum_range, dot_map_map, dot_map_map, ← List.sum_toFinset _ hr,
    ← List.sum_toFinset _ (restOf_nodup n r), hρ, restOf_toFinset, add_comm, Finset.sum_sdiff]
  intro k hk
  exact Finset.mem_range.2 (hrn k (List.mem_toFinset.1 hk))

omit [IsStrictOrderedRing α] in
/-- a feasible point with at most `m` strictly interior coordinates is literally one of the enumerated
    candidates -/
theorem basic_is_candidate (n : ℕ) (A : List (List α)) (b lb ub x : List α)
    (hm : A.length < n) (hA : ∀ r ∈ A, r.length = n) (hb : b.length = A.length)
    (hlb : lb.length = n) (hub : ub.length = n) (hsolv : SquareSystemsSolvable n A)
    (hx : Feasible A b lb ub x) (hc : (freeSet n lb ub x).card ≤ A.length) :
    ∃ r ∈ combinations n (n - A.length), ∃ o ∈ product01 (n - A.length),
      basicSolution n A b lb ub r o = some x := by
  obtain ⟨hxl, hl, hu, hAx⟩ := feasible_getD hlb hub hx
  set NB := (Finset.range n).filter
    (fun k => ¬ (lb.getD k 0 < x.getD k 0 ∧ x.getD k 0 < ub.getD k 0)) with hNB
  have hcard : (freeSet n lb ub x).card + NB.card = n := by
    have := Finset.card_filter_add_card_filter_not (s := Finset.range n)
      (fun k => lb.getD k 0 < x.getD k 0 ∧ x.getD k 0 < ub.getD k 0)
    rw [Finset.card_range] at this
    exact this
  obtain ⟨S, hSsub, hScard⟩ := Finset.exists_subset_card_eq (s := NB) (n := n - A.length) (by omega)
  set r := S.sort with hr
  have hrlen : r.length = n - A.length := by rw [hr, Finset.length_sort, hScard]
  have hrpw : r.Pairwise (· < ·) := (Finset.sortedLT_sort S).pairwise
  have hrnd : r.Nodup := (Finset.sortedLT_sort S).nodup
  have hrNB : ∀ k ∈ r, k ∈ NB := fun k hk => hSsub ((Finset.mem_sort _).1 hk)
  have hrn : ∀ k ∈ r, k < n := fun k hk => by
    have := (Finset.mem_filter.1 (hrNB k hk)).1
    simpa using this
  have hrbd : ∀ k ∈ r, x.getD k 0 = lb.getD k 0 ∨ x.getD k 0 = ub.getD k 0 := fun k hk => by
    have h1 := (Finset.mem_filter.1 (hrNB k hk)).2
    have h2 := hl k (hrn k hk)
    have h3 := hu k (hrn k hk)
    by_contra hcon
    rw [not_or] at hcon
    exact h1 ⟨lt_of_le_of_ne h2 (Ne.symm hcon.1), lt_of_le_of_ne h3 hcon.2⟩
  have hrcomb : r ∈ combinations n (n - A.length) :=
    mem_combinationsFrom n 0 _ r hrlen hrpw (fun i hi => ⟨Nat.zero_le _, by simpa using hrn i hi⟩)
  set o := r.map (fun k => decide (x.getD k 0 = ub.getD k 0)) with ho
  have hocomb : o ∈ product01 (n - A.length) := by
    have := mem_product01 o
    simpa [ho, hrlen] using this
  refine ⟨r, hrcomb, o, hocomb, ?_⟩
  have hfix : List.zipWith (fun j (o : Bool) => if o then ub.getD j 0 else lb.getD j 0) r o
      = r.map (fun k => x.getD k 0) := by
    rw [ho, zipWith_map_right_self]
    apply List.map_congr_left
    intro k hk
    simp only [decide_eq_true_eq]
    by_cases hku : x.getD k 0 = ub.getD k 0
    · rw [if_pos hku, hku]
    · rcases hrbd k hk with e | e
      · rw [if_neg hku, e]
      · exact absurd e hku
  have hvlen : (vsub b (matVec (selectCols A r) (r.map (fun k => x.getD k 0)))).length = A.length := by
    simp [vsub, matVec, selectCols, hb]
  obtain ⟨z, hz, hzl, hzm, hzu⟩ := hsolv r hrcomb _ hvlen
  have hrestlen : (restOf n r).length = A.length := by
    rw [restOf_length n r hrnd hrn, hrlen]; omega
  have hzeq : (restOf n r).map (fun k => x.getD k 0) = z := by
    apply hzu _ (by simpa using hrestlen)
    rw [← hAx]
    simp only [matVec, selectCols, List.map_map, vsub, zipWith_map_map_self]
    apply List.map_congr_left
    intro ρ hρ
    simp only [Function.comp]
    rw [dot_split n ρ x r hrnd hrn (hA ρ hρ)]
    ring
  unfold basicSolution
  simp only [hfix]
  change (match solve (selectCols A (restOf n r))
      (vsub b (matVec (selectCols A r) (r.map (fun k => x.getD k 0)))) with
    | none => none
    | some sol => some ((List.range n).map (fun j =>
        match r.idxOf? j with
        | some p => (r.map (fun k => x.getD k 0)).getD p 0
        | none => match (restOf n r).idxOf? j with
          | some q => sol.getD q 0
          | none => 0))) = some x
  rw [hz]
  simp only [Option.some.injEq]
  conv_rhs => rw [← map_range_getD x, hxl]
  apply List.map_congr_left
  intro j hj
  have hjn : j < n := List.mem_range.1 hj
  cases h : r.idxOf? j with
  | some p =>
    obtain ⟨hp, hpj, _⟩ := List.idxOf?_eq_some_iff.1 h
    simp [List.getD_eq_getElem?_getD, List.getElem?_map, List.getElem?_eq_getElem hp, hpj]
  | none =>
    have hjr : j ∉ r := List.idxOf?_eq_none_iff.1 h
    have hjrest : j ∈ restOf n r := (mem_restOf n r j).2 ⟨hjn, hjr⟩
    cases h' : (restOf n r).idxOf? j with
    | none => exact absurd hjrest (List.idxOf?_eq_none_iff.1 h')
    | some q =>
      obtain ⟨hq, hqj, _⟩ := List.idxOf?_eq_some_iff.1 h'
      simp only [← hzeq]
      simp [List.getD_eq_getElem?_getD, List.getElem?_map, List.getElem?_eq_getElem hq, hqj]

/-- **C06 (exact extent, full strength)**: if the system is under-determined (`m < n`), every square
    system of the enumeration is uniquely solvable, and the target is reproducible within the bounds,
    then the reported minimum and maximum of every source are the least and the greatest intensity that
    source takes over *all* in-bound intensity vectors reproducing the target (and they are attained). -/
theorem range_exact (n : ℕ) (A : List (List α)) (b lb ub mins maxs : List α) (nc na : ℕ)
    (hm : A.length < n) (hA : ∀ r ∈ A, r.length = n) (hb : b.length = A.length)
    (hlb : lb.length = n) (hub : ub.length = n)
    (hsolv : SquareSystemsSolvable n A)
    (hF : ∃ x, Feasible A b lb ub x)
    (hr : rangeOfSolutions n A b lb ub = some (mins, maxs, nc, na)) :
    0 < na ∧ ∀ j, j < n →
      (∀ x, Feasible A b lb ub x → mins.getD j 0 ≤ x.getD j 0) ∧
      (∀ x, Feasible A b lb ub x → x.getD j 0 ≤ maxs.getD j 0) ∧
      (∃ x, Feasible A b lb ub x ∧ x.getD j 0 = mins.getD j 0) ∧
      (∃ x, Feasible A b lb ub x ∧ x.getD j 0 = maxs.getD j 0) := by
  have hr0 := hr
  unfold rangeOfSolutions at hr
  cases hcs : candidates n A b lb ub with
  | none => simp [hcs] at hr
  | some cs =>
    simp only [hcs, Option.some.injEq, Prod.mk.injEq] at hr
    obtain ⟨hmins, hmaxs, _, hnacc⟩ := hr
    set acc := cs.filter (accepted A b lb ub) with hacc
    -- every feasible point is dominated (in direction `s` of coordinate `j`) by an accepted candidate
    have key : ∀ (s : α) (j : ℕ), j < n → ∀ x, Feasible A b lb ub x →
        ∃ c ∈ acc, s * c.getD j 0 ≤ s * x.getD j 0 := by
      intro s j hj x hx
      obtain ⟨x', hx', hs, hc⟩ := exists_basic n A b lb ub hA hlb hub s j hj _ x hx rfl
      obtain ⟨r, hr, o, ho, hbs⟩ := basic_is_candidate n A b lb ub x' hm hA hb hlb hub hsolv hx' hc
      refine ⟨x', List.mem_filter.2 ⟨?_, ?_⟩, hs⟩
      · unfold candidates at hcs
        refine mapM_some_mem' _ _ _ hcs (r, o) ?_ x' hbs
        exact List.mem_flatMap.2 ⟨r, hr, List.mem_map.2 ⟨o, ho, rfl⟩⟩
      · simp only [accepted, Bool.and_eq_true, decide_eq_true_eq]
        exact ⟨⟨(vle_iff _ _).2 hx'.2.2.1, (vle_iff _ _).2 hx'.2.2.2.1⟩, hx'.2.2.2.2⟩
    have hna : 0 < na := by
      obtain ⟨x, hx⟩ := hF
      obtain ⟨c, hc, _⟩ := key 1 0 (by omega) x hx
      rw [← hnacc]
      exact List.length_pos_of_mem hc
    refine ⟨hna, fun j hj => ?_⟩
    obtain ⟨_, _, _, hmin, hmax⟩ := range_ends n A b lb ub mins maxs nc na hlb hub hr0 hna j hj
    have hlen : ∀ x ∈ acc, x.length = n := fun x hx =>
      candidates_length n A b lb ub cs hcs x (List.mem_of_mem_filter hx)
    refine ⟨?_, ?_, hmin, hmax⟩
    · intro x hx
      obtain ⟨c, hc, hcx⟩ := key 1 j hj x hx
      have := (foldl_min_le ub acc (fun y hy => by rw [hlen y hy, hub]) j (by rw [hub]; exact hj)).2 c hc
      rw [hmins] at this
      linarith
    · intro x hx
      obtain ⟨c, hc, hcx⟩ := key (-1) j hj x hx
      have := (foldl_max_ge lb acc (fun y hy => by rw [hlen y hy, hlb]) j (by rw [hlb]; exact hj)).2 c hc
      rw [hmaxs] at this
      linarith

end C06
end Dreye
