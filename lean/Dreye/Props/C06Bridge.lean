/-
  C06 — bridge between the list model (`Feasible`, `dot`, `matVec`) and index/`Finset` form, and the
  list-level pivot lemma: a feasible point with more than `m` strictly interior coordinates can be
  moved to a feasible point with fewer interior coordinates without increasing `s * x_j`.
-/
import Dreye.Model.Range
import Dreye.Props.C06
import Dreye.Props.C06Pivot

namespace Dreye
namespace C06

open Finset

section Field
variable {α : Type*} [Field α]

theorem dot_eq_sum_range : ∀ (r x : List α),
    dot r x = ∑ k ∈ range r.length, r.getD k 0 * x.getD k 0
  | [], x => by simp [Cert.dot_nil_left]
  | a :: r, [] => by simp [Cert.dot_nil_right]
  | a :: r, c :: x => by
      rw [Cert.dot_cons, dot_eq_sum_range r x, List.length_cons, Finset.sum_range_succ']
      simp [add_comm]

theorem getD_map_range (n : ℕ) (f : ℕ → α) (k : ℕ) (hk : k < n) :
    ((List.range n).map f).getD k 0 = f k := by
  simp [List.getD_eq_getElem?_getD, List.getElem?_map, List.getElem?_range hk]

theorem map_range_getD (x : List α) : (List.range x.length).map (fun k => x.getD k 0) = x := by
  apply List.ext_getElem
  · simp
  · intro i h1 h2
    simp [List.getD_eq_getElem?_getD, List.getElem?_eq_getElem h2]

end Field

variable {α : Type*} [Field α] [LinearOrder α] [IsStrictOrderedRing α]

omit [IsStrictOrderedRing α] in
theorem zip_le_of_getD (a b : List α) (n : ℕ) (ha : a.length = n) (hb : b.length = n)
    (h : ∀ k, k < n → a.getD k 0 ≤ b.getD k 0) : ∀ p ∈ a.zip b, p.1 ≤ p.2 := by
  intro p hp
  obtain ⟨i, hi, rfl⟩ := List.mem_iff_getElem.1 hp
  have hia : i < a.length := by simp at hi; omega
  have hib : i < b.length := by simp at hi; omega
  have := h i (by omega)
  simpa [List.getD_eq_getElem?_getD, List.getElem?_eq_getElem hia, List.getElem?_eq_getElem hib]
    using this

omit [IsStrictOrderedRing α] in
theorem feasible_getD {n : ℕ} {A : List (List α)} {b lb ub x : List α} (hlb : lb.length = n)
    (hub : ub.length = n) (hx : Feasible A b lb ub x) :
    x.length = n ∧ (∀ k, k < n → lb.getD k 0 ≤ x.getD k 0) ∧ (∀ k, k < n → x.getD k 0 ≤ ub.getD k 0) ∧
      matVec A x = b := by
  obtain ⟨h1, h2, h3, h4, h5⟩ := hx
  have hxl : x.length = n := by rw [h1, hlb]
  exact ⟨hxl, fun k hk => zip_le_getD lb x k h3 (by omega) (by omega),
    fun k hk => zip_le_getD x ub k h4 (by omega) (by omega), h5⟩

omit [IsStrictOrderedRing α] in
theorem feasible_of_getD {n : ℕ} {A : List (List α)} {b lb ub x : List α} (hlb : lb.length = n)
    (hub : ub.length = n) (hxl : x.length = n) (h1 : ∀ k, k < n → lb.getD k 0 ≤ x.getD k 0)
    (h2 : ∀ k, k < n → x.getD k 0 ≤ ub.getD k 0) (h3 : matVec A x = b) : Feasible A b lb ub x :=
  ⟨by rw [hxl, hlb], by rw [hxl, hub], zip_le_of_getD lb x n hlb hxl h1,
    zip_le_of_getD x ub n hxl hub h2, h3⟩

/-- the coordinates (below `n`) strictly between their bounds -/
def freeSet (n : ℕ) (lb ub x : List α) : Finset ℕ :=
  (range n).filter (fun k => lb.getD k 0 < x.getD k 0 ∧ x.getD k 0 < ub.getD k 0)

/-- **pivot lemma** (list form) -/
theorem pivot (n : ℕ) (A : List (List α)) (b lb ub x : List α) (hA : ∀ r ∈ A, r.length = n)
    (hlb : lb.length = n) (hub : ub.length = n) (hx : Feasible A b lb ub x)
    (hfree : A.length < (freeSet n lb ub x).card) (s : α) (j : ℕ) (hj : j < n) :
    ∃ x', Feasible A b lb ub x' ∧ s * x'.getD j 0 ≤ s * x.getD j 0 ∧
      (freeSet n lb ub x').card < (freeSet n lb ub x).card := by
  classical
  obtain ⟨hxl, hl, hu, hAx⟩ := feasible_getD hlb hub hx
  set S := freeSet n lb ub x with hS
  have hSn : ∀ k ∈ S, k < n := fun k hk => by
    have := (Finset.mem_filter.1 hk).1
    simpa using this
  obtain ⟨d, hd0, hdne, hker, hsd⟩ := exists_kernel_dir_signed A.length
    (fun k i => (A.get i).getD k 0) S hfree s j
  obtain ⟨t, ht0, hstep, k0, hk0S, hk0⟩ := exists_step S (fun k => x.getD k 0) (fun k => lb.getD k 0)
    (fun k => ub.getD k 0) d (fun k hk => (Finset.mem_filter.1 hk).2) hdne
  set x' := (List.range n).map (fun k => x.getD k 0 + t * d k) with hx'
  have hg : ∀ k, k < n → x'.getD k 0 = x.getD k 0 + t * d k := fun k hk =>
    getD_map_range n _ k hk
  have hgn : ∀ k, k < n → k ∉ S → x'.getD k 0 = x.getD k 0 := fun k hk hkS => by
    rw [hg k hk, hd0 k hkS]; ring
  have hrow : ∀ r ∈ A, dot r x' = dot r x := by
    intro r hr
    obtain ⟨i, rfl⟩ := List.mem_iff_get.1 hr
    have hrl := hA _ hr
    rw [dot_eq_sum_range, dot_eq_sum_range, hrl]
    have h0 : ∑ k ∈ range n, (A.get i).getD k 0 * d k = 0 := by
      have h1 : ∑ k ∈ S, d k * (A.get i).getD k 0 = ∑ k ∈ range n, d k * (A.get i).getD k 0 :=
        Finset.sum_subset (fun k hk => Finset.mem_range.2 (hSn k hk))
          (fun k _ hk => by rw [hd0 k hk]; ring)
      exact (Finset.sum_congr rfl (fun k _ => mul_comm _ _)).trans (h1.symm.trans (hker i))
    calc ∑ k ∈ range n, (A.get i).getD k 0 * x'.getD k 0
        = ∑ k ∈ range n, ((A.get i).getD k 0 * x.getD k 0 + t * ((A.get i).getD k 0 * d k)) := by
          refine Finset.sum_congr rfl (fun k hk => ?_)
          rw [hg k (Finset.mem_range.1 hk)]; ring
      _ = _ := by rw [Finset.sum_add_distrib, ← Finset.mul_sum, h0]; ring
  have hfeas : Feasible A b lb ub x' := by
    refine feasible_of_getD hlb hub (by simp [hx']) ?_ ?_ ?_
    · intro k hk
      by_cases hkS : k ∈ S
      · rw [hg k hk]; exact (hstep k hkS).1
      · rw [hgn k hk hkS]; exact hl k hk
    · intro k hk
      by_cases hkS : k ∈ S
      · rw [hg k hk]; exact (hstep k hkS).2
      · rw [hgn k hk hkS]; exact hu k hk
    · rw [← hAx]
      exact List.map_congr_left hrow
  refine ⟨x', hfeas, ?_, ?_⟩
  · rw [hg j hj]
    have : t * (s * d j) ≤ 0 := mul_nonpos_of_nonneg_of_nonpos ht0 hsd
    linarith
  · apply Finset.card_lt_card
    rw [Finset.ssubset_iff_of_subset]
    · refine ⟨k0, hk0S, ?_⟩
      intro hmem
      have := (Finset.mem_filter.1 hmem).2
      rw [hg k0 (hSn k0 hk0S)] at this
      rcases hk0 with e | e
      · exact lt_irrefl _ (e ▸ this.1)
      · exact lt_irrefl _ (e ▸ this.2)
    · intro k hk
      by_contra hkS
      obtain ⟨hkn, hk2⟩ := Finset.mem_filter.1 hk
      have hkn' : k < n := by simpa using hkn
      rw [hgn k hkn' hkS] at hk2
      exact hkS (Finset.mem_filter.2 ⟨hkn, hk2⟩)

/-- iterating the pivot: a feasible point can be moved to a feasible point with at most `m` strictly
    interior coordinates without increasing `s * x_j` -/
theorem exists_basic (n : ℕ) (A : List (List α)) (b lb ub : List α) (hA : ∀ r ∈ A, r.length = n)
    (hlb : lb.length = n) (hub : ub.length = n) (s : α) (j : ℕ) (hj : j < n) :
    ∀ (N : ℕ) (x : List α), Feasible A b lb ub x → (freeSet n lb ub x).card = N →
    ∃ x', Feasible A b lb ub x' ∧ s * x'.getD j 0 ≤ s * x.getD j 0 ∧
      (freeSet n lb ub x').card ≤ A.length := by
  intro N
  induction N using Nat.strong_induction_on with
  | _ N ih =>
    intro x hx hN
    by_cases hle : (freeSet n lb ub x).card ≤ A.length
    · exact ⟨x, hx, le_refl _, hle⟩
    · obtain ⟨x1, hx1, hs1, hc1⟩ := pivot n A b lb ub x hA hlb hub hx (not_le.1 hle) s j hj
      obtain ⟨x2, hx2, hs2, hc2⟩ := ih _ (hN ▸ hc1) x1 hx1 rfl
      exact ⟨x2, hx2, le_trans hs2 hs1, hc2⟩

end C06
end Dreye
