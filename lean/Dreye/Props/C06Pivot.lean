/-
  C06 — the *pivot lemma* of linear programming in function form (no lists):
  * more than `m` vectors of `α^m` satisfy a non-trivial linear relation (`exists_kernel_dir`);
  * moving along a direction supported on the strictly-interior coordinates until the first coordinate
    hits a bound (`exists_step`).
-/
import Mathlib.Algebra.Order.Field.Basic
import Mathlib.LinearAlgebra.Dimension.Constructions
import Mathlib.LinearAlgebra.FiniteDimensional.Defs
import Mathlib.Tactic

namespace Dreye
namespace C06

open Finset

section Field
variable {α : Type*} [Field α]

/-- more than `m` columns of an `m`-row matrix are linearly dependent: there is a non-zero direction
    `d` supported on `S` which is in the kernel. -/
theorem exists_kernel_dir (m : ℕ) (col : ℕ → Fin m → α) (S : Finset ℕ) (h : m < S.card) :
    ∃ d : ℕ → α, (∀ k, k ∉ S → d k = 0) ∧ (∃ k ∈ S, d k ≠ 0) ∧ ∀ i, ∑ k ∈ S, d k * col k i = 0 := by
  classical
  have hnli : ¬ LinearIndependent α (fun k : S => col k.1) := by
    intro hli
    have := hli.fintype_card_le_finrank
    rw [Module.finrank_fin_fun, Fintype.card_coe] at this
    omega
  obtain ⟨g, hg, k0, hk0⟩ := Fintype.not_linearIndependent_iff.1 hnli
  refine ⟨fun k => if hk : k ∈ S then g ⟨k, hk⟩ else 0, ?_, ?_, ?_⟩
  · intro k hk
    simp [hk]
  · exact ⟨k0.1, k0.2, by simpa using hk0⟩
  · intro i
    have := congrFun hg i
    simp only [Finset.sum_apply, Pi.smul_apply, smul_eq_mul, Pi.zero_apply] at this
    rw [← this, ← Finset.sum_coe_sort S]
    refine Finset.sum_congr rfl ?_
    intro k _
    simp

end Field

variable {α : Type*} [Field α] [LinearOrder α] [IsStrictOrderedRing α]

/-- the same with a prescribed sign of `s * d j` (replace `d` by `-d` if necessary) -/
theorem exists_kernel_dir_signed (m : ℕ) (col : ℕ → Fin m → α) (S : Finset ℕ) (h : m < S.card)
    (s : α) (j : ℕ) :
    ∃ d : ℕ → α, (∀ k, k ∉ S → d k = 0) ∧ (∃ k ∈ S, d k ≠ 0) ∧ (∀ i, ∑ k ∈ S, d k * col k i = 0) ∧
      s * d j ≤ 0 := by
  obtain ⟨d, h1, ⟨k, hk, hk'⟩, h3⟩ := exists_kernel_dir m col S h
  by_cases hs : s * d j ≤ 0
  · exact ⟨d, h1, ⟨k, hk, hk'⟩, h3, hs⟩
  · refine ⟨fun k => - d k, ?_, ⟨k, hk, by simpa using hk'⟩, ?_, ?_⟩
    · intro k hk; simp [h1 k hk]
    · intro i
      simp only [neg_mul, Finset.sum_neg_distrib, h3 i, neg_zero]
    · have := not_le.1 hs
      simp only [mul_neg]; linarith

/-- the step of the pivot: from a point strictly inside its bounds on `S` and a direction not vanishing
    on `S`, a step length `t ≥ 0` that keeps all coordinates of `S` within the bounds and puts one of
    them on a bound. -/
theorem exists_step (S : Finset ℕ) (x l u d : ℕ → α) (hS : ∀ k ∈ S, l k < x k ∧ x k < u k)
    (hd : ∃ k ∈ S, d k ≠ 0) :
    ∃ t : α, 0 ≤ t ∧ (∀ k ∈ S, l k ≤ x k + t * d k ∧ x k + t * d k ≤ u k) ∧
      ∃ k0 ∈ S, x k0 + t * d k0 = l k0 ∨ x k0 + t * d k0 = u k0 := by
  classical
  set ρ : ℕ → α := fun k => if 0 < d k then (u k - x k) / d k else (l k - x k) / d k with hρ
  have hT : (S.filter (fun k => d k ≠ 0)).Nonempty := by
    obtain ⟨k, hk, hdk⟩ := hd
    exact ⟨k, by simp [hk, hdk]⟩
  obtain ⟨k0, hk0, hmin⟩ := Finset.exists_min_image _ ρ hT
  rw [Finset.mem_filter] at hk0
  have hρpos : ∀ k ∈ S, d k ≠ 0 → 0 < ρ k := by
    intro k hk hdk
    simp only [hρ]
    split_ifs with hpos
    · exact div_pos (by linarith [(hS k hk).2]) hpos
    · have hneg : d k < 0 := lt_of_le_of_ne (not_lt.1 hpos) hdk
      exact div_pos_of_neg_of_neg (by linarith [(hS k hk).1]) hneg
  have ht0 : 0 ≤ ρ k0 := le_of_lt (hρpos k0 hk0.1 hk0.2)
  refine ⟨ρ k0, ht0, ?_, k0, hk0.1, ?_⟩
  · intro k hk
    obtain ⟨h1, h2⟩ := hS k hk
    by_cases hdk : d k = 0
    · rw [hdk]; constructor <;> linarith
    · have hle : ρ k0 ≤ ρ k := hmin k (by simp [hk, hdk])
      simp only [hρ] at hle
      by_cases hpos : 0 < d k
      · rw [if_pos hpos] at hle
        have h3 : ρ k0 * d k ≤ u k - x k := by
          have := mul_le_mul_of_nonneg_right hle (le_of_lt hpos)
          rwa [div_mul_cancel₀ _ hdk] at this
        have h4 : 0 ≤ ρ k0 * d k := mul_nonneg ht0 (le_of_lt hpos)
        constructor <;> linarith
      · rw [if_neg hpos] at hle
        have hneg : d k < 0 := lt_of_le_of_ne (not_lt.1 hpos) hdk
        have h3 : l k - x k ≤ ρ k0 * d k := by
          have := mul_le_mul_of_nonpos_right hle (le_of_lt hneg)
          rwa [div_mul_cancel₀ _ hdk] at this
        have h4 : ρ k0 * d k ≤ 0 := mul_nonpos_of_nonneg_of_nonpos ht0 (le_of_lt hneg)
        constructor <;> linarith
  · by_cases hpos : 0 < d k0
    · right
      simp only [hρ, if_pos hpos]
      rw [div_mul_cancel₀ _ hk0.2]; ring
    · left
      simp only [hρ, if_neg hpos]
      rw [div_mul_cancel₀ _ hk0.2]; ring

end C06
end Dreye
