/-
  C01 — capture is the pairwise, linear trapezoid integral.
  Property theorems only (helper lemmas are local `private` lemmas placed first).
-/
import Dreye.Model.Capture
import Mathlib.Algebra.Field.Basic
import Mathlib.Algebra.BigOperators.Group.List.Basic
import Mathlib.Tactic.Ring
import Mathlib.Tactic.FieldSimp

namespace Dreye
namespace C01

variable {α : Type*} [Field α]

/-! ### additivity and homogeneity of the three integration rules -/

theorem trapz_add (xs : List α) : ∀ (ys zs : List α), ys.length = zs.length →
    trapz xs (vadd ys zs) = trapz xs ys + trapz xs zs := by
  induction xs with
  | nil => intro ys zs _; simp [trapz]
  | cons x0 xs ih =>
    intro ys zs h
    match xs, ys, zs, h with
    | [], _, _, _ => simp [trapz]
    | x1 :: xs, [], [], _ => simp [trapz, vadd]
    | x1 :: xs, [y0], [z0], _ => simp [trapz, vadd]
    | x1 :: xs, y0 :: y1 :: ys, z0 :: z1 :: zs, h =>
      have h' : (y1 :: ys).length = (z1 :: zs).length := by simpa using h
      have := ih (y1 :: ys) (z1 :: zs) h'
      simp only [vadd, List.zipWith_cons_cons] at this ⊢
      simp only [trapz, this]
      ring

theorem trapz_smul (c : α) (xs : List α) : ∀ (ys : List α),
    trapz xs (smul c ys) = c * trapz xs ys := by
  induction xs with
  | nil => intro ys; simp [trapz]
  | cons x0 xs ih =>
    intro ys
    match xs, ys with
    | [], _ => simp [trapz]
    | x1 :: xs, [] => simp [trapz, smul]
    | x1 :: xs, [y0] => simp [trapz, smul]
    | x1 :: xs, y0 :: y1 :: ys =>
      have := ih (y1 :: ys)
      simp only [smul, List.map_cons] at this ⊢
      simp only [trapz, this]
      ring

theorem trapzDx_add (dx : α) : ∀ (ys zs : List α), ys.length = zs.length →
    trapzDx dx (vadd ys zs) = trapzDx dx ys + trapzDx dx zs
  | [], [], _ => by simp [trapzDx, vadd]
  | [y0], [z0], _ => by simp [trapzDx, vadd]
  | y0 :: y1 :: ys, z0 :: z1 :: zs, h => by
      have h' : (y1 :: ys).length = (z1 :: zs).length := by simpa using h
      have := trapzDx_add dx (y1 :: ys) (z1 :: zs) h'
      simp only [vadd, List.zipWith_cons_cons] at this ⊢
      simp only [trapzDx, this]
      ring

theorem trapzDx_smul (c dx : α) : ∀ (ys : List α),
    trapzDx dx (smul c ys) = c * trapzDx dx ys
  | [] => by simp [trapzDx, smul]
  | [y0] => by simp [trapzDx, smul]
  | y0 :: y1 :: ys => by
      have := trapzDx_smul c dx (y1 :: ys)
      simp only [smul, List.map_cons] at this ⊢
      simp only [trapzDx, this]
      ring

theorem rectDx_add (dx : α) : ∀ (ys zs : List α), ys.length = zs.length →
    rectDx dx (vadd ys zs) = rectDx dx ys + rectDx dx zs
  | [], [], _ => by simp [rectDx, vadd]
  | y0 :: ys, z0 :: zs, h => by
      have h' : ys.length = zs.length := by simpa using h
      have := rectDx_add dx ys zs h'
      simp only [rectDx, vadd, List.zipWith_cons_cons, List.map_cons, List.sum_cons] at this ⊢
      rw [this]; ring

theorem rectDx_smul (c dx : α) : ∀ (ys : List α), rectDx dx (smul c ys) = c * rectDx dx ys
  | [] => by simp [rectDx, smul]
  | y0 :: ys => by
      have := rectDx_smul c dx ys
      simp only [rectDx, smul, List.map_cons, List.sum_cons] at this ⊢
      rw [this]; ring

/-- every integration rule dreye can select is additive in the integrand … -/
theorem integrate_add (d : Dom α) (ys zs : List α) (h : ys.length = zs.length) :
    integrate d (vadd ys zs) = integrate d ys + integrate d zs := by
  cases d with
  | step dx t => cases t <;> simp [integrate, rectDx_add, trapzDx_add, h]
  | grid xs => simp [integrate, trapz_add, h]

/-- … and homogeneous. -/
theorem integrate_smul (d : Dom α) (c : α) (ys : List α) :
    integrate d (smul c ys) = c * integrate d ys := by
  cases d with
  | step dx t => cases t <;> simp [integrate, rectDx_smul, trapzDx_smul]
  | grid xs => simp [integrate, trapz_smul]

/-! ### the entry rule: position (i, j) is the integral of signal i × filter j and of nothing else -/

/-- **C01 (pairwise)**: entry `(i, j)` of the capture matrix is the integral of
    `signal i * filter j` over the domain. The right-hand side mentions no other filter and no
    other signal, so the entry cannot depend on them. -/
theorem capture_entry (d : Dom α) (filters signals : List (List α)) (i j : ℕ)
    (hi : i < signals.length) (hj : j < filters.length) :
    ((capture d filters signals)[i]?.bind (·[j]?)) = some (integrate d (vmul filters[j] signals[i])) := by
  simp [capture, hi, hj]

/-- shape: one row per signal, one column per filter -/
theorem capture_shape (d : Dom α) (filters signals : List (List α)) :
    (capture d filters signals).length = signals.length ∧
    ∀ r ∈ capture d filters signals, r.length = filters.length := by
  constructor
  · simp [capture]
  · intro r hr
    simp only [capture, List.mem_map] at hr
    obtain ⟨s, _, rfl⟩ := hr
    simp

/-- independence, stated outright: replacing every *other* filter and signal leaves the entry unchanged -/
theorem capture_indep (d : Dom α) (F F' S S' : List (List α)) (i j : ℕ)
    (hi : i < S.length) (hi' : i < S'.length) (hj : j < F.length) (hj' : j < F'.length)
    (hS : S[i] = S'[i]) (hF : F[j] = F'[j]) :
    ((capture d F S)[i]?.bind (·[j]?)) = ((capture d F' S')[i]?.bind (·[j]?)) := by
  rw [capture_entry d F S i j hi hj, capture_entry d F' S' i j hi' hj', hS, hF]

/-! ### linearity (superposition / univariance) -/

private theorem vmul_vadd (f s t : List α) : vmul f (vadd s t) = vadd (vmul f s) (vmul f t) := by
  induction f generalizing s t with
  | nil => simp [vmul, vadd]
  | cons a f ih =>
    cases s with
    | nil => simp [vmul, vadd]
    | cons b s =>
      cases t with
      | nil => simp [vmul, vadd]
      | cons c t =>
        have := ih s t
        simp only [vmul, vadd, List.zipWith_cons_cons] at this ⊢
        rw [this, mul_add]

private theorem vmul_smul (c : α) (f s : List α) : vmul f (smul c s) = smul c (vmul f s) := by
  induction f generalizing s with
  | nil => simp [vmul, smul]
  | cons a f ih =>
    cases s with
    | nil => simp [vmul, smul]
    | cons b s =>
      have := ih s
      simp only [vmul, smul, List.zipWith_cons_cons, List.map_cons] at this ⊢
      rw [this]; congr 1; ring

private theorem vmul_comm (f s : List α) : vmul f s = vmul s f := by
  induction f generalizing s with
  | nil => cases s <;> simp [vmul]
  | cons a f ih =>
    cases s with
    | nil => simp [vmul]
    | cons b s =>
      have := ih s
      simp only [vmul, List.zipWith_cons_cons] at this ⊢
      rw [this, mul_comm]

private theorem vmul_length (f s : List α) : (vmul f s).length = min f.length s.length := by
  simp [vmul]

/-- **C01 (linear in the signals)**: the capture of `a • s + t` by filter `f` is
    `a * capture s + capture t`, for all three integration rules, any length, any field. -/
theorem capture_linear_signal (d : Dom α) (a : α) (f s t : List α) (h : s.length = t.length) :
    integrate d (vmul f (vadd (smul a s) t)) =
      a * integrate d (vmul f s) + integrate d (vmul f t) := by
  rw [vmul_vadd, integrate_add, vmul_smul, integrate_smul]
  simp [vmul_length, smul, h]

/-- **C01 (linear in the filters)**: symmetric statement for the filter argument. -/
theorem capture_linear_filter (d : Dom α) (a : α) (f g s : List α) (h : f.length = g.length) :
    integrate d (vmul (vadd (smul a f) g) s) =
      a * integrate d (vmul f s) + integrate d (vmul g s) := by
  rw [vmul_comm, capture_linear_signal d a s f g h, vmul_comm s f, vmul_comm s g]

/-! ### a scalar step is the same as the explicit domain 0, dx, 2dx, … -/

/-- the explicit uniform grid `s·dx, (s+1)·dx, …` with `n` points -/
def grid (dx : α) (s n : ℕ) : List α := (List.range' s n).map (fun k : ℕ => (k : α) * dx)

theorem trapzDx_eq_trapz_grid_from (dx : α) : ∀ (ys : List α) (s : ℕ),
    trapzDx dx ys = trapz (grid dx s ys.length) ys
  | [], s => by simp [trapzDx, grid, trapz]
  | [y0], s => by simp [trapzDx, grid, trapz, List.range']
  | y0 :: y1 :: ys, s => by
      have ih := trapzDx_eq_trapz_grid_from dx (y1 :: ys) (s + 1)
      simp only [grid, List.length_cons, List.range'_succ, List.map_cons] at ih ⊢
      simp only [trapz, trapzDx]
      rw [ih]
      congr 1
      push_cast
      ring

/-- **C01 (scalar step)**: `domain = dx` gives the same capture as the explicit domain
    `0, dx, 2dx, …`, for every length. -/
theorem trapzDx_eq_trapz_grid (dx : α) (ys : List α) :
    trapzDx dx ys = trapz (grid dx 0 ys.length) ys :=
  trapzDx_eq_trapz_grid_from dx ys 0

/-- **C01 (closed form)**: on a domain with at least two points the trapezoid rule is the sum over
    intervals of `(x_{k+1}-x_k)(y_k+y_{k+1})/2` (this *is* the recursion; stated for the record). -/
theorem trapz_cons_cons (x0 x1 y0 y1 : α) (xs ys : List α) :
    trapz (x0 :: x1 :: xs) (y0 :: y1 :: ys) =
      (x1 - x0) * (y0 + y1) / 2 + trapz (x1 :: xs) (y1 :: ys) := by
  simp only [trapz, two]; norm_num

/-- the `trapz=False` rule is `dx * Σ y` -/
theorem rectDx_eq (dx : α) (ys : List α) : rectDx dx ys = dx * ys.sum := by
  induction ys with
  | nil => simp [rectDx]
  | cons y ys ih =>
    simp only [rectDx, List.map_cons, List.sum_cons] at ih ⊢
    rw [ih]; ring

/-! ### non-vacuity: a concrete 3-filter × 2-signal × 5-point instance on a non-uniform domain -/

example :
    capture (.grid [0, 1, 3, 4, (15:ℚ)/2]) [[1,2,0,1,3],[0,1,1,2,2],[5,0,1,0,1]] [[1,1,2,0,1],[2,0,1,3,1]]
      = [[(35:ℚ)/4, 8, (29:ℚ)/4], [13, (37:ℚ)/2, (33:ℚ)/4]] := by
  simp [capture, integrate, vmul, trapz, two]; norm_num

end C01
end Dreye
