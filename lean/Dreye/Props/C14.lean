/-
  C14 — estimator answers depend only on what is currently registered; queries are pure.
  Model: `Dreye/Model/Estimator.lean`.  In the model a query is a function `Est → Answer` that does not
  return a state, so purity of queries is a matter of type; the theorems below are about registration
  histories of arbitrary length.
-/
import Dreye.Model.Estimator
import Mathlib.Algebra.Order.Field.Basic
import Mathlib.Tactic

namespace Dreye
namespace C14

variable {α : Type*} [Field α] [LinearOrder α] [IsStrictOrderedRing α]

/-- "nothing is cached stale": the stored capture matrix is the capture of the *current* sources by the
    filters (or absent when no system is registered) -/
def Fresh (s : Est α) : Prop := s.A = s.sources.map (systemA s.dom s.filters)

theorem fresh_init (filters : List (List α)) (dom : Dom α) (K : Adapt α) (b w : List α) :
    Fresh (Est.init filters dom K b w) := by
  simp [Fresh, Est.init]

/-- every registration call keeps the stored matrix fresh and never touches filters or their domain -/
theorem register_fresh (s s' : Est α) (op : RegOp α) (h : Fresh s) (hr : s.register op = some s') :
    Fresh s' ∧ s'.filters = s.filters ∧ s'.dom = s.dom := by
  unfold Fresh at *
  cases op with
  | system src lb ub =>
    simp only [Est.register, Option.some.injEq] at hr
    subst hr; simp
  | bounds lb ub =>
    simp only [Est.register] at hr
    split at hr
    · simp at hr
    · simp only [Option.some.injEq] at hr; subst hr; simp [h]
  | adaptation K =>
    simp only [Est.register, Option.some.injEq] at hr; subst hr; simp [h]
  | baseline b =>
    simp only [Est.register, Option.some.injEq] at hr; subst hr; simp [h]
  | backgroundAdaptation bg ab add =>
    simp only [Est.register, Option.some.injEq] at hr; subst hr; simp [h]
  | systemAdaptation x ab add =>
    simp only [Est.register] at hr
    split at hr
    · simp at hr
    · simp only [Option.some.injEq] at hr; subst hr; simp [h]
  | targets B W =>
    simp only [Est.register] at hr
    split at hr
    · simp at hr
    · simp only [Option.some.injEq] at hr; subst hr; simp [h]
  | fitInternal pred =>
    simp only [Est.register] at hr
    split at hr
    · simp only [Option.some.injEq] at hr; subst hr; simp [h]
    · simp at hr

/-- **C14 (no stale cache, any history)**: after every sequence of registration calls, of any length,
    the stored matrix is the capture of the currently registered sources. -/
theorem run_fresh (ops : List (RegOp α)) : ∀ (s s' : Est α), Fresh s → s.run ops = some s' →
    Fresh s' ∧ s'.filters = s.filters ∧ s'.dom = s.dom := by
  induction ops with
  | nil => intro s s' h hr; simp only [Est.run, Option.some.injEq] at hr; subst hr; exact ⟨h, rfl, rfl⟩
  | cons op ops ih =>
    intro s s' h hr
    simp only [Est.run] at hr
    split at hr
    · simp at hr
    · rename_i s1 h1
      obtain ⟨hf, hfil, hdom⟩ := register_fresh s s1 op h h1
      obtain ⟨hf', hfil', hdom'⟩ := ih s1 s' hf hr
      exact ⟨hf', hfil'.trans hfil, hdom'.trans hdom⟩

/-- **C14 (answers are functions of the registered values)**: in a fresh state every closed-form query is
    answered exactly as the stateless reference answers it from the registered values alone. -/
theorem answer_factors (s : Est α) (h : Fresh s) (q : Query α) : s.answer q = s.abs.answer q := by
  unfold Fresh at h
  cases s with
  | mk filters dom K baseline sources A lb ub targets w W workB =>
    simp only at h
    subst h
    rfl

/-- **C14 (history independence)**: two histories of registration calls — of any lengths, in any order —
    that end with the same registered values give identical answers to every query. -/
theorem history_independence (s0 s1 s2 : Est α) (ops1 ops2 : List (RegOp α)) (h0 : Fresh s0)
    (r1 : s0.run ops1 = some s1) (r2 : s0.run ops2 = some s2) (habs : s1.abs = s2.abs) (q : Query α) :
    s1.answer q = s2.answer q := by
  rw [answer_factors s1 (run_fresh ops1 s0 s1 h0 r1).1 q, answer_factors s2 (run_fresh ops2 s0 s2 h0 r2).1 q, habs]

/-! ### re-registering a value replaces the old one and nothing else -/

theorem adaptation_replaces (s : Est α) (K : Adapt α) :
    (s.register (.adaptation K)).map Est.abs = some { s.abs with K := K } := by
  simp [Est.register, Est.abs]

theorem baseline_replaces (s : Est α) (b : List α) :
    (s.register (.baseline b)).map Est.abs = some { s.abs with baseline := b } := by
  simp [Est.register, Est.abs]

/-- `register_bounds(lb=…)` alone does not reset the upper bounds (and vice versa) -/
theorem bounds_replaces (s : Est α) (A : List (List α)) (hA : s.A = some A)
    (lb : Option (List α)) (ub : Option (List (Option α))) :
    (s.register (.bounds lb ub)).map Est.abs = some { s.abs with lb := lb.getD s.lb, ub := ub.getD s.ub } := by
  simp [Est.register, Est.abs, hA]

/-- `register_system` replaces the sources *and* resets the bounds to the given ones or the defaults (0, ∞) -/
theorem system_replaces (s : Est α) (src : List (List α)) (lb : Option (List α)) (ub : Option (List (Option α))) :
    (s.register (.system src lb ub)).map Est.abs =
      some { s.abs with sources := some src, lb := lb.getD (List.replicate src.length 0),
                        ub := ub.getD (List.replicate src.length none) } := by
  simp [Est.register, Est.abs]

/-- the adaptation calls read the *current* baseline and matrix, and (replace mode) overwrite K only -/
theorem system_adaptation_replaces (s : Est α) (A : List (List α)) (hA : s.A = some A) (x : List α) (ab : Bool) :
    (s.register (.systemAdaptation x ab false)).map Est.abs =
      some { s.abs with K := .vec (adaptTo ab s.baseline (systemCapture A x)) } := by
  simp [Est.register, Est.abs, hA, newK]

/-- `register_targets(B, W)` replaces the targets AND the fitting weights: the given `W`, or — when `W` is not given —
    the constructor's weights `w`, whatever weights an earlier `register_targets` call had stored. -/
theorem targets_replaces (s : Est α) (A : List (List α)) (hA : s.A = some A) (B : List (List α)) (W : Option (Weights α)) :
    (s.register (.targets B W)).map Est.abs =
      some { s.abs with targets := some B, W := W.getD (.vec s.w), workB := some B } := by
  simp [Est.register, Est.abs, hA]

/-- weights of an earlier target registration never survive a later one (history: `targets B₁ W₁ ; targets B₂`) -/
theorem targets_weights_not_sticky (s : Est α) (A : List (List α)) (hA : s.A = some A) (B1 B2 : List (List α)) (W1 : Weights α) :
    ((s.register (.targets B1 (some W1))).bind (·.register (.targets B2 none))).map Est.abs
      = (s.register (.targets B2 none)).map Est.abs := by
  simp [Est.register, Est.abs, hA]

/-- `fit()` of the registered targets stores the fitted capture in the working copy and changes nothing else
    (the registered targets, the weights and everything a gamut or capture query reads stay as they were) -/
theorem fit_changes_only_work (s : Est α) (A B0 : List (List α)) (hA : s.A = some A) (hB : s.workB = some B0)
    (pred : List (List α)) :
    (s.register (.fitInternal pred)).map Est.abs = some { s.abs with workB := some pred } := by
  simp [Est.register, Est.abs, hA, hB]

/-- **a fit leaves no trace after re-registration**: `register_targets(B₁, W₁); fit(); register_targets(B₂, W₂)` ends in exactly
    the state of `register_targets(B₂, W₂)` alone — for every `B₂`, in particular for `B₂ = B₁` (re-registering the same targets
    with other weights after a fit must reset the working copy to the targets). -/
theorem targets_after_fit (s : Est α) (A : List (List α)) (hA : s.A = some A) (B1 B2 pred : List (List α))
    (W1 W2 : Option (Weights α)) :
    (((s.register (.targets B1 W1)).bind (·.register (.fitInternal pred))).bind (·.register (.targets B2 W2))).map Est.abs
      = (s.register (.targets B2 W2)).map Est.abs := by
  simp [Est.register, Est.abs, hA]

/-- `fit()` without registered targets (or without a system) asserts -/
theorem fit_requires_targets (s : Est α) (h : s.workB = none) (pred : List (List α)) :
    s.register (.fitInternal pred) = none := by
  cases hA : s.A <;> simp [Est.register, hA, h]

/-- the constructor's weights are never changed by any registration call -/
theorem register_keeps_w (s s' : Est α) (op : RegOp α) (hr : s.register op = some s') : s'.w = s.w := by
  cases op <;> simp only [Est.register] at hr <;> (try split at hr) <;> simp_all <;> (subst hr; rfl)

/-- registering the same adaptation twice is the same as registering it once (idempotent replacement) -/
theorem adaptation_idempotent (s : Est α) (K K' : Adapt α) :
    ((s.register (.adaptation K')).bind (·.register (.adaptation K))).map Est.abs
      = (s.register (.adaptation K)).map Est.abs := by
  simp [Est.register, Est.abs]

/-! non-vacuity: two different histories reaching the same registered values -/
example :
    let s0 : Est ℚ := Est.init [[1, 2, 0], [0, 1, 3]] (.step 1 true) (.vec [1]) [0]
    let h1 : List (RegOp ℚ) := [.adaptation (.vec [2, 3]), .system [[1, 0, 1], [0, 2, 0]] none none, .bounds none (some [some 1, some 2])]
    let h2 : List (RegOp ℚ) := [.system [[5, 5, 5]] none none, .baseline [7], .system [[1, 0, 1], [0, 2, 0]] none (some [some 1, some 2]),
                                 .baseline [0], .adaptation (.vec [2, 3])]
    (s0.run h1).map (fun s => s.answer .getA) = (s0.run h2).map (fun s => s.answer .getA) := by
  rfl

end C14
end Dreye
