/-
  C16 (barycentric half) — the barycentric ↔ cartesian conversion.
  Theorems are over ℝ (`Transc ℝ` from `Dreye.Props.C16`).
-/
import Dreye.Props.C16
import Dreye.Props.C20

namespace Dreye
namespace C16


/-! ### generic list-vector helpers -/

theorem bary_vadd_assoc' (a b c : List ℝ) : vadd (vadd a b) c = vadd a (vadd b c) := by
  induction a generalizing b c with
  | nil => simp [vadd]
  | cons x a ih =>
    cases b with
    | nil => simp [vadd]
    | cons y b =>
      cases c with
      | nil => simp [vadd]
      | cons z c =>
        have := ih b c
        simp only [vadd] at this ⊢
        simp [add_assoc, this]

theorem bary_vadd_comm' (a b : List ℝ) : vadd a b = vadd b a := by
  unfold vadd
  rw [List.zipWith_comm]
  congr 1
  funext x y
  exact add_comm y x

theorem linComb_nil_left (m : ℕ) (rows : List (List ℝ)) :
    linComb m ([] : List ℝ) rows = List.replicate m 0 := by
  simp [linComb]

theorem linComb_nil_right (m : ℕ) (x : List ℝ) :
    linComb m x ([] : List (List ℝ)) = List.replicate m 0 := by
  simp [linComb]

theorem linComb_cons (m : ℕ) (c : ℝ) (x : List ℝ) (r : List ℝ) (rows : List (List ℝ)) :
    linComb m (c :: x) (r :: rows) = vadd (smul c r) (linComb m x rows) := by
  simp [linComb]

theorem bary_lin_step (a c d : ℝ) (r L1 L2 : List ℝ) :
    vadd (smul (a * c + d) r) (vadd (smul a L1) L2)
      = vadd (smul a (vadd (smul c r) L1)) (vadd (smul d r) L2) := by
  induction r generalizing L1 L2 with
  | nil => simp [vadd, smul]
  | cons z r ih =>
    cases L1 with
    | nil => simp [vadd, smul]
    | cons u L1 =>
      cases L2 with
      | nil => simp [vadd, smul]
      | cons v L2 =>
        have := ih L1 L2
        simp only [vadd, smul] at this ⊢
        simp only [List.map_cons, List.zipWith_cons_cons, this]
        congr 1
        ring

theorem linComb_linear (m : ℕ) (a : ℝ) (x y : List ℝ) (rows : List (List ℝ))
    (h : x.length = y.length) :
    linComb m (vadd (smul a x) y) rows
      = vadd (smul a (linComb m x rows)) (linComb m y rows) := by
  induction x generalizing y rows with
  | nil =>
    cases y with
    | nil => simp [linComb, vadd, smul]
    | cons d y => simp at h
  | cons c x ih =>
    cases y with
    | nil => simp at h
    | cons d y =>
      cases rows with
      | nil => simp [linComb, vadd, smul]
      | cons r rows =>
        have h' : x.length = y.length := by simpa using h
        have e : vadd (smul a (c :: x)) (d :: y) = (a * c + d) :: vadd (smul a x) y := by
          simp [vadd, smul]
        rw [e, linComb_cons, linComb_cons, linComb_cons, ih y rows h', bary_lin_step]

/-- `h_j = √((j+2)/(2(j+1)))`: the height added in column `j` -/
noncomputable def hcoef (j : ℕ) : ℝ := Real.sqrt (((j : ℝ) + 2) / (2 * ((j : ℝ) + 1)))

/-- closed form of the vertex matrix: row `i`, column `j` is `0` above the "diagonal" `i = j+1`,
    `h_j` on it and the centroid value `h_j/(j+2)` below it -/
noncomputable def baryClosed (n : ℕ) : List (List ℝ) :=
  (List.range n).map fun i => (List.range (n - 1)).map fun j =>
    if i ≤ j then 0 else if i = j + 1 then hcoef j else hcoef j / ((j : ℝ) + 2)


/-- entry `(i, j)` of the closed form -/
noncomputable def bE (i j : ℕ) : ℝ :=
  if i ≤ j then 0 else if i = j + 1 then hcoef j else hcoef j / ((j : ℝ) + 2)

/-- column `j` of the centroid -/
noncomputable def bC (j : ℕ) : ℝ := hcoef j / ((j : ℝ) + 2)

theorem baryClosed_eq (n : ℕ) :
    baryClosed n = (List.range n).map fun i => (List.range (n - 1)).map (bE i) := rfl

theorem hcoef_sq (j : ℕ) : hcoef j ^ 2 * (2 * ((j : ℝ) + 1)) = (j : ℝ) + 2 := by
  unfold hcoef
  rw [Real.sq_sqrt (by positivity)]
  field_simp

theorem hcoef_pos (j : ℕ) : 0 < hcoef j := by
  unfold hcoef
  apply Real.sqrt_pos.mpr
  positivity

/-- column sums of the closed form -/
theorem col_sum (j : ℕ) (N : ℕ) :
    ((List.range N).map (fun i => bE i j)).sum
      = if N ≤ j + 1 then 0 else hcoef j + ((N : ℝ) - j - 2) * bC j := by
  induction N with
  | zero => simp
  | succ N ih =>
    rw [List.sum_range_succ, ih]
    unfold bE bC
    split_ifs <;> first | omega | skip
    · simp
    · have : (N : ℝ) = j + 1 := by exact_mod_cast ‹N = j + 1›
      push_cast; rw [this]; ring
    · push_cast; ring

/-- squared distance of row `i` from the centroid, truncated to the first `m` columns -/
theorem cen_dist (i m : ℕ) (h : i < m + 1) :
    ((List.range m).map (fun j => (bE i j - bC j) * (bE i j - bC j))).sum
      = (m : ℝ) / (2 * ((m : ℝ) + 1)) := by
  induction m with
  | zero => simp
  | succ m ih =>
    rw [List.sum_range_succ]
    have hh := hcoef_sq m
    rcases Nat.lt_or_ge i (m + 1) with h1 | h1
    · rw [ih h1]
      have e : bE i m = 0 := by unfold bE; rw [if_pos (by omega)]
      rw [e]; unfold bC
      push_cast
      field_simp
      linear_combination ((m : ℝ) + 2) * hh
    · have hi : i = m + 1 := by omega
      subst hi
      have hz : ((List.range m).map (fun j => (bE (m + 1) j - bC j) * (bE (m + 1) j - bC j))).sum = 0 := by
        apply List.sum_eq_zero
        intro t ht
        obtain ⟨j, hj, rfl⟩ := List.mem_map.mp ht
        have hj' : j < m := List.mem_range.mp hj
        have : bE (m + 1) j = bC j := by
          unfold bE bC
          rw [if_neg (by omega), if_neg (by omega)]
        rw [this]; ring
      rw [hz]
      have e : bE (m + 1) m = hcoef m := by unfold bE; rw [if_neg (by omega), if_pos rfl]
      rw [e]; unfold bC
      push_cast
      field_simp
      linear_combination ((m : ℝ) + 1) * ((m : ℝ) + 2) * hh


theorem baryClosed_length (n : ℕ) : (baryClosed n).length = n := by simp [baryClosed]

theorem colMeans_closed (n : ℕ) :
    colMeans (n + 1) (baryClosed (n + 2)) = (List.range (n + 1)).map bC := by
  unfold colMeans
  apply List.map_congr_left
  intro j hj
  have hj' : j < n + 1 := List.mem_range.mp hj
  rw [C20.ofNatLit_eq]
  have hcol : (baryClosed (n + 2)).map (fun r => r.getD j 0)
      = (List.range (n + 2)).map (fun i => bE i j) := by
    rw [baryClosed_eq, List.map_map]
    apply List.map_congr_left
    intro i _
    simp [hj']
  rw [hcol, col_sum, if_neg (by omega), baryClosed_length]
  unfold bC
  push_cast
  field_simp
  ring

theorem sqdist_closed (n i : ℕ) (hi : i < n + 2) :
    sqdist ((List.range (n + 1)).map (bE i)) ((List.range (n + 1)).map bC)
      = ((n : ℝ) + 1) / (2 * ((n : ℝ) + 2)) := by
  have := cen_dist i (n + 1) hi
  unfold sqdist vsub
  rw [List.zipWith_map_left, List.zipWith_map_right, List.zipWith_self, List.map_map]
  simp only [Function.comp_def]
  rw [this]
  push_cast
  ring

theorem baryStep_closed (n : ℕ) :
    baryStep (baryClosed (n + 2)) = (List.range (n + 1)).map bC ++ [hcoef (n + 1)] := by
  unfold baryStep
  simp only [baryClosed_length, show n + 2 - 1 = n + 1 from rfl]
  rw [colMeans_closed, C20.ofNatLit_eq]
  congr 2
  have hdis : (baryClosed (n + 2)).map (fun r => sqdist r ((List.range (n + 1)).map bC))
      = (List.range (n + 2)).map (fun _ => ((n : ℝ) + 1) / (2 * ((n : ℝ) + 2))) := by
    rw [baryClosed_eq, List.map_map]
    apply List.map_congr_left
    intro i hi
    exact sqdist_closed n i (List.mem_range.mp hi)
  rw [hdis]
  simp only [List.map_const', List.sum_replicate, List.length_range]
  show Real.sqrt _ = _
  unfold hcoef
  congr 1
  rw [nsmul_eq_mul]
  push_cast
  field_simp
  ring


theorem baryClosed_step (n : ℕ) :
    baryClosed (n + 3)
      = (baryClosed (n + 2)).map (· ++ [0]) ++ [(List.range (n + 1)).map bC ++ [hcoef (n + 1)]] := by
  rw [baryClosed_eq, baryClosed_eq]
  simp only [show n + 3 - 1 = n + 2 from rfl, show n + 2 - 1 = n + 1 from rfl]
  rw [List.range_succ (n := n + 2), List.map_append, List.map_map]
  congr 1
  · apply List.map_congr_left
    intro i hi
    have hi' := List.mem_range.mp hi
    simp only [Function.comp]
    rw [List.range_succ, List.map_append]
    congr 1
    simp only [List.map_cons, List.map_nil, bE]
    rw [if_pos (by omega)]
  · simp only [List.map_cons, List.map_nil]
    rw [List.range_succ, List.map_append]
    congr 2
    · apply List.map_congr_left
      intro j hj
      have hj' := List.mem_range.mp hj
      unfold bE bC
      rw [if_neg (by omega), if_neg (by omega)]
    · simp only [List.map_cons, List.map_nil, bE]
      simp

theorem baryT_closed_aux : ∀ n : ℕ, (baryT n : List (List ℝ)) = baryClosed n
  | 0 => by simp [baryT, baryClosed]
  | 1 => by simp [baryT, baryClosed]
  | 2 => by
    have : hcoef 0 = 1 := by unfold hcoef; norm_num
    simp [baryT, baryClosed, List.range_succ, this]
  | n + 3 => by
    rw [baryT, baryT_closed_aux (n + 2), baryClosed_step, baryStep_closed]

/-- **C16 (the recursion computes the regular simplex)**: the matrix built by the code's loop is the
    closed form above, for every `n`. -/
theorem baryT_closed_form (n : ℕ) : (baryT n : List (List ℝ)) = baryClosed n := by
  exact baryT_closed_aux n


theorem pair_dist (i k : ℕ) (hik : i < k) (m : ℕ) (hm : k ≤ m) :
    ((List.range m).map (fun j => (bE i j - bE k j) * (bE i j - bE k j))).sum = 1 := by
  induction m, hm using Nat.le_induction with
  | base =>
    obtain ⟨k', rfl⟩ : ∃ k', k = k' + 1 := ⟨k - 1, by omega⟩
    rw [List.sum_range_succ]
    have h1 : ((List.range k').map
        (fun j => (bE i j - bE (k' + 1) j) * (bE i j - bE (k' + 1) j))).sum
          = (k' : ℝ) / (2 * ((k' : ℝ) + 1)) := by
      rw [← cen_dist i k' (by omega)]
      congr 1
      apply List.map_congr_left
      intro j hj
      have hj' := List.mem_range.mp hj
      have : bE (k' + 1) j = bC j := by
        unfold bE bC; rw [if_neg (by omega), if_neg (by omega)]
      rw [this]
    rw [h1]
    have e1 : bE i k' = 0 := by unfold bE; rw [if_pos (by omega)]
    have e2 : bE (k' + 1) k' = hcoef k' := by unfold bE; rw [if_neg (by omega)]; simp
    rw [e1, e2]
    have hh := hcoef_sq k'
    field_simp
    linear_combination hh
  | succ m hm ih =>
    rw [List.sum_range_succ, ih]
    have e1 : bE i m = 0 := by unfold bE; rw [if_pos (by omega)]
    have e2 : bE k m = 0 := by unfold bE; rw [if_pos (by omega)]
    rw [e1, e2]; ring

theorem pair_dist' (i k : ℕ) (hik : i ≠ k) (m : ℕ) (hi : i ≤ m) (hk : k ≤ m) :
    ((List.range m).map (fun j => (bE i j - bE k j) * (bE i j - bE k j))).sum = 1 := by
  rcases Nat.lt_or_gt_of_ne hik with h | h
  · exact pair_dist i k h m hk
  · rw [← pair_dist k i h m hi]
    congr 1
    apply List.map_congr_left
    intro j _
    ring

/-- **C16 (regular simplex with unit edges)**: any two distinct vertices are at distance exactly 1. -/
theorem simplex_regular (n i k : ℕ) (hi : i < n) (hk : k < n) (hik : i ≠ k) :
    sqdist ((baryT n : List (List ℝ)).getD i []) ((baryT n : List (List ℝ)).getD k []) = 1 := by
  rw [baryT_closed_form, baryClosed_eq]
  have gi : ∀ i, i < n → ((List.range n).map fun i => (List.range (n - 1)).map (bE i)).getD i []
      = (List.range (n - 1)).map (bE i) := by
    intro i hi
    simp [hi]
  rw [gi i hi, gi k hk]
  unfold sqdist vsub
  rw [List.zipWith_map_left, List.zipWith_map_right, List.zipWith_self, List.map_map]
  simp only [Function.comp_def]
  exact pair_dist' i k hik (n - 1) (by omega) (by omega)

/-- **C16 (affine)**: barycentric → cartesian is linear (and the centred variant subtracts a constant). -/
theorem bary_linear (a : ℝ) (x y : List ℝ) (h : x.length = y.length) :
    baryToCart false (vadd (smul a x) y) = vadd (smul a (baryToCart false x)) (baryToCart false y) := by
  have hl : (vadd (smul a x) y).length = x.length := by simp [vadd, smul, h]
  simp only [baryToCart, hl, ← h, vecMat, Bool.false_eq_true, if_false]
  exact linComb_linear _ a x y _ h

theorem bary_centered (x : List ℝ) :
    baryToCart true x = vsub (baryToCart false x) (baryCenter x.length) := by
  simp [baryToCart]


theorem bary_vadd_length (a b : List ℝ) : (vadd a b).length = min a.length b.length := by
  simp [vadd]

theorem bary_smul_length (c : ℝ) (a : List ℝ) : (smul c a).length = a.length := by
  simp [smul]

theorem linComb_length (m : ℕ) (x : List ℝ) (rows : List (List ℝ))
    (hr : ∀ r ∈ rows, r.length = m) : (linComb m x rows).length = m := by
  induction x generalizing rows with
  | nil => simp [linComb_nil_left]
  | cons c x ih =>
    cases rows with
    | nil => simp [linComb_nil_right]
    | cons r rows =>
      rw [linComb_cons, bary_vadd_length, bary_smul_length, ih rows (fun q hq => hr q (List.mem_cons_of_mem _ hq)),
        hr r List.mem_cons_self]
      simp

theorem linComb_map_snoc (m : ℕ) (u : ℝ) (b : List ℝ) (rows : List (List ℝ))
    (hb : b.length = rows.length) (hr : ∀ r ∈ rows, r.length = m) :
    linComb (m + 1) b (rows.map (· ++ [u])) = linComb m b rows ++ [b.sum * u] := by
  induction b generalizing rows with
  | nil => simp [linComb_nil_left, List.replicate_succ']
  | cons c b ih =>
    cases rows with
    | nil => simp at hb
    | cons r rows =>
      have hr' : ∀ q ∈ rows, q.length = m := fun q hq => hr q (List.mem_cons_of_mem _ hq)
      have hrl : r.length = m := hr r List.mem_cons_self
      rw [List.map_cons, linComb_cons, linComb_cons, ih rows (by simpa using hb) hr']
      have hl := linComb_length m b rows hr'
      unfold vadd smul
      rw [List.map_append, List.zipWith_append (by simp [hrl, hl])]
      simp [add_mul]

theorem baryT_length (n : ℕ) : (baryT n : List (List ℝ)).length = n := by
  rw [baryT_closed_form, baryClosed_length]

theorem baryT_row_length (n : ℕ) : ∀ r ∈ (baryT n : List (List ℝ)), r.length = n - 1 := by
  rw [baryT_closed_form, baryClosed_eq]
  intro r hr
  obtain ⟨i, _, rfl⟩ := List.mem_map.mp hr
  simp

theorem bary_snoc_of_length_succ (x : List ℝ) (n : ℕ) (h : x.length = n + 1) :
    ∃ x' t, x = x' ++ [t] ∧ x'.length = n := by
  rcases List.eq_nil_or_concat' x with rfl | ⟨L, b, rfl⟩
  · simp at h
  · exact ⟨L, b, rfl, by simpa using h⟩

theorem linComb_concat (m : ℕ) (x' : List ℝ) (R : List (List ℝ)) (t : ℝ) (r : List ℝ)
    (hlen : x'.length = R.length) :
    linComb m (x' ++ [t]) (R ++ [r]) = vadd (linComb m x' R) (smul t r) := by
  induction x' generalizing R with
  | nil =>
    cases R with
    | nil =>
      simp only [List.nil_append, linComb_cons, linComb_nil_left]
      exact bary_vadd_comm' _ _
    | cons q R => simp at hlen
  | cons a x' ih =>
    cases R with
    | nil => simp at hlen
    | cons q R =>
      simp only [List.cons_append, linComb_cons]
      rw [ih R (by simpa using hlen), bary_vadd_assoc']

theorem bary_vadd_right_cancel' (a b c : List ℝ) (ha : a.length = c.length) (hb : b.length = c.length)
    (h : vadd a c = vadd b c) : a = b := by
  induction c generalizing a b with
  | nil =>
    rw [List.length_nil, List.length_eq_zero_iff] at ha hb
    rw [ha, hb]
  | cons z c ih =>
    cases a with
    | nil => simp at ha
    | cons u a =>
      cases b with
      | nil => simp at hb
      | cons v b =>
        simp only [vadd, List.zipWith_cons_cons, List.cons.injEq, add_left_inj] at h
        rw [h.1, ih a b (by simpa using ha) (by simpa using hb) h.2]

theorem bary_vadd_snoc (A B : List ℝ) (p q : ℝ) (h : A.length = B.length) :
    vadd (A ++ [p]) (B ++ [q]) = vadd A B ++ [p + q] := by
  unfold vadd
  rw [List.zipWith_append h]
  simp

theorem bary_inj_aux : ∀ (N : ℕ) (x y : List ℝ), x.length = N + 2 → y.length = N + 2 →
    x.sum = y.sum →
    linComb (N + 1) x (baryT (N + 2) : List (List ℝ)) = linComb (N + 1) y (baryT (N + 2)) → x = y
  | 0, x, y, hx, hy, hs, h => by
    obtain ⟨a, b, rfl⟩ := List.length_eq_two.mp hx
    obtain ⟨c, d, rfl⟩ := List.length_eq_two.mp hy
    simp [baryT, linComb, vadd, smul] at h hs
    subst h
    simp at hs
    simp [hs]
  | N + 1, x, y, hx, hy, hs, h => by
    obtain ⟨x', t, rfl, hx'⟩ := bary_snoc_of_length_succ x (N + 2) hx
    obtain ⟨y', s, rfl, hy'⟩ := bary_snoc_of_length_succ y (N + 2) hy
    have hT : (baryT (N + 3) : List (List ℝ))
        = (baryT (N + 2)).map (· ++ [0]) ++ [baryStep (baryT (N + 2))] := by rw [baryT]
    have hstep : baryStep (baryT (N + 2) : List (List ℝ))
        = (List.range (N + 1)).map bC ++ [hcoef (N + 1)] := by
      rw [baryT_closed_form, baryStep_closed]
    have hrl := baryT_row_length (N + 2)
    simp only [show N + 2 - 1 = N + 1 from rfl] at hrl
    have hlen := baryT_length (N + 2)
    rw [show N + 1 + 2 = N + 3 from rfl, hT, hstep,
      linComb_concat _ x' _ t _ (by simp [hx', hlen]),
      linComb_concat _ y' _ s _ (by simp [hy', hlen]),
      linComb_map_snoc (N + 1) 0 x' _ (by rw [hx', hlen]) hrl,
      linComb_map_snoc (N + 1) 0 y' _ (by rw [hy', hlen]) hrl] at h
    have hLx := linComb_length (N + 1) x' _ hrl
    have hLy := linComb_length (N + 1) y' _ hrl
    have hsm : ∀ u : ℝ, smul u ((List.range (N + 1)).map bC ++ [hcoef (N + 1)])
        = smul u ((List.range (N + 1)).map bC) ++ [u * hcoef (N + 1)] := by
      intro u; simp [smul]
    rw [hsm, hsm, bary_vadd_snoc _ _ _ _ (by simp [hLx, smul]), bary_vadd_snoc _ _ _ _ (by simp [hLy, smul])] at h
    obtain ⟨h1, h2⟩ := List.append_inj h (by simp [vadd, smul, hLx, hLy])
    have hts : t = s := by
      have := hcoef_pos (N + 1)
      simp only [mul_zero, zero_add, List.cons.injEq, and_true] at h2
      exact mul_right_cancel₀ this.ne' h2
    subst hts
    have h3 := bary_vadd_right_cancel' _ _ _ (by simp [hLx, smul]) (by simp [hLy, smul]) h1
    have hs' : x'.sum = y'.sum := by simpa using hs
    rw [bary_inj_aux N x' y' hx' hy' hs' h3]

/-- **C16 (invertible on every plane Σx = s)**: two barycentric points with the same coordinate sum and
    the same cartesian image are equal — so the reverse conversion is determined uniquely. -/
theorem bary_injective_on_plane (x y : List ℝ) (hl : x.length = y.length) (hn : 2 ≤ x.length)
    (hs : x.sum = y.sum) (h : baryToCart false x = baryToCart false y) : x = y := by
  obtain ⟨N, hN⟩ : ∃ N, x.length = N + 2 := ⟨x.length - 2, by omega⟩
  have hy : y.length = N + 2 := by rw [← hl, hN]
  simp only [baryToCart, hN, hy, vecMat, Bool.false_eq_true, if_false,
    show N + 2 - 1 = N + 1 from rfl] at h
  exact bary_inj_aux N x y hN hy hs h


/-- **C16 (what the reverse conversion returns)**: any `b` solving the augmented system
    `b · [T | 1] = [x | 1]` — which is what `X @ inv([A, 1])` computes — maps back to `x` and has
    coordinates summing to 1 (hence to `L1` after the final multiplication). -/
theorem cart_to_bary_spec (x b : List ℝ) (hb : b.length = x.length + 1)
    (h : vecMat (x.length + 1) b ((baryT (x.length + 1) : List (List ℝ)).map (· ++ [(1 : ℝ)])) = x ++ [1]) :
    baryToCart false b = x ∧ b.sum = 1 := by
  have hrl := baryT_row_length (x.length + 1)
  simp only [Nat.add_sub_cancel] at hrl
  have hbl : b.length = (baryT (x.length + 1) : List (List ℝ)).length := by rw [baryT_length, hb]
  unfold vecMat at h
  rw [linComb_map_snoc x.length 1 b _ hbl hrl] at h
  have hl := linComb_length x.length b _ hrl
  obtain ⟨h1, h2⟩ := List.append_inj h hl
  refine ⟨?_, by simpa using h2⟩
  simp only [baryToCart, hb, Nat.add_sub_cancel, vecMat, Bool.false_eq_true, if_false]
  exact h1

/-- scaling by `L1` gives coordinates summing to `L1` -/
theorem cart_to_bary_l1 (b : List ℝ) (l : ℝ) (h : b.sum = 1) : (b.map (· * l)).sum = l := by
  rw [List.sum_map_mul_right]; simp [h]


theorem bary_abs_ite (v : ℝ) : (if 0 ≤ v then v else -v) = |v| := by
  split_ifs with h
  · exact (abs_of_nonneg h).symm
  · exact (abs_of_neg (not_le.mp h)).symm

theorem bary_abs_sum_zero (x : List ℝ) (h : (x.map (fun v => |v|)).sum = 0) : ∀ v ∈ x, v = 0 := by
  induction x with
  | nil => simp
  | cons a x ih =>
    have h1 : 0 ≤ (x.map (fun v => |v|)).sum := by
      apply List.sum_nonneg
      intro t ht
      obtain ⟨v, _, rfl⟩ := List.mem_map.mp ht
      exact abs_nonneg v
    have h2 : 0 ≤ |a| := abs_nonneg a
    simp only [List.map_cons, List.sum_cons] at h
    have ha : |a| = 0 := by linarith
    have hx : (x.map (fun v => |v|)).sum = 0 := by linarith
    intro v hv
    rcases List.mem_cons.mp hv with rfl | hv
    · exact abs_eq_zero.mp ha
    · exact ih hx v hv

theorem l1normalize_smul (c : ℝ) (hc : 0 < c) (x : List ℝ) :
    l1normalize (smul c x) = l1normalize x := by
  unfold l1normalize
  simp only [bary_abs_ite]
  have hA : ((smul c x).map (fun v => |v|)).sum = c * (x.map (fun v => |v|)).sum := by
    rw [← List.sum_map_mul_left]
    simp only [smul, List.map_map]
    congr 1
    apply List.map_congr_left
    intro v _
    simp [abs_mul, abs_of_pos hc]
  simp only [hA]
  by_cases h0 : (x.map (fun v => |v|)).sum = 0
  · have hz := bary_abs_sum_zero x h0
    simp only [h0, mul_zero, if_true]
    unfold smul
    conv_rhs => rw [← List.map_id x]
    apply List.map_congr_left
    intro v hv
    simp [hz v hv]
  · have hc0 : c * (x.map (fun v => |v|)).sum ≠ 0 := mul_ne_zero hc.ne' h0
    simp only [h0, hc0, if_false]
    simp only [smul, List.map_map]
    apply List.map_congr_left
    intro v _
    simp only [Function.comp]
    field_simp

/-- **C16 (chromatic reduction ignores the overall scale)** -/
theorem dim_reduction_scale_invariant (c : ℝ) (hc : 0 < c) (ctr : Bool) (x : List ℝ) :
    baryDimReduction ctr (smul c x) = baryDimReduction ctr x := by
  unfold baryDimReduction
  rw [l1normalize_smul c hc x]

end C16
end Dreye
