/-
  Further theorems tying the models together (second batch).
-/
import Dreye.Model.Stack
import Dreye.Props.C03
import Dreye.Props.C04
import Dreye.Props.C06Exact
import Dreye.Props.Linalg
import Dreye.Props.C19
import Mathlib.Tactic

namespace Dreye

/-! ## C05 — the stacked (block-diagonal) least-squares objective is the sum of the row objectives -/
namespace C05
variable {α : Type*} [Field α] [LinearOrder α] [IsStrictOrderedRing α]

set_option linter.unusedSectionVars false

theorem stk_dot_append : ∀ (a a' x x' : List α), a.length = x.length →
    dot (a ++ a') (x ++ x') = dot a x + dot a' x'
  | [], a', [], x', _ => by simp [Cert.dot_nil_left]
  | [], _, _ :: _, _, h => by simp at h
  | _ :: _, _, [], _, h => by simp at h
  | a :: as, a', x :: xs, x', h => by
      rw [List.cons_append, List.cons_append, Cert.dot_cons, Cert.dot_cons,
        stk_dot_append as a' xs x' (by simpa using h)]
      ring

theorem stk_flatten_length (n : ℕ) : ∀ (L : List (List α)), (∀ x ∈ L, x.length = n) →
    L.flatten.length = L.length * n
  | [], _ => by simp
  | x :: L, h => by
      rw [List.flatten_cons, List.length_append,
        stk_flatten_length n L (fun t ht => h t (List.mem_cons_of_mem _ ht)),
        h x List.mem_cons_self, List.length_cons]
      ring

/-- a padded row picks out its own block -/
theorem stk_row_dot (n : ℕ) (L : List (List α)) (r x tl : List α) (hL : ∀ y ∈ L, y.length = n)
    (hr : r.length = n) (hx : x.length = n) (q : ℕ) :
    dot (List.replicate (L.length * n) 0 ++ r ++ List.replicate q 0) (L.flatten ++ x ++ tl)
      = dot r x := by
  rw [stk_dot_append _ _ _ _ (by simp [stk_flatten_length n L hL, hr, hx]),
    stk_dot_append _ _ _ _ (by simp [stk_flatten_length n L hL]),
    Cert.dot_replicate_zero, Cert.dot_replicate_zero]
  ring

/-- the block-diagonal matrix acts block-wise (`L` = blocks already consumed on the left) -/
theorem stk_matVec (n K : ℕ) : ∀ (Cs : List (List (List α))) (xs L : List (List α)),
    xs.length = Cs.length → (∀ C ∈ Cs, ∀ r ∈ C, r.length = n) → (∀ x ∈ xs, x.length = n) →
    (∀ y ∈ L, y.length = n) →
    matVec (((List.range' L.length Cs.length).zip Cs).flatMap (fun (ib : ℕ × List (List α)) =>
        ib.2.map (fun r => List.replicate (ib.1 * n) 0 ++ r ++ List.replicate ((K - 1 - ib.1) * n) 0)))
      (L.flatten ++ xs.flatten) = (Cs.zip xs).flatMap (fun q => matVec q.1 q.2)
  | [], _, _, _, _, _, _ => by simp [matVec]
  | _ :: _, [], _, h, _, _, _ => by simp at h
  | C :: Cs, x :: xs, L, h, hC, hx, hL => by
      have hL' : ∀ y ∈ L ++ [x], y.length = n := by
        intro y hy
        rcases List.mem_append.1 hy with hy | hy
        · exact hL y hy
        · rw [List.mem_singleton.1 hy]; exact hx x List.mem_cons_self
      have ih := stk_matVec n K Cs xs (L ++ [x]) (by simpa using h)
        (fun D hD => hC D (List.mem_cons_of_mem _ hD)) (fun y hy => hx y (List.mem_cons_of_mem _ hy)) hL'
      have e1 : (L ++ [x]).flatten ++ xs.flatten = L.flatten ++ (x :: xs).flatten := by simp
      have e2 : (L ++ [x]).length = L.length + 1 := by simp
      rw [e1, e2] at ih
      rw [List.length_cons, List.range'_succ, List.zip_cons_cons, List.flatMap_cons, List.zip_cons_cons,
        List.flatMap_cons]
      unfold matVec at ih ⊢
      rw [List.map_append, ih, List.map_map]
      congr 1
      apply List.map_congr_left
      intro r hr
      have e3 : L.flatten ++ (x :: xs).flatten = L.flatten ++ x ++ xs.flatten := by simp
      simp only [Function.comp]
      rw [e3]
      exact stk_row_dot n L r x _ hL (hC C List.mem_cons_self r hr) (hx x List.mem_cons_self) _

theorem stk_vsub_append (a a' b b' : List α) (h : a.length = b.length) :
    vsub (a ++ a') (b ++ b') = vsub a b ++ vsub a' b' := by
  unfold vsub
  exact List.zipWith_append h

/-- objective of concatenated residuals -/
theorem stk_obj_sum : ∀ (Cs : List (List (List α))) (ds xs : List (List α)),
    ds.length = Cs.length → xs.length = Cs.length → (∀ p ∈ Cs.zip ds, p.1.length = p.2.length) →
    dot (vsub ((Cs.zip xs).flatMap (fun q => matVec q.1 q.2)) ds.flatten)
        (vsub ((Cs.zip xs).flatMap (fun q => matVec q.1 q.2)) ds.flatten)
      = ((Cs.zip (ds.zip xs)).map (fun q => lsObj q.1 q.2.1 q.2.2)).sum
  | [], _, _, _, _, _ => by simp [vsub, Cert.dot_nil_left]
  | _ :: _, [], _, h, _, _ => by simp at h
  | _ :: _, _ :: _, [], _, h, _ => by simp at h
  | C :: Cs, d :: ds, x :: xs, h1, h2, hd => by
      have ih := stk_obj_sum Cs ds xs (by simpa using h1) (by simpa using h2)
        (fun p hp => hd p (by simp [hp]))
      have hl : (matVec C x).length = d.length := by
        rw [Cert.matVec_length]; exact hd (C, d) (by simp)
      simp only [List.zip_cons_cons, List.flatMap_cons, List.flatten_cons, List.map_cons, List.sum_cons]
      rw [stk_vsub_append _ _ _ _ hl, stk_dot_append _ _ _ _ rfl, ih]
      rfl

/-- **C05 (the stacked problem is separable)**: for blocks `C_i` (each with `n` columns), targets `d_i`
    (`d_i.length = C_i.length`) and intensity blocks `x_i` (length `n`), the least-squares objective of the
    block-diagonal matrix at the concatenated vectors is the sum of the per-row-problem objectives.
    (Zero-padded samples are blocks with `d_i = 0` and zero weights: they add a term that does not
    involve the other blocks.) -/
theorem stacked_objective_sum (n : ℕ) (Cs : List (List (List α))) (ds xs : List (List α))
    (hl : ds.length = Cs.length) (hx : xs.length = Cs.length)
    (hC : ∀ C ∈ Cs, ∀ r ∈ C, r.length = n) (hd : ∀ p ∈ Cs.zip ds, p.1.length = p.2.length)
    (hxs : ∀ x ∈ xs, x.length = n) :
    lsObj (blockDiag n Cs) ds.flatten xs.flatten
      = ((Cs.zip (ds.zip xs)).map (fun q => lsObj q.1 q.2.1 q.2.2)).sum := by
  have key := stk_matVec n (Cs.length) Cs xs [] hx hC hxs (by simp)
  have e : blockDiag n Cs = ((List.range' ([] : List (List α)).length Cs.length).zip Cs).flatMap
      (fun (ib : ℕ × List (List α)) => ib.2.map (fun r =>
        List.replicate (ib.1 * n) 0 ++ r ++ List.replicate ((Cs.length - 1 - ib.1) * n) 0)) := by
    simp [blockDiag, List.range_eq_range']
  unfold lsObj residual
  rw [e, show xs.flatten = ([] : List (List α)).flatten ++ xs.flatten by simp, key]
  exact stk_obj_sum Cs ds xs hl hx hd

end C05

/-! ## C03 — the unbounded ("affine cone") path -/
namespace C03
variable {α : Type*} [Field α] [LinearOrder α] [IsStrictOrderedRing α]

set_option linter.unusedSectionVars false

/-- difference of two predictions is the linear part applied to the difference -/
theorem cone_pred_vsub (A' : List (List α)) (base' c lb : List α) (hb : base'.length = A'.length)
    (hc : c.length = lb.length) :
    vsub (predict A' base' c) (predict A' base' lb) = matVec A' (vsub c lb) := by
  rw [Cert.matVec_vsub A' lb c hc]
  unfold predict
  apply List.ext_getElem
  · simp [vadd, vsub, matVec, hb]
  · intro i h1 h2
    simp [vadd, vsub]

/-- the first corner is `lb` -/
theorem cone_corners_head : ∀ (lb : List α), ∃ rest, corners lb (lb.map (· + 1)) = lb :: rest
  | [] => ⟨[], by simp [corners]⟩
  | l :: ls => by
      obtain ⟨rest, h⟩ := cone_corners_head ls
      simp only [List.map_cons, corners, h, List.cons_append]
      exact ⟨_, rfl⟩

/-- every shifted corner `c − lb` has non-negative entries -/
theorem cone_dirs_nonneg : ∀ (lb : List α), ∀ c ∈ corners lb (lb.map (· + 1)), ∀ v ∈ vsub c lb, 0 ≤ v
  | [], c, hc, v, hv => by
      simp [corners] at hc
      subst hc
      simp [vsub] at hv
  | l :: ls, c, hc, v, hv => by
      simp only [List.map_cons, corners, List.mem_append, List.mem_map] at hc
      rcases hc with ⟨c', hc', rfl⟩ | ⟨c', hc', rfl⟩
      · simp only [vsub, List.zipWith_cons_cons, List.mem_cons] at hv
        rcases hv with rfl | hv
        · simp
        · exact cone_dirs_nonneg ls c' hc' v hv
      · simp only [vsub, List.zipWith_cons_cons, List.mem_cons] at hv
        rcases hv with rfl | hv
        · simp
        · exact cone_dirs_nonneg ls c' hc' v hv

/-- non-negative combinations of non-negative vectors are non-negative -/
theorem cone_linComb_nonneg (n : ℕ) : ∀ (w : List α) (D : List (List α)), (∀ v ∈ w, 0 ≤ v) →
    (∀ d ∈ D, ∀ v ∈ d, 0 ≤ v) → ∀ v ∈ linComb n w D, 0 ≤ v
  | [], _, _, _ => by
      intro v hv
      rw [Cert.linComb_nil_left] at hv
      rw [List.eq_of_mem_replicate hv]
  | _ :: _, [], _, _ => by
      intro v hv
      rw [Cert.linComb_nil_right] at hv
      rw [List.eq_of_mem_replicate hv]
  | c :: w, d :: D, hw, hD => by
      intro v hv
      have ih := cone_linComb_nonneg n w D (fun v hv => hw v (List.mem_cons_of_mem _ hv))
        (fun e he => hD e (List.mem_cons_of_mem _ he))
      rw [Cert.linComb_cons] at hv
      obtain ⟨i, hi, rfl⟩ := List.mem_iff_getElem.1 hv
      simp only [vadd, smul, List.getElem_zipWith, List.getElem_map]
      exact add_nonneg (mul_nonneg (hw c List.mem_cons_self)
        (hD d List.mem_cons_self _ (List.getElem_mem _))) (ih _ (List.getElem_mem _))

theorem cone_linComb_zero_weights (n : ℕ) : ∀ (k : ℕ) (R : List (List α)), (∀ r ∈ R, r.length = n) →
    linComb n (List.replicate k (0 : α)) R = List.replicate n 0
  | 0, _, _ => by simp [Cert.linComb_nil_left]
  | _ + 1, [], _ => by simp [Cert.linComb_nil_right]
  | k + 1, r :: R, h => by
      rw [List.replicate_succ, Cert.linComb_cons,
        cone_linComb_zero_weights n k R (fun t ht => h t (List.mem_cons_of_mem _ ht))]
      apply List.ext_getElem
      · simp [vadd, smul, h r List.mem_cons_self]
      · intro i h1 h2
        simp [vadd, smul]

theorem cone_vsub_self : ∀ (a : List α), vsub a a = List.replicate a.length 0
  | [] => by simp [vsub]
  | x :: a => by
      have ih := cone_vsub_self a
      simp only [vsub, List.zipWith_cons_cons, List.length_cons, List.replicate_succ, sub_self] at ih ⊢
      rw [ih]

/-- every non-negative vector is a non-negative combination of the shifted corners -/
theorem cone_weights_exist : ∀ (lb t : List α), t.length = lb.length → (∀ v ∈ t, 0 ≤ v) →
    ∃ w : List α, (∀ v ∈ w, 0 ≤ v) ∧ w.length = (corners lb (lb.map (· + 1))).length ∧
      linComb lb.length w ((corners lb (lb.map (· + 1))).map (fun c => vsub c lb)) = t
  | [], [], _, _ => ⟨[0], by simp, by simp [corners], by simp [corners, linComb, vsub, vadd, smul]⟩
  | [], _ :: _, h, _ => by simp at h
  | _ :: _, [], h, _ => by simp at h
  | l :: ls, a :: t, h, ht => by
      have hlen : t.length = ls.length := by simpa using h
      obtain ⟨w, hw1, hw2, hw3⟩ := cone_weights_exist ls t hlen
        (fun v hv => ht v (List.mem_cons_of_mem _ hv))
      have ha : 0 ≤ a := ht a List.mem_cons_self
      obtain ⟨rest, hrest⟩ := cone_corners_head ls
      obtain ⟨-, hc2⟩ := corners_length ls (ls.map (· + 1)) (by simp)
      set cs := corners ls (ls.map (· + 1)) with hcs
      set D := cs.map (fun c => vsub c ls) with hD
      have hDl : ∀ d ∈ D, d.length = ls.length := by
        intro d hd
        simp only [hD, List.mem_map] at hd
        obtain ⟨c, hc, rfl⟩ := hd
        rw [vsub_length, hc2 c hc, min_self]
      have hDlen : D.length = cs.length := by simp [hD]
      -- the two halves of the direction list
      have e : (corners (l :: ls) ((l :: ls).map (· + 1))).map (fun c => vsub c (l :: ls))
          = D.map (0 :: ·) ++ D.map (1 :: ·) := by
        simp only [List.map_cons, corners, ← hcs, List.map_append, List.map_map, hD]
        congr 1
        · apply List.map_congr_left
          intro c _
          simp [vsub]
        · apply List.map_congr_left
          intro c _
          simp [vsub]
      have hrl : cs.length = rest.length + 1 := by rw [hrest]; simp
      -- weight `a` on the first corner of the upper half (its shifted version is `e_0`)
      set w2 : List α := a :: List.replicate rest.length 0 with hw2d
      have hw2l : w2.length = D.length := by simp [hw2d, hDlen, hrl]
      have hw2s : w2.sum = a := by simp [hw2d]
      have hw2c : linComb ls.length w2 D = List.replicate ls.length 0 := by
        have hD0 : D = vsub ls ls :: rest.map (fun c => vsub c ls) := by
          simp only [hD, hrest, List.map_cons]
        have hrl' : ∀ r ∈ rest.map (fun c => vsub c ls), r.length = ls.length := by
          intro r hr
          apply hDl r
          rw [hD0]
          exact List.mem_cons_of_mem _ hr
        rw [hD0, hw2d, Cert.linComb_cons, cone_linComb_zero_weights _ _ _ hrl', cone_vsub_self]
        apply List.ext_getElem
        · simp [vadd, smul]
        · intro i h1 h2
          simp [vadd, smul]
      refine ⟨w ++ w2, ?_, ?_, ?_⟩
      · intro v hv
        rcases List.mem_append.1 hv with hv | hv
        · exact hw1 v hv
        · simp only [hw2d, List.mem_cons] at hv
          rcases hv with rfl | hv
          · exact ha
          · rw [List.eq_of_mem_replicate hv]
      · simp only [List.map_cons, corners, ← hcs, List.length_append, List.length_map, hw2, hw2l, hDlen]
      · rw [e, List.length_cons,
          linComb_append _ _ _ (by
            intro p hp
            simp only [List.mem_map] at hp
            obtain ⟨d, hd, rfl⟩ := hp
            simp [hDl d hd]) _ _ (by simp [hw2, hDlen]),
          linComb_map_cons _ _ _ _ (by rw [hw2, hDlen]), linComb_map_cons _ _ _ _ hw2l,
          hw3, hw2c, hw2s, vadd_cons]
        congr 1
        · ring
        · apply List.ext_getElem
          · simp [vadd, hlen]
          · intro i h1 h2
            simp [vadd]

theorem cone_path_aux (A' : List (List α)) (base' lb b : List α)
    (hA : ∀ r ∈ A', r.length = lb.length) (hb : base'.length = A'.length) (hbl : b.length = A'.length) :
    (∃ w : List α, (∀ v ∈ w, 0 ≤ v) ∧
        w.length = ((corners lb (lb.map (· + 1))).map (predict A' base')).length ∧
        linComb A'.length w (((corners lb (lb.map (· + 1))).map (predict A' base')).map
          (fun p => vsub p (predict A' base' lb))) = vsub b (predict A' base' lb))
    ↔ (∃ x : List α, x.length = lb.length ∧ (∀ p ∈ lb.zip x, p.1 ≤ p.2) ∧ predict A' base' x = b) := by
  have _ := hA
  obtain ⟨-, hc2⟩ := corners_length lb (lb.map (· + 1)) (by simp)
  set cs := corners lb (lb.map (· + 1)) with hcs
  set D := cs.map (fun c => vsub c lb) with hD
  have hDl : ∀ d ∈ D, d.length = lb.length := by
    intro d hd
    simp only [hD, List.mem_map] at hd
    obtain ⟨c, hc, rfl⟩ := hd
    rw [vsub_length, hc2 c hc, min_self]
  have hDnn : ∀ d ∈ D, ∀ v ∈ d, 0 ≤ v := by
    intro d hd
    simp only [hD, List.mem_map] at hd
    obtain ⟨c, hc, rfl⟩ := hd
    exact cone_dirs_nonneg lb c hc
  have hPD : (cs.map (predict A' base')).map (fun p => vsub p (predict A' base' lb))
      = D.map (matVec A') := by
    rw [hD, List.map_map, List.map_map]
    apply List.map_congr_left
    intro c hc
    simp only [Function.comp]
    exact cone_pred_vsub A' base' c lb hb (hc2 c hc)
  rw [hPD]
  constructor
  · rintro ⟨w, hnn, hwl, hcomb⟩
    rw [← matVec_linComb lb.length A' w D hDl] at hcomb
    have htl : (linComb lb.length w D).length = lb.length := Cert.linComb_length _ _ _ hDl
    have htn := cone_linComb_nonneg lb.length w D hnn hDnn
    set t := linComb lb.length w D with ht
    refine ⟨vadd lb t, by rw [vadd_length, htl, min_self], ?_, ?_⟩
    · intro p hp
      obtain ⟨i, hi, rfl⟩ := List.mem_iff_getElem.1 hp
      simp only [List.getElem_zip, vadd, List.getElem_zipWith]
      have := htn _ (List.getElem_mem (l := t) (n := i) (by simp [vadd, htl] at hi; omega))
      linarith
    · unfold predict at hcomb ⊢
      rw [matVec_vadd A' lb t htl.symm, hcomb]
      apply List.ext_getElem
      · simp [vadd, vsub, matVec, hb, hbl]
      · intro i h1 h2
        simp only [vadd, vsub, List.getElem_zipWith]
        ring
  · rintro ⟨x, hx, hle, hp⟩
    have htn : ∀ v ∈ vsub x lb, 0 ≤ v := by
      intro v hv
      obtain ⟨i, hi, rfl⟩ := List.mem_iff_getElem.1 hv
      simp only [vsub, List.getElem_zipWith]
      have hi' : i < lb.length ∧ i < x.length := by simp [vsub] at hi; omega
      have := hle (lb[i], x[i]) (by
        rw [List.mem_iff_getElem]
        exact ⟨i, by simp [hi'.1, hi'.2], by simp⟩)
      exact sub_nonneg.2 this
    obtain ⟨w, hw1, hw2, hw3⟩ := cone_weights_exist lb (vsub x lb) (by rw [vsub_length, hx, min_self]) htn
    refine ⟨w, hw1, by rw [hw2]; simp [← hcs], ?_⟩
    rw [← matVec_linComb lb.length A' w D hDl, hD, hcs, hw3, ← cone_pred_vsub A' base' x lb hb hx, hp]

/-- **C03 (unbounded sources: the cone of the shifted corner images is the gamut)**: with no upper
    bounds the code replaces `ub` by `lb + 1`, subtracts the image of `lb` (the first corner image) and
    asks for non-negative weights (no sum constraint). Such weights exist iff some intensity vector
    `x ≥ lb` reproduces the target. -/
theorem cone_path_sound (A' : List (List α)) (base' lb b : List α)
    (hA : ∀ r ∈ A', r.length = lb.length) (hb : base'.length = A'.length) (hbl : b.length = A'.length) :
    let ub1 := lb.map (· + 1)
    let P := (corners lb ub1).map (predict A' base')
    let apex := predict A' base' lb
    (∃ w : List α, (∀ v ∈ w, 0 ≤ v) ∧ w.length = P.length ∧
        linComb A'.length w (P.map (fun p => vsub p apex)) = vsub b apex)
    ↔ (∃ x : List α, x.length = lb.length ∧ (∀ p ∈ lb.zip x, p.1 ≤ p.2) ∧ predict A' base' x = b) := by
  intro ub1 P apex
  exact cone_path_aux A' base' lb b hA hb hbl

end C03

/-! ## C04 + C03 — zero error exactly when the target is in the gamut -/
namespace C04
variable {α : Type*} [Field α] [LinearOrder α] [IsStrictOrderedRing α]

set_option linter.unusedSectionVars false

/-- **C04 (a target is reproduced with zero error exactly when it is in the gamut)**, per-receptor K,
    finite bounds, non-zero weights: some in-bound intensity vector has zero documented error iff the
    target is a convex combination of the `2^n` corner images (what the gamut test decides). -/
theorem transformA_vec_rows (n : ℕ) (A : List (List α)) (k : List α) (hrows : ∀ r ∈ A, r.length = n) :
    ∀ r ∈ transformA n (some (.vec k)) A, r.length = n := by
  intro r hr
  simp only [transformA] at hr
  obtain ⟨i, hi, rfl⟩ := List.mem_iff_getElem.1 hr
  simp only [List.getElem_zipWith, smul, List.length_map]
  exact hrows _ (List.getElem_mem _)

theorem transformA_vec_length (nf n : ℕ) (A : List (List α)) (k : List α) (hA : A.length = nf)
    (hk : k.length = nf ∨ k.length = 1) : (transformA n (some (.vec k)) A).length = nf := by
  simp only [transformA, List.length_zipWith, hA, bcast_length nf k hk, min_self]

theorem transformBase_vec_length (nf : ℕ) (k baseline : List α)
    (hbase : baseline.length = nf ∨ baseline.length = 1) (hk : k.length = nf ∨ k.length = 1) :
    (transformBase nf (some (.vec k)) baseline).length = nf := by
  simp only [transformBase, vmul, List.length_zipWith, bcast_length nf k hk,
    bcast_length nf baseline hbase, min_self]

theorem zero_error_iff_in_gamut (nf n : ℕ) (A : List (List α)) (k baseline w b lb ub : List α)
    (hA : A.length = nf) (hrows : ∀ r ∈ A, r.length = n) (hw : w.length = nf) (hb : b.length = nf)
    (hbase : baseline.length = nf ∨ baseline.length = 1) (hk : k.length = nf ∨ k.length = 1)
    (hlb : lb.length = n) (hub : ub.length = n) (hle : ∀ p ∈ lb.zip ub, p.1 ≤ p.2)
    (hw0 : ∀ v ∈ w, v ≠ 0) :
    let A' := transformA n (some (.vec k)) A
    let base' := transformBase nf (some (.vec k)) baseline
    (∃ x : List α, x.length = n ∧ (∀ p ∈ lb.zip x, p.1 ≤ p.2) ∧ (∀ p ∈ x.zip ub, p.1 ≤ p.2) ∧
        docObj (.vec k) A baseline w b x = 0)
    ↔ (∃ wt : List α, (∀ v ∈ wt, 0 ≤ v) ∧ wt.sum = 1 ∧ wt.length = (corners lb ub).length ∧
        convComb A'.length wt ((corners lb ub).map (predict A' base')) = b) := by
  intro A' base'
  have hA'r : ∀ r ∈ A', r.length = lb.length := by
    rw [hlb]; exact transformA_vec_rows n A k hrows
  have hA'l : A'.length = nf := transformA_vec_length nf n A k hA hk
  have hb'l : base'.length = A'.length := by
    rw [hA'l]; exact transformBase_vec_length nf k baseline hbase hk
  have h1 : lb.length = ub.length := by rw [hlb, hub]
  -- zero error ↔ predict = b, for every x of length n
  have key : ∀ x : List α, x.length = n →
      (docObj (.vec k) A baseline w b x = 0 ↔ predict A' base' x = b) := by
    intro x hx
    have hS : Shapes nf n A baseline w b x := ⟨hA, hrows, hx, hw, hb, hbase⟩
    have e := predict_eq_model_vec nf n A k baseline w b x hS hk
    have hlen : (relCapture (.vec k) baseline (systemCapture A x)).length = b.length := by
      rw [← e, hb]
      show (vadd (matVec A' x) base').length = nf
      rw [C03.vadd_length, Cert.matVec_length, hb'l, hA'l, min_self]
    rw [zero_error_iff nf n (.vec k) A baseline w b x hw0 hlen (by rw [hw, hb])]
    show _ ↔ predict A' base' x = b
    rw [e]
  constructor
  · rintro ⟨x, hx, hx1, hx2, hx0⟩
    have hp := (key x hx).1 hx0
    obtain ⟨wt, h1', h2', h3', h4'⟩ := C03.weights_of_reproducible A' base' lb ub x h1 hA'r hb'l
      (by rw [hx, hlb]) hle ⟨hx1, hx2⟩
    exact ⟨wt, h1', h2', h3', by rw [h4', hp]⟩
  · rintro ⟨wt, h1', h2', h3', h4'⟩
    obtain ⟨x, hx, hx1, hx2, hp⟩ := C03.reproducible_of_weights A' base' lb ub wt b h1 hA'r hb'l hle
      ⟨h1', h2', h3'⟩ h4'
    have hxn : x.length = n := by rw [hx, hlb]
    exact ⟨x, hxn, hx1, hx2, (key x hxn).2 hp⟩

end C04

end Dreye
