/-
  C15 — results are equivariant under a change of physical units: intensities in units `s` times larger
  (bounds and intensities divided by `s`, capture matrix multiplied by `s`) and captures in units `c`
  times smaller (capture matrix, targets, baseline multiplied by `c`).
-/
import Dreye.Model.Fit
import Dreye.Props.Cert
import Dreye.Props.C06
import Mathlib.Algebra.Order.Field.Basic
import Mathlib.Algebra.BigOperators.Group.List.Basic
import Mathlib.Tactic

namespace Dreye
namespace C15

variable {α : Type*} [Field α] [LinearOrder α] [IsStrictOrderedRing α]

/-- the twin capture matrix `s c A'` -/
def twinA (s c : α) (A' : List (List α)) : List (List α) := A'.map (fun r => smul (s * c) r)
/-- intensities / bounds in the new unit -/
def twinX (s : α) (x : List α) : List α := smul (1 / s) x
def twinUb (s : α) (ub : List (Option α)) : List (Option α) := ub.map (fun u => u.map (fun t => (1 / s) * t))

open Cert

/-! ### helper algebra -/

omit [LinearOrder α] [IsStrictOrderedRing α] in
theorem dot_smul_smul (a b : α) (r x : List α) : dot (smul a r) (smul b x) = a * b * dot r x := by
  rw [dot_smul_left, dot_comm, dot_smul_left, dot_comm]; ring

omit [LinearOrder α] [IsStrictOrderedRing α] in
theorem matVec_twin (s c : α) (hs : s ≠ 0) (A : List (List α)) (x : List α) :
    matVec (twinA s c A) (twinX s x) = smul c (matVec A x) := by
  simp only [matVec, twinA, twinX, smul, List.map_map]
  apply List.map_congr_left
  intro r _
  simp only [Function.comp]
  have := dot_smul_smul (s * c) (1 / s) r x
  simp only [smul] at this
  rw [this]
  field_simp

omit [LinearOrder α] [IsStrictOrderedRing α] in
theorem vadd_smul (c : α) : ∀ (u v : List α), vadd (smul c u) (smul c v) = smul c (vadd u v)
  | [], _ => by simp [vadd, smul]
  | _ :: _, [] => by simp [vadd, smul]
  | a :: u, b :: v => by
      have ih := vadd_smul c u v
      simp only [vadd, smul, List.map_cons, List.zipWith_cons_cons] at ih ⊢
      rw [ih, mul_add]

omit [LinearOrder α] [IsStrictOrderedRing α] in
theorem vsub_smul (c : α) : ∀ (u v : List α), vsub (smul c u) (smul c v) = smul c (vsub u v)
  | [], _ => by simp [vsub, smul]
  | _ :: _, [] => by simp [vsub, smul]
  | a :: u, b :: v => by
      have ih := vsub_smul c u v
      simp only [vsub, smul, List.map_cons, List.zipWith_cons_cons] at ih ⊢
      rw [ih, mul_sub]

omit [LinearOrder α] [IsStrictOrderedRing α] in
theorem smul_injective (c : α) (hc : c ≠ 0) {u v : List α} (h : smul c u = smul c v) : u = v := by
  have : Function.Injective (fun t : α => c * t) := fun a b hab => mul_left_cancel₀ hc hab
  exact (List.map_injective_iff.2 this) h

omit [LinearOrder α] [IsStrictOrderedRing α] in
theorem twinX_inv (s : α) (hs : s ≠ 0) (x : List α) : twinX (1 / s) (twinX s x) = x := by
  simp only [twinX, smul, List.map_map]
  conv_rhs => rw [← List.map_id x]
  apply List.map_congr_left
  intro t _
  simp only [Function.comp, id]
  field_simp

omit [LinearOrder α] [IsStrictOrderedRing α] in
theorem twinX_inv' (s : α) (hs : s ≠ 0) (x : List α) : twinX s (twinX (1 / s) x) = x := by
  simp only [twinX, smul, List.map_map]
  conv_rhs => rw [← List.map_id x]
  apply List.map_congr_left
  intro t _
  simp only [Function.comp, id]
  field_simp

omit [LinearOrder α] [IsStrictOrderedRing α] in
theorem twinUb_inv (s : α) (hs : s ≠ 0) (ub : List (Option α)) : twinUb (1 / s) (twinUb s ub) = ub := by
  simp only [twinUb, List.map_map]
  conv_rhs => rw [← List.map_id ub]
  apply List.map_congr_left
  intro u _
  cases u with
  | none => rfl
  | some t =>
    simp only [Function.comp, Option.map_some, id, Option.some.injEq]
    field_simp

theorem box_twin (s : α) (hs : 0 < s) {lb : List α} {ub : List (Option α)} {x : List α}
    (h : Box lb ub x) : Box (twinX s lb) (twinUb s ub) (twinX s x) := by
  have hk : (0 : α) ≤ 1 / s := le_of_lt (one_div_pos.2 hs)
  induction h with
  | nil => exact Box.nil
  | @cons l u v lb ub x hl hu _ ih =>
    simp only [twinX, smul, twinUb, List.map_cons] at ih ⊢
    refine Box.cons (mul_le_mul_of_nonneg_left hl hk) ?_ ih
    intro u' hu'
    cases u with
    | none => simp at hu'
    | some t =>
      simp only [Option.map_some, Option.some.injEq] at hu'
      rw [← hu']
      exact mul_le_mul_of_nonneg_left (hu t rfl) hk

theorem box_twin_iff (s : α) (hs : 0 < s) (lb : List α) (ub : List (Option α)) (x : List α) :
    Box (twinX s lb) (twinUb s ub) (twinX s x) ↔ Box lb ub x := by
  constructor
  · intro h
    have := box_twin (1 / s) (one_div_pos.2 hs) h
    rwa [twinX_inv s hs.ne', twinX_inv s hs.ne', twinUb_inv s hs.ne'] at this
  · exact box_twin s hs

theorem zip_le_smul (k : α) (hk : 0 ≤ k) (a b : List α) (h : ∀ p ∈ a.zip b, p.1 ≤ p.2) :
    ∀ p ∈ (smul k a).zip (smul k b), p.1 ≤ p.2 := by
  intro p hp
  simp only [smul, List.zip_map, List.mem_map] at hp
  obtain ⟨q, hq, rfl⟩ := hp
  exact mul_le_mul_of_nonneg_left (h q hq) hk

theorem zip_le_twin_iff (s : α) (hs : 0 < s) (a b : List α) :
    (∀ p ∈ (twinX s a).zip (twinX s b), p.1 ≤ p.2) ↔ ∀ p ∈ a.zip b, p.1 ≤ p.2 := by
  constructor
  · intro h
    have := zip_le_smul (1 / (1 / s)) (le_of_lt (one_div_pos.2 (one_div_pos.2 hs))) _ _ h
    change ∀ p ∈ (twinX (1 / s) (twinX s a)).zip (twinX (1 / s) (twinX s b)), p.1 ≤ p.2 at this
    rwa [twinX_inv s hs.ne', twinX_inv s hs.ne'] at this
  · exact zip_le_smul (1 / s) (le_of_lt (one_div_pos.2 hs)) a b

omit [LinearOrder α] [IsStrictOrderedRing α] in
theorem twinX_length (s : α) (x : List α) : (twinX s x).length = x.length := by
  simp [twinX, smul]

/-- **C15 (the model's capture scales by `c`)**: the twin system at the rescaled intensities predicts
    `c` times the original capture. -/
theorem predict_twin (s c : α) (hs : s ≠ 0) (A' : List (List α)) (base' x : List α) :
    predict (twinA s c A') (smul c base') (twinX s x) = smul c (predict A' base' x) := by
  unfold predict
  rw [matVec_twin s c hs, vadd_smul]

/-- **C15 (bounds)**: `x` is within the bounds iff the rescaled `x` is within the rescaled bounds. -/
theorem inBox_twin (s : α) (hs : 0 < s) (lb : List α) (ub : List (Option α)) (x : List α) :
    inBox (twinX s lb) (twinUb s ub) (twinX s x) = inBox lb ub x := by
  rw [Bool.eq_iff_iff]
  constructor
  · intro h
    exact inBox_of_box ((box_twin_iff s hs lb ub x).1 (box_of_inBox _ _ _ h))
  · intro h
    exact inBox_of_box ((box_twin_iff s hs lb ub x).2 (box_of_inBox _ _ _ h))

/-- **C15 (gamut membership is unchanged)**: `b` is reproduced by in-bound intensities `x` iff `c b` is
    reproduced by the in-bound twin intensities `x / s` in the twin system. -/
theorem reproducible_twin (s c : α) (hs : 0 < s) (hc : 0 < c) (A' : List (List α)) (base' lb : List α)
    (ub : List (Option α)) (b x : List α) (hb : b.length = (predict A' base' x).length) :
    (inBox lb ub x = true ∧ predict A' base' x = b) ↔
    (inBox (twinX s lb) (twinUb s ub) (twinX s x) = true ∧
      predict (twinA s c A') (smul c base') (twinX s x) = smul c b) := by
  have _ := hb
  rw [inBox_twin s hs, predict_twin s c hs.ne']
  constructor
  · rintro ⟨h1, h2⟩
    exact ⟨h1, by rw [h2]⟩
  · rintro ⟨h1, h2⟩
    exact ⟨h1, smul_injective c hc.ne' h2⟩

/-- **C15 (errors scale by `c`, squared errors by `c²`)** for the weighted least-squares data
    `C = diag(w) A'`, `d = w ⊙ b'`. -/
theorem lsObj_twin (s c : α) (hs : s ≠ 0) (C : List (List α)) (d x : List α) :
    lsObj (twinA s c C) (smul c d) (twinX s x) = c * c * lsObj C d x := by
  unfold lsObj residual
  rw [matVec_twin s c hs, vsub_smul, dot_smul_smul]

/-- **C15 (fitted intensities scale by exactly `1/s`)**: `x` minimises the original bounded problem iff
    `x / s` minimises the twin problem over the twin bounds. -/
theorem argmin_twin (s c : α) (hs : 0 < s) (hc : 0 < c) (C : List (List α)) (d lb : List α) (ub : List (Option α))
    (x : List α) (hx : inBox lb ub x = true) :
    (∀ y, inBox lb ub y = true → lsObj C d x ≤ lsObj C d y) ↔
    (∀ y', inBox (twinX s lb) (twinUb s ub) y' = true →
        lsObj (twinA s c C) (smul c d) (twinX s x) ≤ lsObj (twinA s c C) (smul c d) y') := by
  have _ := hx
  have hcc : 0 < c * c := mul_pos hc hc
  constructor
  · intro h y' hy'
    have e : y' = twinX s (twinX (1 / s) y') := (twinX_inv' s hs.ne' y').symm
    rw [e, inBox_twin s hs] at hy'
    rw [e, lsObj_twin s c hs.ne', lsObj_twin s c hs.ne']
    exact mul_le_mul_of_nonneg_left (h _ hy') hcc.le
  · intro h y hy
    have := h (twinX s y) (by rw [inBox_twin s hs]; exact hy)
    rw [lsObj_twin s c hs.ne', lsObj_twin s c hs.ne'] at this
    exact le_of_mul_le_mul_left this hcc

/-- **C15 (solution polytopes correspond, so ranges scale by `1/s`)**: `x` reproduces the target within
    the bounds iff `x / s` does in the twin problem. -/
theorem feasible_twin (s c : α) (hs : 0 < s) (hc : 0 < c) (A : List (List α)) (b lb ub x : List α) :
    C06.Feasible A b lb ub x ↔ C06.Feasible (twinA s c A) (smul c b) (twinX s lb) (twinX s ub) (twinX s x) := by
  unfold C06.Feasible
  rw [twinX_length, twinX_length, twinX_length, zip_le_twin_iff s hs, zip_le_twin_iff s hs,
    matVec_twin s c hs.ne']
  constructor
  · rintro ⟨h1, h2, h3, h4, h5⟩
    exact ⟨h1, h2, h3, h4, by rw [h5]⟩
  · rintro ⟨h1, h2, h3, h4, h5⟩
    exact ⟨h1, h2, h3, h4, smul_injective c hc.ne' h5⟩

end C15
end Dreye
