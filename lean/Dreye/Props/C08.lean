/-
  C08 — underdetermined fits reproduce the target and optimise the chosen secondary goal.
  (Also the algebra of the variance objective used by C09.)
-/
import Dreye.Model.Under
import Dreye.Props.Cert
import Dreye.Props.C20
import Dreye.Props.Linalg
import Mathlib.Algebra.Order.Field.Basic
import Mathlib.Algebra.BigOperators.Group.List.Basic
import Mathlib.Tactic

namespace Dreye
namespace C08

variable {α : Type*} [Field α] [LinearOrder α] [IsStrictOrderedRing α]

set_option linter.unusedSectionVars false

/-- the feasible set of the underdetermined fit: within the bounds and `‖W(A'x − b')‖₂ ≤ l2_eps`
    (`C = diag(w)A'`, `d = w ⊙ b'` as prepared by the code) -/
def InU (C : List (List α)) (d : List α) (eps : α) (lb : List α) (ub : List (Option α)) (x : List α) : Prop :=
  linFeasible [] [] C d eps lb ub x

/-! ### helper algebra -/

theorem dot_replicate_const (c : α) : ∀ (n : ℕ) (x : List α), x.length = n →
    dot (List.replicate n c) x = c * x.sum
  | 0, [], _ => by simp [Cert.dot_nil_left]
  | 0, _ :: _, h => by simp at h
  | _ + 1, [], h => by simp at h
  | n + 1, a :: x, h => by
      rw [List.replicate_succ, Cert.dot_cons, dot_replicate_const c n x (by simpa using h), List.sum_cons]
      ring

theorem dot_self_eq : ∀ (v : List α), dot v v = (v.map (fun t => t * t)).sum
  | [] => by simp [Cert.dot_nil_left]
  | a :: v => by rw [Cert.dot_cons, dot_self_eq v]; simp

theorem vsub_replicate_zero : ∀ (n : ℕ) (x : List α), x.length = n → vsub x (List.replicate n 0) = x
  | 0, [], _ => by simp [vsub]
  | 0, _ :: _, h => by simp at h
  | _ + 1, [], h => by simp at h
  | n + 1, a :: x, h => by
      have ih := vsub_replicate_zero n x (by simpa using h)
      simp only [vsub, List.replicate_succ, List.zipWith_cons_cons, sub_zero] at ih ⊢
      rw [ih]

/-- a row given by a function of the column index, dotted with `x` -/
theorem dot_map_range_left (n : ℕ) (f : ℕ → α) (x : List α) :
    dot ((List.range n).map f) x = ∑ j ∈ Finset.range n, f j * x.getD j 0 := by
  rw [LinalgProps.dot_eq_sum _ _ n (by simp)]
  refine Finset.sum_congr rfl (fun j hj => ?_)
  have : j < n := Finset.mem_range.1 hj
  simp [List.getD_eq_getElem?_getD, this]

theorem sum_eq_sum_getD (n : ℕ) (x : List α) (hx : x.length = n) :
    x.sum = ∑ j ∈ Finset.range n, x.getD j 0 := by
  have h := dot_replicate_const (1 : α) n x hx
  rw [one_mul] at h
  rw [← h, LinalgProps.dot_eq_sum _ _ n (by simp)]
  refine Finset.sum_congr rfl (fun j hj => ?_)
  have : j < n := Finset.mem_range.1 hj
  simp [List.getD_eq_getElem?_getD, this]

theorem matVec_eye (n : ℕ) (x : List α) (hx : x.length = n) : matVec (eye n) x = x := by
  apply List.ext_getElem
  · simp [matVec, eye, hx]
  · intro i h1 h2
    have hin : i < n := by rw [← hx]; exact h2
    simp only [matVec, eye, List.getElem_map, List.getElem_range]
    rw [dot_map_range_left]
    have hterm : ∀ j ∈ Finset.range n, (if i = j then (1 : α) else 0) * x.getD j 0
        = if j = i then x.getD i 0 else 0 := by
      intro j _
      by_cases h : i = j
      · subst h; simp
      · have : j ≠ i := fun h' => h h'.symm
        simp [h, this]
    rw [Finset.sum_congr rfl hterm, Finset.sum_ite_eq']
    simp [hin, List.getD_eq_getElem?_getD, h2]

theorem matVec_centering (n : ℕ) (x : List α) (hx : x.length = n) :
    matVec (centering n) x = x.map (fun v => (n : α) * v - x.sum) := by
  apply List.ext_getElem
  · simp [matVec, centering, hx]
  · intro i h1 h2
    have h2' : i < x.length := by simpa using h2
    have hin : i < n := by rw [← hx]; exact h2'
    simp only [matVec, centering, List.getElem_map, List.getElem_range]
    rw [dot_map_range_left, C20.ofNatLit_eq]
    have hterm : ∀ j ∈ Finset.range n, (if i = j then (n : α) - 1 else -1) * x.getD j 0
        = (if j = i then (n : α) * x.getD i 0 else 0) - x.getD j 0 := by
      intro j _
      by_cases h : i = j
      · subst h; simp; ring
      · have : j ≠ i := fun h' => h h'.symm
        simp [h, this]
    rw [Finset.sum_congr rfl hterm, Finset.sum_sub_distrib, Finset.sum_ite_eq', ← sum_eq_sum_getD n x hx]
    simp [hin, List.getD_eq_getElem?_getD, h2']

/-- **C08 (every feasible point reproduces the target within the requested tolerance)** -/
theorem reproduces (C : List (List α)) (d : List α) (eps : α) (lb : List α) (ub : List (Option α)) (x : List α)
    (h : InU C d eps lb ub x) : lsObj C d x ≤ eps * eps ∧ inBox lb ub x = true := by
  exact ⟨h.2.2.1, h.1⟩

/-! the quadratic options are least-squares forms `‖M x − r‖²` -/

theorem quad_l2 (n : ℕ) (x : List α) (hx : x.length = n) :
    lsObj (eye n) (List.replicate n 0) x = underObjective .l2 x := by
  unfold lsObj residual
  rw [matVec_eye n x hx, vsub_replicate_zero n x hx, dot_self_eq]
  rfl

theorem quad_vector (n : ℕ) (x v : List α) (hx : x.length = n) (hv : v.length = n) :
    lsObj (eye n) v x = underObjective (.vector v) x := by
  have _ := hv
  unfold lsObj residual
  rw [matVec_eye n x hx, dot_self_eq]
  rfl

theorem quad_number (n : ℕ) (x : List α) (s : α) (hx : x.length = n) :
    lsObj [List.replicate n 1] [s] x = underObjective (.number s) x := by
  unfold lsObj residual
  simp only [matVec, List.map_cons, List.map_nil, vsub, List.zipWith_cons_cons, List.zipWith_nil_right,
    Cert.dot_cons, Cert.dot_nil_left, add_zero]
  rw [dot_replicate_const 1 n x hx, one_mul]
  rfl

/-- variance across sources: `‖(nI − J) x‖² = n² Σ_k (x_k − mean x)²` -/
theorem quad_var (n : ℕ) (x : List α) (hx : x.length = n) (hn : 0 < n) :
    lsObj (centering n) (List.replicate n 0) x = (n : α) * (n : α) * underObjective .var x := by
  have hn' : (n : α) ≠ 0 := Nat.cast_ne_zero.2 (by omega)
  unfold lsObj residual
  rw [matVec_centering n x hx, vsub_replicate_zero n _ (by simpa using hx), dot_self_eq]
  simp only [underObjective, hx, C20.ofNatLit_eq, List.map_map]
  rw [← List.sum_map_mul_left]
  congr 1
  apply List.map_congr_left
  intro v _
  simp only [Function.comp]
  field_simp

/-- linear options -/
theorem lin_min (n : ℕ) (x : List α) (hx : x.length = n) : dot (List.replicate n 1) x = underObjective .min x := by
  rw [dot_replicate_const 1 n x hx, one_mul]; rfl
theorem lin_max (n : ℕ) (x : List α) (hx : x.length = n) : dot (List.replicate n (-1)) x = underObjective .max x := by
  rw [dot_replicate_const (-1) n x hx, neg_one_mul]; rfl

/-- **C08 (certified optimality of a linear secondary goal — smallest / largest total intensity)**:
    accepted multipliers bound the goal over *all* intensities that reproduce the target within the
    tolerance and respect the bounds. -/
theorem linear_goal_of_cert (n : ℕ) (c : List α) (C : List (List α)) (d : List α) (eps : α)
    (v : List α) (sigma : α) (lb : List α) (ub : List (Option α)) (b : α) (y : List α)
    (hb : linLower n c [] [] C d eps [] v sigma lb ub = some b)
    (hy : InU C d eps lb ub y) (hyn : y.length = n) : b ≤ dot c y := by
  exact Cert.lin_lower_sound n c [] [] C d eps [] v sigma lb ub b y hb hy hyn

/-- **C08 (certified optimality of a quadratic secondary goal — norm, variance, total closest to a
    value, intensities closest to a vector)**: `‖Mx̂ − r‖² ≤ ‖My − r‖² + δ` for every feasible `y`,
    with `δ = ∇·x̂ − b` computed from the accepted multipliers. -/
theorem quadratic_goal_of_cert (n : ℕ) (M : List (List α)) (r : List α) (C : List (List α)) (d : List α) (eps : α)
    (v : List α) (sigma : α) (lb : List α) (ub : List (Option α)) (b : α) (x y : List α)
    (hb : linLower n (lsGrad n M r x) [] [] C d eps [] v sigma lb ub = some b)
    (hy : InU C d eps lb ub y) (hxn : x.length = n) (hyn : y.length = n)
    (hM : ∀ m ∈ M, m.length = n) (hr : M.length = r.length) :
    lsObj M r x ≤ lsObj M r y + (dot (lsGrad n M r x) x - b) := by
  exact Cert.quad_opt_of_cert n M r [] [] C d eps [] v sigma lb ub b x y hb hy hxn hyn hM hr

/-- minimising the Euclidean norm and minimising its square are the same thing: a bound on the squares
    gives a bound on the norms (stated without square roots) -/
theorem l2_sq_bound (a b δ : α) (ha : 0 ≤ a) (hb : 0 ≤ b) (hδ : 0 ≤ δ) (h : a * a ≤ b * b + δ) :
    a ≤ b + δ / (a + b) ∨ a + b = 0 := by
  have _ := hδ
  rcases (add_nonneg ha hb).eq_or_lt with h0 | hpos
  · exact Or.inr h0.symm
  · left
    rw [← sub_le_iff_le_add', le_div_iff₀ hpos]
    nlinarith

/-! ### the variance objective (C09) -/

/-- `sum(Epsilon @ x²) = Σ_k e_k x_k²` with `e = ` column sums of `Epsilon` -/
theorem variance_as_diag (n : ℕ) (Eps : List (List α)) (x : List α) (hE : ∀ r ∈ Eps, r.length = n)
    (hx : x.length = n) :
    varianceObjective Eps x = dot (columnSums n Eps) (vmul x x) := by
  have _ := hx
  unfold varianceObjective columnSums
  rw [Cert.dot_linComb n _ _ _ hE, dot_replicate_const 1 _ _ (by simp [matVec]), one_mul]

/-- the reported capture variances sum to the objective -/
theorem capture_variance_sum (Eps : List (List α)) (x : List α) :
    (captureVariance Eps x).sum = varianceObjective Eps x := by
  rfl

/-- variance propagates through a per-receptor adaptation with the *square* of `K` -/
theorem propagate_vec_entry (n : ℕ) (k : List α) (Eps : List (List α)) (c : ℕ)
    (hk : k.length = Eps.length) (hk1 : k.length ≠ 1) (hc : c < Eps.length) :
    (propagateError n (some (.vec k)) Eps)[c]? = some (smul (k[c]'(by omega) * k[c]'(by omega)) Eps[c]) := by
  have hb : bcast Eps.length k = k := by
    match k, hk1 with
    | [], _ => rfl
    | [_], h => simp at h
    | _ :: _ :: _, _ => rfl
  have hck : c < k.length := by omega
  simp only [propagateError, hb, List.getElem?_zipWith, List.getElem?_eq_getElem hck,
    List.getElem?_eq_getElem hc]

end C08
end Dreye
