/-
  C11 — layer decomposition honours every constraint and never worsens its fit.
  The alternating scheme is abstract here: two blocks of variables, a loss, and half-steps that return
  (near-)minimisers of the loss over a feasible set containing the current iterate.
-/
import Dreye.Props.Cert
import Dreye.Model.Fit
import Mathlib.Algebra.Order.Field.Basic
import Mathlib.Tactic

namespace Dreye
namespace C11

variable {α : Type*} [Field α] [LinearOrder α] [IsStrictOrderedRing α]

/-- one full alternating iteration from `(P, X)`: the X-step returns `X'` that is `δ`-optimal for
    `L(P, ·)` over `SX` (which contains `X`), then the P-step returns `P'` that is `δ`-optimal for
    `L(·, X')` over `SP` (which contains `P`). -/
structure Iteration {TP TX : Type*} (L : TP → TX → α) (SP : Set TP) (SX : Set TX) (δ : α)
    (P : TP) (X : TX) (P' : TP) (X' : TX) : Prop where
  hX : X ∈ SX
  hP : P ∈ SP
  hX' : X' ∈ SX
  hP' : P' ∈ SP
  xstep : ∀ Y ∈ SX, L P X' ≤ L P Y + δ
  pstep : ∀ Q ∈ SP, L P' X' ≤ L Q X' + δ

/-- **C11 (one iteration never worsens the fit by more than the solver slack)** -/
theorem iteration_descent {TP TX : Type*} (L : TP → TX → α) (SP : Set TP) (SX : Set TX) (δ : α)
    (P : TP) (X : TX) (P' : TP) (X' : TX) (h : Iteration L SP SX δ P X P' X') :
    L P' X' ≤ L P X + 2 * δ := by
  have h1 := h.xstep X h.hX
  have h2 := h.pstep P h.hP
  linarith

/-- **C11 (the alternating optimisation never increases the fitting error, any number of iterations)**:
    along any run in which every iteration consists of two `δ`-optimal half-steps, the loss after `k`
    iterations is at most the initial loss plus `2 k δ`; with exact half-steps (`δ = 0`) it is
    non-increasing. -/
theorem alternating_descent {TP TX : Type*} (L : TP → TX → α) (SP : Set TP) (SX : Set TX) (δ : α)
    (P : ℕ → TP) (X : ℕ → TX)
    (h : ∀ k, Iteration L SP SX δ (P k) (X k) (P (k + 1)) (X (k + 1))) :
    ∀ k, L (P k) (X k) ≤ L (P 0) (X 0) + 2 * (k : α) * δ := by
  intro k
  induction k with
  | zero => simp
  | succ k ih =>
    have := iteration_descent L SP SX δ _ _ _ _ (h k)
    push_cast
    linarith

theorem alternating_monotone {TP TX : Type*} (L : TP → TX → α) (SP : Set TP) (SX : Set TX)
    (P : ℕ → TP) (X : ℕ → TX)
    (h : ∀ k, Iteration L SP SX 0 (P k) (X k) (P (k + 1)) (X (k + 1))) :
    ∀ k, L (P (k + 1)) (X (k + 1)) ≤ L (P k) (X k) := by
  intro k
  have := iteration_descent L SP SX 0 _ _ _ _ (h k)
  linarith

/-- **C11 (the fitted capture is the model's capture of opacities × intensities)**: for one sample with
    opacities `p` (one per layer) and layer intensities `X`, the prediction is `A' (Σ_l p_l X_l) + base'`. -/
theorem pred_eq (n : ℕ) (A' : List (List α)) (base' p : List α) (X : List (List α)) :
    predict A' base' (linComb n p X) = vadd (matVec A' (linComb n p X)) base' := rfl

/-- **C11 (the opacities fitted last are globally optimal given the intensities)**: for one sample the
    opacity sub-problem is a bounded least-squares problem in `p`; a point accepted by the exact KKT
    checker is optimal against every opacity vector within the opacity bounds. -/
theorem last_opacities_optimal (m : ℕ) (C : List (List α)) (d lbp : List α) (ubp : List (Option α)) (p q : List α)
    (hk : kktOK m C d lbp ubp p = true) (hq : inBox lbp ubp q = true) :
    lsObj C d p ≤ lsObj C d q :=
  Cert.kkt_global_min m C d lbp ubp p q hk hq

/-- **C11 (the intensities fitted last are optimal given the opacities, up to a certified gap)**: the
    intensity sub-problem is `‖M x − r‖²` over bounds (mask zeros are bounds `0 ≤ x ≤ 0`) and linear rows
    (equal layer totals, as pairs of inequalities). -/
theorem last_intensities_optimal (dim : ℕ) (M : List (List α)) (r : List α) (G : List (List α)) (h lam lb : List α)
    (ub : List (Option α)) (b : α) (x y : List α)
    (hb : linLower dim (lsGrad dim M r x) G h [] [] 0 lam [] 0 lb ub = some b)
    (hy : inBox lb ub y = true ∧ ∀ p ∈ (matVec G y).zip h, p.1 ≤ p.2)
    (hx : x.length = dim) (hyl : y.length = dim) (hM : ∀ m ∈ M, m.length = dim) (hr : M.length = r.length) :
    lsObj M r x ≤ lsObj M r y + (dot (lsGrad dim M r x) x - b) := by
  have hfeas : linFeasible G h [] [] 0 lb ub y := ⟨hy.1, hy.2, by simp [lsObj, residual, matVec, vsub, dot, vmul], le_refl 0⟩
  exact Cert.quad_opt_of_cert dim M r G h [] [] 0 lam [] 0 lb ub b x y hb hfeas hx hyl hM hr

end C11
end Dreye
