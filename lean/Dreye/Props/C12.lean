/-
  C12 — gamut-corrective scalings keep hue and ratios and land in the chromatic gamut.
-/
import Dreye.Model.Project
import Dreye.Props.C03
import Mathlib.Algebra.Order.Field.Basic
import Mathlib.Algebra.BigOperators.Group.List.Basic
import Mathlib.Tactic

namespace Dreye
namespace C12

variable {α : Type*} [Field α] [LinearOrder α] [IsStrictOrderedRing α]

-- some statements below do not use the order structure; they are kept as stated
set_option linter.unusedSectionVars false

/-- the common factor of intensity scaling -/
def l1Factor (A' : List (List α)) (base' ub : List α) (B : List (List α)) : α :=
  l1Amax A' ub / listMaxOf ((B.map (fun b => vsub b base')).map listMaxOf)

/-- **C12 (one common factor)**: every scaled target is `f • (b − base') + base'` with the same `f`. -/
theorem l1_common_factor (A' : List (List α)) (base' ub : List α) (B : List (List α)) :
    l1Scaling A' base' ub B = B.map (fun b => vadd (smul (l1Factor A' base' ub B) (vsub b base')) base') := by
  simp only [l1Scaling, l1Factor, List.map_map]
  rfl

/-- **C12 (capture ratios of the light-induced part are unchanged)**: for any two receptors `c`, `e` of
    one sample, `(b'_c − base_c)(b_e − base_e) = (b'_e − base_e)(b_c − base_c)`. -/
theorem l1_ratios_kept (f : α) (base' b : List α) (hl : base'.length = b.length) (c e : ℕ) :
    ((vadd (smul f (vsub b base')) base').getD c 0 - base'.getD c 0) * (b.getD e 0 - base'.getD e 0) =
    ((vadd (smul f (vsub b base')) base').getD e 0 - base'.getD e 0) * (b.getD c 0 - base'.getD c 0) := by
  have key : ∀ i : ℕ, (vadd (smul f (vsub b base')) base').getD i 0 - base'.getD i 0
      = f * (b.getD i 0 - base'.getD i 0) := by
    intro i
    by_cases hi : i < b.length
    · have hi' : i < base'.length := hl ▸ hi
      simp [vadd, vsub, smul, List.getD_eq_getElem?_getD, hi, hi']
    · have hi' : ¬ i < base'.length := hl ▸ hi
      simp [vadd, vsub, smul, List.getD_eq_getElem?_getD, List.getElem?_zipWith,
        List.getElem?_eq_none (not_lt.1 hi), List.getElem?_eq_none (not_lt.1 hi')]
  rw [key, key]
  ring

omit [Field α] [IsStrictOrderedRing α] in
theorem foldl_mx_spec : ∀ (xs : List α) (x : α),
    xs.foldl mx x ∈ x :: xs ∧ ∀ v ∈ x :: xs, v ≤ xs.foldl mx x
  | [], x => by simp
  | y :: ys, x => by
      obtain ⟨h1, h2⟩ := foldl_mx_spec ys (mx x y)
      rw [List.foldl_cons]
      have hx : x ≤ mx x y := by unfold mx; split_ifs with h <;> [exact h; exact le_refl _]
      have hy : y ≤ mx x y := by unfold mx; split_ifs with h <;> [exact le_refl _; exact le_of_not_ge h]
      have hm : mx x y = x ∨ mx x y = y := by unfold mx; split_ifs <;> simp
      refine ⟨?_, ?_⟩
      · rcases List.mem_cons.1 h1 with h | h
        · rw [h]; rcases hm with e | e <;> simp [e]
        · simp [h]
      · intro v hv
        have hmm := h2 (mx x y) List.mem_cons_self
        rcases List.mem_cons.1 hv with rfl | hv
        · exact le_trans hx hmm
        · rcases List.mem_cons.1 hv with rfl | hv
          · exact le_trans hy hmm
          · exact h2 v (List.mem_cons_of_mem _ hv)

/-- `listMaxOf` of a non-empty list is its greatest element -/
theorem listMaxOf_spec (l : List α) (hne : l ≠ []) :
    listMaxOf l ∈ l ∧ ∀ v ∈ l, v ≤ listMaxOf l := by
  cases l with
  | nil => exact absurd rfl hne
  | cons x xs => exact foldl_mx_spec xs x

theorem mx_mul (f : α) (hf : 0 < f) (a b : α) : mx (f * a) (f * b) = f * mx a b := by
  unfold mx
  by_cases h : a ≤ b
  · rw [if_pos h, if_pos (mul_le_mul_of_nonneg_left h hf.le)]
  · rw [if_neg h, if_neg (fun h' => h (le_of_mul_le_mul_left h' hf))]

theorem foldl_mx_smul (f : α) (hf : 0 < f) : ∀ (xs : List α) (x : α),
    (xs.map (f * ·)).foldl mx (f * x) = f * xs.foldl mx x
  | [], x => rfl
  | y :: ys, x => by
      rw [List.map_cons, List.foldl_cons, List.foldl_cons, mx_mul f hf, foldl_mx_smul f hf ys]

/-- scaling a list by a positive factor scales its maximum -/
theorem listMaxOf_smul (f : α) (hf : 0 < f) (l : List α) (hne : l ≠ []) :
    listMaxOf (smul f l) = f * listMaxOf l := by
  cases l with
  | nil => exact absurd rfl hne
  | cons x xs => exact foldl_mx_smul f hf xs x

theorem vsub_vadd_cancel (a o : List α) (h : a.length = o.length) : vsub (vadd a o) o = a := by
  apply List.ext_getElem
  · simp [vadd, vsub, h]
  · intro i h1 h2
    simp [vadd, vsub]

/-- **C12 (the largest light-induced capture becomes the smallest single-source maximum)**: with a
    positive overall maximum `bmax`, the maximum of the scaled light-induced parts is `amax`. -/
theorem l1_max_becomes_amax (A' : List (List α)) (base' ub : List α) (B : List (List α))
    (hB : B ≠ []) (hrows : ∀ b ∈ B, b.length = base'.length ∧ b ≠ [])
    (hamax : 0 < l1Amax A' ub)
    (hbmax : 0 < listMaxOf ((B.map (fun b => vsub b base')).map listMaxOf)) :
    listMaxOf (((l1Scaling A' base' ub B).map (fun b => vsub b base')).map listMaxOf) = l1Amax A' ub := by
  rw [l1_common_factor]
  have hf : 0 < l1Factor A' base' ub B := div_pos hamax hbmax
  set f := l1Factor A' base' ub B with hfdef
  have e : ((B.map (fun b => vadd (smul f (vsub b base')) base')).map (fun b => vsub b base')).map listMaxOf
      = smul f ((B.map (fun b => vsub b base')).map listMaxOf) := by
    simp only [smul, List.map_map]
    apply List.map_congr_left
    intro b hb
    obtain ⟨hlen, hne⟩ := hrows b hb
    have hne' : vsub b base' ≠ [] := by
      intro h0
      have := congrArg List.length h0
      rw [C03.vsub_length, hlen, min_self] at this
      exact hne (List.length_eq_zero_iff.1 (hlen.trans (by simpa using this)))
    simp only [Function.comp]
    rw [vsub_vadd_cancel _ _ (by simp [C03.vsub_length, hlen])]
    exact listMaxOf_smul f hf _ hne'
  rw [e, listMaxOf_smul f hf _ (by simpa using hB), hfdef, l1Factor]
  exact div_mul_cancel₀ _ hbmax.ne'

theorem sum_vsub : ∀ (a b : List α), a.length = b.length → (vsub a b).sum = a.sum - b.sum
  | [], [], _ => by simp [vsub]
  | [], _ :: _, h => by simp at h
  | _ :: _, [], h => by simp at h
  | x :: a, y :: b, h => by
      have ih := sum_vsub a b (by simpa using h)
      simp only [vsub, List.zipWith_cons_cons, List.sum_cons] at ih ⊢
      rw [ih]; ring

/-- **C12 (chromatic scaling keeps every target's total capture)** -/
theorem dist_total_kept (l1 alpha : α) (chat bhat : List α) (hl : chat.length = bhat.length)
    (hc : chat.sum = 1) (hb : bhat.sum = 1) : (distScaled l1 alpha chat bhat).sum = l1 := by
  unfold distScaled
  have h1 : (vadd chat (smul alpha (vsub bhat chat))).sum
      = chat.sum + (smul alpha (vsub bhat chat)).sum :=
    C03.sum_zipWith_add _ _ (by rw [C03.smul_length, C03.vsub_length, hl, min_self])
  rw [smul, C03.sum_map_mul, h1, smul, C03.sum_map_mul, sum_vsub _ _ hl.symm, hc, hb]
  ring

/-- **C12 (… and its hue direction from the neutral point, contracting saturation by `alpha`)** -/
theorem dist_hue_kept (l1 alpha : α) (chat bhat : List α) (hl : chat.length = bhat.length) (hl1 : l1 ≠ 0) :
    vsub (smul (1 / l1) (distScaled l1 alpha chat bhat)) chat = smul alpha (vsub bhat chat) := by
  unfold distScaled
  apply List.ext_getElem
  · simp [vadd, vsub, smul, hl]
  · intro i h1 h2
    simp [vadd, vsub, smul]
    field_simp
    ring

/-- **C12 (targets already inside are returned unchanged)**: contraction factor one is the identity. -/
theorem dist_identity (l1 : α) (chat bhat : List α) (hl : chat.length = bhat.length) :
    distScaled l1 1 chat bhat = smul l1 bhat := by
  unfold distScaled
  apply List.ext_getElem
  · simp [vadd, vsub, smul, hl]
  · intro i h1 h2
    simp [vadd, vsub, smul]

/-- **C12 (contracted chromaticities stay in a convex chromatic gamut)**: if the neutral chromaticity
    and `chat + a (bhat − chat)` are convex combinations of the gamut's corner chromaticities, so is
    `chat + a' (bhat − chat)` for every `0 ≤ a' ≤ a` — the common factor (the minimum over samples)
    keeps every sample inside. -/
theorem dist_contraction_in_hull (d : ℕ) (P : List (List α)) (chat bhat : List α) (a a' : α)
    (hP : ∀ p ∈ P, p.length = d) (hc : chat.length = d) (hb : bhat.length = d)
    (ha : 0 ≤ a') (haa : a' ≤ a) (hpos : 0 < a)
    (hin0 : ∃ w : List α, (∀ v ∈ w, 0 ≤ v) ∧ w.sum = 1 ∧ w.length = P.length ∧ convComb d w P = chat)
    (hin1 : ∃ w : List α, (∀ v ∈ w, 0 ≤ v) ∧ w.sum = 1 ∧ w.length = P.length ∧
        convComb d w P = vadd chat (smul a (vsub bhat chat))) :
    ∃ w : List α, (∀ v ∈ w, 0 ≤ v) ∧ w.sum = 1 ∧ w.length = P.length ∧
        convComb d w P = vadd chat (smul a' (vsub bhat chat)) := by
  obtain ⟨w0, n0, s0, l0, c0⟩ := hin0
  obtain ⟨w1, n1, s1, l1, c1⟩ := hin1
  set θ := a' / a with hθ
  have hθ0 : 0 ≤ θ := div_nonneg ha hpos.le
  have hθ1 : θ ≤ 1 := (div_le_one hpos).2 haa
  have hθa : θ * a = a' := div_mul_cancel₀ _ hpos.ne'
  refine ⟨List.zipWith (· + ·) (w0.map ((1 - θ) * ·)) (w1.map (θ * ·)), ?_, ?_, ?_, ?_⟩
  · intro v hv
    obtain ⟨i, hi, rfl⟩ := List.mem_iff_getElem.1 hv
    simp only [List.getElem_zipWith, List.getElem_map]
    exact add_nonneg (mul_nonneg (sub_nonneg.2 hθ1) (n0 _ (List.getElem_mem _)))
      (mul_nonneg hθ0 (n1 _ (List.getElem_mem _)))
  · rw [C03.sum_zipWith_add _ _ (by simp [l0, l1]), C03.sum_map_mul, C03.sum_map_mul, s0, s1]
    ring
  · simp [l0, l1]
  · unfold convComb at c0 c1 ⊢
    rw [C03.linComb_add_weights d _ _ P (by simp [l0]) (by simp [l1]) hP,
      C03.linComb_map_mul, C03.linComb_map_mul, c0, c1]
    have key : ∀ x y : α, (1 - θ) * x + θ * (x + a * (y - x)) = x + a' * (y - x) := by
      intro x y
      rw [← hθa]
      ring
    apply List.ext_getElem
    · simp [vadd, vsub, smul, hc, hb]
    · intro i h1 h2
      simp only [vadd, vsub, smul, List.getElem_zipWith, List.getElem_map]
      exact key _ _

end C12
end Dreye
