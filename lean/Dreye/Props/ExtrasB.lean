/-
  Further theorems tying the models together (second batch).
-/
import Dreye.Model.Stack
import Dreye.Props.C03
import Dreye.Props.C04
import Dreye.Props.C06Exact
import Dreye.Props.Linalg
import Dreye.Props.C19
import Mathlib.Tactic

namespace Dreye

-- the statements below are fixed; `hA`, `hl'` and `[IsStrictOrderedRing α]` are not needed by the proofs
set_option linter.unusedSectionVars false
set_option linter.unusedVariables false

/-! ## C06 — the solvability hypothesis of `range_exact` from trivial kernels -/
namespace C06
variable {α : Type*} [Field α] [LinearOrder α] [IsStrictOrderedRing α]


theorem of_mem_combinationsFrom : ∀ (n s k : ℕ) (r : List ℕ), r ∈ combinationsFrom s n k →
    r.length = k ∧ r.Pairwise (· < ·) ∧ ∀ i ∈ r, s ≤ i ∧ i < s + n := by
  intro n
  induction n with
  | zero =>
    intro s k r hr
    cases k with
    | zero =>
      simp only [combinationsFrom, List.mem_singleton] at hr
      subst hr; simp
    | succ k => simp [combinationsFrom] at hr
  | succ n ih =>
    intro s k r hr
    cases k with
    | zero =>
      simp only [combinationsFrom, List.mem_singleton] at hr
      subst hr; simp
    | succ k =>
      rw [combinationsFrom, List.mem_append] at hr
      rcases hr with hr | hr
      · obtain ⟨r', hr', rfl⟩ := List.mem_map.1 hr
        obtain ⟨h1, h2, h3⟩ := ih (s + 1) k r' hr'
        refine ⟨by simp [h1], List.pairwise_cons.2 ⟨fun i hi => ?_, h2⟩, fun i hi => ?_⟩
        · have := h3 i hi; omega
        · rcases List.mem_cons.1 hi with rfl | hi
          · omega
          · have := h3 i hi; omega
      · obtain ⟨h1, h2, h3⟩ := ih (s + 1) (k + 1) r hr
        refine ⟨h1, h2, fun i hi => ?_⟩
        have := h3 i hi; omega

omit [LinearOrder α] [IsStrictOrderedRing α] in
theorem vsub_self_eq (v : List α) : vsub v v = List.replicate v.length 0 := by
  apply List.ext_getElem
  · simp [vsub]
  · intro k h1 h2
    simp [vsub]

omit [LinearOrder α] [IsStrictOrderedRing α] in
theorem eq_of_vsub_eq_zero (z' z : List α) (m : ℕ) (h' : z'.length = m) (h : z.length = m)
    (hz : vsub z' z = List.replicate m 0) : z' = z := by
  apply List.ext_getElem
  · rw [h', h]
  · intro k h1 h2
    have hk : k < (vsub z' z).length := by simp [vsub, h1, h2]
    have : (vsub z' z)[k] = 0 := by simp [hz]
    simp only [vsub, List.getElem_zipWith] at this
    exact sub_eq_zero.1 this

/-- **C06 (when `np.linalg.solve` never raises)**: if every square column sub-matrix the enumeration
    uses has only the trivial kernel, then every square system of the enumeration is uniquely solvable
    and the model's Gauss–Jordan `solve` finds the solution — the hypothesis of `range_exact`. -/
theorem squareSystemsSolvable_of_trivial_kernels (n : ℕ) (A : List (List α))
    (hA : ∀ r ∈ A, r.length = n) (hm : A.length ≤ n)
    (hker : ∀ r ∈ combinations n (n - A.length), ∀ z : List α, z.length = A.length →
        matVec (selectCols A (restOf n r)) z = List.replicate A.length 0 → z = List.replicate A.length 0) :
    SquareSystemsSolvable n A := by
  intro r hr v hv
  obtain ⟨hrlen, hrpw, hrb⟩ := of_mem_combinationsFrom n 0 _ r hr
  have hrnd : r.Nodup := hrpw.imp (fun h => Nat.ne_of_lt h)
  have hrn : ∀ k ∈ r, k < n := fun k hk => by have := (hrb k hk).2; omega
  have hidx : (restOf n r).length = A.length := by
    rw [restOf_length n r hrnd hrn, hrlen]; omega
  have hMlen : (selectCols A (restOf n r)).length = A.length := by simp [selectCols]
  have hMrows : ∀ ρ ∈ selectCols A (restOf n r), ρ.length = (selectCols A (restOf n r)).length := by
    intro ρ hρ
    rw [hMlen]
    simp only [selectCols, List.mem_map] at hρ
    obtain ⟨t, _, rfl⟩ := hρ
    simpa using hidx
  have hk := hker r hr
  obtain ⟨z, hz⟩ := LinalgProps.solve_complete (selectCols A (restOf n r)) v hMrows
    (hv.trans hMlen.symm) (by rw [hMlen]; exact hk)
  obtain ⟨h1, h2⟩ := LinalgProps.solve_sound (selectCols A (restOf n r)) v z hMrows
    (hv.trans hMlen.symm) hz
  have hzl : z.length = A.length := h2.trans hMlen
  refine ⟨z, hz, hzl, h1, ?_⟩
  intro z' hz'l hz'
  have hlin := Cert.matVec_vsub (selectCols A (restOf n r)) z z' (hz'l.trans hzl.symm)
  rw [hz', h1, vsub_self_eq, hv] at hlin
  have := hk (vsub z' z) (by simp [vsub, hz'l, hzl]) hlin
  exact eq_of_vsub_eq_zero z' z A.length hz'l hzl this

end C06

/-! ## C19 — an unsorted domain with its array permuted alike gives the same interpolant -/
namespace C19
variable {α : Type*} [Field α] [LinearOrder α] [IsStrictOrderedRing α]


omit [Field α] [IsStrictOrderedRing α] in
theorem insertBy_perm {β : Type _} (key : β → α) (a : β) :
    ∀ l : List β, List.Perm (insertBy key a l) (a :: l)
  | [] => by simp [insertBy]
  | b :: bs => by
    rw [insertBy]
    split_ifs
    · exact ((insertBy_perm key a bs).cons b).trans (List.Perm.swap a b bs)
    · exact List.Perm.refl _

omit [Field α] [IsStrictOrderedRing α] in
theorem sortBy_perm {β : Type _} (key : β → α) : ∀ l : List β, List.Perm (sortBy key l) l
  | [] => by simp [sortBy]
  | a :: l => by
    rw [sortBy]
    exact (insertBy_perm key a _).trans ((sortBy_perm key l).cons a)

omit [Field α] [IsStrictOrderedRing α] in
theorem insertBy_sorted {β : Type _} (key : β → α) (a : β) :
    ∀ l : List β, l.Pairwise (fun p q => key p ≤ key q) →
      (insertBy key a l).Pairwise (fun p q => key p ≤ key q)
  | [], _ => by simp [insertBy]
  | b :: bs, h => by
    rw [insertBy]
    rw [List.pairwise_cons] at h
    split_ifs with hba
    · refine List.pairwise_cons.2 ⟨fun c hc => ?_, insertBy_sorted key a bs h.2⟩
      rcases List.mem_cons.1 ((insertBy_perm key a bs).subset hc) with rfl | hc
      · exact hba
      · exact h.1 c hc
    · have hab : key a ≤ key b := le_of_lt (not_le.1 hba)
      refine List.pairwise_cons.2 ⟨fun c hc => ?_, List.pairwise_cons.2 h⟩
      rcases List.mem_cons.1 hc with rfl | hc
      · exact hab
      · exact le_trans hab (h.1 c hc)

omit [Field α] [IsStrictOrderedRing α] in
theorem sortBy_sorted {β : Type _} (key : β → α) :
    ∀ l : List β, (sortBy key l).Pairwise (fun p q => key p ≤ key q)
  | [] => by simp [sortBy]
  | a :: l => by
    rw [sortBy]
    exact insertBy_sorted key a _ (sortBy_sorted key l)

omit [Field α] [IsStrictOrderedRing α] in
/-- sorting by an injective-on-the-list key is invariant under permutation -/
theorem sortBy_eq_of_perm {β : Type _} (key : β → α) (l l' : List β) (hp : List.Perm l l')
    (hnd : (l.map key).Nodup) : sortBy key l = sortBy key l' := by
  have hinj : ∀ p ∈ l, ∀ q ∈ l, key p = key q → p = q := fun p hp' q hq h =>
    List.inj_on_of_nodup_map hnd hp' hq h
  refine List.Perm.eq_of_pairwise (le := fun p q => key p ≤ key q) ?_
    (sortBy_sorted key l) (sortBy_sorted key l')
    ((sortBy_perm key l).trans (hp.trans (sortBy_perm key l').symm))
  intro p q hp' hq h1 h2
  exact hinj p ((sortBy_perm key l).subset hp') q
    (hp.symm.subset ((sortBy_perm key l').subset hq)) (le_antisymm h1 h2)

/-- **C19 (unsorted domains)**: if the knots are pairwise distinct, permuting the (knot, value) pairs
    does not change the interpolated array (`interp1d(assume_sorted=False)` sorts them). -/
theorem interp1_perm (fill : α) (xs ys xs' ys' newDom : List α)
    (hl : xs.length = ys.length) (hl' : xs'.length = ys'.length)
    (hperm : List.Perm (xs.zip ys) (xs'.zip ys')) (hnd : xs.Nodup) :
    interp1 fill xs ys newDom = interp1 fill xs' ys' newDom := by
  have hkeys : ((xs.zip ys).map (fun p : α × α => p.1)).Nodup := by
    have : (xs.zip ys).map (fun p : α × α => p.1) = xs := List.map_fst_zip (le_of_eq hl)
    rw [this]; exact hnd
  have hs : sortBy (fun p : α × α => p.1) (xs.zip ys) = sortBy (fun p : α × α => p.1) (xs'.zip ys') :=
    sortBy_eq_of_perm _ _ _ hperm hkeys
  simp only [interp1, sortPairs, hs]

end C19

end Dreye
