/-
  C10 — adaptive fit scales intensity and chroma uniformly and stays inside the gamut.
  Unknown `z = X.flatten ++ [s₀, s₁]` (`X` : one intensity vector of length `n` per sample).
-/
import Dreye.Model.Adaptive
import Dreye.Props.Cert
import Dreye.Props.C03
import Mathlib.Algebra.Order.Field.Basic
import Mathlib.Algebra.BigOperators.Group.List.Basic
import Mathlib.Tactic

namespace Dreye
namespace C10

variable {α : Type*} [Field α] [LinearOrder α] [IsStrictOrderedRing α]

-- some helper statements below do not use the order structure
set_option linter.unusedSectionVars false

open Cert

/-! ### helpers: dot products of block vectors -/

theorem dot_append : ∀ (a a' x x' : List α), a.length = x.length →
    dot (a ++ a') (x ++ x') = dot a x + dot a' x'
  | [], a', [], x', _ => by simp [dot_nil_left]
  | [], _, _ :: _, _, h => by simp at h
  | _ :: _, _, [], _, h => by simp at h
  | a :: as, a', x :: xs, x', h => by
      rw [List.cons_append, List.cons_append, dot_cons, dot_cons,
        dot_append as a' xs x' (by simpa using h)]
      ring

/-- total length of `size` blocks of length `n` -/
theorem blocks_length (n : ℕ) : ∀ (X : List (List α)) (f : ℕ → List α),
    (∀ x ∈ X, x.length = n) → (∀ j < X.length, (f j).length = n) →
    ((List.range X.length).flatMap f).length = X.flatten.length
  | [], f, _, _ => by simp
  | x :: X, f, hX, hf => by
      have ih := blocks_length n X (fun j => f (j + 1)) (fun t ht => hX t (List.mem_cons_of_mem _ ht))
        (fun j hj => hf (j + 1) (by simpa using hj))
      rw [List.length_cons, List.range_succ_eq_map, List.flatMap_cons, List.flatMap_map, List.flatten_cons,
        List.length_append, List.length_append, hf 0 (by simp), hX x List.mem_cons_self]
      exact congrArg _ ih

/-- blocks of zeros contribute nothing -/
theorem blocks_zero (n : ℕ) : ∀ (X : List (List α)) (f : ℕ → List α),
    (∀ x ∈ X, x.length = n) → (∀ j < X.length, f j = List.replicate n 0) →
    dot ((List.range X.length).flatMap f) X.flatten = 0
  | [], f, _, _ => by simp [dot_nil_left]
  | x :: X, f, hX, hf => by
      have ih := blocks_zero n X (fun j => f (j + 1)) (fun t ht => hX t (List.mem_cons_of_mem _ ht))
        (fun j hj => hf (j + 1) (by simpa using hj))
      rw [List.length_cons, List.range_succ_eq_map, List.flatMap_cons, List.flatMap_map, List.flatten_cons,
        dot_append _ _ _ _ (by rw [hf 0 (by simp), hX x List.mem_cons_self]; simp), hf 0 (by simp),
        dot_replicate_zero, zero_add]
      exact ih

/-- the block part of a `zRow` picks out block `i` -/
theorem blocks_pick (n : ℕ) (blk : List α) (hb : blk.length = n) : ∀ (X : List (List α)) (i : ℕ)
    (hi : i < X.length), (∀ x ∈ X, x.length = n) →
    dot ((List.range X.length).flatMap (fun j => if j = i then blk else List.replicate n 0)) X.flatten
      = dot blk (X[i])
  | [], i, hi, _ => by simp at hi
  | x :: X, 0, _, hX => by
      have hX' : ∀ t ∈ X, t.length = n := fun t ht => hX t (List.mem_cons_of_mem _ ht)
      have hz := blocks_zero n X (fun j => if j + 1 = 0 then blk else List.replicate n 0) hX'
        (fun j _ => by simp)
      rw [List.length_cons, List.range_succ_eq_map, List.flatMap_cons, List.flatMap_map, List.flatten_cons,
        if_pos rfl, dot_append _ _ _ _ (by rw [hb, hX x List.mem_cons_self])]
      rw [List.getElem_cons_zero]
      have : dot ((List.range X.length).flatMap (fun a => if Nat.succ a = 0 then blk else List.replicate n 0))
          X.flatten = 0 := hz
      rw [this, add_zero]
  | x :: X, i + 1, hi, hX => by
      have hX' : ∀ t ∈ X, t.length = n := fun t ht => hX t (List.mem_cons_of_mem _ ht)
      have hi' : i < X.length := by simpa using hi
      have ih := blocks_pick n blk hb X i hi' hX'
      rw [List.length_cons, List.range_succ_eq_map, List.flatMap_cons, List.flatMap_map, List.flatten_cons,
        if_neg (by omega), dot_append _ _ _ _ (by rw [hX x List.mem_cons_self]; simp), dot_replicate_zero, zero_add]
      rw [List.getElem_cons_succ, ← ih]
      congr 1
      apply List.flatMap_congr
      intro j _
      simp [Nat.succ_eq_add_one]

theorem dot_pair (c0 c1 s0 s1 : α) : dot [c0, c1] [s0, s1] = c0 * s0 + c1 * s1 := by
  simp [dot_cons, dot_nil_left]

/-- the unknown vector of the adaptive problem -/
def zOf (X : List (List α)) (s0 s1 : α) : List α := X.flatten ++ [s0, s1]

/-- a `zRow` picks out block `i` of `X` and the two scales -/
theorem zRow_dot (n : ℕ) (X : List (List α)) (hX : ∀ x ∈ X, x.length = n) (i : ℕ) (hi : i < X.length)
    (blk : List α) (hb : blk.length = n) (c0 c1 s0 s1 : α) :
    dot (zRow X.length n i blk c0 c1) (zOf X s0 s1) = dot blk (X[i]) + c0 * s0 + c1 * s1 := by
  unfold zRow zOf
  rw [dot_append _ _ _ _ (blocks_length n X _ hX (fun j _ => by split_ifs <;> simp [hb])),
    blocks_pick n blk hb X i hi hX, dot_pair]
  ring

/-- the scale-only rows (block index out of range) see only the scales -/
theorem zRow_scales_dot (n : ℕ) (X : List (List α)) (hX : ∀ x ∈ X, x.length = n) (c0 c1 s0 s1 : α) :
    dot (zRow X.length n X.length [] c0 c1) (zOf X s0 s1) = c0 * s0 + c1 * s1 := by
  have hf : ∀ j < X.length, (fun j => if j = X.length then ([] : List α) else List.replicate n 0) j
      = List.replicate n 0 := fun j hj => if_neg (by omega)
  unfold zRow zOf
  have hl : ∀ j < X.length, (if j = X.length then ([] : List α) else List.replicate n 0).length = n :=
    fun j hj => by rw [if_neg (by omega)]; simp
  rw [dot_append _ _ _ _ (blocks_length n X _ hX hl), blocks_zero n X _ hX hf, dot_pair]
  ring

/-- what the documented conditions say for one sample: fitted total = `s₀`·target total within `d1`, and
    fitted offset from the neutral direction = `s₁`·target offset within `dr` in every receptor -/
def SampleOK (A' : List (List α)) (base' nu b x : List α) (s0 s1 d1 dr : α) : Prop :=
  |(predict A' base' x).sum - s0 * bsum b| ≤ d1 ∧
  ∀ p ∈ (predict A' base' x).zip ((neutralPoint nu b).zip (brad nu b)),
    |s1 * p.2.2 - (p.1 - s0 * p.2.1)| ≤ dr

/-! ### helpers for `adaptive_rows_iff` -/

theorem sum_vadd : ∀ (a b : List α), a.length = b.length → (vadd a b).sum = a.sum + b.sum
  | [], [], _ => by simp [vadd]
  | [], _ :: _, h => by simp at h
  | _ :: _, [], h => by simp at h
  | a :: as, b :: bs, h => by
      have ih := sum_vadd as bs (by simpa using h)
      simp only [vadd, List.zipWith_cons_cons, List.sum_cons] at ih ⊢
      rw [ih]; ring

theorem dot_replicate_one : ∀ (x : List α), dot (List.replicate x.length (1 : α)) x = x.sum
  | [] => by simp [dot_nil_left]
  | a :: x => by
      rw [List.length_cons, List.replicate_succ, dot_cons, dot_replicate_one x, List.sum_cons, one_mul]

theorem dot_colSumA (n : ℕ) (A' : List (List α)) (x : List α) (hA : ∀ r ∈ A', r.length = n) :
    dot (colSumA n A') x = (matVec A' x).sum := by
  unfold colSumA
  rw [dot_linComb n x _ A' hA]
  have := dot_replicate_one (matVec A' x)
  rwa [matVec_length] at this

theorem sum_predict (A' : List (List α)) (base' x : List α) (hbase : base'.length = A'.length) :
    (predict A' base' x).sum = (matVec A' x).sum + base'.sum := by
  unfold predict
  exact sum_vadd _ _ (by rw [matVec_length, hbase])

theorem predict_zip {γ : Type*} (x : List α) : ∀ (A' : List (List α)) (base' : List α) (L : List γ),
    (predict A' base' x).zip L = (A'.zip (base'.zip L)).map (fun q => (dot q.1 x + q.2.1, q.2.2))
  | [], _, _ => by simp [predict, matVec, vadd]
  | _ :: _, [], _ => by simp [predict, matVec, vadd]
  | _ :: _, _ :: _, [] => by simp [predict, matVec, vadd]
  | r :: A', b0 :: base', l :: L => by
      have ih := predict_zip x A' base' L
      simp only [predict, matVec, vadd, List.map_cons, List.zipWith_cons_cons, List.zip_cons_cons] at ih ⊢
      rw [ih]

/-- the two "total" rows of sample `ib` -/
def rowsI1 (size n : ℕ) (A' : List (List α)) (base' : List α) (d1 : α) (ib : ℕ × List α) :
    List (List α × α) :=
  [ (zRow size n ib.1 (colSumA n A') (-(bsum ib.2)) 0, d1 - base'.sum),
    (zRow size n ib.1 (smul (-1) (colSumA n A')) (bsum ib.2) 0, d1 + base'.sum) ]

/-- the "radial" rows of sample `ib` -/
def rowsR1 (size n : ℕ) (A' : List (List α)) (base' nu : List α) (dr : α) (ib : ℕ × List α) :
    List (List α × α) :=
  (A'.zip (base'.zip ((neutralPoint nu ib.2).zip (brad nu ib.2)))).flatMap (fun (q : List α × α × α × α) =>
    [ (zRow size n ib.1 (smul (-1) q.1) q.2.2.1 q.2.2.2, dr + q.2.1),
      (zRow size n ib.1 q.1 (-q.2.2.1) (-q.2.2.2), dr - q.2.1) ])

theorem adaptiveRows_eq (n : ℕ) (A' : List (List α)) (base' nu : List α) (B : List (List α)) (d1 dr : α) :
    adaptiveRows n A' base' nu B d1 dr =
      ((((List.range B.length).zip B).flatMap (rowsI1 B.length n A' base' d1)
          ++ ((List.range B.length).zip B).flatMap (rowsR1 B.length n A' base' nu dr)).map (·.1),
       (((List.range B.length).zip B).flatMap (rowsI1 B.length n A' base' d1)
          ++ ((List.range B.length).zip B).flatMap (rowsR1 B.length n A' base' nu dr)).map (·.2)) := rfl

theorem matVec_zip (rows : List (List α × α)) (z : List α) :
    (matVec (rows.map (·.1)) z).zip (rows.map (·.2)) = rows.map (fun r => (dot r.1 z, r.2)) := by
  unfold matVec
  rw [List.map_map]
  exact List.zip_map'

theorem total_iff (n : ℕ) (A' : List (List α)) (base' : List α) (X : List (List α)) (d1 s0 s1 : α)
    (hA : ∀ r ∈ A', r.length = n) (hbase : base'.length = A'.length) (hX : ∀ x ∈ X, x.length = n)
    (i : ℕ) (hi : i < X.length) (b : List α) :
    (∀ p ∈ rowsI1 X.length n A' base' d1 (i, b), dot p.1 (zOf X s0 s1) ≤ p.2)
      ↔ |(predict A' base' X[i]).sum - s0 * bsum b| ≤ d1 := by
  have hcl : (colSumA n A').length = n := linComb_length n _ A' hA
  have h1 := zRow_dot n X hX i hi (colSumA n A') hcl (-(bsum b)) 0 s0 s1
  have h2 := zRow_dot n X hX i hi (smul (-1) (colSumA n A')) (by simp [smul, hcl]) (bsum b) 0 s0 s1
  rw [dot_smul_left] at h2
  simp only [rowsI1, List.mem_cons, List.not_mem_nil, or_false, forall_eq_or_imp, forall_eq, h1, h2]
  rw [dot_colSumA n A' _ hA, sum_predict A' base' _ hbase, abs_le]
  constructor
  · rintro ⟨a, c⟩; constructor <;> linarith
  · rintro ⟨a, c⟩; constructor <;> linarith

theorem radial_iff (n : ℕ) (A' : List (List α)) (base' nu : List α) (X : List (List α)) (dr s0 s1 : α)
    (hA : ∀ r ∈ A', r.length = n) (hX : ∀ x ∈ X, x.length = n)
    (i : ℕ) (hi : i < X.length) (b : List α) :
    (∀ p ∈ rowsR1 X.length n A' base' nu dr (i, b), dot p.1 (zOf X s0 s1) ≤ p.2)
      ↔ ∀ p ∈ (predict A' base' X[i]).zip ((neutralPoint nu b).zip (brad nu b)),
          |s1 * p.2.2 - (p.1 - s0 * p.2.1)| ≤ dr := by
  rw [predict_zip, rowsR1, List.forall_mem_flatMap, List.forall_mem_map]
  refine forall₂_congr (fun q hq => ?_)
  have hq1 : q.1.length = n := hA _ (List.of_mem_zip hq).1
  have h1 := zRow_dot n X hX i hi (smul (-1) q.1) (by simp [smul, hq1]) q.2.2.1 q.2.2.2 s0 s1
  have h2 := zRow_dot n X hX i hi q.1 hq1 (-q.2.2.1) (-q.2.2.2) s0 s1
  rw [dot_smul_left] at h1
  simp only [List.mem_cons, List.not_mem_nil, or_false, forall_eq_or_imp, forall_eq, h1, h2]
  rw [abs_le]
  constructor
  · rintro ⟨a, c⟩; constructor <;> linarith
  · rintro ⟨a, c⟩; constructor <;> linarith

/-- **C10 (the constraint rows mean what the property says)**: `z = (X, s₀, s₁)` satisfies all rows
    built by the model iff every sample meets the two documented conditions. -/
theorem adaptive_rows_iff (n : ℕ) (A' : List (List α)) (base' nu : List α) (B X : List (List α)) (d1 dr s0 s1 : α)
    (hA : ∀ r ∈ A', r.length = n) (hbase : base'.length = A'.length) (hnu : nu.length = A'.length)
    (hB : ∀ b ∈ B, b.length = A'.length) (hXl : X.length = B.length) (hX : ∀ x ∈ X, x.length = n) :
    (∀ p ∈ (matVec (adaptiveRows n A' base' nu B d1 dr).1 (zOf X s0 s1)).zip (adaptiveRows n A' base' nu B d1 dr).2, p.1 ≤ p.2)
    ↔ ∀ q ∈ B.zip X, SampleOK A' base' nu q.1 q.2 s0 s1 d1 dr := by
  have _ := hnu; have _ := hB
  rw [adaptiveRows_eq]
  simp only
  rw [matVec_zip, List.forall_mem_map, List.forall_mem_append, List.forall_mem_flatMap,
    List.forall_mem_flatMap, ← hXl]
  have key : ∀ (i : ℕ) (hi : i < X.length) (hi' : i < B.length),
      ((∀ p ∈ rowsI1 X.length n A' base' d1 (i, B[i]), dot p.1 (zOf X s0 s1) ≤ p.2) ∧
       (∀ p ∈ rowsR1 X.length n A' base' nu dr (i, B[i]), dot p.1 (zOf X s0 s1) ≤ p.2))
      ↔ SampleOK A' base' nu B[i] X[i] s0 s1 d1 dr := by
    intro i hi hi'
    rw [total_iff n A' base' X d1 s0 s1 hA hbase hX i hi, radial_iff n A' base' nu X dr s0 s1 hA hX i hi]
    rfl
  constructor
  · rintro ⟨hI, hR⟩ q hq
    obtain ⟨i, hi, rfl⟩ := List.mem_iff_getElem.1 hq
    have hiB : i < B.length := by simp at hi; omega
    have hiX : i < X.length := by omega
    have hmem : (i, B[i]) ∈ (List.range X.length).zip B := by
      refine List.mem_iff_getElem.2 ⟨i, by simp; omega, ?_⟩
      simp
    rw [List.getElem_zip]
    exact (key i hiX hiB).1 ⟨hI _ hmem, hR _ hmem⟩
  · intro h
    have h' : ∀ ib ∈ (List.range X.length).zip B,
        (∀ p ∈ rowsI1 X.length n A' base' d1 ib, dot p.1 (zOf X s0 s1) ≤ p.2) ∧
        (∀ p ∈ rowsR1 X.length n A' base' nu dr ib, dot p.1 (zOf X s0 s1) ≤ p.2) := by
      intro ib hib
      obtain ⟨i, hi, rfl⟩ := List.mem_iff_getElem.1 hib
      have hiB : i < B.length := by simp at hi; omega
      have hiX : i < X.length := by omega
      have hmem : (B[i], X[i]) ∈ B.zip X := by
        refine List.mem_iff_getElem.2 ⟨i, by simp; omega, ?_⟩
        simp
      have := (key i hiX hiB).2 (h _ hmem)
      simpa using this
    exact ⟨fun ib hib => (h' ib hib).1, fun ib hib => (h' ib hib).2⟩

/-- the 'unity' objective in least-squares form -/
theorem unity_value (n : ℕ) (X : List (List α)) (hX : ∀ x ∈ X, x.length = n) (w0 w1 s0 s1 : α) :
    lsObj (unityQuad X.length n w0 w1).1 (unityQuad X.length n w0 w1).2 (zOf X s0 s1)
      = (w0 * (s0 - 1)) * (w0 * (s0 - 1)) + (w1 * (s1 - 1)) * (w1 * (s1 - 1)) := by
  simp only [unityQuad, lsObj, residual, matVec, List.map_cons, List.map_nil, vsub, List.zipWith_cons_cons,
    List.zipWith_nil_right, dot_cons, dot_nil_left, zRow_scales_dot n X hX]
  ring

/-- the 'max' cost is minus the weighted sum of the scales -/
theorem max_value (n : ℕ) (X : List (List α)) (hX : ∀ x ∈ X, x.length = n) (w0 w1 s0 s1 : α) :
    dot (maxCost X.length n w0 w1) (zOf X s0 s1) = -(w0 * s0 + w1 * s1) := by
  unfold maxCost
  rw [zRow_scales_dot n X hX]
  ring

/-- **C10 ('unity': certified closest feasible pair to (1,1))**: accepted multipliers bound, for EVERY
    feasible `(Y, t₀, t₁)`, how much closer to (1,1) it can be than the returned pair. -/
theorem unity_opt_of_cert (dim : ℕ) (M : List (List α)) (r : List α) (G : List (List α)) (h lam lb : List α)
    (ub : List (Option α)) (b : α) (z y : List α)
    (hb : linLower dim (lsGrad dim M r z) G h [] [] 0 lam [] 0 lb ub = some b)
    (hy : inBox lb ub y = true ∧ ∀ p ∈ (matVec G y).zip h, p.1 ≤ p.2)
    (hz : z.length = dim) (hyl : y.length = dim) (hM : ∀ m ∈ M, m.length = dim) (hr : M.length = r.length) :
    lsObj M r z ≤ lsObj M r y + (dot (lsGrad dim M r z) z - b) := by
  refine quad_opt_of_cert dim M r G h [] [] 0 lam [] 0 lb ub b z y hb ⟨hy.1, hy.2, ?_, le_refl _⟩ hz hyl hM hr
  simp [lsObj, residual, matVec, vsub, dot_nil_left]

/-- **C10 ('max': no feasible pair has a larger weighted sum, up to the certified gap)** -/
theorem max_opt_of_cert (dim : ℕ) (c : List α) (G : List (List α)) (h lam lb : List α)
    (ub : List (Option α)) (b : α) (y : List α)
    (hb : linLower dim c G h [] [] 0 lam [] 0 lb ub = some b)
    (hy : inBox lb ub y = true ∧ ∀ p ∈ (matVec G y).zip h, p.1 ≤ p.2) (hyl : y.length = dim) :
    b ≤ dot c y := by
  refine lin_lower_sound dim c G h [] [] 0 lam [] 0 lb ub b y hb ⟨hy.1, hy.2, ?_, le_refl _⟩ hyl
  simp [lsObj, residual, matVec, vsub, dot_nil_left]

theorem zip_vsub_mem : ∀ (b c : List α) (p : α × α × α), p ∈ b.zip (c.zip (vsub b c)) → p.2.2 = p.1 - p.2.1
  | [], _, _, h => by simp at h
  | _ :: _, [], _, h => by simp at h
  | a :: b, c :: cs, p, h => by
      simp only [vsub, List.zipWith_cons_cons, List.zip_cons_cons, List.mem_cons] at h
      rcases h with rfl | h
      · rfl
      · exact zip_vsub_mem b cs p h

/-- **C10 ('unity' with all targets in gamut gives (1,1))**: if intensities `X` reproduce every target
    exactly, then `(X, 1, 1)` meets every sample condition (for non-negative tolerances) and its objective
    value 0 is the smallest possible. -/
theorem unity_in_gamut (A' : List (List α)) (base' nu b x : List α) (d1 dr : α) (hd1 : 0 ≤ d1) (hdr : 0 ≤ dr)
    (hlen : b.length = nu.length) (hrep : predict A' base' x = b) :
    SampleOK A' base' nu b x 1 1 d1 dr := by
  have _ := hlen
  unfold SampleOK
  rw [hrep]
  refine ⟨by simpa [bsum] using hd1, ?_⟩
  intro p hp
  have := zip_vsub_mem b (neutralPoint nu b) p (by simpa [brad] using hp)
  rw [this]
  simpa using hdr

end C10
end Dreye
