/-
  C20 — irradiance ↔ photon-flux conversion is the physical law and its exact inverse.
-/
import Dreye.Model.Units
import Mathlib.Algebra.Field.Basic
import Mathlib.Algebra.Order.Field.Basic
import Mathlib.Tactic.Ring
import Mathlib.Tactic.FieldSimp
import Mathlib.Tactic.Positivity
import Mathlib.Tactic.NormNum

namespace Dreye
namespace C20

variable {α : Type*} [Field α] [LinearOrder α] [IsStrictOrderedRing α]

theorem two_eq : (two : α) = 2 := by unfold two; norm_num
theorem ten_eq : (ten : α) = 10 := by unfold ten; rw [two_eq]; norm_num
theorem pow10_eq (n : ℕ) : (pow10 n : α) = 10 ^ n := by
  induction n with
  | zero => simp [pow10]
  | succ n ih => simp [pow10, ih, ten_eq, pow_succ, mul_comm]

theorem ofNatAux_eq : ∀ (f n : ℕ), n < 2 ^ f → (ofNatAux f n : α) = (n : α)
  | 0, n, h => by
      have : n = 0 := by simpa using h
      subst this; simp [ofNatAux]
  | f + 1, n, h => by
      rw [ofNatAux]
      split
      · rename_i h0; subst h0; simp
      · have hlt : n / 2 < 2 ^ f := by
          rw [Nat.div_lt_iff_lt_mul (by norm_num)]; rw [pow_succ] at h; exact h
        rw [ofNatAux_eq f (n / 2) hlt, two_eq]
        split
        · rename_i hm
          have : n = 2 * (n / 2) := by omega
          conv_rhs => rw [this]
          push_cast; ring
        · rename_i hm
          have : n = 2 * (n / 2) + 1 := by omega
          conv_rhs => rw [this]
          push_cast; ring

theorem ofNatLit_eq (n : ℕ) : (ofNatLit n : α) = (n : α) :=
  ofNatAux_eq _ n Nat.lt_log2_self

theorem pow10_pos (n : ℕ) : (0 : α) < pow10 n := by rw [pow10_eq]; positivity

/-- the constants are the exact SI values -/
theorem hPlanck_eq : (hPlanck : α) = 662607015 / 10 ^ 42 := by
  unfold hPlanck; rw [ofNatLit_eq, pow10_eq]; norm_num
theorem cLight_eq : (cLight : α) = 299792458 := by
  unfold cLight; rw [ofNatLit_eq]; norm_num
theorem nAvogadro_eq : (nAvogadro : α) = 602214076 * 10 ^ 15 := by
  unfold nAvogadro; rw [ofNatLit_eq, pow10_eq]; norm_num

theorem hcN_pos : (0 : α) < hcN := by
  unfold hcN; rw [hPlanck_eq, cLight_eq, nAvogadro_eq]; positivity

theorem prefixFactor_pos (e : ℕ) : (0 : α) < prefixFactor e := by
  unfold prefixFactor; have := pow10_pos (α := α) e; positivity

/-- **C20 (the law)**: with no prefixes the flux is `I · λ·10⁻⁹ / (h c N_A)`: wavelength in nanometres,
    result in mol m⁻² s⁻¹ nm⁻¹. -/
theorem irr2flux_formula (I lam : α) :
    irr2flux 0 0 I lam = I * (lam * (1 / 10 ^ 9)) / (662607015 / 10 ^ 42 * 299792458 * (602214076 * 10 ^ 15)) := by
  unfold irr2flux prefixFactor hcN
  rw [hPlanck_eq, cLight_eq, nAvogadro_eq, pow10_eq, pow10_eq]
  field_simp

/-- **C20 (prefix)**: asking for prefix `10^-e` multiplies the number by `10^e`. -/
theorem irr2flux_prefix (e : ℕ) (I lam : α) : irr2flux 0 e I lam = irr2flux 0 0 I lam * 10 ^ e := by
  unfold irr2flux prefixFactor
  simp only [pow10_eq]
  have : (10:α) ^ e ≠ 0 := by positivity
  field_simp

/-- **C20 (exact inverse)**: flux→irradiance undoes irradiance→flux (prefix carried by the unit of the
    intermediate), for every non-zero wavelength. -/
theorem flux2irr_irr2flux (p q : ℕ) (I lam : α) (h : lam ≠ 0) :
    flux2irr q p (irr2flux p q I lam) lam = I := by
  unfold flux2irr irr2flux
  have h1 := (hcN_pos (α := α)).ne'
  have h2 := (prefixFactor_pos (α := α) p).ne'
  have h3 := (prefixFactor_pos (α := α) q).ne'
  have h4 := (pow10_pos (α := α) 9).ne'
  field_simp

theorem irr2flux_flux2irr (p q : ℕ) (E lam : α) (h : lam ≠ 0) :
    irr2flux q p (flux2irr p q E lam) lam = E := by
  unfold flux2irr irr2flux
  have h1 := (hcN_pos (α := α)).ne'
  have h2 := (prefixFactor_pos (α := α) p).ne'
  have h3 := (prefixFactor_pos (α := α) q).ne'
  have h4 := (pow10_pos (α := α) 9).ne'
  field_simp

/-- **C20 (linear in the spectrum)** -/
theorem irr2flux_linear (p q : ℕ) (a I J lam : α) :
    irr2flux p q (a * I + J) lam = a * irr2flux p q I lam + irr2flux p q J lam := by
  unfold irr2flux; ring

theorem flux2irr_linear (p q : ℕ) (a E G lam : α) :
    flux2irr p q (a * E + G) lam = a * flux2irr p q E lam + flux2irr p q G lam := by
  unfold flux2irr; ring

/-- **C20 (element-wise along the wavelength axis)**: entry `i` of the converted spectrum depends on
    `I_i` and `λ_i` only. -/
theorem irr2fluxVec_entry (p q : ℕ) (I lam : List α) (i : ℕ) (hi : i < I.length) (hl : i < lam.length) :
    (irr2fluxVec p q I lam)[i]? = some (irr2flux p q I[i] lam[i]) := by
  simp [irr2fluxVec, List.getElem?_zipWith, hi, hl]

theorem flux2irrVec_entry (p q : ℕ) (E lam : List α) (i : ℕ) (hi : i < E.length) (hl : i < lam.length) :
    (flux2irrVec p q E lam)[i]? = some (flux2irr p q E[i] lam[i]) := by
  simp [flux2irrVec, List.getElem?_zipWith, hi, hl]

/-- non-vacuity / sanity: 1 W/m²/nm at 500 nm is ≈ 4.18 µmol/m²/s/nm -/
example : (417 : ℚ) / 100 < irr2flux 0 6 (1 : ℚ) 500 ∧ irr2flux 0 6 (1 : ℚ) 500 < 419 / 100 := by
  rw [irr2flux_prefix, irr2flux_formula]; norm_num

end C20
end Dreye
