/-
  C19 / C02 — a second equalisation is stable.
  `register_system(sources, domain=…)` equalises the filters' and the sources' domains, and the capture of the resampled
  sources equalises once more (filters' domain against the common grid). The theorems: the common grid `linspace lo hi k`
  has minimum `lo`, maximum `hi` and mean step `(hi − lo)/k`; hence equalising it again against any domain that covers it and
  is at least as fine returns the SAME grid (same end points, same number of intervals) — the second pass cannot lose a point.
-/
import Dreye.Props.C19
import Dreye.Props.ExtrasB

namespace Dreye
namespace C19

/-! ### helpers -/

/-- every entry of the grid is `lo + i·(hi−lo)/k` for some `i ≤ k` -/
theorem mem_linspace (lo hi : ℚ) (k : ℕ) (hk : 0 < k) (v : ℚ) (hv : v ∈ linspace lo hi k) :
    ∃ i : ℕ, i ≤ k ∧ v = lo + (i : ℚ) * ((hi - lo) / (k : ℚ)) := by
  obtain ⟨i, hi'⟩ := List.mem_iff_getElem?.1 hv
  have hlt : i < (linspace lo hi k).length := by
    by_contra hcon
    rw [List.getElem?_eq_none (not_lt.1 hcon)] at hi'
    exact absurd hi' (by simp)
  rw [linspace_length] at hlt
  have hik : i ≤ k := by omega
  rw [linspace_entry lo hi k i hk hik] at hi'
  exact ⟨i, hik, (Option.some.inj hi').symm⟩

theorem lo_mem_linspace (lo hi : ℚ) (k : ℕ) (hk : 0 < k) : lo ∈ linspace lo hi k :=
  List.mem_iff_getElem?.2 ⟨0, linspace_head lo hi k hk⟩

theorem hi_mem_linspace (lo hi : ℚ) (k : ℕ) : hi ∈ linspace lo hi k :=
  List.mem_iff_getElem?.2 ⟨k, linspace_last lo hi k⟩

theorem linspace_bounds (lo hi : ℚ) (k : ℕ) (hk : 0 < k) (h : lo < hi) (v : ℚ)
    (hv : v ∈ linspace lo hi k) : lo ≤ v ∧ v ≤ hi := by
  obtain ⟨i, hik, rfl⟩ := mem_linspace lo hi k hk v hv
  have hkq : (0 : ℚ) < (k : ℚ) := by exact_mod_cast hk
  have hd : 0 < (hi - lo) / (k : ℚ) := div_pos (sub_pos.2 h) hkq
  have hiq : (i : ℚ) ≤ (k : ℚ) := by exact_mod_cast hik
  have hi0 : (0 : ℚ) ≤ (i : ℚ) := by exact_mod_cast Nat.zero_le i
  have hkd : (k : ℚ) * ((hi - lo) / (k : ℚ)) = hi - lo := by field_simp
  constructor
  · nlinarith [mul_nonneg hi0 hd.le]
  · have := mul_le_mul_of_nonneg_right hiq hd.le
    linarith

theorem foldl_mn_spec : ∀ (xs : List ℚ) (x : ℚ),
    xs.foldl mn x ∈ x :: xs ∧ ∀ v ∈ x :: xs, xs.foldl mn x ≤ v
  | [], x => by simp
  | y :: ys, x => by
      obtain ⟨h1, h2⟩ := foldl_mn_spec ys (mn x y)
      rw [List.foldl_cons]
      have hx : mn x y ≤ x := by unfold mn; split_ifs with h <;> [exact le_refl _; exact le_of_not_ge h]
      have hy : mn x y ≤ y := by unfold mn; split_ifs with h <;> [exact h; exact le_refl _]
      have hm : mn x y = x ∨ mn x y = y := by unfold mn; split_ifs <;> simp
      refine ⟨?_, ?_⟩
      · rcases List.mem_cons.1 h1 with h | h
        · rw [h]; rcases hm with e | e <;> simp [e]
        · simp [h]
      · intro v hv
        have hmn := h2 (mn x y) List.mem_cons_self
        rcases List.mem_cons.1 hv with rfl | hv
        · exact le_trans hmn hx
        · rcases List.mem_cons.1 hv with rfl | hv
          · exact le_trans hmn hy
          · exact h2 v (List.mem_cons_of_mem _ hv)

theorem foldl_mx_spec' : ∀ (xs : List ℚ) (x : ℚ),
    xs.foldl mx x ∈ x :: xs ∧ ∀ v ∈ x :: xs, v ≤ xs.foldl mx x
  | [], x => by simp
  | y :: ys, x => by
      obtain ⟨h1, h2⟩ := foldl_mx_spec' ys (mx x y)
      rw [List.foldl_cons]
      have hx : x ≤ mx x y := by unfold mx; split_ifs with h <;> [exact h; exact le_refl _]
      have hy : y ≤ mx x y := by unfold mx; split_ifs with h <;> [exact le_refl _; exact le_of_not_ge h]
      have hm : mx x y = x ∨ mx x y = y := by unfold mx; split_ifs <;> simp
      refine ⟨?_, ?_⟩
      · rcases List.mem_cons.1 h1 with h | h
        · rw [h]; rcases hm with e | e <;> simp [e]
        · simp [h]
      · intro v hv
        have hmx := h2 (mx x y) List.mem_cons_self
        rcases List.mem_cons.1 hv with rfl | hv
        · exact le_trans hx hmx
        · rcases List.mem_cons.1 hv with rfl | hv
          · exact le_trans hy hmx
          · exact h2 v (List.mem_cons_of_mem _ hv)

theorem listMin_spec (l : List ℚ) (hne : l ≠ []) : listMin l ∈ l ∧ ∀ v ∈ l, listMin l ≤ v := by
  cases l with
  | nil => exact absurd rfl hne
  | cons x xs => exact foldl_mn_spec xs x

theorem listMax_spec (l : List ℚ) (hne : l ≠ []) : listMax l ∈ l ∧ ∀ v ∈ l, v ≤ listMax l := by
  cases l with
  | nil => exact absurd rfl hne
  | cons x xs => exact foldl_mx_spec' xs x

theorem linspace_ne_nil (lo hi : ℚ) (k : ℕ) : linspace lo hi k ≠ [] := by
  intro h
  have := linspace_length lo hi k
  rw [h] at this
  simp at this

theorem insertBy_lt (a : ℚ) : ∀ (l : List ℚ), (∀ b ∈ l, a < b) → insertBy id a l = a :: l
  | [], _ => by simp [insertBy]
  | b :: bs, h => by
    have hab : a < b := h b List.mem_cons_self
    rw [insertBy]
    simp only [id]
    rw [if_neg (not_le.2 hab)]

theorem roundHalfEven_natCast (k : ℕ) : roundHalfEven (k : ℚ) = (k : ℤ) := by
  unfold roundHalfEven
  have hf : ((k : ℚ)).floor = (k : ℤ) := by
    rw [← Rat.floor_intCast (k : ℤ)]; simp
  simp only [hf]
  rw [if_pos]
  push_cast
  norm_num

/-! ### the theorems -/

/-- the common grid is strictly ascending -/
theorem linspace_strictMono (lo hi : ℚ) (k : ℕ) (hk : 0 < k) (h : lo < hi) :
    List.Pairwise (· < ·) (linspace lo hi k) := by
  rw [List.pairwise_iff_getElem]
  intro i j hi' hj hij
  have hlen := linspace_length lo hi k
  have hik : i ≤ k := by omega
  have hjk : j ≤ k := by omega
  have e1 := linspace_entry lo hi k i hk hik
  have e2 := linspace_entry lo hi k j hk hjk
  rw [List.getElem?_eq_getElem hi'] at e1
  rw [List.getElem?_eq_getElem hj] at e2
  rw [Option.some.inj e1, Option.some.inj e2]
  have hkq : (0 : ℚ) < (k : ℚ) := by exact_mod_cast hk
  have hd : 0 < (hi - lo) / (k : ℚ) := div_pos (sub_pos.2 h) hkq
  have hijq : (i : ℚ) < (j : ℚ) := by exact_mod_cast hij
  have := mul_lt_mul_of_pos_right hijq hd
  linarith

/-- an ascending list is its own sort -/
theorem sortAsc_of_sorted (d : List ℚ) (h : List.Pairwise (· < ·) d) : sortAsc d = d := by
  unfold sortAsc
  induction d with
  | nil => simp [sortBy]
  | cons a l ih =>
    rw [List.pairwise_cons] at h
    rw [sortBy, ih h.2]
    exact insertBy_lt a l h.1

theorem linspace_min (lo hi : ℚ) (k : ℕ) (hk : 0 < k) (h : lo < hi) : listMin (linspace lo hi k) = lo := by
  obtain ⟨h1, h2⟩ := listMin_spec (linspace lo hi k) (linspace_ne_nil lo hi k)
  exact le_antisymm (h2 lo (lo_mem_linspace lo hi k hk)) (linspace_bounds lo hi k hk h _ h1).1

theorem linspace_max (lo hi : ℚ) (k : ℕ) (hk : 0 < k) (h : lo < hi) : listMax (linspace lo hi k) = hi := by
  obtain ⟨h1, h2⟩ := listMax_spec (linspace lo hi k) (linspace_ne_nil lo hi k)
  exact le_antisymm (linspace_bounds lo hi k hk h _ h1).2 (h2 hi (hi_mem_linspace lo hi k))

/-- the mean step of the common grid is `(hi − lo)/k` -/
theorem linspace_meanStep (lo hi : ℚ) (k : ℕ) (hk : 0 < k) (h : lo < hi) :
    meanStep (linspace lo hi k) = (hi - lo) / k := by
  have hs := sortAsc_of_sorted _ (linspace_strictMono lo hi k hk h)
  obtain ⟨s0, ss, hl⟩ : ∃ s0 ss, linspace lo hi k = s0 :: ss := by
    cases hc : linspace lo hi k with
    | nil => exact absurd hc (linspace_ne_nil lo hi k)
    | cons a l => exact ⟨a, l, rfl⟩
  rw [meanStep_eq (linspace lo hi k) s0 ss (hs.trans hl), linspace_length]
  have h0 : s0 = lo := by
    have := linspace_head lo hi k hk
    rw [hl] at this
    simpa using this
  have hlast : (s0 :: ss).getLast (List.cons_ne_nil _ _) = hi := by
    have hlen : (s0 :: ss).length = k + 1 := by rw [← hl, linspace_length]
    have := linspace_last lo hi k
    rw [hl] at this
    rw [List.getLast_eq_getElem]
    have hlt : (s0 :: ss).length - 1 < (s0 :: ss).length := by omega
    have e : (s0 :: ss)[(s0 :: ss).length - 1]? = some hi := by
      rw [hlen]; simpa using this
    rw [List.getElem?_eq_getElem hlt] at e
    exact Option.some.inj e
  rw [hlast, h0]
  simp

/-- **C19/C02 (a second equalisation is stable)**: let `nd = linspace lo hi k` be a common grid (`k ≥ 1`, `lo < hi`) and `F` any
    domain that covers it (`min F ≤ lo`, `hi ≤ max F`) and is at least as fine (`meanStep F ≤ (hi − lo)/k`). Equalising `[F, nd]`
    computes the bounds `lo`, `hi`, the step `(hi − lo)/k`, does not reject, and asks for exactly `k` intervals again: the new grid is
    `nd` itself. -/
theorem regrid_stable (F : List ℚ) (lo hi : ℚ) (k : ℕ) (hk : 0 < k) (h : lo < hi)
    (hmin : listMin F ≤ lo) (hmax : hi ≤ listMax F) (hstep : meanStep F ≤ (hi - lo) / k) :
    boundsAndDiff [F, linspace lo hi k] = (lo, hi, (hi - lo) / k) ∧
    rejected lo hi ((hi - lo) / k) = false ∧
    (roundHalfEven ((hi - lo) / ((hi - lo) / k))).toNat = k := by
  have hkq : (0 : ℚ) < (k : ℚ) := by exact_mod_cast hk
  have hk1 : (1 : ℚ) ≤ (k : ℚ) := by exact_mod_cast hk
  have hd : 0 < hi - lo := sub_pos.2 h
  refine ⟨?_, ?_, ?_⟩
  · have p1 : ∀ a b : ℚ, listMax [a, b] = mx a b := fun _ _ => rfl
    have p2 : ∀ a b : ℚ, listMin [a, b] = mn a b := fun _ _ => rfl
    simp only [boundsAndDiff, List.map_cons, List.map_nil, p1, p2]
    rw [linspace_min lo hi k hk h, linspace_max lo hi k hk h, linspace_meanStep lo hi k hk h]
    have e1 : mx (listMin F) lo = lo := by unfold mx; rw [if_pos hmin]
    have e2 : mn (listMax F) hi = hi := by
      unfold mn
      split_ifs with hc
      · exact le_antisymm hc hmax
      · rfl
    have e3 : mx (meanStep F) ((hi - lo) / k) = (hi - lo) / k := by unfold mx; rw [if_pos hstep]
    rw [e1, e2, e3]
  · have h1 : ¬ hi ≤ lo := not_le.2 h
    have h2 : ¬ hi - lo < (hi - lo) / k := not_lt.2 (div_le_self hd.le hk1)
    simp [rejected, h1, h2]
  · have e : (hi - lo) / ((hi - lo) / k) = (k : ℚ) := by
      have := hd.ne'
      field_simp
    rw [e, roundHalfEven_natCast]
    simp

/-- non-vacuity: a 2-nm filter grid 398 … 412 against the common grid 400 … 410 in 5 intervals meets all three premises -/
example : listMin ([398, 400, 402, 404, 406, 408, 410, 412] : List ℚ) ≤ 400 ∧
    (410 : ℚ) ≤ listMax ([398, 400, 402, 404, 406, 408, 410, 412] : List ℚ) ∧
    meanStep ([398, 400, 402, 404, 406, 408, 410, 412] : List ℚ) ≤ (410 - 400) / (5 : ℕ) := by
  decide +kernel

end C19
end Dreye
