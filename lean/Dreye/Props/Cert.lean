/-
  Soundness of the certificate checkers of `Dreye/Cert/Box.lean`, for every size and every ordered field.
  These theorems are what turns "for every other feasible point" into one exact evaluation.
-/
import Dreye.Cert.Box
import Mathlib.Algebra.Order.Field.Basic
import Mathlib.Algebra.BigOperators.Group.List.Basic
import Mathlib.Tactic

namespace Dreye
namespace Cert


/-! ### list algebra over a field -/
section Algebra
variable {α : Type*} [Field α]

theorem two_eq : (two : α) = 2 := one_add_one_eq_two

theorem dot_nil_left (b : List α) : dot ([] : List α) b = 0 := by simp [dot, vmul]
theorem dot_nil_right (a : List α) : dot a ([] : List α) = 0 := by simp [dot, vmul]
theorem dot_cons (a : α) (r : List α) (c : α) (x : List α) :
    dot (a :: r) (c :: x) = a * c + dot r x := by simp [dot, vmul]

theorem dot_comm : ∀ (a b : List α), dot a b = dot b a
  | [], b => by rw [dot_nil_left, dot_nil_right]
  | _ :: _, [] => by rw [dot_nil_left, dot_nil_right]
  | a :: as, b :: bs => by rw [dot_cons, dot_cons, dot_comm as bs, mul_comm]

theorem dot_smul_left (k : α) : ∀ (a c : List α), dot (smul k a) c = k * dot a c
  | [], c => by simp [smul, dot_nil_left]
  | _ :: _, [] => by simp [dot_nil_right]
  | a :: as, c :: cs => by
      have ih := dot_smul_left k as cs
      simp only [smul, List.map_cons, dot_cons] at ih ⊢
      rw [ih]; ring

theorem dot_vadd_left : ∀ (a b c : List α), a.length = b.length →
    dot (vadd a b) c = dot a c + dot b c
  | [], [], c, _ => by simp [vadd, dot_nil_left]
  | [], _ :: _, _, h => by simp at h
  | _ :: _, [], _, h => by simp at h
  | _ :: _, _ :: _, [], _ => by simp [dot_nil_right]
  | a :: as, b :: bs, c :: cs, h => by
      have ih := dot_vadd_left as bs cs (by simpa using h)
      simp only [vadd, List.zipWith_cons_cons, dot_cons] at ih ⊢
      rw [ih]; ring

theorem dot_vsub_left : ∀ (a b c : List α), a.length = b.length →
    dot (vsub a b) c = dot a c - dot b c
  | [], [], c, _ => by simp [vsub, dot_nil_left]
  | [], _ :: _, _, h => by simp at h
  | _ :: _, [], _, h => by simp at h
  | _ :: _, _ :: _, [], _ => by simp [dot_nil_right]
  | a :: as, b :: bs, c :: cs, h => by
      have ih := dot_vsub_left as bs cs (by simpa using h)
      simp only [vsub, List.zipWith_cons_cons, dot_cons] at ih ⊢
      rw [ih]; ring

theorem dot_vsub_right (c a b : List α) (h : a.length = b.length) :
    dot c (vsub a b) = dot c a - dot c b := by
  rw [dot_comm, dot_vsub_left a b c h, dot_comm a, dot_comm b]

theorem dot_replicate_zero : ∀ (n : ℕ) (x : List α), dot (List.replicate n (0 : α)) x = 0
  | 0, x => by simp [dot_nil_left]
  | _ + 1, [] => by simp [dot_nil_right]
  | n + 1, x :: xs => by
      rw [List.replicate_succ, dot_cons, dot_replicate_zero n xs]; ring

theorem linComb_nil_left (n : ℕ) (R : List (List α)) :
    linComb n ([] : List α) R = List.replicate n 0 := by simp [linComb]
theorem linComb_nil_right (n : ℕ) (w : List α) :
    linComb n w ([] : List (List α)) = List.replicate n 0 := by simp [linComb]
theorem linComb_cons (n : ℕ) (c : α) (w r : List α) (R : List (List α)) :
    linComb n (c :: w) (r :: R) = vadd (smul c r) (linComb n w R) := rfl

theorem linComb_length (n : ℕ) : ∀ (w : List α) (R : List (List α)),
    (∀ r ∈ R, r.length = n) → (linComb n w R).length = n
  | [], _, _ => by simp [linComb_nil_left]
  | _ :: _, [], _ => by simp [linComb_nil_right]
  | c :: w, r :: R, h => by
      have ih := linComb_length n w R (fun t ht => h t (List.mem_cons_of_mem _ ht))
      have hr := h r List.mem_cons_self
      rw [linComb_cons]
      simp [vadd, smul, ih, hr]

/-- `(Rᵀ w)·x = w·(R x)` -/
theorem dot_linComb (n : ℕ) (x : List α) : ∀ (w : List α) (R : List (List α)),
    (∀ r ∈ R, r.length = n) → dot (linComb n w R) x = dot w (matVec R x)
  | [], R, _ => by simp [linComb_nil_left, dot_replicate_zero, dot_nil_left]
  | _ :: _, [], _ => by simp [linComb_nil_right, matVec, dot_replicate_zero, dot_nil_right]
  | c :: w, r :: R, h => by
      have hR : ∀ t ∈ R, t.length = n := fun t ht => h t (List.mem_cons_of_mem _ ht)
      have ih := dot_linComb n x w R hR
      have hl := linComb_length n w R hR
      have hr := h r List.mem_cons_self
      rw [linComb_cons, dot_vadd_left _ _ _ (by simp [smul, hl, hr]), dot_smul_left, ih]
      simp [matVec, dot_cons]

theorem matVec_length (C : List (List α)) (x : List α) : (matVec C x).length = C.length := by
  simp [matVec]

theorem matVec_vsub (C : List (List α)) (x y : List α) (h : y.length = x.length) :
    matVec C (vsub y x) = vsub (matVec C y) (matVec C x) := by
  induction C with
  | nil => simp [matVec, vsub]
  | cons r C ih =>
    simp only [matVec, List.map_cons, vsub, List.zipWith_cons_cons] at ih ⊢
    rw [ih, ← vsub, dot_vsub_right r y x h]

/-- exact second-order expansion of `‖b-d‖²` around `a` -/
theorem quad_expand : ∀ (a b d : List α), a.length = b.length → a.length = d.length →
    dot (vsub b d) (vsub b d)
      = dot (vsub a d) (vsub a d) + two * dot (vsub a d) (vsub b a) + dot (vsub b a) (vsub b a)
  | [], [], _, _, _ => by simp [vsub, dot_nil_left]
  | [], _ :: _, _, h, _ => by simp at h
  | _ :: _, [], _, h, _ => by simp at h
  | _ :: _, _ :: _, [], _, h => by simp at h
  | a :: as, b :: bs, d :: ds, h, h' => by
      have ih := quad_expand as bs ds (by simpa using h) (by simpa using h')
      simp only [vsub, List.zipWith_cons_cons, dot_cons] at ih ⊢
      rw [ih, two_eq]; ring

/-- exact second-order expansion of the least-squares objective -/
theorem lsObj_expand (n : ℕ) (C : List (List α)) (d x y : List α)
    (hxy : y.length = x.length) (hC : ∀ r ∈ C, r.length = n) (hd : C.length = d.length) :
    lsObj C d y = lsObj C d x + dot (lsGrad n C d x) (vsub y x)
      + dot (matVec C (vsub y x)) (matVec C (vsub y x)) := by
  unfold lsObj lsGrad residual
  rw [dot_smul_left, dot_linComb n _ _ _ hC, matVec_vsub C x y hxy]
  exact quad_expand (matVec C x) (matVec C y) d (by simp [matVec]) (by simp [matVec, hd])

end Algebra

variable {α : Type*} [Field α] [LinearOrder α] [IsStrictOrderedRing α]

/-! ### order facts -/

theorem dot_self_nonneg : ∀ (z : List α), 0 ≤ dot z z
  | [] => by simp [dot_nil_left]
  | a :: z => by
      rw [dot_cons]
      exact add_nonneg (mul_self_nonneg a) (dot_self_nonneg z)

/-- Cauchy–Schwarz for lists (of any lengths) -/
theorem dot_sq_le : ∀ (v z : List α), dot v z ^ 2 ≤ dot v v * dot z z
  | [], z => by simp [dot_nil_left]
  | _ :: _, [] => by simp [dot_nil_right]
  | a :: v, b :: z => by
      have ih := dot_sq_le v z
      have hV := dot_self_nonneg v
      have hZ := dot_self_nonneg z
      simp only [dot_cons]
      set S := dot v z
      set V := dot v v
      set Z := dot z z
      have hP : 0 ≤ a * a * Z + b * b * V :=
        add_nonneg (mul_nonneg (mul_self_nonneg a) hZ) (mul_nonneg (mul_self_nonneg b) hV)
      have h1 : (2 * (a * b) * S) ^ 2 ≤ (a * a * Z + b * b * V) ^ 2 := by
        have h2 : 0 ≤ (a * b) ^ 2 * (V * Z - S ^ 2) :=
          mul_nonneg (sq_nonneg _) (sub_nonneg.2 ih)
        nlinarith [sq_nonneg (a * a * Z - b * b * V)]
      have h3 := le_of_sq_le_sq h1 hP
      nlinarith

/-- `inBox` as an inductive predicate -/
inductive Box : List α → List (Option α) → List α → Prop
  | nil : Box [] [] []
  | cons {l : α} {u : Option α} {v : α} {lb : List α} {ub : List (Option α)} {x : List α} :
      l ≤ v → (∀ u', u = some u' → v ≤ u') → Box lb ub x → Box (l :: lb) (u :: ub) (v :: x)

omit [Field α] [IsStrictOrderedRing α] in
theorem box_of_inBox : ∀ (lb : List α) (ub : List (Option α)) (x : List α),
    inBox lb ub x = true → Box lb ub x
  | [], [], [], _ => Box.nil
  | [], [], _ :: _, h => by simp [inBox] at h
  | [], _ :: _, [], h => by simp [inBox] at h
  | [], _ :: _, _ :: _, h => by simp [inBox] at h
  | _ :: _, [], [], h => by simp [inBox] at h
  | _ :: _, [], _ :: _, h => by simp [inBox] at h
  | _ :: _, _ :: _, [], h => by simp [inBox] at h
  | l :: lb, u :: ub, v :: x, h => by
      simp only [inBox, List.length_cons, Nat.add_right_cancel_iff, List.zipWith_cons_cons,
        List.all_cons, id, Bool.and_eq_true, decide_eq_true_eq] at h
      obtain ⟨⟨⟨h1, h2⟩, h3, h4⟩, h5, h6⟩ := h
      refine Box.cons h3 ?_ (box_of_inBox lb ub x ?_)
      · intro u' hu; subst hu; simpa using h5
      · simp only [inBox, Bool.and_eq_true, decide_eq_true_eq]
        exact ⟨⟨⟨h1, h2⟩, h4⟩, h6⟩

omit [Field α] [IsStrictOrderedRing α] in
theorem inBox_of_box {lb : List α} {ub : List (Option α)} {x : List α} (h : Box lb ub x) :
    inBox lb ub x = true := by
  induction h with
  | nil => simp [inBox]
  | @cons l u v lb ub x hl hu _ ih =>
    simp only [inBox, List.length_cons, Nat.add_right_cancel_iff, List.zipWith_cons_cons,
      List.all_cons, id, Bool.and_eq_true, decide_eq_true_eq] at ih ⊢
    obtain ⟨⟨⟨h1, h2⟩, h4⟩, h6⟩ := ih
    refine ⟨⟨⟨h1, h2⟩, hl, h4⟩, ?_, h6⟩
    cases u with
    | none => rfl
    | some u' => simpa using hu u' rfl

omit [Field α] [IsStrictOrderedRing α] in
theorem Box.length_lb {lb : List α} {ub : List (Option α)} {x : List α} (h : Box lb ub x) :
    x.length = lb.length := by
  induction h with
  | nil => rfl
  | cons _ _ _ ih => simp [ih]

/-- `boxMinLin` really is a lower bound of `g·z` over the box -/
theorem boxMinLin_le {lb : List α} {ub : List (Option α)} {z : List α} (hz : Box lb ub z) :
    ∀ (g : List α) (m : α), boxMinLin g lb ub = some m → m ≤ dot g z := by
  induction hz with
  | nil =>
    intro g m h
    cases g with
    | nil => simp [boxMinLin] at h; simp [dot_nil_left, ← h]
    | cons _ _ => simp [boxMinLin] at h
  | @cons l u v lb ub x hl hu _ ih =>
    intro g m h
    cases g with
    | nil => simp [boxMinLin] at h
    | cons g gs =>
      rw [boxMinLin] at h
      cases hrec : boxMinLin gs lb ub with
      | none => simp [hrec] at h
      | some rest =>
        have ih' := ih gs rest hrec
        simp only [hrec] at h
        rw [dot_cons]
        split_ifs at h with hg
        · simp only [Option.some.injEq] at h
          have : g * l ≤ g * v := mul_le_mul_of_nonneg_left hl hg
          linarith
        · cases u with
          | none => simp at h
          | some u' =>
            simp only [Option.some.injEq] at h
            have hvu := hu u' rfl
            have : g * u' ≤ g * v := mul_le_mul_of_nonpos_left hvu (le_of_lt (not_le.1 hg))
            linarith

/-- the KKT sign conditions make the gradient point into the box -/
theorem kkt_dot_nonneg (f : α → α × α × Option α → Bool)
    (hf : ∀ g v l u, f g (v, l, u) = true →
      (g ≤ 0 ∨ v = l) ∧ (0 ≤ g ∨ ∃ u', u = some u' ∧ v = u'))
    {lb : List α} {ub : List (Option α)} {y : List α} (hy : Box lb ub y) :
    ∀ (g x : List α), (List.zipWith f g (x.zip (lb.zip ub))).all id = true →
      0 ≤ dot g (vsub y x) := by
  induction hy with
  | nil => intro g x _; simp [vsub, dot_nil_right]
  | @cons l u w lb ub y hl hu _ ih =>
    intro g x h
    cases g with
    | nil => simp [dot_nil_left]
    | cons g gs =>
      cases x with
      | nil => simp [vsub, dot_nil_right]
      | cons v x =>
        simp only [List.zip_cons_cons, List.zipWith_cons_cons, List.all_cons, id,
          Bool.and_eq_true] at h
        obtain ⟨h1, h2⟩ := h
        have ih' := ih gs x h2
        obtain ⟨p, q⟩ := hf _ _ _ _ h1
        rw [vsub, List.zipWith_cons_cons, dot_cons]
        rw [vsub] at ih'
        have key : 0 ≤ g * (w - v) := by
          rcases p with p | p
          · rcases q with q | ⟨u', rfl, q⟩
            · have : g = 0 := le_antisymm p q
              simp [this]
            · have := hu u' rfl
              subst q
              exact mul_nonneg_of_nonpos_of_nonpos p (sub_nonpos.2 this)
          · subst p
            rcases q with q | ⟨u', rfl, q⟩
            · exact mul_nonneg q (sub_nonneg.2 hl)
            · have := hu u' rfl
              subst q
              have : w = v := le_antisymm this hl
              simp [this]
        linarith

theorem dot_le_dot_of_nonneg : ∀ (lam a h : List α), (∀ l ∈ lam, 0 ≤ l) →
    (∀ p ∈ a.zip h, p.1 ≤ p.2) → a.length = h.length → dot lam a ≤ dot lam h
  | [], _, _, _, _, _ => by simp [dot_nil_left]
  | _ :: _, [], [], _, _, _ => by simp [dot_nil_right]
  | _ :: _, [], _ :: _, _, _, e => by simp at e
  | _ :: _, _ :: _, [], _, _, e => by simp at e
  | l :: lam, a :: as, h :: hs, hl, hp, e => by
      have ih := dot_le_dot_of_nonneg lam as hs (fun t ht => hl t (List.mem_cons_of_mem _ ht))
        (fun p hp' => hp p (by simp [hp'])) (by simpa using e)
      have h1 : a ≤ h := hp (a, h) (by simp)
      have h2 : 0 ≤ l := hl l List.mem_cons_self
      rw [dot_cons, dot_cons]
      have := mul_le_mul_of_nonneg_left h1 h2
      linarith

theorem dot_vsub_self_eq_zero_iff : ∀ (a d : List α), a.length = d.length →
    (dot (vsub a d) (vsub a d) = 0 ↔ a = d)
  | [], [], _ => by simp [vsub, dot_nil_left]
  | [], _ :: _, h => by simp at h
  | _ :: _, [], h => by simp at h
  | a :: as, d :: ds, h => by
      have ih := dot_vsub_self_eq_zero_iff as ds (by simpa using h)
      have hnn := dot_self_nonneg (vsub as ds)
      have e : dot (vsub (a :: as) (d :: ds)) (vsub (a :: as) (d :: ds))
          = (a - d) * (a - d) + dot (vsub as ds) (vsub as ds) := by
        simp only [vsub, List.zipWith_cons_cons, dot_cons]
      rw [e, List.cons.injEq, ← ih]
      have h1 := mul_self_nonneg (a - d)
      constructor
      · intro h0
        have h2 : (a - d) * (a - d) = 0 := by linarith
        exact ⟨sub_eq_zero.1 (mul_self_eq_zero.1 h2), by linarith⟩
      · rintro ⟨rfl, h3⟩
        rw [h3]; simp

/-- coordinate-wise midpoint -/
def mid (x x' : List α) : List α := List.zipWith (fun a b => (a + b) / 2) x x'

theorem box_mid {lb : List α} {ub : List (Option α)} {x : List α} (hx : Box lb ub x) :
    ∀ x', Box lb ub x' → Box lb ub (mid x x') := by
  induction hx with
  | nil => intro x' hx'; cases hx'; exact Box.nil
  | @cons l u v lb ub x hl hu _ ih =>
    intro x' hx'
    cases hx' with
    | cons hl' hu' hb' =>
      rw [mid, List.zipWith_cons_cons]
      refine Box.cons ?_ ?_ (ih _ hb')
      · linarith
      · intro u' e
        have := hu u' e
        have := hu' u' e
        linarith

theorem dot_mid : ∀ (r x x' : List α), x.length = x'.length →
    dot r (mid x x') = (dot r x + dot r x') / 2
  | [], _, _, _ => by simp [dot_nil_left]
  | _ :: _, [], [], _ => by simp [mid, dot_nil_right]
  | _ :: _, [], _ :: _, h => by simp at h
  | _ :: _, _ :: _, [], h => by simp at h
  | r :: rs, a :: x, b :: x', h => by
      have ih := dot_mid rs x x' (by simpa using h)
      simp only [mid, List.zipWith_cons_cons, dot_cons] at ih ⊢
      rw [ih]; ring

theorem matVec_mid (C : List (List α)) (x x' : List α) (h : x.length = x'.length) :
    matVec C (mid x x') = mid (matVec C x) (matVec C x') := by
  induction C with
  | nil => simp [matVec, mid]
  | cons r C ih =>
    simp only [matVec, List.map_cons, mid, List.zipWith_cons_cons] at ih ⊢
    rw [ih, ← mid, dot_mid r x x' h]

theorem mid_expand : ∀ (a a' d : List α), a.length = a'.length → a.length = d.length →
    dot (vsub (mid a a') d) (vsub (mid a a') d)
      = (dot (vsub a d) (vsub a d) + dot (vsub a' d) (vsub a' d)) / 2
        - dot (vsub a a') (vsub a a') / 4
  | [], [], _, _, _ => by simp [mid, vsub, dot_nil_left]
  | [], _ :: _, _, h, _ => by simp at h
  | _ :: _, [], _, h, _ => by simp at h
  | _ :: _, _ :: _, [], _, h => by simp at h
  | a :: as, b :: bs, d :: ds, h, h' => by
      have ih := mid_expand as bs ds (by simpa using h) (by simpa using h')
      simp only [mid, vsub, List.zipWith_cons_cons, dot_cons] at ih ⊢
      rw [ih]; ring


/-- **exact KKT ⇒ global optimum**: if `x` passes the exact KKT check then no point of the box has a
    smaller least-squares error. -/
theorem kkt_global_min (n : ℕ) (C : List (List α)) (d lb : List α) (ub : List (Option α)) (x y : List α)
    (hk : kktOK n C d lb ub x = true) (hy : inBox lb ub y = true) :
    lsObj C d x ≤ lsObj C d y := by
  simp only [kktOK, Bool.and_eq_true, decide_eq_true_eq] at hk
  obtain ⟨⟨⟨⟨hxb, hxn⟩, hC⟩, hd⟩, hs⟩ := hk
  have hC' : ∀ r ∈ C, r.length = n := by simpa [List.all_eq_true] using hC
  have hyB := box_of_inBox _ _ _ hy
  have hxB := box_of_inBox _ _ _ hxb
  have hxy : y.length = x.length := by rw [hyB.length_lb, hxB.length_lb]
  have hdot := kkt_dot_nonneg _ ?_ hyB _ _ hs
  · rw [lsObj_expand n C d x y hxy hC' hd]
    have := dot_self_nonneg (matVec C (vsub y x))
    linarith
  · intro g v l u h
    simp only [Bool.and_eq_true, Bool.or_eq_true, decide_eq_true_eq] at h
    refine ⟨h.1, ?_⟩
    rcases h.2 with h2 | h2
    · exact Or.inl h2
    · cases u with
      | none => simp at h2
      | some u' => exact Or.inr ⟨u', rfl, by simpa using h2⟩

/-- **duality gap ⇒ near-optimality** against every point of the box (finite gap only). -/
theorem gap_bound (n : ℕ) (C : List (List α)) (d lb : List α) (ub : List (Option α)) (x y : List α) (g : α)
    (hx : inBox lb ub x = true) (hy : inBox lb ub y = true) (hn : x.length = n)
    (hC : ∀ r ∈ C, r.length = n) (hd : C.length = d.length)
    (hg : fwGap n C d lb ub x = some g) :
    lsObj C d x ≤ lsObj C d y + g := by
  have _ := hn  -- not needed: the lengths follow from the box
  have hyB := box_of_inBox _ _ _ hy
  have hxB := box_of_inBox _ _ _ hx
  have hxy : y.length = x.length := by rw [hyB.length_lb, hxB.length_lb]
  unfold fwGap at hg
  simp only at hg
  cases hm : boxMinLin (lsGrad n C d x) lb ub with
  | none => simp [hm] at hg
  | some m =>
    simp only [hm, Option.some.injEq] at hg
    have h1 := boxMinLin_le hyB _ _ hm
    rw [lsObj_expand n C d x y hxy hC hd, dot_vsub_right _ _ _ hxy]
    have := dot_self_nonneg (matVec C (vsub y x))
    linarith

/-- the error is a sum of squares -/
theorem lsObj_nonneg (C : List (List α)) (d x : List α) : 0 ≤ lsObj C d x := by
  exact dot_self_nonneg _

/-- zero error means the target is reproduced exactly -/
theorem lsObj_eq_zero_iff (C : List (List α)) (d x : List α) (hd : C.length = d.length) :
    lsObj C d x = 0 ↔ matVec C x = d := by
  unfold lsObj residual
  exact dot_vsub_self_eq_zero_iff _ _ (by simp [matVec, hd])

/-- **the predicted capture of a minimiser is unique**, even when the intensities are not:
    two minimisers over the box have the same `C x`. -/
theorem ls_pred_unique (n : ℕ) (C : List (List α)) (d lb : List α) (ub : List (Option α)) (x x' : List α)
    (hx : inBox lb ub x = true) (hx' : inBox lb ub x' = true) (hn : x.length = n)
    (hC : ∀ r ∈ C, r.length = n) (hd : C.length = d.length)
    (hmin : ∀ y, inBox lb ub y = true → lsObj C d x ≤ lsObj C d y)
    (hmin' : ∀ y, inBox lb ub y = true → lsObj C d x' ≤ lsObj C d y) :
    matVec C x = matVec C x' := by
  have _ := hn; have _ := hC  -- not needed by the midpoint argument
  have hxB := box_of_inBox _ _ _ hx
  have hxB' := box_of_inBox _ _ _ hx'
  have hxx : x.length = x'.length := by rw [hxB.length_lb, hxB'.length_lb]
  have hm := inBox_of_box (box_mid hxB x' hxB')
  have h1 := hmin _ hm
  have h2 := hmin' _ hm
  have hl : (matVec C x).length = (matVec C x').length := by simp [matVec]
  have e : lsObj C d (mid x x') = (lsObj C d x + lsObj C d x') / 2
      - dot (vsub (matVec C x) (matVec C x')) (vsub (matVec C x) (matVec C x')) / 4 := by
    unfold lsObj residual
    rw [matVec_mid C x x' hxx]
    exact mid_expand _ _ _ hl (by simp [matVec, hd])
  have h3 := dot_self_nonneg (vsub (matVec C x) (matVec C x'))
  rw [e] at h1 h2
  exact (dot_vsub_self_eq_zero_iff _ _ hl).1 (by linarith)

/-- **weak duality over box + linear rows + one norm ball**: an accepted multiplier set gives a lower
    bound of the linear cost over the whole feasible set. -/
theorem lin_lower_sound (n : ℕ) (c : List α) (G : List (List α)) (h : List α) (C : List (List α)) (d : List α)
    (eps : α) (lam v : List α) (sigma : α) (lb : List α) (ub : List (Option α)) (b : α) (x : List α)
    (hb : linLower n c G h C d eps lam v sigma lb ub = some b)
    (hx : linFeasible G h C d eps lb ub x) (hxn : x.length = n) :
    b ≤ dot c x := by
  have _ := hxn  -- not needed: `(Rᵀw)·x = w·(Rx)` holds for any `x`
  unfold linLower at hb
  split_ifs at hb with hc
  simp only [Bool.and_eq_true, decide_eq_true_eq] at hc
  obtain ⟨⟨⟨⟨⟨⟨⟨⟨⟨⟨hlam, hlG⟩, hGh⟩, hvC⟩, hCd⟩, hs⟩, hvv⟩, hcn⟩, hGn⟩, hCn⟩, he⟩ := hc
  have hGn' : ∀ r ∈ G, r.length = n := by simpa [List.all_eq_true] using hGn
  have hCn' : ∀ r ∈ C, r.length = n := by simpa [List.all_eq_true] using hCn
  have hlam' : ∀ l ∈ lam, 0 ≤ l := by simpa [List.all_eq_true] using hlam
  obtain ⟨hxb, hGx, hls, _⟩ := hx
  have hxB := box_of_inBox _ _ _ hxb
  simp only at hb
  cases hm : boxMinLin (vadd c (vadd (linComb n lam G) (linComb n v C))) lb ub with
  | none => simp [hm] at hb
  | some m =>
    simp only [hm, Option.some.injEq] at hb
    have h1 := boxMinLin_le hxB _ _ hm
    have hL1 := linComb_length n lam G hGn'
    have hL2 := linComb_length n v C hCn'
    rw [dot_vadd_left _ _ _ (by simp [vadd, hL1, hL2, hcn]), dot_vadd_left _ _ _ (by rw [hL1, hL2]),
      dot_linComb n x lam G hGn', dot_linComb n x v C hCn'] at h1
    have h2 : dot lam (matVec G x) ≤ dot lam h :=
      dot_le_dot_of_nonneg lam _ h hlam' hGx (by simp [matVec, hGh])
    have h3 : dot v (residual C d x) = dot v (matVec C x) - dot v d :=
      dot_vsub_right v _ _ (by simp [matVec, hCd])
    have h4 : dot v (residual C d x) ≤ sigma * eps := by
      apply le_of_sq_le_sq _ (mul_nonneg hs he)
      calc dot v (residual C d x) ^ 2 ≤ dot v v * dot (residual C d x) (residual C d x) :=
            dot_sq_le _ _
        _ ≤ (sigma * sigma) * (eps * eps) :=
            mul_le_mul hvv hls (dot_self_nonneg _) (mul_nonneg hs hs)
        _ = (sigma * eps) ^ 2 := by ring
    linarith

/-- a convex quadratic lies above its tangent: `‖My-r‖² ≥ ‖Mx-r‖² + ∇·(y-x)` -/
theorem quad_tangent (n : ℕ) (M : List (List α)) (r x y : List α)
    (hx : x.length = n) (hy : y.length = n) (hM : ∀ m ∈ M, m.length = n) (hr : M.length = r.length) :
    lsObj M r x + dot (lsGrad n M r x) (vsub y x) ≤ lsObj M r y := by
  rw [lsObj_expand n M r x y (by rw [hx, hy]) hM hr]
  have := dot_self_nonneg (matVec M (vsub y x))
  linarith

/-- same for a non-negative diagonal quadratic `Σ e_k x_k²` (the capture-variance objective) -/
theorem diag_quad_tangent (e x y : List α) (he : ∀ v ∈ e, 0 ≤ v)
    (hx : x.length = e.length) (hy : y.length = e.length) :
    dot e (vmul x x) + dot (smul two (vmul e x)) (vsub y x) ≤ dot e (vmul y y) := by
  revert he hx hy
  induction e generalizing x y with
  | nil => intro _ _ _; simp [dot_nil_left, smul, vmul]
  | cons a e ih =>
    intro he hx hy
    cases x with
    | nil => simp at hx
    | cons p x =>
      cases y with
      | nil => simp at hy
      | cons q y =>
        have ih' := ih x y (fun v hv => he v (List.mem_cons_of_mem _ hv))
          (by simpa using hx) (by simpa using hy)
        have ha : 0 ≤ a := he a List.mem_cons_self
        simp only [vmul, vsub, smul, List.zipWith_cons_cons, List.map_cons, dot_cons] at ih' ⊢
        rw [two_eq] at ih' ⊢
        nlinarith [mul_nonneg ha (sq_nonneg (q - p))]

/-- **certified sub-optimality of a quadratic secondary objective**: with the gradient at `x` as linear
    cost, an accepted multiplier set bounds how much better any feasible `y` can be. -/
theorem quad_opt_of_cert (n : ℕ) (M : List (List α)) (r : List α) (G : List (List α)) (h : List α)
    (C : List (List α)) (d : List α) (eps : α) (lam v : List α) (sigma : α) (lb : List α) (ub : List (Option α))
    (b : α) (x y : List α)
    (hb : linLower n (lsGrad n M r x) G h C d eps lam v sigma lb ub = some b)
    (hy : linFeasible G h C d eps lb ub y) (hxn : x.length = n) (hyn : y.length = n)
    (hM : ∀ m ∈ M, m.length = n) (hr : M.length = r.length) :
    lsObj M r x ≤ lsObj M r y + (dot (lsGrad n M r x) x - b) := by
  have h1 := lin_lower_sound n _ G h C d eps lam v sigma lb ub b y hb hy hyn
  have h2 := quad_tangent n M r x y hxn hyn hM hr
  rw [dot_vsub_right _ _ _ (by rw [hxn, hyn])] at h2
  linarith

/-- same with the diagonal quadratic -/
theorem diag_opt_of_cert (n : ℕ) (e : List α) (G : List (List α)) (h : List α)
    (C : List (List α)) (d : List α) (eps : α) (lam v : List α) (sigma : α) (lb : List α) (ub : List (Option α))
    (b : α) (x y : List α) (he : ∀ t ∈ e, 0 ≤ t) (hen : e.length = n)
    (hb : linLower n (smul two (vmul e x)) G h C d eps lam v sigma lb ub = some b)
    (hy : linFeasible G h C d eps lb ub y) (hxn : x.length = n) (hyn : y.length = n) :
    dot e (vmul x x) ≤ dot e (vmul y y) + (dot (smul two (vmul e x)) x - b) := by
  have h1 := lin_lower_sound n _ G h C d eps lam v sigma lb ub b y hb hy hyn
  have h2 := diag_quad_tangent e x y he (by rw [hxn, hen]) (by rw [hyn, hen])
  rw [dot_vsub_right _ _ _ (by rw [hxn, hyn])] at h2
  linarith

end Cert
end Dreye
