/-
  C04 — the default fit is the global bounded weighted least-squares optimum.
-/
import Dreye.Model.Fit
import Dreye.Props.Cert
import Mathlib.Algebra.Order.Field.Basic
import Mathlib.Algebra.BigOperators.Group.List.Basic
import Mathlib.Tactic

namespace Dreye
namespace C04

variable {α : Type*} [Field α] [LinearOrder α] [IsStrictOrderedRing α]

/-- well-shapedness of the API-level arguments: `A` is `nf × n`, `x` has `n` entries, `w` and `b` have
    `nf` entries, `baseline` has `nf` entries or is a length-1 (scalar) array -/
structure Shapes (nf n : ℕ) (A : List (List α)) (baseline w b x : List α) : Prop where
  hA : A.length = nf
  hrows : ∀ r ∈ A, r.length = n
  hx : x.length = n
  hw : w.length = nf
  hb : b.length = nf
  hbase : baseline.length = nf ∨ baseline.length = 1

/-! ### helper lemmas (list algebra) -/
section Helpers

omit [LinearOrder α] [IsStrictOrderedRing α] in
theorem dot_self_eq_sumsq : ∀ (r : List α), dot r r = (r.map (fun v => v * v)).sum
  | [] => by simp [Cert.dot_nil_left]
  | a :: r => by
      rw [Cert.dot_cons, dot_self_eq_sumsq r]; simp

omit [LinearOrder α] [IsStrictOrderedRing α] in
theorem lsObj_eq_sumsq (C : List (List α)) (d x : List α) :
    lsObj C d x = ((residual C d x).map (fun v => v * v)).sum := by
  unfold lsObj; exact dot_self_eq_sumsq _

omit [LinearOrder α] [IsStrictOrderedRing α] in
/-- the residual of the prepared least-squares data is the weighted prediction error
    (holds for all list lengths: both sides truncate to the shortest of the four) -/
theorem residual_gauss (x : List α) : ∀ (w : List α) (A' : List (List α)) (base' b : List α),
    residual (gaussC A' w) (gaussD base' w b) x = vmul w (vsub (predict A' base' x) b)
  | [], _, _, _ => by simp [residual, gaussC, gaussD, vmul, vsub, matVec]
  | _ :: _, [], _, _ => by simp [residual, gaussC, gaussD, vmul, vsub, matVec, predict, vadd]
  | _ :: _, _ :: _, [], _ => by simp [residual, gaussC, gaussD, vmul, vsub, matVec, predict, vadd]
  | _ :: _, _ :: _, _ :: _, [] => by
      simp [residual, gaussC, gaussD, vmul, vsub, matVec, predict, vadd]
  | c :: w, r :: A', e :: base', d :: b => by
      have ih := residual_gauss x w A' base' b
      simp only [residual, gaussC, gaussD, vmul, vsub, matVec, predict, vadd,
        List.zipWith_cons_cons, List.map_cons] at ih ⊢
      rw [ih, Cert.dot_smul_left]
      congr 1
      ring

omit [LinearOrder α] [IsStrictOrderedRing α] in
theorem lsObj_gauss (A' : List (List α)) (base' w b x : List α) :
    lsObj (gaussC A' w) (gaussD base' w b) x
      = ((vmul w (vsub (predict A' base' x) b)).map (fun v => v * v)).sum := by
  rw [lsObj_eq_sumsq, residual_gauss]

omit [LinearOrder α] [IsStrictOrderedRing α] in
/-- per-receptor scaling commutes with prediction (all list lengths) -/
theorem predict_vec (x : List α) : ∀ (K : List α) (A : List (List α)) (B : List α),
    predict (List.zipWith (fun c r => smul c r) K A) (vmul K B) x = vmul (vadd (matVec A x) B) K
  | [], _, _ => by simp [predict, vmul, vadd, matVec]
  | _ :: _, [], _ => by simp [predict, vmul, vadd, matVec]
  | _ :: _, _ :: _, [] => by simp [predict, vmul, vadd, matVec]
  | c :: K, r :: A, e :: B => by
      have ih := predict_vec x K A B
      simp only [predict, vmul, vadd, matVec, List.zipWith_cons_cons, List.map_cons] at ih ⊢
      rw [ih, Cert.dot_smul_left]
      congr 1
      ring

omit [LinearOrder α] [IsStrictOrderedRing α] in
theorem vmul_replicate_one : ∀ (v : List α) (n : ℕ), v.length = n →
    vmul v (List.replicate n (1 : α)) = v
  | [], _, _ => by simp [vmul]
  | a :: v, 0, h => by simp at h
  | a :: v, n + 1, h => by
      have ih := vmul_replicate_one v n (by simpa using h)
      simp only [vmul, List.replicate_succ, List.zipWith_cons_cons, mul_one] at ih ⊢
      rw [ih]

omit [Field α] [LinearOrder α] [IsStrictOrderedRing α] in
theorem bcast_length (nf : ℕ) (v : List α) (h : v.length = nf ∨ v.length = 1) :
    (bcast nf v).length = nf := by
  match v, h with
  | [], h => simpa [bcast] using h
  | [c], _ => simp [bcast]
  | a :: c :: v, h => simpa [bcast] using h

omit [LinearOrder α] [IsStrictOrderedRing α] in
theorem dot_vadd_right (c a b : List α) (h : a.length = b.length) :
    dot c (vadd a b) = dot c a + dot c b := by
  rw [Cert.dot_comm, Cert.dot_vadd_left a b c h, Cert.dot_comm a, Cert.dot_comm b]

omit [LinearOrder α] [IsStrictOrderedRing α] in
theorem matVec_vadd (M : List (List α)) (a b : List α) (h : a.length = b.length) :
    vadd (matVec M a) (matVec M b) = matVec M (vadd a b) := by
  induction M with
  | nil => simp [matVec, vadd]
  | cons r M ih =>
    simp only [matVec, List.map_cons, vadd, List.zipWith_cons_cons] at ih ⊢
    rw [ih, ← vadd, dot_vadd_right r a b h]

omit [LinearOrder α] [IsStrictOrderedRing α] in
/-- `(M A) x = M (A x)` -/
theorem matVec_matMul (n : ℕ) (M A : List (List α)) (x : List α) (hA : ∀ r ∈ A, r.length = n) :
    matVec (matMul n M A) x = matVec M (matVec A x) := by
  simp only [matVec, matMul, List.map_map]
  apply List.map_congr_left
  intro r _
  exact Cert.dot_linComb n x r A hA

end Helpers

/-- a weighted sum of squared differences with non-zero weights vanishes iff the lists agree -/
theorem wsumsq_eq_zero_iff : ∀ (w p b : List α), (∀ v ∈ w, v ≠ 0) → p.length = b.length →
    w.length = b.length → (((vmul w (vsub p b)).map (fun v => v * v)).sum = 0 ↔ p = b)
  | _, [], [], _, _, _ => by simp [vmul, vsub]
  | _, [], _ :: _, _, h, _ => by simp at h
  | _, _ :: _, [], _, h, _ => by simp at h
  | [], _ :: _, _ :: _, _, _, h => by simp at h
  | c :: w, a :: p, d :: b, hw, hp, hwl => by
      have ih := wsumsq_eq_zero_iff w p b (fun v hv => hw v (List.mem_cons_of_mem _ hv))
        (by simpa using hp) (by simpa using hwl)
      have hc : c ≠ 0 := hw c List.mem_cons_self
      have hnn : 0 ≤ ((vmul w (vsub p b)).map (fun v => v * v)).sum := by
        rw [← dot_self_eq_sumsq]; exact Cert.dot_self_nonneg _
      simp only [vmul, vsub, List.zipWith_cons_cons, List.map_cons, List.sum_cons] at ih hnn ⊢
      rw [List.cons.injEq, ← ih]
      have h1 := mul_self_nonneg (c * (a - d))
      constructor
      · intro h0
        have h2 : (c * (a - d)) * (c * (a - d)) = 0 := by linarith
        have h3 : c * (a - d) = 0 := mul_self_eq_zero.1 h2
        rcases mul_eq_zero.1 h3 with h4 | h4
        · exact absurd h4 hc
        · exact ⟨sub_eq_zero.1 h4, by linarith⟩
      · rintro ⟨rfl, h3⟩
        rw [h3]; simp

omit [Field α] [LinearOrder α] [IsStrictOrderedRing α] in
/-- `Shapes` only depends on the length of `x` -/
theorem Shapes.of_length {nf n : ℕ} {A : List (List α)} {baseline w b x : List α}
    (h : Shapes nf n A baseline w b x) (y : List α) (hy : y.length = n) :
    Shapes nf n A baseline w b y :=
  ⟨h.hA, h.hrows, hy, h.hw, h.hb, h.hbase⟩

set_option linter.unusedSectionVars false in
/-- **C04 (returned prediction = the model's capture of the returned intensities)**, per-receptor K -/
theorem predict_eq_model_vec (nf n : ℕ) (A : List (List α)) (k baseline w b x : List α)
    (h : Shapes nf n A baseline w b x) (hk : k.length = nf ∨ k.length = 1) :
    predict (transformA n (some (.vec k)) A) (transformBase nf (some (.vec k)) baseline) x
      = relCapture (.vec k) baseline (systemCapture A x) := by
  have _ := hk  -- not needed: both sides truncate in the same way
  have hq : (matVec A x).length = nf := by rw [Cert.matVec_length, h.hA]
  simp only [transformA, transformBase, relCapture, systemCapture, hq, h.hA]
  exact predict_vec x _ _ _

set_option linter.unusedSectionVars false in
theorem predict_eq_model_mat (nf n : ℕ) (A M : List (List α)) (baseline w b x : List α)
    (h : Shapes nf n A baseline w b x) (hM : M.length = nf) (hMr : ∀ r ∈ M, r.length = nf) :
    predict (transformA n (some (.mat M)) A) (transformBase nf (some (.mat M)) baseline) x
      = relCapture (.mat M) baseline (systemCapture A x) := by
  have _ := hM; have _ := hMr  -- not needed: `M (Ax) + M base = M (Ax + base)` for any `M`
  have hq : (matVec A x).length = nf := by rw [Cert.matVec_length, h.hA]
  have hB := bcast_length nf baseline h.hbase
  simp only [transformA, transformBase, relCapture, systemCapture, hq, predict]
  rw [matVec_matMul n M A x h.hrows, matVec_vadd M _ _ (by rw [hq, hB])]

/-- **C04 (the problem handed to the solver is the documented one, per-receptor / scalar K)**:
    the least-squares data built by the parameter preparation has, at every `x`, exactly the weighted
    squared error of the model's relative capture `K(Ax+baseline)` against the target. -/
theorem prepare_correct_vec (nf n : ℕ) (A : List (List α)) (k baseline w b x : List α)
    (h : Shapes nf n A baseline w b x) (hk : k.length = nf ∨ k.length = 1) :
    lsObj (gaussC (transformA n (some (.vec k)) A) w)
          (gaussD (transformBase nf (some (.vec k)) baseline) w b) x
      = docObj (.vec k) A baseline w b x := by
  rw [lsObj_gauss, predict_eq_model_vec nf n A k baseline w b x h hk]
  rfl

/-- same for a square matrix `K` -/
theorem prepare_correct_mat (nf n : ℕ) (A M : List (List α)) (baseline w b x : List α)
    (h : Shapes nf n A baseline w b x) (hM : M.length = nf) (hMr : ∀ r ∈ M, r.length = nf) :
    lsObj (gaussC (transformA n (some (.mat M)) A) w)
          (gaussD (transformBase nf (some (.mat M)) baseline) w b) x
      = docObj (.mat M) A baseline w b x := by
  rw [lsObj_gauss, predict_eq_model_mat nf n A M baseline w b x h hM hMr]
  rfl

set_option linter.unusedSectionVars false in
/-- `K = None` is the identity adaptation -/
theorem prepare_correct_none (nf n : ℕ) (A : List (List α)) (baseline w b x : List α)
    (h : Shapes nf n A baseline w b x) :
    lsObj (gaussC (transformA n none A) w) (gaussD (transformBase nf none baseline) w b) x
      = docObj (.vec [1]) A baseline w b x := by
  have hq : (matVec A x).length = nf := by rw [Cert.matVec_length, h.hA]
  have hB := bcast_length nf baseline h.hbase
  rw [lsObj_gauss]
  simp only [docObj, relCapture, systemCapture, transformA, transformBase, hq, predict]
  rw [show bcast nf ([1] : List α) = List.replicate nf 1 from rfl,
    vmul_replicate_one _ nf (by simp [vadd, hq, hB])]

/-- **C04 (global optimum)**: if the exact KKT check accepts `x` for the prepared problem, then the
    documented weighted squared capture error at `x` is minimal over *all* in-bound intensities. -/
theorem fit_optimal_of_kkt_vec (nf n : ℕ) (A : List (List α)) (k baseline w b x y lb : List α)
    (ub : List (Option α))
    (h : Shapes nf n A baseline w b x) (hk : k.length = nf ∨ k.length = 1)
    (hkkt : kktOK n (gaussC (transformA n (some (.vec k)) A) w)
              (gaussD (transformBase nf (some (.vec k)) baseline) w b) lb ub x = true)
    (hy : inBox lb ub y = true) :
    docObj (.vec k) A baseline w b x ≤ docObj (.vec k) A baseline w b y := by
  have hxb : inBox lb ub x = true ∧ x.length = n := by
    simp only [kktOK, Bool.and_eq_true, decide_eq_true_eq] at hkkt
    exact ⟨hkkt.1.1.1.1, hkkt.1.1.1.2⟩
  have hyn : y.length = n := by
    rw [(Cert.box_of_inBox _ _ _ hy).length_lb, ← (Cert.box_of_inBox _ _ _ hxb.1).length_lb, hxb.2]
  have key := Cert.kkt_global_min n _ _ lb ub x y hkkt hy
  rwa [prepare_correct_vec nf n A k baseline w b x h hk,
    prepare_correct_vec nf n A k baseline w b y (h.of_length y hyn) hk] at key

theorem fit_optimal_of_kkt_mat (nf n : ℕ) (A M : List (List α)) (baseline w b x y lb : List α)
    (ub : List (Option α))
    (h : Shapes nf n A baseline w b x) (hM : M.length = nf) (hMr : ∀ r ∈ M, r.length = nf)
    (hkkt : kktOK n (gaussC (transformA n (some (.mat M)) A) w)
              (gaussD (transformBase nf (some (.mat M)) baseline) w b) lb ub x = true)
    (hy : inBox lb ub y = true) :
    docObj (.mat M) A baseline w b x ≤ docObj (.mat M) A baseline w b y := by
  have hxb : inBox lb ub x = true ∧ x.length = n := by
    simp only [kktOK, Bool.and_eq_true, decide_eq_true_eq] at hkkt
    exact ⟨hkkt.1.1.1.1, hkkt.1.1.1.2⟩
  have hyn : y.length = n := by
    rw [(Cert.box_of_inBox _ _ _ hy).length_lb, ← (Cert.box_of_inBox _ _ _ hxb.1).length_lb, hxb.2]
  have key := Cert.kkt_global_min n _ _ lb ub x y hkkt hy
  rwa [prepare_correct_mat nf n A M baseline w b x h hM hMr,
    prepare_correct_mat nf n A M baseline w b y (h.of_length y hyn) hM hMr] at key

/-- **C04 (zero error exactly when the target is reproduced)**: with non-zero weights the documented
    error vanishes iff the model's capture of `x` is the target. -/
theorem zero_error_iff (nf n : ℕ) (K : Adapt α) (A : List (List α)) (baseline w b x : List α)
    (hw : ∀ v ∈ w, v ≠ 0)
    (hlen : (relCapture K baseline (systemCapture A x)).length = b.length) (hwl : w.length = b.length) :
    docObj K A baseline w b x = 0 ↔ relCapture K baseline (systemCapture A x) = b := by
  have _ := nf; have _ := n  -- the sizes only enter through `hlen`, `hwl`
  exact wsumsq_eq_zero_iff w _ b hw hlen hwl

end C04
end Dreye
