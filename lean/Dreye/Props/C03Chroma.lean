/-
  C03 / C12 — chromatic (L1-normalised) gamut membership.
  `in_hull(B, normalized=True)` tests the chromaticity `b / Σb` against the hull of the chromaticities `p / Σp` of the
  gamut's corner images `P` (in barycentric coordinates, which are an injective affine image of the plane `Σ = 1`:
  `C16.bary_linear`, `C16.bary_injective_on_plane`). The theorem below says what that means for the target itself:
  its chromaticity is in the chromatic gamut iff SOME positive multiple of the target is in the gamut — for every
  dimension and every number of points, over any ordered field.
-/
import Dreye.Props.C03
import Dreye.Model.Bary

namespace Dreye
namespace C03

variable {α : Type} [Field α] [LinearOrder α] [IsStrictOrderedRing α]

set_option linter.unusedSectionVars false
-- some hypotheses of the statements below (lengths) are not needed by the proofs; they are kept as stated
set_option linter.unusedVariables false

open Cert

/-! ### local helpers -/

theorem chroma_abs_sum (x : List α) (hx : ∀ v ∈ x, 0 ≤ v) :
    (x.map (fun v => if 0 ≤ v then v else -v)).sum = x.sum := by
  congr 1
  conv_rhs => rw [← List.map_id x]
  apply List.map_congr_left
  intro v hv
  simp [hx v hv]

/-- `l1normalize` of a non-negative vector with positive total, as a scalar multiple -/
theorem l1normalize_eq_smul (x : List α) (hx : ∀ v ∈ x, 0 ≤ v) (hs : 0 < x.sum) :
    l1normalize x = smul (x.sum)⁻¹ x := by
  unfold l1normalize
  simp only [chroma_abs_sum x hx, hs.ne', if_false, smul]
  apply List.map_congr_left
  intro v _
  rw [div_eq_inv_mul]

/-- scaling each row by its own factor is the same as scaling the weights -/
theorem linComb_map_smul (d : ℕ) (f : List α → α) : ∀ (w : List α) (P : List (List α)),
    linComb d w (P.map (fun p => smul (f p) p)) = linComb d (List.zipWith (fun wi p => wi * f p) w P) P
  | [], P => by simp [linComb_nil_left]
  | _ :: _, [] => by simp [linComb_nil_right]
  | x :: w, r :: P => by
      have ih := linComb_map_smul d f w P
      rw [List.map_cons, List.zipWith_cons_cons, linComb_cons, linComb_cons, ih, smul_smul']

theorem map_l1normalize_eq (d : ℕ) (P : List (List α))
    (hP : ∀ p ∈ P, p.length = d ∧ (∀ v ∈ p, 0 ≤ v) ∧ 0 < p.sum) :
    P.map l1normalize = P.map (fun p => smul (p.sum)⁻¹ p) := by
  apply List.map_congr_left
  intro p hp
  exact l1normalize_eq_smul p (hP p hp).2.1 (hP p hp).2.2

theorem zipWith_mul_nonneg (g : List α → α) : ∀ (w : List α) (P : List (List α)),
    (∀ a ∈ w, 0 ≤ a) → (∀ p ∈ P, 0 ≤ g p) →
    ∀ v ∈ List.zipWith (fun a p => a * g p) w P, 0 ≤ v
  | [], _, _, _ => by simp
  | _ :: _, [], _, _ => by simp
  | x :: w, r :: P, hw, hg => by
      intro v hv
      rw [List.zipWith_cons_cons, List.mem_cons] at hv
      rcases hv with rfl | hv
      · exact mul_nonneg (hw x List.mem_cons_self) (hg r List.mem_cons_self)
      · exact zipWith_mul_nonneg g w P (fun a ha => hw a (List.mem_cons_of_mem _ ha))
          (fun p hp => hg p (List.mem_cons_of_mem _ hp)) v hv

theorem zipWith_mul_sum_pos (g : List α → α) : ∀ (w : List α) (P : List (List α)),
    w.length = P.length → (∀ a ∈ w, 0 ≤ a) → (∀ p ∈ P, 0 < g p) → 0 < w.sum →
    0 < (List.zipWith (fun a p => a * g p) w P).sum
  | [], [], _, _, _, h => by simp at h
  | [], _ :: _, h, _, _, _ => by simp at h
  | _ :: _, [], h, _, _, _ => by simp at h
  | x :: w, r :: P, hl, hw, hg, hs => by
      have hw' : ∀ a ∈ w, 0 ≤ a := fun a ha => hw a (List.mem_cons_of_mem _ ha)
      have hg' : ∀ p ∈ P, 0 < g p := fun p hp => hg p (List.mem_cons_of_mem _ hp)
      have hx : 0 ≤ x := hw x List.mem_cons_self
      have hr : 0 < g r := hg r List.mem_cons_self
      have hrest : 0 ≤ (List.zipWith (fun a p => a * g p) w P).sum :=
        List.sum_nonneg (zipWith_mul_nonneg g w P hw' (fun p hp => (hg' p hp).le))
      rw [List.zipWith_cons_cons, List.sum_cons]
      rcases hx.lt_or_eq with hx | hx
      · have := mul_pos hx hr
        linarith
      · have hs' : 0 < w.sum := by
          rw [List.sum_cons, ← hx, zero_add] at hs
          exact hs
        have := zipWith_mul_sum_pos g w P (by simpa using hl) hw' hg' hs'
        rw [← hx, zero_mul, zero_add]
        exact this

theorem zipWith_cancel (c : α) : ∀ (μ : List α) (P : List (List α)), μ.length = P.length →
    (∀ p ∈ P, p.sum ≠ 0) →
    List.zipWith (fun wi (p : List α) => wi * (p.sum)⁻¹)
      ((List.zipWith (fun (mi : α) (p : List α) => mi * p.sum) μ P).map (c * ·)) P = μ.map (c * ·)
  | [], [], _, _ => by simp
  | [], _ :: _, h, _ => by simp at h
  | _ :: _, [], h, _ => by simp at h
  | x :: μ, r :: P, hl, hP => by
      have ih := zipWith_cancel c μ P (by simpa using hl) (fun p hp => hP p (List.mem_cons_of_mem _ hp))
      have hr : r.sum ≠ 0 := hP r List.mem_cons_self
      rw [List.zipWith_cons_cons, List.map_cons, List.zipWith_cons_cons, ih, List.map_cons]
      congr 1
      field_simp

theorem weightsOK_iff (w : List α) (P : List (List α)) :
    weightsOK w P = true ↔ w.length = P.length ∧ (∀ v ∈ w, 0 ≤ v) ∧ w.sum = 1 := by
  simp [weightsOK, and_assoc]

/-! ### the statements -/

/-- for a non-negative vector the model's `l1normalize` (division by `Σ|x|`) is division by the sum -/
theorem l1normalize_nonneg (x : List α) (hx : ∀ v ∈ x, 0 ≤ v) (hs : 0 < x.sum) :
    l1normalize x = x.map (· / x.sum) := by
  unfold l1normalize
  simp only [chroma_abs_sum x hx, hs.ne', if_false]

/-- chromaticities sum to one -/
theorem l1normalize_sum (x : List α) (hx : ∀ v ∈ x, 0 ≤ v) (hs : 0 < x.sum) : (l1normalize x).sum = 1 := by
  rw [l1normalize_eq_smul x hx hs, smul, sum_map_mul, inv_mul_cancel₀ hs.ne']

/-- the sum of a convex combination is the combination of the sums -/
theorem sum_convComb (d : ℕ) : ∀ (w : List α) (P : List (List α)), w.length = P.length → (∀ p ∈ P, p.length = d) →
    (convComb d w P).sum = (List.zipWith (fun (wi : α) (p : List α) => wi * p.sum) w P).sum
  | [], [], _, _ => by simp [convComb, linComb_nil_left]
  | [], _ :: _, h, _ => by simp at h
  | _ :: _, [], h, _ => by simp at h
  | x :: w, r :: P, hl, hP => by
      have hP' : ∀ p ∈ P, p.length = d := fun p hp => hP p (List.mem_cons_of_mem _ hp)
      have ih := sum_convComb d w P (by simpa using hl) hP'
      have hr := hP r List.mem_cons_self
      have l1 := linComb_length d w P hP'
      unfold convComb at ih ⊢
      rw [linComb_cons, List.zipWith_cons_cons, List.sum_cons, ← ih]
      have : vadd (smul x r) (linComb d w P) = List.zipWith (· + ·) (smul x r) (linComb d w P) := rfl
      rw [this, sum_zipWith_add _ _ (by rw [smul_length, hr, l1]), smul, sum_map_mul]

/-- **C03/C12 (chromatic membership)**: for corner images `P` with non-negative entries and positive totals, and a
    non-negative target `b` with positive total: the chromaticity of `b` is a convex combination of the chromaticities of
    `P` **iff** some positive multiple `t • b` of the target is a convex combination of `P` itself
    (i.e., by `C03.reproducible_of_weights` / `weights_of_reproducible`, is reproducible by in-bound intensities). -/
theorem chromatic_mem_iff (d : ℕ) (P : List (List α)) (b : List α)
    (hP : ∀ p ∈ P, p.length = d ∧ (∀ v ∈ p, 0 ≤ v) ∧ 0 < p.sum)
    (hb : b.length = d) (hbn : ∀ v ∈ b, 0 ≤ v) (hbs : 0 < b.sum) :
    (∃ w, weightsOK w (P.map l1normalize) = true ∧ convComb d w (P.map l1normalize) = l1normalize b) ↔
    (∃ t : α, 0 < t ∧ ∃ μ, weightsOK μ P = true ∧ convComb d μ P = smul t b) := by
  have hPd : ∀ p ∈ P, p.length = d := fun p hp => (hP p hp).1
  have hPs : ∀ p ∈ P, 0 < p.sum := fun p hp => (hP p hp).2.2
  rw [map_l1normalize_eq d P hP, l1normalize_eq_smul b hbn hbs]
  unfold convComb
  constructor
  · rintro ⟨w, hw, hc⟩
    rw [weightsOK_iff, List.length_map] at hw
    obtain ⟨hl, hn, hs⟩ := hw
    rw [linComb_map_smul] at hc
    set ν := List.zipWith (fun wi (p : List α) => wi * (p.sum)⁻¹) w P with hν
    have hσ : 0 < ν.sum :=
      zipWith_mul_sum_pos (fun p => (p.sum)⁻¹) w P hl hn (fun p hp => inv_pos.mpr (hPs p hp))
        (by rw [hs]; exact one_pos)
    have hνn : ∀ v ∈ ν, 0 ≤ v :=
      zipWith_mul_nonneg (fun p => (p.sum)⁻¹) w P hn (fun p hp => (inv_pos.mpr (hPs p hp)).le)
    refine ⟨(ν.sum)⁻¹ * (b.sum)⁻¹, mul_pos (inv_pos.mpr hσ) (inv_pos.mpr hbs), ν.map ((ν.sum)⁻¹ * ·), ?_, ?_⟩
    · rw [weightsOK_iff]
      refine ⟨?_, ?_, ?_⟩
      · simp [hν, hl]
      · intro v hv
        obtain ⟨a, ha, rfl⟩ := List.mem_map.mp hv
        exact mul_nonneg (inv_pos.mpr hσ).le (hνn a ha)
      · rw [sum_map_mul, inv_mul_cancel₀ hσ.ne']
    · rw [linComb_map_mul, hc, ← smul_smul']
  · rintro ⟨t, ht, μ, hμ, hc⟩
    rw [weightsOK_iff] at hμ
    obtain ⟨hl, hn, hs⟩ := hμ
    have hsum := sum_convComb d μ P hl hPd
    unfold convComb at hsum
    rw [hc, smul, sum_map_mul] at hsum
    set ν := List.zipWith (fun (mi : α) (p : List α) => mi * p.sum) μ P with hν
    have hτ : 0 < ν.sum := by rw [← hsum]; exact mul_pos ht hbs
    have hνn : ∀ v ∈ ν, 0 ≤ v :=
      zipWith_mul_nonneg (fun p => p.sum) μ P hn (fun p hp => (hPs p hp).le)
    refine ⟨ν.map ((ν.sum)⁻¹ * ·), ?_, ?_⟩
    · rw [weightsOK_iff]
      refine ⟨?_, ?_, ?_⟩
      · simp [hν, hl]
      · intro v hv
        obtain ⟨a, ha, rfl⟩ := List.mem_map.mp hv
        exact mul_nonneg (inv_pos.mpr hτ).le (hνn a ha)
      · rw [sum_map_mul, inv_mul_cancel₀ hτ.ne']
    · rw [linComb_map_smul, hν, zipWith_cancel _ μ P hl (fun p hp => (hPs p hp).ne'), linComb_map_mul, hc,
        ← smul_smul', ← hν, ← hsum]
      congr 1
      field_simp

/-- rescaling a non-negative vector with positive total does not change its chromaticity -/
theorem l1normalize_smul_pos (c : α) (hc : 0 < c) (b : List α) (hbn : ∀ v ∈ b, 0 ≤ v) (hbs : 0 < b.sum) :
    l1normalize (smul c b) = l1normalize b := by
  have hn : ∀ v ∈ smul c b, 0 ≤ v := by
    intro v hv
    obtain ⟨a, ha, rfl⟩ := List.mem_map.mp hv
    exact mul_nonneg hc.le (hbn a ha)
  have hsum : (smul c b).sum = c * b.sum := by rw [smul, sum_map_mul]
  have hs : 0 < (smul c b).sum := by rw [hsum]; exact mul_pos hc hbs
  rw [l1normalize_eq_smul _ hn hs, l1normalize_eq_smul b hbn hbs, hsum, ← smul_smul']
  congr 1
  field_simp

/-- consequence used by the chromatic scaling (C12): membership of the chromaticity does not depend on the
    overall intensity of the target -/
theorem chromatic_mem_scale_invariant (d : ℕ) (P : List (List α)) (b : List α) (c : α) (hc : 0 < c)
    (hP : ∀ p ∈ P, p.length = d ∧ (∀ v ∈ p, 0 ≤ v) ∧ 0 < p.sum)
    (hb : b.length = d) (hbn : ∀ v ∈ b, 0 ≤ v) (hbs : 0 < b.sum) :
    (∃ w, weightsOK w (P.map l1normalize) = true ∧ convComb d w (P.map l1normalize) = l1normalize (smul c b)) ↔
    (∃ w, weightsOK w (P.map l1normalize) = true ∧ convComb d w (P.map l1normalize) = l1normalize b) := by
  rw [l1normalize_smul_pos c hc b hbn hbs]

/-- non-vacuity: a concrete gamut and target meeting all hypotheses, inside the chromatic gamut -/
example : ∃ w, weightsOK w ([[2, 0], [0, 4], [3, 3]].map (l1normalize (α := ℚ))) = true ∧
    convComb 2 w ([[2, 0], [0, 4], [3, 3]].map l1normalize) = l1normalize ([1, 3] : List ℚ) := by
  refine ⟨[1/4, 3/4, 0], ?_, ?_⟩
  · norm_num [weightsOK]
  · norm_num [convComb, linComb, l1normalize, smul, vadd, List.replicate]

end C03
end Dreye
