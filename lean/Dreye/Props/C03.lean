/-
  C03 — gamut membership is exact: in-gamut iff reproducible by in-bound intensities.
  Spec: `Gamut = { A' x + base' | lb ≤ x ≤ ub }`.  The code decides membership in `conv (getP …)`.
-/
import Dreye.Model.Gamut
import Dreye.Props.Cert
import Mathlib.Algebra.Order.Field.Basic
import Mathlib.Algebra.BigOperators.Group.List.Basic
import Mathlib.Tactic

namespace Dreye
namespace C03

variable {α : Type*} [Field α] [LinearOrder α] [IsStrictOrderedRing α]

-- some statements below do not use the order (or the field) structure; they are kept as stated
set_option linter.unusedSectionVars false

open Cert

/-! ### list algebra helpers -/
section Alg
variable {β : Type*} [Field β]

theorem vadd_length (a b : List β) : (vadd a b).length = min a.length b.length := by simp [vadd]
theorem vsub_length (a b : List β) : (vsub a b).length = min a.length b.length := by simp [vsub]
theorem smul_length (c : β) (a : List β) : (smul c a).length = a.length := by simp [smul]

theorem vadd_cons (a b : β) (x y : List β) : vadd (a :: x) (b :: y) = (a + b) :: vadd x y := rfl
theorem smul_cons (c a : β) (x : List β) : smul c (a :: x) = (c * a) :: smul c x := rfl

theorem vadd_assoc (a b c : List β) : vadd a (vadd b c) = vadd (vadd a b) c := by
  apply List.ext_getElem
  · simp [vadd, min_assoc]
  · intro i h1 h2
    simp [vadd, add_assoc]

theorem zero_vadd (n : ℕ) (a : List β) (h : a.length = n) : vadd (List.replicate n 0) a = a := by
  apply List.ext_getElem
  · simp [vadd, h]
  · intro i h1 h2
    simp [vadd]

theorem smul_vadd (c : β) (a b : List β) : smul c (vadd a b) = vadd (smul c a) (smul c b) := by
  apply List.ext_getElem
  · simp [vadd, smul]
  · intro i h1 h2
    simp [vadd, smul, mul_add]

theorem smul_replicate_zero (c : β) (n : ℕ) : smul c (List.replicate n (0 : β)) = List.replicate n 0 := by
  simp [smul]

theorem smul_smul' (c d : β) (a : List β) : smul (c * d) a = smul c (smul d a) := by
  simp [smul, mul_assoc]

theorem linComb_append (n : ℕ) (w2 : List β) (P2 : List (List β)) (h2 : ∀ p ∈ P2, p.length = n) :
    ∀ (w1 : List β) (P1 : List (List β)), w1.length = P1.length →
      linComb n (w1 ++ w2) (P1 ++ P2) = vadd (linComb n w1 P1) (linComb n w2 P2)
  | [], [], _ => by
      rw [List.nil_append, List.nil_append, linComb_nil_left, zero_vadd n _ (linComb_length n _ _ h2)]
  | [], _ :: _, h => by simp at h
  | _ :: _, [], h => by simp at h
  | c :: w1, r :: P1, h => by
      have ih := linComb_append n w2 P2 h2 w1 P1 (by simpa using h)
      rw [List.cons_append, List.cons_append, linComb_cons, linComb_cons, ih, vadd_assoc]

theorem linComb_map_cons (n : ℕ) (a : β) : ∀ (w : List β) (P : List (List β)), w.length = P.length →
    linComb (n + 1) w (P.map (a :: ·)) = (w.sum * a) :: linComb n w P
  | [], [], _ => by simp [linComb_nil_left, List.replicate_succ]
  | [], _ :: _, h => by simp at h
  | _ :: _, [], h => by simp at h
  | c :: w, r :: P, h => by
      have ih := linComb_map_cons n a w P (by simpa using h)
      rw [List.map_cons, linComb_cons, linComb_cons, ih, smul_cons, vadd_cons, List.sum_cons]
      congr 1; ring

theorem linComb_map_mul (n : ℕ) (c : β) : ∀ (w : List β) (P : List (List β)),
    linComb n (w.map (c * ·)) P = smul c (linComb n w P)
  | [], P => by simp [linComb_nil_left, smul_replicate_zero]
  | _ :: _, [] => by simp [linComb_nil_right, smul_replicate_zero]
  | x :: w, r :: P => by
      have ih := linComb_map_mul n c w P
      rw [List.map_cons, linComb_cons, linComb_cons, ih, smul_vadd, smul_smul']

theorem sum_map_mul (c : β) (w : List β) : (w.map (c * ·)).sum = c * w.sum := by
  induction w with
  | nil => simp
  | cons x w ih => simp only [List.map_cons, List.sum_cons, ih]; ring

theorem sum_zipWith_add : ∀ (a b : List β), a.length = b.length →
    (List.zipWith (· + ·) a b).sum = a.sum + b.sum
  | [], [], _ => by simp
  | [], _ :: _, h => by simp at h
  | _ :: _, [], h => by simp at h
  | x :: a, y :: b, h => by
      have ih := sum_zipWith_add a b (by simpa using h)
      simp only [List.zipWith_cons_cons, List.sum_cons, ih]; ring

/-- adding weight lists adds the combinations -/
theorem linComb_add_weights (n : ℕ) : ∀ (w1 w2 : List β) (P : List (List β)),
    w1.length = P.length → w2.length = P.length → (∀ p ∈ P, p.length = n) →
    linComb n (List.zipWith (· + ·) w1 w2) P = vadd (linComb n w1 P) (linComb n w2 P)
  | [], [], [], _, _, _ => by simp [linComb_nil_left, vadd]
  | [], _, _ :: _, h, _, _ => by simp at h
  | _ :: _, _, [], h, _, _ => by simp at h
  | _, [], _ :: _, _, h, _ => by simp at h
  | _, _ :: _, [], _, h, _ => by simp at h
  | x :: w1, y :: w2, r :: P, h1, h2, hP => by
      have hP' : ∀ p ∈ P, p.length = n := fun p hp => hP p (List.mem_cons_of_mem _ hp)
      have ih := linComb_add_weights n w1 w2 P (by simpa using h1) (by simpa using h2) hP'
      have hr := hP r List.mem_cons_self
      have l1 := linComb_length n w1 P hP'
      have l2 := linComb_length n w2 P hP'
      rw [List.zipWith_cons_cons, linComb_cons, linComb_cons, linComb_cons, ih]
      apply List.ext_getElem
      · simp [vadd, smul, hr, l1, l2]
      · intro i h1 h2
        simp [vadd, smul]; ring

/-- translating every point by `o` translates the combination by `(Σ w) o` -/
theorem linComb_map_vadd (m : ℕ) (o : List β) (ho : o.length = m) : ∀ (w : List β) (Q : List (List β)),
    w.length = Q.length → (∀ q ∈ Q, q.length = m) →
    linComb m w (Q.map (fun q => vadd q o)) = vadd (linComb m w Q) (smul w.sum o)
  | [], [], _, _ => by
      apply List.ext_getElem
      · simp [linComb_nil_left, vadd, smul, ho]
      · intro i h1 h2
        simp [linComb_nil_left, vadd, smul]
  | [], _ :: _, h, _ => by simp at h
  | _ :: _, [], h, _ => by simp at h
  | c :: w, q :: Q, h, hQ => by
      have hQ' : ∀ p ∈ Q, p.length = m := fun p hp => hQ p (List.mem_cons_of_mem _ hp)
      have ih := linComb_map_vadd m o ho w Q (by simpa using h) hQ'
      have hq := hQ q List.mem_cons_self
      have l1 := linComb_length m w Q hQ'
      rw [List.map_cons, linComb_cons, linComb_cons, ih]
      apply List.ext_getElem
      · simp [vadd, smul, hq, l1, ho]
      · intro i h1 h2
        simp [vadd, smul]; ring

theorem matVec_replicate_zero (A : List (List β)) (n : ℕ) :
    matVec A (List.replicate n (0 : β)) = List.replicate A.length 0 := by
  induction A with
  | nil => simp [matVec]
  | cons r A ih =>
    simp only [matVec, List.map_cons, List.length_cons, List.replicate_succ] at ih ⊢
    rw [ih, dot_comm, dot_replicate_zero]

theorem dot_vadd_right (c a b : List β) (h : a.length = b.length) :
    dot c (vadd a b) = dot c a + dot c b := by
  rw [dot_comm, dot_vadd_left a b c h, dot_comm a, dot_comm b]

theorem dot_smul_right (k : β) (c a : List β) : dot c (smul k a) = k * dot c a := by
  rw [dot_comm, dot_smul_left, dot_comm]

theorem matVec_vadd (A : List (List β)) (x y : List β) (h : x.length = y.length) :
    matVec A (vadd x y) = vadd (matVec A x) (matVec A y) := by
  induction A with
  | nil => simp [matVec, vadd]
  | cons r A ih =>
    simp only [matVec, List.map_cons, vadd, List.zipWith_cons_cons] at ih ⊢
    rw [ih, ← vadd, dot_vadd_right r x y h]

theorem matVec_smul (A : List (List β)) (k : β) (x : List β) :
    matVec A (smul k x) = smul k (matVec A x) := by
  induction A with
  | nil => simp [matVec, smul]
  | cons r A ih =>
    simp only [matVec, List.map_cons, smul] at ih ⊢
    rw [ih, ← smul, dot_smul_right]

theorem matVec_linComb (n : ℕ) (A : List (List β)) : ∀ (w : List β) (cs : List (List β)),
    (∀ c ∈ cs, c.length = n) →
    matVec A (linComb n w cs) = linComb A.length w (cs.map (matVec A))
  | [], _, _ => by simp [linComb_nil_left, matVec_replicate_zero]
  | _ :: _, [], _ => by simp [linComb_nil_right, matVec_replicate_zero]
  | c :: w, r :: cs, h => by
      have h' : ∀ c ∈ cs, c.length = n := fun p hp => h p (List.mem_cons_of_mem _ hp)
      have ih := matVec_linComb n A w cs h'
      have hr := h r List.mem_cons_self
      rw [List.map_cons, linComb_cons, linComb_cons,
        matVec_vadd _ _ _ (by rw [smul_length, hr, linComb_length n w cs h']), matVec_smul, ih]

theorem vadd_vsub_cancel (a o : List β) (h : a.length = o.length) : vadd (vsub a o) o = a := by
  apply List.ext_getElem
  · simp [vadd, vsub, h]
  · intro i h1 h2
    simp [vadd, vsub]

theorem vsub_eq_vadd_neg (a o : List β) : vsub a o = vadd a (smul (-1) o) := by
  apply List.ext_getElem
  · simp [vadd, vsub, smul]
  · intro i h1 h2
    simp [vadd, vsub, smul, sub_eq_add_neg]

end Alg

/-- `t ∈ [0,1]^n` -/
def unitBox (t : List α) : Prop := ∀ v ∈ t, 0 ≤ v ∧ v ≤ 1

/-- the product weights are valid convex weights -/
theorem cweights_valid (t : List α) (ht : unitBox t) :
    (∀ v ∈ cweights t, 0 ≤ v) ∧ (cweights t).sum = 1 ∧ (cweights t).length = 2 ^ t.length := by
  induction t with
  | nil => simp [cweights]
  | cons a t ih =>
    have ha := ht a List.mem_cons_self
    obtain ⟨h1, h2, h3⟩ := ih (fun v hv => ht v (List.mem_cons_of_mem _ hv))
    refine ⟨?_, ?_, ?_⟩
    · intro v hv
      simp only [cweights, List.mem_append, List.mem_map] at hv
      rcases hv with ⟨x, hx, rfl⟩ | ⟨x, hx, rfl⟩
      · exact mul_nonneg (sub_nonneg.2 ha.2) (h1 x hx)
      · exact mul_nonneg ha.1 (h1 x hx)
    · simp only [cweights, List.sum_append, sum_map_mul, h2]
      ring
    · simp only [cweights, List.length_append, List.length_map, h3, List.length_cons]
      ring

theorem cweights_sum {β : Type*} [Field β] (t : List β) : (cweights t).sum = 1 := by
  induction t with
  | nil => simp [cweights]
  | cons a t ih =>
    simp only [cweights, List.sum_append, sum_map_mul, ih]; ring

theorem cweights_length {β : Type*} [Field β] (t : List β) : (cweights t).length = 2 ^ t.length := by
  induction t with
  | nil => simp [cweights]
  | cons a t ih =>
    simp only [cweights, List.length_append, List.length_map, ih, List.length_cons]; ring

theorem corners_length (lb ub : List α) (h : lb.length = ub.length) :
    (corners lb ub).length = 2 ^ lb.length ∧ ∀ c ∈ corners lb ub, c.length = lb.length := by
  induction lb generalizing ub with
  | nil =>
    cases ub with
    | nil => simp [corners]
    | cons _ _ => simp at h
  | cons l lb ih =>
    cases ub with
    | nil => simp at h
    | cons u ub =>
      obtain ⟨h1, h2⟩ := ih ub (by simpa using h)
      refine ⟨?_, ?_⟩
      · simp only [corners, List.length_append, List.length_map, h1, List.length_cons]
        ring
      · intro c hc
        simp only [corners, List.mem_append, List.mem_map] at hc
        rcases hc with ⟨x, hx, rfl⟩ | ⟨x, hx, rfl⟩ <;> simp [h2 x hx]

/-- **C03 (box ⊆ conv corners)**: the box point with coordinates `lb + t(ub−lb)` is the convex
    combination of the `2^n` corners with the product weights — for every number of sources. -/
theorem box_point_is_conv_comb (lb ub t : List α) (h1 : lb.length = ub.length) (h2 : t.length = lb.length) :
    convComb lb.length (cweights t) (corners lb ub) = boxPoint lb ub t := by
  unfold convComb
  induction lb generalizing ub t with
  | nil =>
    cases ub with
    | nil =>
      have : t = [] := List.length_eq_zero_iff.1 h2
      subst this
      simp [corners, cweights, boxPoint, linComb, vadd, smul]
    | cons _ _ => simp at h1
  | cons l lb ih =>
    cases ub with
    | nil => simp at h1
    | cons u ub =>
      cases t with
      | nil => simp at h2
      | cons a t =>
        have h1' : lb.length = ub.length := by simpa using h1
        have h2' : t.length = lb.length := by simpa using h2
        have ih' := ih ub t h1' h2'
        obtain ⟨hc1, hc2⟩ := corners_length lb ub h1'
        have hcw : (cweights t).length = (corners lb ub).length := by
          rw [hc1, ← h2']
          exact cweights_length t
        have hs : (cweights t).sum = 1 := cweights_sum t
        have hbl : (boxPoint lb ub t).length = lb.length := by
          simp [boxPoint, h1', h2']
        simp only [corners, cweights, List.length_cons]
        rw [linComb_append _ _ _ (by
              intro p hp
              simp only [List.mem_map] at hp
              obtain ⟨x, hx, rfl⟩ := hp
              simp [hc2 x hx]) _ _ (by simp [hcw]),
          linComb_map_cons _ _ _ _ (by simp [hcw]), linComb_map_cons _ _ _ _ (by simp [hcw]),
          linComb_map_mul, linComb_map_mul, ih', sum_map_mul, sum_map_mul, hs, vadd_cons]
        simp only [boxPoint, List.zip_cons_cons, List.zipWith_cons_cons]
        congr 1
        · ring
        · rw [← boxPoint]
          apply List.ext_getElem
          · simp [vadd, smul]
          · intro i h1 h2
            simp [vadd, smul]; ring

/-- every point of the box has such a `t` (when `lb ≤ ub`) -/
theorem box_has_param (lb ub x : List α) (h1 : lb.length = ub.length) (hx : x.length = lb.length)
    (hle : ∀ p ∈ lb.zip ub, p.1 ≤ p.2)
    (hin : (∀ p ∈ lb.zip x, p.1 ≤ p.2) ∧ (∀ p ∈ x.zip ub, p.1 ≤ p.2)) :
    ∃ t : List α, t.length = lb.length ∧ unitBox t ∧ boxPoint lb ub t = x := by
  induction lb generalizing ub x with
  | nil =>
    cases x with
    | nil => exact ⟨[], rfl, by simp [unitBox], by simp [boxPoint]⟩
    | cons _ _ => simp at hx
  | cons l lb ih =>
    cases ub with
    | nil => simp at h1
    | cons u ub =>
      cases x with
      | nil => simp at hx
      | cons v x =>
        obtain ⟨hin1, hin2⟩ := hin
        have hlu : l ≤ u := hle (l, u) (by simp)
        have hlv : l ≤ v := hin1 (l, v) (by simp)
        have hvu : v ≤ u := hin2 (v, u) (by simp)
        obtain ⟨t, ht1, ht2, ht3⟩ := ih ub x (by simpa using h1) (by simpa using hx)
          (fun p hp => hle p (by simp [hp]))
          ⟨fun p hp => hin1 p (by simp [hp]), fun p hp => hin2 p (by simp [hp])⟩
        by_cases hul : u = l
        · refine ⟨0 :: t, by simp [ht1], ?_, ?_⟩
          · intro a ha
            rcases List.mem_cons.1 ha with rfl | ha
            · exact ⟨le_refl _, zero_le_one⟩
            · exact ht2 a ha
          · simp only [boxPoint, List.zip_cons_cons, List.zipWith_cons_cons]
            rw [← boxPoint, ht3]
            congr 1
            subst hul
            have : v = u := le_antisymm hvu hlv
            simp [this]
        · have hpos : 0 < u - l := sub_pos.2 (lt_of_le_of_ne hlu (Ne.symm hul))
          refine ⟨((v - l) / (u - l)) :: t, by simp [ht1], ?_, ?_⟩
          · intro a ha
            rcases List.mem_cons.1 ha with rfl | ha
            · refine ⟨div_nonneg (sub_nonneg.2 hlv) hpos.le, ?_⟩
              rw [div_le_one hpos]; linarith
            · exact ht2 a ha
          · simp only [boxPoint, List.zip_cons_cons, List.zipWith_cons_cons]
            rw [← boxPoint, ht3]
            congr 1
            field_simp
            ring

theorem conv_corners_in_box_aux : ∀ (lb ub w : List α), lb.length = ub.length →
    (∀ p ∈ lb.zip ub, p.1 ≤ p.2) → (∀ v ∈ w, 0 ≤ v) → w.sum = 1 → w.length = (corners lb ub).length →
    (linComb lb.length w (corners lb ub)).length = lb.length ∧
      (∀ p ∈ lb.zip (linComb lb.length w (corners lb ub)), p.1 ≤ p.2) ∧
      (∀ p ∈ (linComb lb.length w (corners lb ub)).zip ub, p.1 ≤ p.2)
  | [], [], w, _, _, _, _, _ => by
      have : (linComb 0 w (corners ([] : List α) [])).length = 0 :=
        linComb_length 0 w _ (by simp [corners])
      have h0 : linComb 0 w (corners ([] : List α) []) = [] := List.length_eq_zero_iff.1 this
      simp [h0]
  | [], _ :: _, _, h, _, _, _, _ => by simp at h
  | _ :: _, [], _, h, _, _, _, _ => by simp at h
  | l :: lb, u :: ub, w, h1, hle, hnn, hsum, hlen => by
      have h1' : lb.length = ub.length := by simpa using h1
      obtain ⟨hc1, hc2⟩ := corners_length lb ub h1'
      set C := corners lb ub with hC
      obtain ⟨m, hm⟩ : ∃ m, m = C.length := ⟨_, rfl⟩
      have hlen' : w.length = m + m := by
        rw [hlen]; simp [corners, ← hC, hm]
      -- split the weights
      set w1 := w.take m with hw1
      set w2 := w.drop m with hw2
      have hw : w = w1 ++ w2 := (List.take_append_drop m w).symm
      have l1 : w1.length = m := by simp [hw1, hlen']
      have l2 : w2.length = m := by simp [hw2, hlen']
      have nn1 : ∀ v ∈ w1, 0 ≤ v := fun v hv => hnn v (List.mem_of_mem_take hv)
      have nn2 : ∀ v ∈ w2, 0 ≤ v := fun v hv => hnn v (List.mem_of_mem_drop hv)
      have s1 : 0 ≤ w1.sum := List.sum_nonneg nn1
      have s2 : 0 ≤ w2.sum := List.sum_nonneg nn2
      have s12 : w1.sum + w2.sum = 1 := by rw [← List.sum_append, ← hw, hsum]
      have hlu : l ≤ u := hle (l, u) (by simp)
      -- the combination
      have hcomb : linComb (lb.length + 1) w (corners (l :: lb) (u :: ub))
          = (w1.sum * l + w2.sum * u) :: linComb lb.length (List.zipWith (· + ·) w1 w2) C := by
        simp only [corners, ← hC]
        rw [hw, linComb_append _ _ _ (by
              intro p hp
              simp only [List.mem_map] at hp
              obtain ⟨x, hx, rfl⟩ := hp
              simp [hc2 x hx]) _ _ (by simp [l1, hm]),
          linComb_map_cons _ _ _ _ (by rw [l1, hm]), linComb_map_cons _ _ _ _ (by rw [l2, hm]),
          vadd_cons, linComb_add_weights _ _ _ _ (by rw [l1, hm]) (by rw [l2, hm]) hc2]
      have ih := conv_corners_in_box_aux lb ub (List.zipWith (· + ·) w1 w2) h1'
        (fun p hp => hle p (by simp [hp]))
        (by
          intro v hv
          obtain ⟨i, hi, rfl⟩ := List.mem_iff_getElem.1 hv
          simp only [List.getElem_zipWith]
          exact add_nonneg (nn1 _ (List.getElem_mem _)) (nn2 _ (List.getElem_mem _)))
        (by rw [sum_zipWith_add _ _ (by rw [l1, l2]), s12])
        (by simp [l1, l2, hm, hC])
      obtain ⟨ih1, ih2, ih3⟩ := ih
      rw [← hC] at ih1 ih2 ih3
      simp only [List.length_cons]
      rw [hcomb]
      refine ⟨by simp [ih1], ?_, ?_⟩
      · intro p hp
        simp only [List.zip_cons_cons, List.mem_cons] at hp
        rcases hp with rfl | hp
        · show l ≤ w1.sum * l + w2.sum * u
          have := mul_le_mul_of_nonneg_left hlu s2
          have e : l = (w1.sum + w2.sum) * l := by rw [s12, one_mul]
          nlinarith
        · exact ih2 p hp
      · intro p hp
        simp only [List.zip_cons_cons, List.mem_cons] at hp
        rcases hp with rfl | hp
        · show w1.sum * l + w2.sum * u ≤ u
          have := mul_le_mul_of_nonneg_left hlu s1
          have e : u = (w1.sum + w2.sum) * u := by rw [s12, one_mul]
          nlinarith
        · exact ih3 p hp

/-- **C03 (conv corners ⊆ box)**: any convex combination of the corners lies in the box. -/
theorem conv_corners_in_box (lb ub w : List α) (h1 : lb.length = ub.length)
    (hle : ∀ p ∈ lb.zip ub, p.1 ≤ p.2)
    (hw : (∀ v ∈ w, 0 ≤ v) ∧ w.sum = 1 ∧ w.length = (corners lb ub).length) :
    let x := convComb lb.length w (corners lb ub)
    x.length = lb.length ∧ (∀ p ∈ lb.zip x, p.1 ≤ p.2) ∧ (∀ p ∈ x.zip ub, p.1 ≤ p.2) := by
  intro x
  obtain ⟨hnn, hsum, hlen⟩ := hw
  exact conv_corners_in_box_aux lb ub w h1 hle hnn hsum hlen

/-- the affine model commutes with convex combinations: `A'(Σ w_k c_k) + base' = Σ w_k (A' c_k + base')`
    whenever `Σ w = 1` -/
theorem predict_conv_comb (n : ℕ) (A' : List (List α)) (base' w : List α) (cs : List (List α))
    (hA : ∀ r ∈ A', r.length = n) (hb : base'.length = A'.length) (hc : ∀ c ∈ cs, c.length = n)
    (hw : w.sum = 1) (hwl : w.length = cs.length) :
    predict A' base' (convComb n w cs) = convComb A'.length w (cs.map (predict A' base')) := by
  unfold convComb predict
  have hm : ∀ q ∈ cs.map (matVec A'), q.length = A'.length := by
    intro q hq
    simp only [List.mem_map] at hq
    obtain ⟨x, _, rfl⟩ := hq
    exact matVec_length A' x
  have e : cs.map (fun x => vadd (matVec A' x) base')
      = (cs.map (matVec A')).map (fun q => vadd q base') := by
    rw [List.map_map]; rfl
  have _ := hA
  rw [e, linComb_map_vadd A'.length base' hb w _ (by simpa using hwl) hm, hw,
    matVec_linComb n A' w cs hc]
  congr 1
  simp [smul]

/-- **C03 (certified in ⇒ reproducible)**: if convex weights express `b` by the corner images (what a
    Delaunay hit or a zero NNLS residual asserts), then some intensity vector within the bounds
    reproduces `b` through the model — finite bounds, any K / baseline / non-zero lower bounds. -/
theorem reproducible_of_weights (A' : List (List α)) (base' lb ub w b : List α)
    (h1 : lb.length = ub.length) (hA : ∀ r ∈ A', r.length = lb.length) (hb : base'.length = A'.length)
    (hle : ∀ p ∈ lb.zip ub, p.1 ≤ p.2)
    (hw : (∀ v ∈ w, 0 ≤ v) ∧ w.sum = 1 ∧ w.length = (corners lb ub).length)
    (hb' : convComb A'.length w ((corners lb ub).map (predict A' base')) = b) :
    ∃ x : List α, x.length = lb.length ∧ (∀ p ∈ lb.zip x, p.1 ≤ p.2) ∧ (∀ p ∈ x.zip ub, p.1 ≤ p.2) ∧
      predict A' base' x = b := by
  obtain ⟨hx1, hx2, hx3⟩ := conv_corners_in_box lb ub w h1 hle hw
  refine ⟨convComb lb.length w (corners lb ub), hx1, hx2, hx3, ?_⟩
  rw [predict_conv_comb lb.length A' base' w (corners lb ub) hA hb (corners_length lb ub h1).2
    hw.2.1 hw.2.2, hb']

/-- **C03 (reproducible ⇒ in the hull of the corner images)**: every capture of in-bound intensities
    is a convex combination of the `2^n` corner images. -/
theorem weights_of_reproducible (A' : List (List α)) (base' lb ub x : List α)
    (h1 : lb.length = ub.length) (hA : ∀ r ∈ A', r.length = lb.length) (hb : base'.length = A'.length)
    (hx : x.length = lb.length) (hle : ∀ p ∈ lb.zip ub, p.1 ≤ p.2)
    (hin : (∀ p ∈ lb.zip x, p.1 ≤ p.2) ∧ (∀ p ∈ x.zip ub, p.1 ≤ p.2)) :
    ∃ w : List α, (∀ v ∈ w, 0 ≤ v) ∧ w.sum = 1 ∧ w.length = (corners lb ub).length ∧
      convComb A'.length w ((corners lb ub).map (predict A' base')) = predict A' base' x := by
  obtain ⟨t, ht1, ht2, ht3⟩ := box_has_param lb ub x h1 hx hle hin
  obtain ⟨hv1, hv2, hv3⟩ := cweights_valid t ht2
  obtain ⟨hc1, hc2⟩ := corners_length lb ub h1
  have hl : (cweights t).length = (corners lb ub).length := by rw [hv3, hc1, ht1]
  refine ⟨cweights t, hv1, hv2, hl, ?_⟩
  rw [← predict_conv_comb lb.length A' base' (cweights t) (corners lb ub) hA hb hc2 hv2 hl,
    box_point_is_conv_comb lb ub t h1 ht1, ht3]

theorem dot_matVec_le (h : List α) (c : α) : ∀ (w : List α) (P : List (List α)),
    w.length = P.length → (∀ v ∈ w, 0 ≤ v) → (∀ p ∈ P, dot h p ≤ c) →
    dot w (matVec P h) ≤ w.sum * c
  | [], [], _, _, _ => by simp [dot_nil_left]
  | [], _ :: _, e, _, _ => by simp at e
  | _ :: _, [], e, _, _ => by simp at e
  | x :: w, p :: P, e, hw, hP => by
      have ih := dot_matVec_le h c w P (by simpa using e)
        (fun v hv => hw v (List.mem_cons_of_mem _ hv)) (fun q hq => hP q (List.mem_cons_of_mem _ hq))
      have hx : 0 ≤ x := hw x List.mem_cons_self
      have hp : dot p h ≤ c := by rw [dot_comm]; exact hP p List.mem_cons_self
      have := mul_le_mul_of_nonneg_left hp hx
      simp only [matVec, List.map_cons, dot_cons, List.sum_cons] at ih ⊢
      linarith

/-- **C03 (separating hyperplane ⇒ not a convex combination)**: the "out" certificate is sound. -/
theorem not_conv_of_separator (d : ℕ) (P : List (List α)) (h b : List α) (c : α)
    (hs : sepCert P h c b = true) (hd : b.length = d) :
    ¬ ∃ w : List α, (∀ v ∈ w, 0 ≤ v) ∧ w.sum = 1 ∧ w.length = P.length ∧ convComb d w P = b := by
  rintro ⟨w, hnn, hsum, hl, hcomb⟩
  simp only [sepCert, Bool.and_eq_true, decide_eq_true_eq, List.all_eq_true] at hs
  obtain ⟨⟨⟨hP, hcb⟩, hPl⟩, _⟩ := hs
  have hPd : ∀ p ∈ P, p.length = d := fun p hp => by rw [hPl p hp, hd]
  have key := dot_matVec_le h c w P hl hnn hP
  have e : dot h b = dot w (matVec P h) := by
    rw [← hcomb, convComb, dot_comm, dot_linComb d h w P hPd]
  rw [e] at hcb
  rw [hsum, one_mul] at key
  exact absurd hcb (not_lt.2 key)

/-- **C03 (certified out ⇒ not reproducible)**: with a separator for the corner images, no in-bound
    intensity vector reproduces `b`. -/
theorem not_reproducible_of_separator (A' : List (List α)) (base' lb ub h b : List α) (c : α)
    (h1 : lb.length = ub.length) (hA : ∀ r ∈ A', r.length = lb.length) (hb : base'.length = A'.length)
    (hle : ∀ p ∈ lb.zip ub, p.1 ≤ p.2) (hbl : b.length = A'.length)
    (hs : sepCert ((corners lb ub).map (predict A' base')) h c b = true) :
    ¬ ∃ x : List α, x.length = lb.length ∧ (∀ p ∈ lb.zip x, p.1 ≤ p.2) ∧ (∀ p ∈ x.zip ub, p.1 ≤ p.2) ∧
      predict A' base' x = b := by
  rintro ⟨x, hx, hx1, hx2, hpx⟩
  obtain ⟨w, hw1, hw2, hw3, hw4⟩ := weights_of_reproducible A' base' lb ub x h1 hA hb hx hle ⟨hx1, hx2⟩
  exact not_conv_of_separator A'.length _ h b c hs hbl
    ⟨w, hw1, hw2, by rw [hw3, List.length_map], by rw [hw4, hpx]⟩

/-- **C03 (offset subtraction is harmless)**: subtracting one vector from all points and from the target
    does not change which weights work. -/
theorem conv_comb_translate (d : ℕ) (P : List (List α)) (w o b : List α)
    (hP : ∀ p ∈ P, p.length = d) (ho : o.length = d) (hb : b.length = d)
    (hw : w.sum = 1) (hwl : w.length = P.length) :
    convComb d w (P.map (fun p => vsub p o)) = vsub b o ↔ convComb d w P = b := by
  unfold convComb
  have e : P.map (fun p => vsub p o) = P.map (fun p => vadd p (smul (-1) o)) := by
    apply List.map_congr_left
    intro p _
    exact vsub_eq_vadd_neg p o
  have hL := linComb_length d w P hP
  rw [e, linComb_map_vadd d (smul (-1) o) (by rw [smul_length, ho]) w P hwl hP, hw]
  have e2 : smul (1 : α) (smul (-1) o) = smul (-1) o := by simp [smul]
  rw [e2, ← vsub_eq_vadd_neg]
  constructor
  · intro h
    rw [← vadd_vsub_cancel (linComb d w P) o (by rw [hL, ho]), h,
      vadd_vsub_cancel b o (by rw [hb, ho])]
  · intro h
    rw [h]

/-- the exact "in" certificate checker is sound -/
theorem inHullCert_sound (d : ℕ) (P : List (List α)) (w b : List α) (h : inHullCert d P w b = true) :
    (∀ v ∈ w, 0 ≤ v) ∧ w.sum = 1 ∧ w.length = P.length ∧ convComb d w P = b := by
  simp only [inHullCert, weightsOK, Bool.and_eq_true, decide_eq_true_eq, List.all_eq_true] at h
  obtain ⟨⟨⟨⟨hl, hnn⟩, hs⟩, _⟩, hc⟩ := h
  exact ⟨hnn, hs, hl, hc⟩

end C03
end Dreye
