/-
  C13 (quasi-Monte-Carlo branch) — the bookkeeping that pairs barycentric weights with simplices:
  iteration `k` of the loop writes the weights of rows `[start_k, stop_k)` and `np.repeat(arange, counts)` says
  which simplex each row uses. The theorems: the blocks tile `0 .. Σcounts` without gap or overlap, and the simplex
  index of every row is the index of the block that wrote its weights — for every list of counts (zeros included).
-/
import Dreye.Model.Sampling
import Mathlib.Tactic

namespace Dreye
namespace C13

theorem qmcBlocks_length (t : ℕ) (cs : List ℕ) : (qmcBlocks t cs).length = cs.length := by
  induction cs generalizing t with
  | nil => simp [qmcBlocks]
  | cons c cs ih => simp [qmcBlocks, ih]

/-- block `k` has exactly `counts[k]` rows -/
theorem qmcBlocks_sizes (t : ℕ) (cs : List ℕ) : (qmcBlocks t cs).map (fun b => b.2 - b.1) = cs := by
  induction cs generalizing t with
  | nil => simp [qmcBlocks]
  | cons c cs ih => simp [qmcBlocks, ih]

/-- the first block starts at `t`; every block starts where the previous one stopped -/
theorem qmcBlocks_chain (t : ℕ) (cs : List ℕ) :
    List.IsChain (fun (a b : ℕ × ℕ) => a.2 = b.1) (qmcBlocks t cs) ∧
    (∀ b, (qmcBlocks t cs).head? = some b → b.1 = t) ∧
    (∀ b, (qmcBlocks t cs).getLast? = some b → b.2 = t + cs.sum) := by
  induction cs generalizing t with
  | nil => simp [qmcBlocks]
  | cons c cs ih =>
    obtain ⟨h1, h2, h3⟩ := ih (t + c)
    refine ⟨?_, ?_, ?_⟩
    · cases cs with
      | nil => simp [qmcBlocks]
      | cons c' cs' =>
        simp only [qmcBlocks] at h1 ⊢
        exact List.IsChain.cons_cons rfl h1
    · intro b hb
      simp only [qmcBlocks, List.head?_cons, Option.some.injEq] at hb
      subst hb; rfl
    · intro b hb
      cases cs with
      | nil =>
        simp only [qmcBlocks, List.getLast?_singleton, Option.some.injEq] at hb
        subst hb; simp
      | cons c' cs' =>
        simp only [qmcBlocks] at h3 hb
        rw [List.getLast?_cons_cons] at hb
        have := h3 b hb
        simp only [List.sum_cons] at this ⊢
        omega

theorem repeatIdx_length (i : ℕ) (cs : List ℕ) : (repeatIdx i cs).length = cs.sum := by
  induction cs generalizing i with
  | nil => simp [repeatIdx]
  | cons c cs ih => simp [repeatIdx, ih]

/-- no row beyond `Σ counts` is written -/
theorem blocks_within (t : ℕ) (cs : List ℕ) : ∀ b ∈ qmcBlocks t cs, t ≤ b.1 ∧ b.1 ≤ b.2 ∧ b.2 ≤ t + cs.sum := by
  induction cs generalizing t with
  | nil => simp [qmcBlocks]
  | cons c cs ih =>
    intro b hb
    simp only [qmcBlocks, List.mem_cons] at hb
    rcases hb with rfl | hb
    · simp
    · have := ih (t + c) b hb
      simp only [List.sum_cons]
      omega

theorem row_block_simplex_gen (cs : List ℕ) : ∀ (t i r : ℕ), t ≤ r → r < t + cs.sum →
    ∃ k, ∃ hk : k < (qmcBlocks t cs).length,
      ((qmcBlocks t cs)[k]).1 ≤ r ∧ r < ((qmcBlocks t cs)[k]).2 ∧ (repeatIdx i cs)[r - t]? = some (i + k) ∧
      (∀ k', ∀ hk' : k' < (qmcBlocks t cs).length,
        ((qmcBlocks t cs)[k']).1 ≤ r → r < ((qmcBlocks t cs)[k']).2 → k' = k) := by
  induction cs with
  | nil => intro t i r h1 h2; simp at h2; omega
  | cons c cs ih =>
    intro t i r h1 h2
    simp only [List.sum_cons] at h2
    by_cases hc : r < t + c
    · refine ⟨0, by simp [qmcBlocks], ?_, ?_, ?_, ?_⟩
      · simp [qmcBlocks]; exact h1
      · simp [qmcBlocks]; exact hc
      · simp only [repeatIdx]
        rw [List.getElem?_append_left (by simp; omega)]
        rw [List.getElem?_replicate]
        simp; omega
      · intro k' hk' hl hu
        cases k' with
        | zero => rfl
        | succ k' =>
          exfalso
          simp only [qmcBlocks, List.getElem_cons_succ] at hl
          simp only [qmcBlocks, List.length_cons, Nat.add_lt_add_iff_right] at hk'
          have := blocks_within (t + c) cs _ (List.getElem_mem hk')
          omega
    · obtain ⟨k, hk, hl, hu, hidx, huniq⟩ := ih (t + c) (i + 1) r (by omega) (by omega)
      refine ⟨k + 1, by simp [qmcBlocks]; exact hk, ?_, ?_, ?_, ?_⟩
      · simpa [qmcBlocks] using hl
      · simpa [qmcBlocks] using hu
      · simp only [repeatIdx]
        rw [List.getElem?_append_right (by simp; omega)]
        simp only [List.length_replicate]
        have e : r - t - c = r - (t + c) := by omega
        rw [e, hidx]
        congr 1; omega
      · intro k' hk' hl' hu'
        cases k' with
        | zero =>
          exfalso
          simp only [qmcBlocks, List.getElem_cons_zero] at hu'
          omega
        | succ k' =>
          simp only [qmcBlocks, List.getElem_cons_succ] at hl' hu'
          simp only [qmcBlocks, List.length_cons, Nat.add_lt_add_iff_right] at hk'
          have := huniq k' hk' hl' hu'
          omega

/-- **C13 (QMC rows and simplices agree)**: every row `r < Σ counts` lies in exactly one block `k`, and the simplex index
    `np.repeat(arange, counts)[r]` is that `k`: the weights drawn for simplex `k` are combined with the vertices of simplex `k`. -/
theorem row_block_simplex (cs : List ℕ) (r : ℕ) (hr : r < cs.sum) :
    ∃ k, ∃ hk : k < (qmcBlocks 0 cs).length,
      ((qmcBlocks 0 cs)[k]).1 ≤ r ∧ r < ((qmcBlocks 0 cs)[k]).2 ∧ (repeatIdx 0 cs)[r]? = some k ∧
      (∀ k', ∀ hk' : k' < (qmcBlocks 0 cs).length,
        ((qmcBlocks 0 cs)[k']).1 ≤ r → r < ((qmcBlocks 0 cs)[k']).2 → k' = k) := by
  have := row_block_simplex_gen cs 0 0 r (Nat.zero_le _) (by omega)
  simpa using this

example : qmcBlocks 0 [2, 0, 3] = [(0, 2), (2, 2), (2, 5)] ∧ repeatIdx 0 [2, 0, 3] = [0, 0, 2, 2, 2] := by
  decide

end C13
end Dreye
