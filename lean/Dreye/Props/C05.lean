/-
  C05 — samples are fitted independently; batch size never changes or breaks a result.
-/
import Dreye.Model.Batch
import Mathlib.Algebra.BigOperators.Group.Finset.Basic
import Mathlib.Algebra.Order.BigOperators.Group.Finset
import Mathlib.Algebra.Order.Field.Basic
import Mathlib.Tactic

namespace Dreye
namespace C05

/-! ### the scatter is a partition of the rows, for every sample count and every batch size -/

private theorem rows_full (bs : ℕ) (hb : 0 < bs) : ∀ m : ℕ,
    rowsWritten ((List.range m).map (fun i => (⟨i, false, i * bs, (i + 1) * bs⟩ : Write))) = List.range (m * bs) := by
  intro m
  induction m with
  | zero => simp [rowsWritten]
  | succ m ih =>
    simp only [rowsWritten] at ih ⊢
    rw [List.range_succ, List.map_append, List.flatMap_append, ih]
    simp only [List.map_cons, List.map_nil, List.flatMap_cons, List.flatMap_nil, List.append_nil]
    have : (m + 1) * bs - m * bs = bs := by
      rw [Nat.add_mul]; simp
    rw [this, Nat.add_mul, Nat.one_mul, List.range_eq_range', List.range_eq_range']
    rw [← List.range'_append_1]
    simp

/-- **C05 (every row is written exactly once, in order)**: for all `n` and all `bs ≥ 1` — dividing,
    not dividing, and larger than `n` — the rows written by the batched loop are `0, 1, …, n-1`. -/
theorem plan_partition (n bs : ℕ) (hb : 1 ≤ bs) : rowsWritten (batchPlan n bs) = List.range n := by
  unfold batchPlan
  split
  · -- bs = 1
    have h := rows_full 1 (by norm_num) n
    simpa using h
  · have hdm := Nat.div_add_mod n bs
    split
    · rename_i h0
      rw [rows_full bs (by omega)]
      congr 1
      rw [Nat.mul_comm]; omega
    · rename_i h0
      simp only [rowsWritten] at *
      rw [List.flatMap_append]
      have := rows_full bs (by omega) (n / bs)
      simp only [rowsWritten] at this
      rw [this]
      simp only [List.flatMap_cons, List.flatMap_nil, List.append_nil]
      rw [List.range_eq_range', List.range_eq_range']
      have e : n - n / bs * bs = n % bs := by
        rw [Nat.mul_comm]; omega
      rw [e]
      have := List.range'_append_1 (s := 0) (m := n / bs * bs) (n := n % bs)
      simp only [Nat.zero_add] at this
      rw [this]
      congr 1
      rw [Nat.mul_comm]; omega

/-- every solve is written to a non-empty slice that fits the solution: a full batch fills `bs` rows,
    the padded batch the remaining `n % bs` -/
theorem plan_slices (n bs : ℕ) (hb : 1 ≤ bs) : ∀ w ∈ batchPlan n bs,
    w.start = w.idx * bs ∧ (w.padded = false → w.stop = w.start + bs ∧ w.stop ≤ n) ∧
    (w.padded = true → w.stop = n ∧ w.stop - w.start = n % bs ∧ 0 < n % bs) := by
  intro w hw
  unfold batchPlan at hw
  split at hw
  · rename_i h1; subst h1
    simp only [List.mem_map, List.mem_range] at hw
    obtain ⟨i, hi, rfl⟩ := hw
    simp; omega
  · split at hw
    · simp only [List.mem_map, List.mem_range] at hw
      obtain ⟨i, hi, rfl⟩ := hw
      refine ⟨rfl, fun _ => ⟨by ring, ?_⟩, by simp⟩
      calc (i + 1) * bs ≤ (n / bs) * bs := Nat.mul_le_mul_right _ hi
        _ ≤ n := Nat.div_mul_le_self n bs
    · rename_i h0
      simp only [List.mem_append, List.mem_map, List.mem_range, List.mem_singleton] at hw
      rcases hw with ⟨i, hi, rfl⟩ | rfl
      · refine ⟨rfl, fun _ => ⟨by ring, ?_⟩, by simp⟩
        calc (i + 1) * bs ≤ (n / bs) * bs := Nat.mul_le_mul_right _ hi
          _ ≤ n := Nat.div_mul_le_self n bs
      · refine ⟨rfl, by simp, fun _ => ⟨rfl, ?_, by omega⟩⟩
        have := Nat.div_add_mod n bs
        rw [Nat.mul_comm] at this
        show n - n / bs * bs = n % bs
        omega

/-- **C05 (row i comes from block `i mod bs` of solve `i div bs`)** -/
theorem row_source (n bs i : ℕ) (hb : 1 ≤ bs) (hi : i < n) :
    ∃ w ∈ batchPlan n bs, w.idx = (sourceOf bs i).1 ∧ w.start ≤ i ∧ i < w.stop ∧ i - w.start = (sourceOf bs i).2 := by
  have hdm := Nat.div_add_mod i bs
  have hmod : i % bs < bs := Nat.mod_lt _ (by omega)
  unfold batchPlan sourceOf
  split
  · rename_i h1; subst h1
    refine ⟨⟨i, false, i, i + 1⟩, ?_, ?_⟩
    · simp only [List.mem_map, List.mem_range]; exact ⟨i, hi, rfl⟩
    · simp [Nat.mod_one]
  · by_cases hfull : i / bs < n / bs
    · have hw : (⟨i / bs, false, i / bs * bs, (i / bs + 1) * bs⟩ : Write) ∈
          (List.range (n / bs)).map (fun i => (⟨i, false, i * bs, (i + 1) * bs⟩ : Write)) := by
        simp only [List.mem_map, List.mem_range]; exact ⟨i / bs, hfull, rfl⟩
      refine ⟨⟨i / bs, false, i / bs * bs, (i / bs + 1) * bs⟩, ?_, rfl, ?_, ?_, ?_⟩
      · split
        · exact hw
        · exact List.mem_append_left _ hw
      · show i / bs * bs ≤ i
        rw [Nat.mul_comm]; omega
      · show i < (i / bs + 1) * bs
        rw [Nat.add_mul, Nat.mul_comm]; omega
      · show i - i / bs * bs = i % bs
        rw [Nat.mul_comm]; omega
    · have hle : i / bs ≤ n / bs := Nat.div_le_div_right hi.le
      have heq : i / bs = n / bs := by omega
      have hn := Nat.div_add_mod n bs
      have hnmod : n % bs ≠ 0 := by
        intro h0
        rw [h0, Nat.add_zero] at hn
        rw [← heq] at hn
        omega
      rw [if_neg hnmod]
      refine ⟨⟨n / bs, true, n / bs * bs, n⟩, ?_, heq.symm, ?_, hi, ?_⟩
      · simp
      · show n / bs * bs ≤ i
        rw [← heq, Nat.mul_comm]; omega
      · show i - n / bs * bs = i % bs
        rw [← heq, Nat.mul_comm]; omega

/-- `'full'` is one un-padded solve of all rows; `None` and `1` solve row by row -/
theorem plan_full (n : ℕ) (hn : 2 ≤ n) : batchPlan n (getBatchSize .full n) = [⟨0, false, 0, n⟩] := by
  have h1 : n ≠ 1 := by omega
  simp [batchPlan, getBatchSize, h1, Nat.div_self (by omega : 0 < n)]

theorem plan_none (n : ℕ) : batchPlan n (getBatchSize .none n) = (List.range n).map (fun i => ⟨i, false, i, i + 1⟩) := by
  simp [batchPlan, getBatchSize]

/-! ### a stacked problem whose objective is a sum over blocks is solved block by block -/

variable {α : Type*} [AddCommMonoid α] [PartialOrder α] [IsOrderedCancelAddMonoid α]

/-- **C05 (separability)**: if the objective of the stacked problem is the sum of per-row objectives
    over a product feasible set, then a point minimises the stacked problem iff every block minimises
    its own row problem. Hence a row's result cannot depend on the other rows in its batch, on padding
    rows (which form their own blocks), or on the batch size. -/
theorem stacked_min_iff {ι : Type*} [Fintype ι] [DecidableEq ι] {X : Type*}
    (f : ι → X → α) (S : ι → Set X) (x : ι → X) (hx : ∀ i, x i ∈ S i) :
    (∀ y : ι → X, (∀ i, y i ∈ S i) → ∑ i, f i (x i) ≤ ∑ i, f i (y i)) ↔
    (∀ i, ∀ z ∈ S i, f i (x i) ≤ f i z) := by
  constructor
  · intro h i z hz
    have := h (Function.update x i z) (by
      intro j
      by_cases hj : j = i
      · subst hj; simpa using hz
      · simpa [Function.update_of_ne hj] using hx j)
    have e1 : ∑ j, f j (Function.update x i z j) = f i z + ∑ j ∈ Finset.univ.erase i, f j (x j) := by
      rw [← Finset.add_sum_erase _ _ (Finset.mem_univ i)]
      congr 1
      · simp
      · apply Finset.sum_congr rfl
        intro j hj
        rw [Function.update_of_ne (Finset.ne_of_mem_erase hj)]
    have e2 : ∑ j, f j (x j) = f i (x i) + ∑ j ∈ Finset.univ.erase i, f j (x j) := by
      rw [← Finset.add_sum_erase _ _ (Finset.mem_univ i)]
    rw [e1, e2] at this
    exact le_of_add_le_add_right this
  · intro h y hy
    exact Finset.sum_le_sum (fun i _ => h i (y i) (hy i))

/-! non-vacuity: 7 samples in batches of 3 — two full solves and one padded solve of the last row -/
example : batchPlan 7 3 = [⟨0, false, 0, 3⟩, ⟨1, false, 3, 6⟩, ⟨2, true, 6, 7⟩]
    ∧ rowsWritten (batchPlan 7 3) = [0, 1, 2, 3, 4, 5, 6] ∧ batchPlan 2 5 = [⟨0, true, 0, 2⟩] := by
  decide

end C05
end Dreye
