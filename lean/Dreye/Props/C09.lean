/-
  C09 — variance minimisation keeps the fit quality and minimises capture variance.
  Feasible set of the second stage (as the code builds it):
    V = { x in box | ‖W(A'x − b')‖₂ ≤ l2_eps + norm,  L1 − l1_eps ≤ Σx ≤ L1 + l1_eps (optional) }.
-/
import Dreye.Model.Under
import Dreye.Props.Cert
import Mathlib.Algebra.Order.Field.Basic
import Mathlib.Tactic

namespace Dreye
namespace C09

variable {α : Type*} [Field α] [LinearOrder α] [IsStrictOrderedRing α]

/-- the two rows of the L1 window `Σx ≤ L1 + l1_eps`, `−Σx ≤ −(L1 − l1_eps)` -/
def l1Rows (n : ℕ) (l1 l1eps : α) : List (List α) × List α :=
  ([List.replicate n 1, List.replicate n (-1)], [l1 + l1eps, -(l1 - l1eps)])

/-- second-stage feasible set, with (`some (L1, l1_eps)`) or without (`none`) the L1 request -/
def InV (n : ℕ) (C : List (List α)) (d : List α) (eps : α) (l1 : Option (α × α)) (lb : List α) (ub : List (Option α))
    (x : List α) : Prop :=
  match l1 with
  | none => linFeasible [] [] C d eps lb ub x
  | some (L, le) => linFeasible (l1Rows n L le).1 (l1Rows n L le).2 C d eps lb ub x

/-- **C09 (fit quality is kept)**: every point of `V` has capture error at most `l2_eps + norm`
    (squared form), and respects the bounds. -/
theorem fit_quality_kept (n : ℕ) (C : List (List α)) (d : List α) (eps : α) (l1 : Option (α × α)) (lb : List α)
    (ub : List (Option α)) (x : List α) (h : InV n C d eps l1 lb ub x) :
    lsObj C d x ≤ eps * eps ∧ inBox lb ub x = true := by
  cases l1 with
  | none => exact ⟨h.2.2.1, h.1⟩
  | some p => obtain ⟨L, le⟩ := p; exact ⟨h.2.2.1, h.1⟩

/-- **C09 (the ordinary fit is feasible for the second stage)** when no total intensity is requested:
    a point whose error is at most `norm` lies in `V` for every `l2_eps ≥ 0`. -/
theorem ordinary_fit_feasible (n : ℕ) (C : List (List α)) (d : List α) (norm l2eps : α) (lb : List α)
    (ub : List (Option α)) (x0 : List α) (hbox : inBox lb ub x0 = true) (hn : 0 ≤ norm) (he : 0 ≤ l2eps)
    (herr : lsObj C d x0 ≤ norm * norm) :
    InV n C d (l2eps + norm) none lb ub x0 := by
  refine ⟨hbox, ?_, ?_, by linarith⟩
  · intro p hp; simp [matVec] at hp
  · nlinarith [mul_nonneg he he, mul_nonneg he hn]

/-- **C09 (certified minimal variance)**: with `e_k = Σ_c ε_ck ≥ 0`, multipliers accepted by the verified
    checker bound how much smaller the summed capture variance `Σ_k e_k y_k²` can be at ANY point `y` of
    `V` (with or without the L1 window): `var(x̂) ≤ var(y) + δ`, `δ = ∇·x̂ − b`. -/
theorem minvar_opt_of_cert (n : ℕ) (e : List α) (C : List (List α)) (d : List α) (eps : α) (l1 : Option (α × α))
    (lam v : List α) (sigma : α) (lb : List α) (ub : List (Option α)) (b : α) (x y : List α)
    (he : ∀ t ∈ e, 0 ≤ t) (hen : e.length = n)
    (hb : match l1 with
          | none => linLower n (smul two (vmul e x)) [] [] C d eps lam v sigma lb ub = some b
          | some (L, le) => linLower n (smul two (vmul e x)) (l1Rows n L le).1 (l1Rows n L le).2 C d eps lam v sigma lb ub = some b)
    (hy : InV n C d eps l1 lb ub y) (hxn : x.length = n) (hyn : y.length = n) :
    dot e (vmul x x) ≤ dot e (vmul y y) + (dot (smul two (vmul e x)) x - b) := by
  cases l1 with
  | none => exact Cert.diag_opt_of_cert n e [] [] C d eps lam v sigma lb ub b x y he hen hb hy hxn hyn
  | some p =>
    obtain ⟨L, le⟩ := p
    exact Cert.diag_opt_of_cert n e _ _ C d eps lam v sigma lb ub b x y he hen hb hy hxn hyn

/-- **C09 (never larger than the ordinary fit)**: corollary for `y :=` the ordinary fit. -/
theorem minvar_le_ordinary (n : ℕ) (e : List α) (C : List (List α)) (d : List α) (norm l2eps : α)
    (lam v : List α) (sigma : α) (lb : List α) (ub : List (Option α)) (b : α) (x x0 : List α)
    (he : ∀ t ∈ e, 0 ≤ t) (hen : e.length = n)
    (hb : linLower n (smul two (vmul e x)) [] [] C d (l2eps + norm) lam v sigma lb ub = some b)
    (hbox : inBox lb ub x0 = true) (hn : 0 ≤ norm) (hl : 0 ≤ l2eps) (herr : lsObj C d x0 ≤ norm * norm)
    (hxn : x.length = n) (hx0 : x0.length = n) :
    dot e (vmul x x) ≤ dot e (vmul x0 x0) + (dot (smul two (vmul e x)) x - b) :=
  minvar_opt_of_cert n e C d (l2eps + norm) none lam v sigma lb ub b x x0 he hen hb
    (ordinary_fit_feasible n C d norm l2eps lb ub x0 hbox hn hl herr) hxn hx0

end C09
end Dreye
