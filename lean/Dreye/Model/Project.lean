/-
  Model of `dreye/api/project.py`: `alpha_for_B_with_P`, `B_with_P`, `line_to_simplex`, the all-pairs
  branch of `yieldPpairs4proj2simplex` / `proj_P_to_simplex`, and the Lagrange dual used to certify
  `proj_B_to_hull` (quadprog is the engine).  Also the two gamut scalings of the estimator (C12).
-/
import Dreye.Model.Gamut
namespace Dreye
universe u
variable {α : Type u} [Zero α] [One α] [Add α] [Sub α] [Mul α] [Div α] [Neg α]
  [LE α] [LT α] [DecidableLE α] [DecidableLT α] [DecidableEq α]

/-- a facet inequality `n·z + o ≤ 0` (one row of `ConvexHull.equations`) -/
structure Facet (α : Type u) where
  normal : List α
  offset : α

/-- is `z` inside the polytope given by facets -/
def insideFacets (fs : List (Facet α)) (z : List α) : Bool :=
  fs.all (fun f => decide (dot f.normal z + f.offset ≤ 0))

/-- `alpha_for_B_with_P(b, equations)`: the smallest positive ratio `-o_f / (n_f·b)`; `none` when there
    is no positive ratio (numpy returns NaN) -/
def alphaFor (fs : List (Facet α)) (b : List α) : Option α :=
  let cands := fs.filterMap (fun f =>
    let q := dot f.normal b
    if q = 0 then none else
      let a := (-f.offset) / q
      if 0 < a then some a else none)
  match cands with
  | [] => none
  | a :: as => some (as.foldl mn a)

/-- `line_to_simplex(x1, x2, c)`: the point of the line through `x1`, `x2` whose coordinates sum to `c` -/
def lineToSimplex (x1 x2 : List α) (c : α) : List α :=
  let t := (c - x1.sum) / (vsub x2 x1).sum
  vadd x1 (smul t (vsub x2 x1))

/-- the all-pairs branch of `yieldPpairs4proj2simplex` (used when there are not more points than
    dimensions): every point with sum `≤ c` paired with every point with sum `> c` -/
def crossingPairs (P : List (List α)) (c : α) : List (List α × List α) :=
  let lo := P.filter (fun p => decide (p.sum ≤ c))
  let hi := P.filter (fun p => !decide (p.sum ≤ c))
  lo.flatMap (fun p => hi.map (fun q => (p, q)))

/-- `proj_P_to_simplex` on that branch -/
def sectionPoints (P : List (List α)) (c : α) : List (List α) :=
  (crossingPairs P c).map (fun pq => lineToSimplex pq.1 pq.2 c)

/-- Lagrange dual value of `min ½‖z-b‖² s.t. G z ≤ h` at multipliers `lam`:
    `lam·(G b − h) − ½‖Gᵀ lam‖²` (`n` = dimension) -/
def projDual (n : Nat) (G : List (List α)) (h b lam : List α) : α :=
  let g := linComb n lam G
  dot lam (vsub (matVec G b) h) - dot g g / two

/-! ### the estimator's gamut scalings (C12) -/

/-- `hull_l1_scaling`: `(B − base') · amax / bmax + base'` with `amax = min_c max_k A'_ck ub_k` and
    `bmax = max (B − base')` (over all samples and receptors) -/
def listMaxOf : List α → α
  | [] => 0
  | x :: xs => xs.foldl mx x
def listMinOf : List α → α
  | [] => 0
  | x :: xs => xs.foldl mn x

def l1Amax (A' : List (List α)) (ub : List α) : α :=
  listMinOf (A'.map (fun r => listMaxOf (vmul r ub)))

def l1Scaling (A' : List (List α)) (base' ub : List α) (B : List (List α)) : List (List α) :=
  let Bs := B.map (fun b => vsub b base')
  let bmax := listMaxOf (Bs.map listMaxOf)
  let f := l1Amax A' ub / bmax
  Bs.map (fun b => vadd (smul f b) base')

/-- the result of `hull_dist_scaling` for one sample in L1-normalised coordinates: total `L1`, neutral
    chromaticity `chat`, common contraction `alpha`:  `L1 · (chat + alpha (bhat − chat))` -/
def distScaled (l1 alpha : α) (chat bhat : List α) : List α :=
  smul l1 (vadd chat (smul alpha (vsub bhat chat)))

end Dreye
