/-
  Model of the deterministic part of `dreye/api/sampling.py:sample_in_hull`: simplex volumes,
  selection probabilities, and the combination `Σ_k probs_k · vertex_k`.  The random draws
  (`Generator.choice`, Dirichlet, QMC engines) and qhull are engine parameters.
-/
import Dreye.Model.Gamut
namespace Dreye
universe u
variable {α : Type u} [Zero α] [One α] [Add α] [Sub α] [Mul α] [Div α]

/-- one sample: barycentric weights `probs` applied to the vertices of the chosen simplex -/
def combine (d : Nat) (probs : List α) (simplex : List (List α)) : List α := convComb d probs simplex

/-- selection probabilities `vols / Σ vols` -/
def pvals (vols : List α) : List α := vols.map (· / vols.sum)

/-- QMC branch: engine points are L1-normalised to become barycentric weights -/
def normalizeProbs (p : List α) : List α := p.map (· / p.sum)

/-- factorial in the scalar type -/
def factLit : Nat → α
  | 0 => 1
  | n + 1 => ofNatLit (n + 1) * factLit n

end Dreye

namespace Dreye
/-! ### QMC branch bookkeeping (no arithmetic on scalars) -/

/-- the row blocks written by the loop
    `total = 0; for count in counts: probs[total : total + count] = …; total += count`
    as `(start, stop)` pairs, starting from `total` -/
def qmcBlocks : Nat → List Nat → List (Nat × Nat)
  | _, [] => []
  | total, c :: cs => (total, total + c) :: qmcBlocks (total + c) cs

/-- `np.repeat(np.arange(i, i + len(counts)), counts)`: the simplex index used for each row -/
def repeatIdx : Nat → List Nat → List Nat
  | _, [] => []
  | i, c :: cs => List.replicate c i ++ repeatIdx (i + 1) cs

end Dreye
