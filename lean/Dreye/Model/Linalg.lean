/-
  Small exact linear algebra on lists (Mathlib-free): Gauss–Jordan solve / inverse with the first
  non-zero pivot (exact at `Rat`; at `Float` the first non-zero pivot is good enough for the tiny,
  well-conditioned matrices it is used on). Models `np.linalg.solve` / `np.linalg.inv`.
-/
import Dreye.Model.Basic
namespace Dreye
universe u
variable {α : Type u} [Zero α] [One α] [Add α] [Sub α] [Mul α] [Div α] [DecidableEq α]

/-- subtract `c * pivotRow` from `row` -/
def rowSub (c : α) (pivotRow row : List α) : List α := List.zipWith (fun r p => r - c * p) row pivotRow

/-- find the first row (from index `from`) whose entry in column `col` is non-zero -/
def findPivot (col : Nat) : List (List α) → Option (Nat × List α)
  | [] => none
  | r :: rs => if r.getD col 0 ≠ 0 then some (0, r) else
      match findPivot col rs with
      | some (i, p) => some (i + 1, p)
      | none => none

/-- Gauss–Jordan elimination on an augmented matrix with `n` pivot columns; returns the reduced rows
    (row `i` has pivot 1 in column `i`) or `none` when singular. `done` rows are already reduced. -/
def gaussJordan (n : Nat) : Nat → List (List α) → List (List α) → Option (List (List α))
  | 0, done, _ => some done
  | fuel + 1, done, rest =>
    let col := done.length
    if col ≥ n then some done else
    match findPivot col rest with
    | none => none
    | some (i, p) =>
      let pv := p.getD col 0
      let pn := p.map (· / pv)
      let rest' := (rest.eraseIdx i).map (fun r => rowSub (r.getD col 0) pn r)
      let done' := done.map (fun r => rowSub (r.getD col 0) pn r)
      gaussJordan n fuel (done' ++ [pn]) rest'

/-- solve `A x = b` for square `A` (list of rows) -/
def solve (A : List (List α)) (b : List α) : Option (List α) :=
  let n := A.length
  match gaussJordan n n [] (List.zipWith (fun r v => r ++ [v]) A b) with
  | some rows => some (rows.map (fun r => r.getD n 0))
  | none => none

/-- identity matrix -/
def eye (n : Nat) : List (List α) :=
  (List.range n).map (fun i => (List.range n).map (fun j => if i = j then 1 else 0))

/-- inverse of a square matrix -/
def inverse (A : List (List α)) : Option (List (List α)) :=
  let n := A.length
  match gaussJordan n n [] (List.zipWith (fun r e => r ++ e) A (eye n)) with
  | some rows => some (rows.map (fun r => r.drop n))
  | none => none

/-- vector–matrix product `x @ A` -/
def vecMat (n : Nat) (x : List α) (A : List (List α)) : List α := linComb n x A

end Dreye
