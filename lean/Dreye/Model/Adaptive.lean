/-
  Model of the constraint system of `lsq_linear_adaptive` (dreye/api/optimize/lsq_linear.py).
  Unknown vector `z = (X row-major : size·n entries, s₀, s₁)`.
-/
import Dreye.Model.Fit
namespace Dreye
universe u
variable {α : Type u} [Zero α] [One α] [Add α] [Sub α] [Mul α] [Div α] [Neg α]

/-- a vector of length `size*n + 2` with `blk` in block `i`, and the two scale coefficients at the end -/
def zRow (size n i : Nat) (blk : List α) (c0 c1 : α) : List α :=
  ((List.range size).flatMap (fun j => if j = i then blk else List.replicate n 0)) ++ [c0, c1]

/-- per-sample data derived from the targets: total `Bsum_i`, neutral point `ν/Σν · Bsum_i`, radial part -/
def bsum (b : List α) : α := b.sum
def neutralPoint (nu b : List α) : List α := smul (bsum b / nu.sum) nu
def brad (nu b : List α) : List α := vsub b (neutralPoint nu b)

/-- column sums of `A'` (coefficients of `Σ_c pred_ic` in the intensities of sample `i`) -/
def colSumA (n : Nat) (A' : List (List α)) : List α := linComb n (List.replicate A'.length 1) A'

/-- the rows `G z ≤ h` of the adaptive fit for targets `B` (not baseline-subtracted), neutral direction `nu`,
    tolerances `d1` (total) and `dr` (radial) -/
def adaptiveRows (n : Nat) (A' : List (List α)) (base' nu : List α) (B : List (List α)) (d1 dr : α) :
    List (List α) × List α :=
  let size := B.length
  let sb := base'.sum
  let rowsI := (List.range size).zip B |>.flatMap (fun (ib : Nat × List α) =>
    let i := ib.1; let b := ib.2
    -- | Σ_c pred_ic − s₀ Bsum_i | ≤ d1
    [ (zRow size n i (colSumA n A') (-(bsum b)) 0, d1 - sb),
      (zRow size n i (smul (-1) (colSumA n A')) (bsum b) 0, d1 + sb) ])
  let rowsR := (List.range size).zip B |>.flatMap (fun (ib : Nat × List α) =>
    let i := ib.1; let b := ib.2
    let np := neutralPoint nu b; let br := brad nu b
    (A'.zip (base'.zip (np.zip br))).flatMap (fun (q : List α × α × α × α) =>
      let r := q.1; let b0 := q.2.1; let nic := q.2.2.1; let bric := q.2.2.2
      -- | s₁ Brad_ic − (pred_ic − s₀ ν_ic) | ≤ dr
      [ (zRow size n i (smul (-1) r) nic bric, dr + b0),
        (zRow size n i r (-nic) (-bric), dr - b0) ]))
  let rows := rowsI ++ rowsR
  (rows.map (·.1), rows.map (·.2))

/-- 'unity' objective `Σ (w_j (s_j − 1))²` as `‖M z − r‖²` -/
def unityQuad (size n : Nat) (w0 w1 : α) : List (List α) × List α :=
  ([zRow size n size [] w0 0, zRow size n size [] 0 w1], [w0, w1])

/-- 'max' objective: minimise `−(w₀ s₀ + w₁ s₁)` -/
def maxCost (size n : Nat) (w0 w1 : α) : List α := zRow size n size [] (-w0) (-w1)

end Dreye
