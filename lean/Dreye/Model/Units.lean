/-
  Model of `dreye/api/units/convert.py:irr2flux, flux2irr` (numbers only; pint is the engine).
  Exact SI (2019) constants.
-/
import Dreye.Model.Basic
namespace Dreye
universe u
variable {α : Type u} [Zero α] [One α] [Add α] [Sub α] [Mul α] [Div α]

/-- Planck constant 6.62607015e-34 J s -/
def hPlanck : α := ofNatLit 662607015 / pow10 42
/-- speed of light 299792458 m/s -/
def cLight : α := ofNatLit 299792458
/-- Avogadro constant 6.02214076e23 1/mol -/
def nAvogadro : α := ofNatLit 602214076 * pow10 15
/-- `h c N_A` in J m / mol -/
def hcN : α := hPlanck * cLight * nAvogadro

/-- SI prefix factor: '' | milli | micro | nano ↦ 1, 1e-3, 1e-6, 1e-9 (encoded by the exponent 0,3,6,9) -/
def prefixFactor (e : Nat) : α := 1 / pow10 e

/-- `irr2flux`: irradiance (in `pIn`·W/m²/nm) at wavelength `lam` nm → photon flux in `pOut`·mol/m²/s/nm:
    `I λ / (h c N_A)` with λ converted from nm to m (factor 1e-9). -/
def irr2flux (pIn pOut : Nat) (I lam : α) : α :=
  (I * prefixFactor pIn) * lam / hcN / pow10 9 / prefixFactor pOut

/-- `flux2irr`: photon flux (in `pIn`·mol/m²/s/nm) → irradiance in `pOut`·W/m²/nm -/
def flux2irr (pIn pOut : Nat) (E lam : α) : α :=
  (E * prefixFactor pIn) * hcN / lam * pow10 9 / prefixFactor pOut

/-- element-wise along the wavelength axis -/
def irr2fluxVec (pIn pOut : Nat) (I lam : List α) : List α := List.zipWith (irr2flux pIn pOut) I lam
def flux2irrVec (pIn pOut : Nat) (E lam : List α) : List α := List.zipWith (flux2irr pIn pOut) E lam

end Dreye
