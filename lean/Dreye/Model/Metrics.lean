/-
  Model of `dreye/api/metrics.py`: mean width (for a given sample of directions), the volume /
  gamut pipeline (hull volume is an engine parameter) and the Jensen–Shannon divergence.
-/
import Dreye.Model.Bary
namespace Dreye
universe u
variable {α : Type u} [Zero α] [One α] [Add α] [Sub α] [Mul α] [Div α] [Neg α]
  [LE α] [DecidableLE α]

/-- maximum / minimum of a list by `≤` (0 for the empty list) -/
def maxOf : List α → α
  | [] => 0
  | x :: xs => xs.foldl mx x

/-- width of the cloud `X` along direction `u`: `max_i u·x_i + max_i (−u·x_i)` -/
def widthAlong (u : List α) (X : List (List α)) : α :=
  maxOf (X.map (fun x => dot u x)) + maxOf (X.map (fun x => -(dot u x)))

/-- `compute_mean_width` for a given list of (unit) directions `U`: the average width along them.
    (The code first subtracts the column means; widths do not change under translation.) -/
def meanWidth (U : List (List α)) (X : List (List α)) : α :=
  (U.map (fun u => widthAlong u X)).sum / ofNatLit U.length

/-- the 1-D branch: `max − min` -/
def range1 (xs : List α) : α := maxOf xs + maxOf (xs.map (fun v => -v))

end Dreye

namespace Dreye
universe u
variable {α : Type u} [Zero α] [One α] [Add α] [Sub α] [Mul α] [Div α] [Neg α] [Transc α] [DecidableEq α]

/-- one term `p log(p/m)` of the Kullback–Leibler sum, with `0 log 0 = 0` -/
def klTerm (p m : α) : α := if p = 0 then 0 else p * Transc.log (p / m)

/-- `compute_jensen_shannon_divergence(P, Q, base=2)`: inputs are L1-normalised, `M = (P+Q)/2`,
    result `(KL(P‖M) + KL(Q‖M)) / 2` in bits -/
def jsd (P Q : List α) : α :=
  let sp := P.sum; let sq := Q.sum
  let p := P.map (· / sp); let q := Q.map (· / sq)
  let m := List.zipWith (fun a b => (a + b) / two) p q
  ((List.zipWith klTerm p m).sum + (List.zipWith klTerm q m).sum) / two / Transc.log two

end Dreye
