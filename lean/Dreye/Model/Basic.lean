/-
  Dreye.Model.Basic — scalar-polymorphic vector helpers (Mathlib-free).

  Every model function is written once against the core notation classes only, so that it
  * runs at `α := Rat` (exact) inside the line-protocol driver, and
  * is reasoned about at any ordered field (ℚ, ℝ) in `Dreye/Props`.
-/
namespace Dreye

universe u
variable {α : Type u}

section
variable [Zero α] [One α] [Add α] [Sub α] [Mul α] [Div α] [Neg α]

/-- the literal `2`, written with `One`/`Add` only -/
def two : α := 1 + 1

/-- element-wise product (numpy `a * b` on equal shapes) -/
def vmul (a b : List α) : List α := List.zipWith (· * ·) a b
/-- element-wise sum -/
def vadd (a b : List α) : List α := List.zipWith (· + ·) a b
/-- element-wise difference -/
def vsub (a b : List α) : List α := List.zipWith (· - ·) a b
/-- scalar multiple -/
def smul (c : α) (a : List α) : List α := a.map (c * ·)
/-- dot product -/
def dot (a b : List α) : α := (vmul a b).sum
/-- matrix (list of rows) times vector -/
def matVec (A : List (List α)) (x : List α) : List α := A.map (fun r => dot r x)
/-- transpose of a matrix with `n` columns -/
def transpose (n : Nat) (A : List (List α)) : List (List α) :=
  (List.range n).map (fun j => A.map (fun r => r.getD j 0))
/-- linear combination `Σ_k x_k • rows_k` of the rows of a matrix, as a vector of length `n` -/
def linComb (n : Nat) (x : List α) (rows : List (List α)) : List α :=
  (List.zipWith (fun c r => smul c r) x rows).foldr vadd (List.replicate n 0)

/-! literals without `OfNat`/`NatCast` instances -/
def ten : α := two * (two * two + 1)
def pow10 : Nat → α
  | 0 => 1
  | n + 1 => ten * pow10 n
/-- natural number literal in α by binary digits (core-only); structural recursion on fuel so that the
    kernel can evaluate it -/
def ofNatAux : Nat → Nat → α
  | 0, _ => 0
  | f + 1, n => if n = 0 then 0 else if n % 2 = 0 then two * ofNatAux f (n / 2) else two * ofNatAux f (n / 2) + 1
def ofNatLit (n : Nat) : α := ofNatAux (n.log2 + 1) n

end

section order
variable [LE α] [DecidableLE α]
/-- maximum written with `≤` only -/
def mx (a b : α) : α := if a ≤ b then b else a
/-- minimum written with `≤` only -/
def mn (a b : α) : α := if a ≤ b then a else b
/-- all entries of `a` are `≤` the corresponding entries of `b` -/
def vle (a b : List α) : Bool := (List.zipWith (fun x y => decide (x ≤ y)) a b).all id
end order

end Dreye
