/-
  Model of the gamut construction of `dreye/api/convex.py`:
  `all_combinations_of_bounds`, `get_P_from_A`, the offset subtraction of `in_hull_from_A`,
  and executable certificate checkers for "b ∈ conv P" / "b ∉ conv P".
-/
import Dreye.Model.Fit
namespace Dreye
universe u
variable {α : Type u} [Zero α] [One α] [Add α] [Sub α] [Mul α] [Div α]

/-- `all_combinations_of_bounds(lb, ub)`: the `2^n` corners of the box in `itertools.product([0,1], repeat=n)`
    order (first coordinate varies slowest) -/
def corners : List α → List α → List (List α)
  | l :: ls, u :: us => (corners ls us).map (l :: ·) ++ (corners ls us).map (u :: ·)
  | _, _ => [[]]

/-- product weights of the corners for the box point `lb + t ⊙ (ub − lb)`, in the same order -/
def cweights : List α → List α
  | t :: ts => (cweights ts).map ((1 - t) * ·) ++ (cweights ts).map (t * ·)
  | [] => [1]

/-- the point `lb + t ⊙ (ub − lb)` -/
def boxPoint (lb ub t : List α) : List α :=
  List.zipWith (fun (l : α) (p : α × α) => l + p.2 * (p.1 - l)) lb (ub.zip t)

/-- `get_P_from_A` after the K/baseline transform: images of the corners under `x ↦ A' x + base'`;
    an infinite upper bound is replaced by `lb + 1` (the `bounded=False` branch) -/
def getP (A' : List (List α)) (base' lb : List α) (ub : List (Option α)) : List (List α) :=
  let ub' := List.zipWith (fun (l : α) (u : Option α) => match u with | none => l + 1 | some u => u) lb ub
  (corners lb ub').map (predict A' base')

/-- `Σ_k w_k • P_k` (points of dimension `d`) -/
def convComb (d : Nat) (w : List α) (P : List (List α)) : List α := linComb d w P

end Dreye

namespace Dreye
universe u
variable {α : Type u} [Zero α] [One α] [Add α] [Sub α] [Mul α] [Div α] [LE α] [LT α]
  [DecidableLE α] [DecidableLT α] [DecidableEq α]

/-- column-wise minimum of a non-empty point list (`np.min(P, axis=0)`) -/
def colMin (d : Nat) (P : List (List α)) : List α :=
  (List.range d).map (fun j => match P.map (fun r => r.getD j 0) with
    | [] => 0
    | v :: vs => vs.foldl mn v)

/-- valid convex weights: non-negative, sum one, one per point -/
def weightsOK (w : List α) (P : List (List α)) : Bool :=
  w.length = P.length && w.all (fun v => decide (0 ≤ v)) && decide (w.sum = 1)

/-- certificate "b ∈ conv P": exact convex weights -/
def inHullCert (d : Nat) (P : List (List α)) (w b : List α) : Bool :=
  weightsOK w P && P.all (·.length = d) && decide (convComb d w P = b)

/-- certificate "b ∉ conv P": a separating hyperplane `h·p ≤ c` for all points, `h·b > c` -/
def sepCert (P : List (List α)) (h : List α) (c : α) (b : List α) : Bool :=
  P.all (fun p => decide (dot h p ≤ c)) && decide (c < dot h b) && P.all (·.length = b.length) && h.length = b.length

end Dreye
