/-
  The few transcendental operations dreye uses, as a class so that the same model text runs at `Float`
  (driver) and is reasoned about at `ℝ` (Props, via `Real.sqrt`, `Real.arccos`, …).
-/
import Dreye.Model.Basic
namespace Dreye
universe u

class Transc (α : Type u) where
  sqrt : α → α
  arccos : α → α
  cos : α → α
  sin : α → α
  pi : α
  log : α → α

instance : Transc Float where
  sqrt := Float.sqrt
  arccos := Float.acos
  cos := Float.cos
  sin := Float.sin
  pi := 3.141592653589793
  log := Float.log

end Dreye
