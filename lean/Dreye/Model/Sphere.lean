/-
  Model of `dreye/api/spherical.py` for one point (the numpy code is row-wise).
-/
import Dreye.Model.Transc
namespace Dreye
universe u
variable {α : Type u} [Zero α] [One α] [Add α] [Sub α] [Mul α] [Div α] [Transc α]
  [LE α] [DecidableLE α] [DecidableEq α]

/-- Euclidean norm -/
def l2 (x : List α) : α := Transc.sqrt ((x.map (fun v => v * v)).sum)

def allZero (x : List α) : Bool := x.all (· = 0)

/-- the angles of `cartesian_to_spherical`, walking down the suffixes `x[i:]` -/
def sphAngles : List α → List α
  | [] => []
  | [_] => []
  | [a, b] =>
      let la := Transc.arccos (a / l2 [a, b])
      [if allZero [a, b] then 0 else if 0 ≤ b then la else two * Transc.pi - la]
  | a :: b :: c :: rest =>
      (if allZero (a :: b :: c :: rest) then 0 else Transc.arccos (a / l2 (a :: b :: c :: rest)))
        :: sphAngles (b :: c :: rest)

/-- `cartesian_to_spherical` for one point of dimension ≥ 2 (dimension 1 is returned unchanged) -/
def cartToSph (x : List α) : List α :=
  match x with
  | [_] => x
  | _ => l2 x :: sphAngles x

/-- coordinates of `spherical_to_cartesian` before the radius is applied:
    `cos a₀, cos a₁ sin a₀, …, cos a_{d-2} Π sin, Π_{all} sin` with `p` the running product of sines -/
def sphCoords (p : α) : List α → List α
  | [] => [p]
  | a :: as => (Transc.cos a * p) :: sphCoords (p * Transc.sin a) as

/-- `spherical_to_cartesian` for one point -/
def sphToCart (y : List α) : List α :=
  match y with
  | [] => []
  | [r] => [r]
  | r :: angles => (sphCoords 1 angles).map (· * r)

end Dreye
