/-
  Model of the parameter preparation of the fitting routines
  (`optimize/utils.py:prepare_parameters_for_linear`, `lsq_linear.py:_prepare_parameters`,
  `utils.py:apply_linear_transform`, `predict_values`) and of the problem handed to cvxpy by the
  default (gaussian) fit.
-/
import Dreye.Model.System
import Dreye.Cert.Box
namespace Dreye
universe u
variable {α : Type u} [Zero α] [One α] [Add α] [Sub α] [Mul α] [Div α]

/-- matrix product `M A` for lists of rows (`A` has `n` columns) -/
def matMul (n : Nat) (M A : List (List α)) : List (List α) := M.map (fun r => linComb n r A)

/-- `apply_linear_transform(A, K, baseline)`: `K = none` ↦ unchanged; 1-D `K` scales the rows;
    2-D `K` multiplies from the left. `nf` receptors, `n` sources. -/
def transformA (n : Nat) (K : Option (Adapt α)) (A : List (List α)) : List (List α) :=
  match K with
  | none => A
  | some (.vec k) => List.zipWith (fun c r => smul c r) (bcast A.length k) A
  | some (.mat M) => matMul n M A

def transformBase (nf : Nat) (K : Option (Adapt α)) (baseline : List α) : List α :=
  let b := bcast nf baseline
  match K with
  | none => b
  | some (.vec k) => vmul (bcast nf k) b
  | some (.mat M) => matVec M b

/-- `predict_values(x, A', base') = x A'ᵀ + base'` for one intensity vector -/
def predict (A' : List (List α)) (base' x : List α) : List α := vadd (matVec A' x) base'

/-- the least-squares data of the gaussian problem for one target row `b` with weights `w`:
    `C = diag(w) A'`, `d = w ⊙ (b − base')` (what `cp.sum_squares(cp.multiply(A, w) @ x − b*w)` minimises) -/
def gaussC (A' : List (List α)) (w : List α) : List (List α) := List.zipWith (fun c r => smul c r) w A'
def gaussD (base' w b : List α) : List α := vmul w (vsub b base')

/-- the documented objective: weighted squared error of the model's relative capture `K(Ax+baseline)` -/
def docObj (K : Adapt α) (A : List (List α)) (baseline w b x : List α) : α :=
  let p := relCapture K baseline (systemCapture A x)
  ((vmul w (vsub p b)).map (fun v => v * v)).sum

end Dreye
