/-
  Model of the batching bookkeeping: `optimize/utils.py:get_batch_size`,
  `optimize/parallel.py:batched_iteration` and the scatter in `lsq_linear.py:_solve_problem`
  (identical in the loop at the end of `lsq_linear_minimize`).
-/
namespace Dreye

/-- the `batch_size` argument as the user can give it -/
inductive BatchArg where
  | none            -- `None`
  | full            -- `'full'` / `'total'`
  | size (k : Nat)  -- an integer
  deriving Repr, DecidableEq

/-- `get_batch_size(batch_size, total_size)` -/
def getBatchSize (b : BatchArg) (n : Nat) : Nat :=
  match b with
  | .none => 1
  | .full => n
  | .size k => k

/-- the fitting procedures that accept a batch size -/
inductive Proc where
  | gaussian | poisson | excitation | minvar
  deriving Repr, DecidableEq

/-- batch size actually used by a procedure: the excitation model always solves row by row (its
    max-objective is not separable across samples) -/
def effectiveBatch (p : Proc) (b : BatchArg) (n : Nat) : Nat :=
  match p with
  | .excitation => 1
  | _ => getBatchSize b n

/-- one solve of the batched loop and where its solution is written: rows `start … stop-1` of `X`
    receive blocks `0 … stop-start-1` of the stacked solution -/
structure Write where
  idx : Nat
  padded : Bool
  start : Nat
  stop : Nat
  deriving Repr, DecidableEq

/-- the sequence of solves for `n` samples and batch size `bs ≥ 1`: full batches, then one zero-padded
    batch holding the last `n % bs` samples -/
def batchPlan (n bs : Nat) : List Write :=
  if bs = 1 then (List.range n).map (fun i => ⟨i, false, i, i + 1⟩)
  else
    let full := (List.range (n / bs)).map (fun i => ⟨i, false, i * bs, (i + 1) * bs⟩)
    if n % bs = 0 then full else full ++ [⟨n / bs, true, n / bs * bs, n⟩]

/-- rows written by a plan, in order -/
def rowsWritten (ws : List Write) : List Nat :=
  ws.flatMap (fun w => List.range' w.start (w.stop - w.start))

/-- which solve and which block of its stacked solution supplies row `i` -/
def sourceOf (bs i : Nat) : Nat × Nat := (i / bs, i % bs)

end Dreye
