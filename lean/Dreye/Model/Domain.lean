/-
  Model of `dreye/api/domain.py` (equalize_domains) and `dreye/api/utils.py:arange_with_interval`.
  scipy's `interp1d` (linear, `assume_sorted=False`, `bounds_error=False`) is modelled exactly.
-/
import Dreye.Model.Capture
namespace Dreye
universe u
variable {α : Type u} [Zero α] [One α] [Add α] [Sub α] [Mul α] [Div α] [LE α] [LT α]
  [DecidableLE α] [DecidableLT α]

def listMin : List α → α
  | [] => 0
  | x :: xs => xs.foldl mn x
def listMax : List α → α
  | [] => 0
  | x :: xs => xs.foldl mx x

/-- stable insertion into a list sorted by `key` (structural, so the kernel can evaluate it) -/
def insertBy {β : Type u} (key : β → α) (a : β) : List β → List β
  | [] => [a]
  | b :: bs => if key b ≤ key a then b :: insertBy key a bs else a :: b :: bs
/-- stable insertion sort by `key` -/
def sortBy {β : Type u} (key : β → α) : List β → List β
  | [] => []
  | a :: as => insertBy key a (sortBy key as)

/-- `np.sort` -/
def sortAsc (d : List α) : List α := sortBy id d

/-- `np.diff` -/
def diffs : List α → List α
  | x0 :: x1 :: xs => (x1 - x0) :: diffs (x1 :: xs)
  | _ => []

/-- `np.mean(np.diff(np.sort(domain)))` -/
def meanStep (d : List α) : α := (diffs (sortAsc d)).sum / ofNatLit (d.length - 1)

/-- `_get_domain_bounds_and_diff`: (max of minima, min of maxima, max of mean steps) -/
def boundsAndDiff (domains : List (List α)) : α × α × α :=
  (listMax (domains.map listMin), listMin (domains.map listMax), listMax (domains.map meanStep))

/-- the rejection test of `_interpolate_domains` -/
def rejected (lo hi step : α) : Bool := decide (hi ≤ lo) || decide (hi - lo < step)

/-- `np.linspace(lo, hi, k+1)` for `k ≥ 1` intervals: `lo + i (hi-lo)/k`, with the end point set to `hi` exactly -/
def linspace (lo hi : α) (k : Nat) : List α :=
  (List.range (k + 1)).map (fun i => if i = k then hi else lo + ofNatLit i * ((hi - lo) / ofNatLit k))

/-- linear interpolation on a sorted knot list (`interp1d` semantics: outside the knots ⇒ `fill`) -/
def interpSorted (fill t : α) : List α → List α → α
  | x0 :: x1 :: xs, y0 :: y1 :: ys =>
      if t < x0 then fill
      else if t ≤ x1 then y0 + (y1 - y0) / (x1 - x0) * (t - x0)
      else interpSorted fill t (x1 :: xs) (y1 :: ys)
  | _, _ => fill

/-- sort knots and values together by knot (what `interp1d(assume_sorted=False)` does) -/
def sortPairs (xs ys : List α) : List α × List α :=
  let ps := sortBy (·.1) (xs.zip ys)
  (ps.map (·.1), ps.map (·.2))

/-- `interp1d(domain, arr)(new_domain)` for one 1-D fiber -/
def interp1 (fill : α) (xs ys newDom : List α) : List α :=
  let (sx, sy) := sortPairs xs ys
  newDom.map (fun t => interpSorted fill t sx sy)

end Dreye

namespace Dreye
/-- `int(np.around(x))` for non-negative exact rationals: round half to even -/
def roundHalfEven (x : Rat) : Int :=
  let f := x.floor
  let r := x - f
  if r < 1/2 then f else if 1/2 < r then f + 1 else (if f % 2 = 0 then f else f + 1)

/-- result of `equalize_domains` on fibers (domain axis last): either the inputs unchanged, a new
    domain with interpolated arrays, or the ValueError -/
inductive EqResult where
  | same
  | rejected
  | interp (dom : List Rat) (arrs : List (List (List Rat)))
  deriving DecidableEq, Repr

/-- `equalize_domains(domains, arrs)` with every array given as a list of 1-D fibers along its domain axis -/
def equalize (fill : Rat) (domains : List (List Rat)) (arrs : List (List (List Rat))) : EqResult :=
  match domains with
  | [] => .same
  | d0 :: ds =>
    if ds.all (· == d0) then .same else
    let (lo, hi, step) := boundsAndDiff domains
    if rejected lo hi step then .rejected else
    let k := (roundHalfEven ((hi - lo) / step)).toNat
    let nd := linspace lo hi k
    .interp nd (List.zipWith (fun d fibers => fibers.map (fun y => interp1 fill d y nd)) domains arrs)

end Dreye
