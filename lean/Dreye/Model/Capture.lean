/-
  Model of `dreye/api/capture.py:calculate_capture` and `dreye/api/utils.py:integral`.
-/
import Dreye.Model.Basic
namespace Dreye
universe u
variable {α : Type u} [Zero α] [One α] [Add α] [Sub α] [Mul α] [Div α]

/-- `np.trapezoid(y, x=x)`: `Σ_k (x_{k+1} - x_k) * (y_k + y_{k+1}) / 2` -/
def trapz : List α → List α → α
  | x0 :: x1 :: xs, y0 :: y1 :: ys => (x1 - x0) * (y0 + y1) / two + trapz (x1 :: xs) (y1 :: ys)
  | _, _ => 0

/-- `np.trapezoid(y, dx=dx)`: `Σ_k dx * (y_k + y_{k+1}) / 2` -/
def trapzDx (dx : α) : List α → α
  | y0 :: y1 :: ys => dx * (y0 + y1) / two + trapzDx dx (y1 :: ys)
  | _ => 0

/-- the `trapz=False` branch: `np.sum(f * s * dx)` -/
def rectDx (dx : α) (y : List α) : α := (y.map (· * dx)).sum

/-- how the domain was given to `calculate_capture` -/
inductive Dom (α : Type u) where
  | step (dx : α) (trapz : Bool)   -- a number: uniform step; `trapz` flag honoured
  | grid (xs : List α)             -- an array: always trapezoid
  deriving Repr

/-- integral of one sampled function along the domain axis -/
def integrate (d : Dom α) (y : List α) : α :=
  match d with
  | .step dx true  => trapzDx dx y
  | .step dx false => rectDx dx y
  | .grid xs       => trapz xs y

/-- `calculate_capture(filters, signals, domain, trapz)` for 2-D `filters` (n_filters × n_domain)
    and 2-D `signals` (n_signals × n_domain): result is n_signals × n_filters. -/
def capture (d : Dom α) (filters signals : List (List α)) : List (List α) :=
  signals.map (fun s => filters.map (fun f => integrate d (vmul f s)))

/-- the 1-D branch (`filters.ndim == 1` or `signals.ndim == 1`): plain numpy broadcasting of
    `filters * signals` followed by integration of every row -/
def capture1 (d : Dom α) (f : List α) (signals : List (List α)) : List α :=
  signals.map (fun s => integrate d (vmul f s))

end Dreye
