/-
  Model of the registration state machine of `ReceptorEstimator` (dreye/api/estimator.py):
  what each `register_*` call stores, and the closed-form read-only queries.
  Engine-backed queries (gamut test, ranges, fits, sampling) are functions of the same registered
  values; they are compared against a fresh twin estimator in the harness.
-/
import Dreye.Model.System
namespace Dreye
universe u

/-- fitting weights: one per receptor, or one row per sample -/
inductive Weights (α : Type u) where
  | vec (w : List α)
  | mat (W : List (List α))

/-- the estimator's attributes that registration calls write (`filters` and their domain are fixed at construction) -/
structure Est (α : Type u) where
  filters : List (List α)
  dom : Dom α
  K : Adapt α
  baseline : List α
  sources : Option (List (List α))
  A : Option (List (List α))
  lb : List α
  ub : List (Option α)
  targets : Option (List (List α))
  w : List α                    -- the constructor's per-receptor weights (fixed)
  W : Weights α                 -- the weights a fit uses: `register_targets(B, W)` stores `W`, or `w` when `W` is not given
  workB : Option (List (List α))   -- `self.B`: the working copy a later `fit()` / `in_hull()` without arguments uses;
                                   -- `register_targets` sets it to the targets, `fit()` overwrites it with the fitted capture

/-- registration calls (arguments already as arrays; `none` = argument not given) -/
inductive RegOp (α : Type u) where
  | system (sources : List (List α)) (lb : Option (List α)) (ub : Option (List (Option α)))
  | bounds (lb : Option (List α)) (ub : Option (List (Option α)))
  | adaptation (K : Adapt α)
  | baseline (b : List α)
  | backgroundAdaptation (background : List α) (addBaseline add : Bool)
  | systemAdaptation (x : List α) (addBaseline add : Bool)
  | targets (B : List (List α)) (W : Option (Weights α))
  /-- `fit()` of the registered targets. The solver is an external engine: its fitted capture `pred` is a parameter of the
      model (supplied by the implementation in the correspondence); what the model fixes is WHERE it is stored. -/
  | fitInternal (pred : List (List α))

/-- closed-form read-only queries -/
inductive Query (α : Type u) where
  | capture (signals : List (List α))
  | relativeCapture (signals : List (List α))
  | systemCapture (x : List α)
  | systemRelativeCapture (x : List α)
  | inSystem (x : List α)
  | getA
  | getK
  | getBounds
  | getTargets
  | getWeights
  | getWork

inductive Answer (α : Type u) where
  | mat (m : List (List α))
  | vec (v : List α)
  | bools (b : List Bool)
  | adapt (k : Adapt α)
  | bounds (lb : List α) (ub : List (Option α))
  | weights (W : Weights α)
  | notRegistered

variable {α : Type u} [Zero α] [One α] [Add α] [Sub α] [Mul α] [Div α] [LE α] [DecidableLE α]

/-- `ReceptorEstimator(filters, domain, K, baseline)` without sources -/
def Est.init (filters : List (List α)) (dom : Dom α) (K : Adapt α) (baseline : List α)
    (w : List α := filters.map (fun _ => 1)) : Est α :=
  { filters := filters, dom := dom, K := K, baseline := baseline, sources := none, A := none,
    lb := [], ub := [], targets := none, w := w, W := .vec w, workB := none }

/-- `capture(signals)` on the filters' own domain: n_signals × n_filters -/
def Est.capture (s : Est α) (signals : List (List α)) : List (List α) := Dreye.capture s.dom s.filters signals

/-- new K after an adaptation call; `add=True` is only modelled for a 1-D current K -/
def newK (old : Adapt α) (knew : List α) (add : Bool) : Adapt α :=
  if add then
    match old with
    | .vec k => .vec (adaptAdd k knew)
    | .mat M => .mat M
  else .vec knew

/-- one registration call; `none` when the call asserts (no system registered) -/
def Est.register (s : Est α) : RegOp α → Option (Est α)
  | .system src lb ub =>
      let n := src.length
      some { s with sources := some src, A := some (systemA s.dom s.filters src),
                    lb := (lb.getD (List.replicate n 0)), ub := (ub.getD (List.replicate n none)) }
  | .bounds lb ub =>
      match s.A with
      | none => none
      | some _ => some { s with lb := lb.getD s.lb, ub := ub.getD s.ub }
  | .adaptation K => some { s with K := K }
  | .baseline b => some { s with baseline := b }
  | .backgroundAdaptation bg ab add =>
      let qb := capture1 s.dom bg s.filters
      some { s with K := newK s.K (adaptTo ab s.baseline qb) add }
  | .systemAdaptation x ab add =>
      match s.A with
      | none => none
      | some A => some { s with K := newK s.K (adaptTo ab s.baseline (systemCapture A x)) add }
  | .targets B W =>
      match s.A with
      | none => none
      | some _ => some { s with targets := some B, W := W.getD (.vec s.w), workB := some B }
  | .fitInternal pred =>
      match s.A, s.workB with
      | some _, some _ => some { s with workB := some pred }
      | _, _ => none

/-- a read-only query: the state is not an output — queries cannot change it -/
def Est.answer (s : Est α) : Query α → Answer α
  | .capture sig => .mat (s.capture sig)
  | .relativeCapture sig => .mat ((s.capture sig).map (relCapture s.K s.baseline))
  | .systemCapture x => match s.A with | none => .notRegistered | some A => .vec (systemCapture A x)
  | .systemRelativeCapture x =>
      match s.A with | none => .notRegistered | some A => .vec (relCapture s.K s.baseline (systemCapture A x))
  | .inSystem x =>
      match s.A with
      | none => .notRegistered
      | some _ => .bools (List.zipWith (fun (v : α) (b : α × Option α) =>
          decide (b.1 ≤ v) && (match b.2 with | none => true | some u => decide (v ≤ u))) x (s.lb.zip s.ub))
  | .getA => match s.A with | none => .notRegistered | some A => .mat A
  | .getK => .adapt s.K
  | .getBounds => .bounds s.lb s.ub
  | .getTargets => match s.targets with | none => .notRegistered | some B => .mat B
  | .getWeights => .weights s.W
  | .getWork => match s.workB with | none => .notRegistered | some B => .mat B

/-- a whole history of registration calls (stops at the first asserting call) -/
def Est.run (s : Est α) : List (RegOp α) → Option (Est α)
  | [] => some s
  | op :: ops => match s.register op with
    | none => none
    | some s' => s'.run ops

/-- the registered values an answer may depend on -/
structure Reg (α : Type u) where
  filters : List (List α)
  dom : Dom α
  K : Adapt α
  baseline : List α
  sources : Option (List (List α))
  lb : List α
  ub : List (Option α)
  targets : Option (List (List α))
  w : List α
  W : Weights α
  workB : Option (List (List α))

def Est.abs (s : Est α) : Reg α :=
  { filters := s.filters, dom := s.dom, K := s.K, baseline := s.baseline, sources := s.sources,
    lb := s.lb, ub := s.ub, targets := s.targets, w := s.w, W := s.W, workB := s.workB }

/-- the stateless reference: answers computed from registered values only (A recomputed from scratch) -/
def Reg.answer (r : Reg α) (q : Query α) : Answer α :=
  Est.answer { filters := r.filters, dom := r.dom, K := r.K, baseline := r.baseline, sources := r.sources,
               A := r.sources.map (systemA r.dom r.filters), lb := r.lb, ub := r.ub, targets := r.targets,
               w := r.w, W := r.W, workB := r.workB } q

end Dreye
