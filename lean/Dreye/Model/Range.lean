/-
  Model of `dreye/api/convex.py:_range_of_solutions` and `_spaced_solutions` (one-surplus branch).
-/
import Dreye.Model.Linalg
import Dreye.Cert.Box
namespace Dreye
universe u
variable {α : Type u} [Zero α] [One α] [Add α] [Sub α] [Mul α] [Div α] [Neg α]
  [LE α] [LT α] [DecidableLE α] [DecidableLT α] [DecidableEq α]

/-- `itertools.combinations(range(n), k)` in lexicographic order, as lists of indices starting at `s` -/
def combinationsFrom : Nat → Nat → Nat → List (List Nat)
  | _, _, 0 => [[]]
  | s, 0, _ + 1 => []
  | s, n + 1, k + 1 =>
      (combinationsFrom (s + 1) n k).map (s :: ·) ++ combinationsFrom (s + 1) n (k + 1)

def combinations (n k : Nat) : List (List Nat) := combinationsFrom 0 n k

/-- `itertools.product([0, 1], repeat=k)` -/
def product01 : Nat → List (List Bool)
  | 0 => [[]]
  | k + 1 => (product01 k).map (false :: ·) ++ (product01 k).map (true :: ·)

/-- columns of `A` (list of rows) selected by `idx` -/
def selectCols (A : List (List α)) (idx : List Nat) : List (List α) :=
  A.map (fun r => idx.map (fun j => r.getD j 0))

/-- one candidate basic solution: sources `ridcs` fixed at `lb`/`ub` according to `onoff`, the rest
    solved from the square system; `none` if the square system is singular (`np.linalg.solve` raises) -/
def basicSolution (n : Nat) (A : List (List α)) (b lb ub : List α) (ridcs : List Nat) (onoff : List Bool) :
    Option (List α) :=
  let rest := (List.range n).filter (fun j => !ridcs.contains j)
  let fixedVals := List.zipWith (fun j (o : Bool) => if o then ub.getD j 0 else lb.getD j 0) ridcs onoff
  let offset := matVec (selectCols A ridcs) fixedVals
  match solve (selectCols A rest) (vsub b offset) with
  | none => none
  | some sol =>
    some ((List.range n).map (fun j =>
      match ridcs.idxOf? j with
      | some p => fixedVals.getD p 0
      | none => match rest.idxOf? j with
        | some q => sol.getD q 0
        | none => 0))

/-- exact acceptance test of the code (`(sols >= b0) & (sols <= b1)`, no tolerance); the fixed sources
    are at a bound by construction. The extra exact check `A x = b` never fires when `solve` is correct;
    it makes soundness of accepted candidates immediate. -/
def accepted (A : List (List α)) (b lb ub x : List α) : Bool :=
  vle lb x && vle x ub && decide (matVec A x = b)

/-- all candidate basic solutions, in the code's loop order; `none` as soon as one square system is singular -/
def candidates (n : Nat) (A : List (List α)) (b lb ub : List α) : Option (List (List α)) :=
  let nd := n - A.length
  ((combinations n nd).flatMap (fun r => (product01 nd).map (fun o => (r, o)))).mapM
    (fun ro => basicSolution n A b lb ub ro.1 ro.2)

/-- `_range_of_solutions(A, b, lb, ub)`: running coordinate-wise minimum (started at `ub`) and maximum
    (started at `lb`) over the accepted candidates; also the numbers of candidates and accepted ones -/
def rangeOfSolutions (n : Nat) (A : List (List α)) (b lb ub : List α) :
    Option (List α × List α × Nat × Nat) :=
  match candidates n A b lb ub with
  | none => none
  | some cs =>
    let acc := cs.filter (accepted A b lb ub)
    some (acc.foldl (fun m x => List.zipWith mn m x) ub,
          acc.foldl (fun m x => List.zipWith mx m x) lb, cs.length, acc.length)

/-- the one-surplus branch of `_spaced_solutions`: for a value `t` of the first source, solve the rest -/
def spacedRow (A : List (List α)) (b : List α) (t : α) : Option (List α) :=
  let col0 := A.map (fun r => r.getD 0 0)
  match solve (A.map (fun r => r.drop 1)) (vsub b (smul t col0)) with
  | none => none
  | some sol => some (t :: sol)

end Dreye
