/-
  Model of `dreye/api/barycentric.py`.
-/
import Dreye.Model.Transc
import Dreye.Model.Linalg
namespace Dreye
universe u
variable {α : Type u} [Zero α] [One α] [Add α] [Sub α] [Mul α] [Div α] [Transc α]

/-- column means of a list of rows of length `m` -/
def colMeans (m : Nat) (rows : List (List α)) : List α :=
  (List.range m).map (fun j => (rows.map (fun r => r.getD j 0)).sum / ofNatLit rows.length)

/-- squared Euclidean distance -/
def sqdist (a b : List α) : α := ((vsub a b).map (fun d => d * d)).sum

/-- the new vertex appended by one pass of the loop of `barycentric_to_cartesian_transformer`:
    `rows` are the `i` previous vertices in `i-1` coordinates -/
def baryStep (rows : List (List α)) : List α :=
  let i := rows.length
  let cen := colMeans (i - 1) rows
  let dis := rows.map (fun r => sqdist r cen)
  cen ++ [Transc.sqrt (1 - dis.sum / ofNatLit i)]

/-- `barycentric_to_cartesian_transformer(n)`: `n` rows, `n-1` columns -/
def baryT : Nat → List (List α)
  | 0 => []
  | 1 => [[]]
  | 2 => [[0], [1]]
  | n + 3 => let prev := baryT (n + 2)
             prev.map (· ++ [0]) ++ [baryStep prev]

/-- the centre `(1/n, …, 1/n) @ A` -/
def baryCenter (n : Nat) : List α :=
  vecMat (n - 1) (List.replicate n (1 / ofNatLit n)) (baryT n)

/-- `barycentric_to_cartesian(x, center)` for one point with `n` coordinates -/
def baryToCart (center : Bool) (x : List α) : List α :=
  let n := x.length
  let y := vecMat (n - 1) x (baryT n)
  if center then vsub y (baryCenter n) else y

/-- `cartesian_to_barycentric(x, L1, centered)` for one cartesian point with `n-1` coordinates -/
def cartToBary [DecidableEq α] (centered : Bool) (l1 : Option α) (x : List α) : Option (List α) :=
  let n := x.length + 1
  let x' := if centered then vadd x (baryCenter n) else x
  let aug := (baryT n).map (· ++ [(1 : α)])
  match inverse aug with
  | none => none
  | some inv =>
    let b := vecMat n (x' ++ [1]) inv
    match l1 with
    | none => some b
    | some s => some (b.map (· * s))

end Dreye

namespace Dreye
/-- `sklearn.preprocessing.normalize(norm='l1')` for one row: divide by `Σ|x|` (zero rows stay zero) -/
def l1normalize {α : Type} [Zero α] [Add α] [Div α] [Neg α] [LE α] [DecidableLE α] [DecidableEq α]
    (x : List α) : List α :=
  let s := (x.map (fun v => if 0 ≤ v then v else -v)).sum
  if s = 0 then x else x.map (· / s)

/-- `barycentric_dim_reduction(x, center)` -/
def baryDimReduction {α : Type} [Zero α] [One α] [Add α] [Sub α] [Mul α] [Div α] [Neg α] [Transc α]
    [LE α] [DecidableLE α] [DecidableEq α] (center : Bool) (x : List α) : List α :=
  baryToCart center (l1normalize x)
end Dreye
