/-
  Model of `optimize/parallel.py:diagonal_stack` / `concat`: the block-diagonal stacked problem.
-/
import Dreye.Cert.Box
namespace Dreye
universe u
variable {α : Type u} [Zero α] [One α] [Add α] [Sub α] [Mul α] [Div α]

/-- `block_diag(A, A, …)` for blocks with `n` columns each: block `i` occupies columns `i*n … (i+1)*n-1` -/
def blockDiag (n : Nat) (blocks : List (List (List α))) : List (List α) :=
  let k := blocks.length
  ((List.range k).zip blocks).flatMap (fun (ib : Nat × List (List α)) =>
    ib.2.map (fun r => List.replicate (ib.1 * n) 0 ++ r ++ List.replicate ((k - 1 - ib.1) * n) 0))

end Dreye
