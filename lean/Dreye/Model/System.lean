/-
  Model of the linear receptor model of `ReceptorEstimator`:
  `register_system` (A), `system_capture`, `_relative_capture`, the two adaptation registrations.
-/
import Dreye.Model.Capture
namespace Dreye
universe u
variable {α : Type u} [Zero α] [One α] [Add α] [Sub α] [Mul α] [Div α]

/-- numpy broadcasting of a length-1 array (what `np.atleast_1d(scalar)` produces) against length `n` -/
def bcast (n : Nat) (v : List α) : List α :=
  match v with
  | [c] => List.replicate n c
  | _ => v

/-- `register_system`: `A = capture(sources).T`, i.e. `A[j][k] = ∫ filter_j · source_k` (n_filters × n_sources) -/
def systemA (d : Dom α) (filters sources : List (List α)) : List (List α) :=
  filters.map (fun f => sources.map (fun s => integrate d (vmul f s)))

/-- `system_capture(x) = x @ A.T` for one intensity vector -/
def systemCapture (A : List (List α)) (x : List α) : List α := matVec A x

/-- the adaptation state `K` as stored by the estimator (`np.atleast_1d`): 1-D (scalar or per receptor) or 2-D -/
inductive Adapt (α : Type u) where
  | vec (k : List α)
  | mat (K : List (List α))
  deriving Repr

/-- `_relative_capture(B)` for one capture vector `q`: `K (q + baseline)` -/
def relCapture (K : Adapt α) (baseline q : List α) : List α :=
  let b := vadd q (bcast q.length baseline)
  match K with
  | .vec k => vmul b (bcast q.length k)
  | .mat M => matVec M b

/-- `K := 1 / (qb + baseline)` (or `1/qb` when `add_baseline=False`), optionally added to the current K
    (the code adds with numpy broadcasting; only 1-D current `K` is modelled for `add=True`) -/
def adaptTo (addBaseline : Bool) (baseline qb : List α) : List α :=
  let q := if addBaseline then vadd qb (bcast qb.length baseline) else qb
  q.map (fun v => 1 / v)

def adaptAdd (Kold : List α) (knew : List α) : List α := vadd (bcast knew.length Kold) knew

end Dreye
