/-
  Model of the Poisson and excitation objectives of `dreye/api/optimize/lsq_linear.py`
  (`lsq_linear(model='poisson')`, `lsq_linear_excitation`).
-/
import Dreye.Model.Fit
import Dreye.Model.Transc
namespace Dreye
universe u
variable {α : Type u} [Zero α] [One α] [Add α] [Sub α] [Mul α] [Div α] [Neg α]

/-- predicted total capture `p = A' x + base'` -/
def totalCapture (A' : List (List α)) (base' x : List α) : List α := vadd (matVec A' x) base'

/-- Poisson negative log-likelihood (up to a constant) as the code builds it:
    `−Σ_c ( w_c b_c log p_c − w_c p_c )`, targets not baseline-subtracted -/
def poissonObj [Transc α] (w b p : List α) : α :=
  -((List.zipWith (fun (wb : α) (pc : α) => wb * Transc.log pc) (vmul w b) p).sum - (vmul w p).sum)

/-- gradient of the Poisson objective with respect to `x` (no logarithm!): `A'ᵀ (w ⊙ (1 − b/p))` -/
def poissonGrad (n : Nat) (A' : List (List α)) (w b p : List α) : List α :=
  linComb n (List.zipWith (fun (wc : α) (bp : α × α) => wc * (1 - bp.1 / bp.2)) w (b.zip p)) A'

/-- excitation `e(q) = q / (1 + q)` -/
def excite (q : α) : α := q / (1 + q)

/-- the quasi-convex objective as the code builds it, entry-wise: `|b − p| / ((1 + b)(1 + p))` -/
def excCodeTerm [LE α] [DecidableLE α] (b p : α) : α :=
  (if 0 ≤ b - p then b - p else -(b - p)) / ((1 + b) * (1 + p))

/-- the documented objective, entry-wise: `|e(b) − e(p)|` -/
def excDocTerm [LE α] [DecidableLE α] (b p : α) : α :=
  let d := excite b - excite p
  if 0 ≤ d then d else -d

/-- documented excitation objective: the largest entry -/
def excDoc [LE α] [DecidableLE α] (b p : List α) : α :=
  match List.zipWith excDocTerm b p with
  | [] => 0
  | v :: vs => vs.foldl mx v

/-- the rows `G x ≤ h` that say "excitation error ≤ t in every receptor" for `p = A' x + base'`:
    `b − p ≤ t (1+b)(1+p)` and `p − b ≤ t (1+b)(1+p)`, linear in `x` for fixed `t` -/
def excLevelRows (A' : List (List α)) (base' b : List α) (t : α) : List (List α) × List α :=
  let rows := List.zipWith (fun (r : List α) (bb : α × α) =>
      let bc := bb.1; let b0 := bb.2
      let k := t * (1 + bc)
      -- p = r·x + b0
      -- (1) b − p ≤ k (1 + p)   ⇔  −(1 + k) r·x ≤ k − bc + (1 + k) b0
      -- (2) p − b ≤ k (1 + p)   ⇔   (1 − k) r·x ≤ k + bc − (1 − k) b0
      ((smul (-(1 + k)) r, k - bc + (1 + k) * b0), (smul (1 - k) r, k + bc - (1 - k) * b0))) A' (b.zip base')
  (rows.flatMap (fun q => [q.1.1, q.2.1]), rows.flatMap (fun q => [q.1.2, q.2.2]))

end Dreye
