/-
  Model of the secondary objectives of `lsq_linear_underdetermined`
  (`_get_underdetermined_objective`) and of the variance objective of `lsq_linear_minimize`.
-/
import Dreye.Model.Fit
import Dreye.Model.Linalg
namespace Dreye
universe u
variable {α : Type u} [Zero α] [One α] [Add α] [Sub α] [Mul α] [Div α] [Neg α]

/-- the `underdetermined_opt` argument -/
inductive UnderOpt (α : Type u) where
  | l2 | min | max | var
  | number (s : α)
  | vector (v : List α)

/-- the quantity the code minimises (for `l2` the square of the Euclidean norm; `max` minimises `−Σx`) -/
def underObjective (opt : UnderOpt α) (x : List α) : α :=
  match opt with
  | .l2 => (x.map (fun v => v * v)).sum
  | .min => x.sum
  | .max => -x.sum
  | .var => (x.map (fun v => (v - x.sum / ofNatLit x.length) * (v - x.sum / ofNatLit x.length))).sum
  | .number s => (x.sum - s) * (x.sum - s)
  | .vector v => ((vsub x v).map (fun t => t * t)).sum

/-- matrix `n I − J` (all entries integers): `‖(nI−J)x‖² = n² Σ (x_k − mean)²` -/
def centering (n : Nat) : List (List α) :=
  (List.range n).map (fun i => (List.range n).map (fun j => if i = j then ofNatLit n - 1 else -1))

/-- least-squares form `‖M x − r‖²` of the quadratic options, and the factor by which it is scaled -/
def underQuad [DecidableEq α] (n : Nat) (opt : UnderOpt α) : Option (List (List α) × List α × α) :=
  match opt with
  | .l2 => some (eye n, List.replicate n 0, 1)
  | .var => some (centering n, List.replicate n 0, ofNatLit n * ofNatLit n)
  | .number s => some ([List.replicate n 1], [s], 1)
  | .vector v => some (eye n, v, 1)
  | _ => none

/-- linear cost of the linear options -/
def underLinear (n : Nat) (opt : UnderOpt α) : Option (List α) :=
  match opt with
  | .min => some (List.replicate n 1)
  | .max => some (List.replicate n (-1))
  | _ => none

/-- `sum(Epsilon @ x**2)`: total capture variance, `e_k = Σ_c ε_ck` -/
def varianceObjective (Eps : List (List α)) (x : List α) : α := (matVec Eps (vmul x x)).sum

def columnSums (n : Nat) (Eps : List (List α)) : List α := linComb n (List.replicate Eps.length 1) Eps

/-- reported capture variance `x² @ εᵀ` -/
def captureVariance (Eps : List (List α)) (x : List α) : List α := matVec Eps (vmul x x)

/-- `propagate_error(Epsilon, K)`: elementwise-squared `K` applied -/
def propagateError (n : Nat) (K : Option (Adapt α)) (Eps : List (List α)) : List (List α) :=
  match K with
  | none => Eps
  | some (.vec k) => List.zipWith (fun c r => smul (c * c) r) (bcast Eps.length k) Eps
  | some (.mat M) => matMul n (M.map (fun r => r.map (fun t => t * t))) Eps

end Dreye
