/-
  Verified certificate checkers for optimisation problems over an intensity box
  `lb ≤ x ≤ ub` (`ub = none` means `+∞`).  Mathlib-free and executable (run at `Rat` in the driver);
  the soundness theorems are in `Dreye/Props/Cert.lean`.
-/
import Dreye.Model.Basic
namespace Dreye
universe u
variable {α : Type u} [Zero α] [One α] [Add α] [Sub α] [Mul α] [Div α] [Neg α]
  [LE α] [LT α] [DecidableLE α] [DecidableLT α] [DecidableEq α]

/-- `lb ≤ x ≤ ub` coordinate-wise (`none` = no upper bound); all three lists must have equal length -/
def inBox (lb : List α) (ub : List (Option α)) (x : List α) : Bool :=
  x.length = lb.length && x.length = ub.length &&
  (List.zipWith (fun l v => decide (l ≤ v)) lb x).all id &&
  (List.zipWith (fun (u : Option α) v => match u with | none => true | some u => decide (v ≤ u)) ub x).all id

/-- residual `C x - d` -/
def residual (C : List (List α)) (d x : List α) : List α := vsub (matVec C x) d

/-- least-squares objective `‖C x - d‖²` -/
def lsObj (C : List (List α)) (d x : List α) : α := dot (residual C d x) (residual C d x)

/-- gradient `2 Cᵀ (C x - d)` as a vector of length `n` -/
def lsGrad (n : Nat) (C : List (List α)) (d x : List α) : List α :=
  smul two (linComb n (residual C d x) C)

/-- exact KKT conditions of `min ‖Cx-d‖²` over the box at `x`:
    in the box, and for every coordinate the gradient has the sign the active bound allows -/
def kktOK (n : Nat) (C : List (List α)) (d lb : List α) (ub : List (Option α)) (x : List α) : Bool :=
  inBox lb ub x && x.length = n && C.all (·.length = n) && C.length = d.length &&
  (List.zipWith (fun (g : α) (t : α × α × Option α) =>
      let (v, l, u) := t
      -- g may be positive only at the lower bound, negative only at the upper bound
      (decide (g ≤ 0) || decide (v = l)) &&
      (decide (0 ≤ g) || (match u with | none => false | some u => decide (v = u))))
    (lsGrad n C d x) (x.zip (lb.zip ub))).all id

/-- `min_{lb ≤ z ≤ ub} g·z`, or `none` when it is `-∞` -/
def boxMinLin : List α → List α → List (Option α) → Option α
  | [], [], [] => some 0
  | g :: gs, l :: ls, u :: us =>
    match boxMinLin gs ls us with
    | none => none
    | some rest =>
      if 0 ≤ g then some (g * l + rest)
      else match u with
        | none => none
        | some u => some (g * u + rest)
  | _, _, _ => none

/-- Frank–Wolfe duality gap of `‖Cx-d‖²` over the box at `x` (`none` when infinite) -/
def fwGap (n : Nat) (C : List (List α)) (d lb : List α) (ub : List (Option α)) (x : List α) : Option α :=
  let g := lsGrad n C d x
  match boxMinLin g lb ub with
  | none => none
  | some m => some (dot g x - m)

/-- Lower bound for a linear cost over
      `{ x in box | G x ≤ h (row-wise),  ‖C x - d‖₂ ≤ eps }`
    from multipliers `lam ≥ 0` (one per row of `G`), `v` (one per row of `C`) and `sigma ≥ ‖v‖₂`:
      `c·x ≥ boxMin(c + Gᵀlam + Cᵀv) - lam·h - v·d - sigma*eps`.
    Returns `none` if the multipliers are not admissible or the box minimum is `-∞`. -/
def linLower (n : Nat) (c : List α) (G : List (List α)) (h : List α) (C : List (List α)) (d : List α) (eps : α)
    (lam v : List α) (sigma : α) (lb : List α) (ub : List (Option α)) : Option α :=
  if lam.all (fun l => decide (0 ≤ l)) && lam.length = G.length && G.length = h.length &&
     v.length = C.length && C.length = d.length && decide (0 ≤ sigma) && decide (dot v v ≤ sigma * sigma) &&
     c.length = n && G.all (·.length = n) && C.all (·.length = n) && decide (0 ≤ eps) then
    let r := vadd c (vadd (linComb n lam G) (linComb n v C))
    match boxMinLin r lb ub with
    | none => none
    | some m => some (m - dot lam h - dot v d - sigma * eps)
  else none

/-- feasibility of `x` for the set above -/
def linFeasible (G : List (List α)) (h : List α) (C : List (List α)) (d : List α) (eps : α)
    (lb : List α) (ub : List (Option α)) (x : List α) : Prop :=
  inBox lb ub x = true ∧ (∀ p ∈ (matVec G x).zip h, p.1 ≤ p.2) ∧ lsObj C d x ≤ eps * eps ∧ 0 ≤ eps

end Dreye
