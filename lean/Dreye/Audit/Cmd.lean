/-
  Axiom audit: `lake env lean -DauditModule=... Audit.lean` is not possible (imports are static), so the
  harness writes a two-line stub importing the wanted module and then `#audit <module>`; this file defines
  the command. Prints one line per theorem of the module:  `THEOREM <name> : <axioms…>`.
-/
import Lean
open Lean Elab Command

elab "#audit " m:ident : command => do
  let env ← getEnv
  let some idx := env.getModuleIdx? m.getId
    | throwError "module {m.getId} not imported"
  let names := env.header.moduleData[idx.toNat]!.constNames
  for n in names do
    match env.find? n with
    | some (.thmInfo _) =>
      if n.isInternal then continue
      let axs ← liftCoreM (collectAxioms n)
      let axs := axs.qsort (fun a b => a.toString < b.toString)
      logInfo m!"THEOREM {n} : {axs.toList}"
    | some (.axiomInfo _) => logInfo m!"AXIOM {n}"
    | _ => pure ()
