import Dreye.Model.Basic
import Dreye.Model.Capture
import Dreye.Driver.Parse
import Dreye.Driver.Ops01
import Dreye.Props.C01
