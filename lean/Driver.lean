import Dreye.Driver.All
open Dreye.Driver
def main : IO Unit := do
  loop allOps (← IO.getStdin) (← IO.getStdout)
