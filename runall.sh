#!/bin/bash
# run every claimed check (tier from $1, default quick; seed from $2, default 0), up to 6 in parallel; summary at the end
cd "$(dirname "$0")"
tier="${1:-quick}"; seed="${2:-0}"
ids=$(python3 -c "import json;print(' '.join(c['property_id'] for c in json.load(open('MANIFEST.json'))['checks']))")
mkdir -p /tmp/verif_runall
printf '%s\n' $ids | xargs -P 6 -I{} bash -c "./check {} --tier $tier --seed $seed > /tmp/verif_runall/{}.log 2>&1; echo {} exit=\$? \$(tail -1 /tmp/verif_runall/{}.log)"
grep -h "VIOLATION\|KNOWN-FINDING\|INFRASTRUCTURE" /tmp/verif_runall/*.log; true
