/-
  C18 — gamut-size and divergence metrics equal their geometric / information definitions.
  Width theorems: any ordered field.  Divergence theorems: ℝ.
-/
import Dreye.Model.Metrics
import Dreye.Props.C16
import Dreye.Props.C12
import Mathlib.Analysis.SpecialFunctions.Log.Basic
import Mathlib.Tactic

namespace Dreye
namespace C18

section width
variable {α : Type*} [Field α] [LinearOrder α] [IsStrictOrderedRing α]

/-- `maxOf` of a non-empty list is its greatest element -/
theorem maxOf_spec (l : List α) (hne : l ≠ []) : maxOf l ∈ l ∧ ∀ v ∈ l, v ≤ maxOf l := by
  sorry

/-- **C18 (width is translation invariant)** -/
theorem width_translate (u t : List α) (X : List (List α)) (hX : X ≠ [])
    (hl : ∀ x ∈ X, x.length = u.length) (ht : t.length = u.length) :
    widthAlong u (X.map (fun x => vadd x t)) = widthAlong u X := by
  sorry

/-- **C18 (width is homogeneous)**: scaling the cloud by `s ≥ 0` scales the width by `s`. -/
theorem width_scale (u : List α) (s : α) (hs : 0 ≤ s) (X : List (List α)) (hX : X ≠ []) :
    widthAlong u (X.map (fun x => smul s x)) = s * widthAlong u X := by
  sorry

/-- **C18 (width is non-decreasing when points are added)** -/
theorem width_mono (u : List α) (X Y : List (List α)) (hX : X ≠ []) (hsub : ∀ x ∈ X, x ∈ Y) :
    widthAlong u X ≤ widthAlong u Y := by
  sorry

/-- width is non-negative -/
theorem width_nonneg (u : List α) (X : List (List α)) (hX : X ≠ []) : 0 ≤ widthAlong u X := by
  sorry

/-- **C18 (rotation)**: an isometry applied to both the direction and the cloud leaves the width
    unchanged — the Monte-Carlo mean width of a rotated cloud equals that of the original cloud
    measured along the rotated direction sample. -/
theorem width_isometry (T : List α → List α) (u : List α) (X : List (List α))
    (hT : ∀ x ∈ X, dot (T u) (T x) = dot u x) :
    widthAlong (T u) (X.map T) = widthAlong u X := by
  sorry

/-- the four properties lift to the mean over any fixed direction sample `U` (exact per seed) -/
theorem meanWidth_translate (U : List (List α)) (t : List α) (X : List (List α)) (hX : X ≠ [])
    (hU : ∀ u ∈ U, u.length = t.length) (hl : ∀ x ∈ X, x.length = t.length) :
    meanWidth U (X.map (fun x => vadd x t)) = meanWidth U X := by
  sorry

theorem meanWidth_scale (U : List (List α)) (s : α) (hs : 0 ≤ s) (X : List (List α)) (hX : X ≠ []) :
    meanWidth U (X.map (fun x => smul s x)) = s * meanWidth U X := by
  sorry

theorem meanWidth_mono (U : List (List α)) (X Y : List (List α)) (hX : X ≠ []) (hsub : ∀ x ∈ X, x ∈ Y) :
    meanWidth U X ≤ meanWidth U Y := by
  sorry

/-- **C18 (gamut relative to itself is 1, relative to a superset at most 1)** for the width metric -/
theorem ratio_self (U : List (List α)) (X : List (List α)) (h : meanWidth U X ≠ 0) :
    meanWidth U X / meanWidth U X = 1 := by
  sorry

theorem ratio_superset_le_one (U : List (List α)) (X Y : List (List α)) (hX : X ≠ [])
    (hsub : ∀ x ∈ X, x ∈ Y) (hpos : 0 < meanWidth U Y) :
    meanWidth U X / meanWidth U Y ≤ 1 := by
  sorry

end width

section divergence
open Real

/-- **C18 (symmetric)** -/
theorem jsd_symm (P Q : List ℝ) (hl : P.length = Q.length) : jsd P Q = jsd Q P := by
  sorry

/-- **C18 (invariant to the normalisation of its inputs)** -/
theorem jsd_scale_invariant (P Q : List ℝ) (a b : ℝ) (ha : 0 < a) (hb : 0 < b)
    (hP : P.sum ≠ 0) (hQ : Q.sum ≠ 0) :
    jsd (P.map (a * ·)) (Q.map (b * ·)) = jsd P Q := by
  sorry

/-- **C18 (zero for proportional inputs)** -/
theorem jsd_proportional (P : List ℝ) (c : ℝ) (hc : 0 < c) (hP : ∀ v ∈ P, 0 ≤ v) (hs : 0 < P.sum) :
    jsd P (P.map (c * ·)) = 0 := by
  sorry

/-- **C18 (at most one bit)** for non-negative inputs with positive totals -/
theorem jsd_le_one (P Q : List ℝ) (hl : P.length = Q.length) (hP : ∀ v ∈ P, 0 ≤ v) (hQ : ∀ v ∈ Q, 0 ≤ v)
    (hsP : 0 < P.sum) (hsQ : 0 < Q.sum) : jsd P Q ≤ 1 := by
  sorry

/-- **C18 (non-negative)** -/
theorem jsd_nonneg (P Q : List ℝ) (hl : P.length = Q.length) (hP : ∀ v ∈ P, 0 ≤ v) (hQ : ∀ v ∈ Q, 0 ≤ v)
    (hsP : 0 < P.sum) (hsQ : 0 < Q.sum) : 0 ≤ jsd P Q := by
  sorry

end divergence

end C18
end Dreye
