/-
  C15 — results are equivariant under a change of physical units: intensities in units `s` times larger
  (bounds and intensities divided by `s`, capture matrix multiplied by `s`) and captures in units `c`
  times smaller (capture matrix, targets, baseline multiplied by `c`).
-/
import Dreye.Model.Fit
import Dreye.Props.Cert
import Dreye.Props.C06
import Mathlib.Algebra.Order.Field.Basic
import Mathlib.Algebra.BigOperators.Group.List.Basic
import Mathlib.Tactic

namespace Dreye
namespace C15

variable {α : Type*} [Field α] [LinearOrder α] [IsStrictOrderedRing α]

/-- the twin capture matrix `s c A'` -/
def twinA (s c : α) (A' : List (List α)) : List (List α) := A'.map (fun r => smul (s * c) r)
/-- intensities / bounds in the new unit -/
def twinX (s : α) (x : List α) : List α := smul (1 / s) x
def twinUb (s : α) (ub : List (Option α)) : List (Option α) := ub.map (fun u => u.map (fun t => (1 / s) * t))

/-- **C15 (the model's capture scales by `c`)**: the twin system at the rescaled intensities predicts
    `c` times the original capture. -/
theorem predict_twin (s c : α) (hs : s ≠ 0) (A' : List (List α)) (base' x : List α) :
    predict (twinA s c A') (smul c base') (twinX s x) = smul c (predict A' base' x) := by
  sorry

/-- **C15 (bounds)**: `x` is within the bounds iff the rescaled `x` is within the rescaled bounds. -/
theorem inBox_twin (s : α) (hs : 0 < s) (lb : List α) (ub : List (Option α)) (x : List α) :
    inBox (twinX s lb) (twinUb s ub) (twinX s x) = inBox lb ub x := by
  sorry

/-- **C15 (gamut membership is unchanged)**: `b` is reproduced by in-bound intensities `x` iff `c b` is
    reproduced by the in-bound twin intensities `x / s` in the twin system. -/
theorem reproducible_twin (s c : α) (hs : 0 < s) (hc : 0 < c) (A' : List (List α)) (base' lb : List α)
    (ub : List (Option α)) (b x : List α) (hb : b.length = (predict A' base' x).length) :
    (inBox lb ub x = true ∧ predict A' base' x = b) ↔
    (inBox (twinX s lb) (twinUb s ub) (twinX s x) = true ∧
      predict (twinA s c A') (smul c base') (twinX s x) = smul c b) := by
  sorry

/-- **C15 (errors scale by `c`, squared errors by `c²`)** for the weighted least-squares data
    `C = diag(w) A'`, `d = w ⊙ b'`. -/
theorem lsObj_twin (s c : α) (hs : s ≠ 0) (C : List (List α)) (d x : List α) :
    lsObj (twinA s c C) (smul c d) (twinX s x) = c * c * lsObj C d x := by
  sorry

/-- **C15 (fitted intensities scale by exactly `1/s`)**: `x` minimises the original bounded problem iff
    `x / s` minimises the twin problem over the twin bounds. -/
theorem argmin_twin (s c : α) (hs : 0 < s) (hc : 0 < c) (C : List (List α)) (d lb : List α) (ub : List (Option α))
    (x : List α) (hx : inBox lb ub x = true) :
    (∀ y, inBox lb ub y = true → lsObj C d x ≤ lsObj C d y) ↔
    (∀ y', inBox (twinX s lb) (twinUb s ub) y' = true →
        lsObj (twinA s c C) (smul c d) (twinX s x) ≤ lsObj (twinA s c C) (smul c d) y') := by
  sorry

/-- **C15 (solution polytopes correspond, so ranges scale by `1/s`)**: `x` reproduces the target within
    the bounds iff `x / s` does in the twin problem. -/
theorem feasible_twin (s c : α) (hs : 0 < s) (hc : 0 < c) (A : List (List α)) (b lb ub x : List α) :
    C06.Feasible A b lb ub x ↔ C06.Feasible (twinA s c A) (smul c b) (twinX s lb) (twinX s ub) (twinX s x) := by
  sorry

end C15
end Dreye
