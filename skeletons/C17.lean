/-
  C17 — hull projections return the nearest point, the boundary hit and the exact slice.
-/
import Dreye.Model.Project
import Dreye.Props.C03
import Mathlib.Algebra.Order.Field.Basic
import Mathlib.Algebra.BigOperators.Group.List.Basic
import Mathlib.Tactic

namespace Dreye
namespace C17

variable {α : Type*} [Field α] [LinearOrder α] [IsStrictOrderedRing α]

/-- squared distance -/
def sqd (z b : List α) : α := dot (vsub z b) (vsub z b)

/-- membership in the polytope `{z | G z ≤ h}` -/
def InPoly (G : List (List α)) (h z : List α) : Prop := ∀ p ∈ (matVec G z).zip h, p.1 ≤ p.2

/-- **C17 (weak duality for the nearest-point programme)**: for any multipliers `lam ≥ 0` the dual value
    bounds half the squared distance of *every* point of the polytope from below. -/
theorem proj_weak_duality (n : ℕ) (G : List (List α)) (h b lam z : List α)
    (hG : ∀ r ∈ G, r.length = n) (hh : h.length = G.length) (hl : lam.length = G.length)
    (hb : b.length = n) (hz : z.length = n)
    (hlam : ∀ l ∈ lam, 0 ≤ l) (hin : InPoly G h z) :
    projDual n G h b lam ≤ sqd z b / 2 := by
  sorry

/-- **C17 (nearest point from a certificate)**: a point `p` whose half squared distance exceeds the dual
    value by at most `δ` is within `2δ` (in squared distance) of the nearest point of the polytope. -/
theorem nearest_of_cert (n : ℕ) (G : List (List α)) (h b lam p z : List α) (δ : α)
    (hG : ∀ r ∈ G, r.length = n) (hh : h.length = G.length) (hl : lam.length = G.length)
    (hb : b.length = n) (hz : z.length = n)
    (hlam : ∀ l ∈ lam, 0 ≤ l) (hin : InPoly G h z)
    (hgap : sqd p b / 2 - projDual n G h b lam ≤ δ) :
    sqd p b ≤ sqd z b + 2 * δ := by
  sorry

/-- **C17 (boundary hit)**: for a polytope `{z | n_f·z + o_f ≤ 0}` with the origin strictly inside
    (`o_f < 0`), the returned multiple `a` is positive, `a • b` lies in the polytope and on one of its
    facets, every smaller non-negative multiple is inside, and every larger multiple is outside. -/
theorem alpha_hits_boundary (fs : List (Facet α)) (b : List α) (a : α)
    (horigin : ∀ f ∈ fs, f.offset < 0) (hlen : ∀ f ∈ fs, f.normal.length = b.length)
    (h : alphaFor fs b = some a) :
    0 < a ∧ insideFacets fs (smul a b) = true ∧
    (∃ f ∈ fs, dot f.normal (smul a b) + f.offset = 0) ∧
    (∀ a', 0 ≤ a' → a' ≤ a → insideFacets fs (smul a' b) = true) ∧
    (∀ a', a < a' → insideFacets fs (smul a' b) = false) := by
  sorry

/-- **C17 (section points are on the plane)** -/
theorem line_to_simplex_sum (x1 x2 : List α) (c : α) (hl : x1.length = x2.length)
    (hne : (vsub x2 x1).sum ≠ 0) : (lineToSimplex x1 x2 c).sum = c := by
  sorry

/-- … and on the segment: for `Σx1 ≤ c < Σx2` the point is the convex combination `(1-t) x1 + t x2`
    with `t = (c − Σx1)/(Σx2 − Σx1) ∈ [0, 1)`. -/
theorem line_to_simplex_segment (x1 x2 : List α) (c : α) (hl : x1.length = x2.length)
    (h1 : x1.sum ≤ c) (h2 : c < x2.sum) :
    let t := (c - x1.sum) / (x2.sum - x1.sum)
    0 ≤ t ∧ t < 1 ∧ lineToSimplex x1 x2 c = vadd (smul (1 - t) x1) (smul t x2) := by
  sorry

/-- **C17 (slice ⊆)**: every returned point of the all-pairs branch lies on the plane and is a convex
    combination of two points of the cloud. -/
theorem section_points_sound (d : ℕ) (P : List (List α)) (c : α) (hP : ∀ p ∈ P, p.length = d) :
    ∀ r ∈ sectionPoints P c, r.sum = c ∧ r.length = d ∧
      ∃ p ∈ P, ∃ q ∈ P, ∃ t : α, 0 ≤ t ∧ t ≤ 1 ∧ r = vadd (smul (1 - t) p) (smul t q) := by
  sorry

/-- **C17 (slice ⊇, all dimensions and cloud sizes)**: every point of `conv P` whose coordinates sum to
    `c` is a convex combination of the returned points — provided some point of the cloud lies strictly
    above the plane (the code asserts this: "Target `c` too high"). -/
theorem section_all_pairs (d : ℕ) (P : List (List α)) (c : α) (w : List α)
    (hP : ∀ p ∈ P, p.length = d)
    (hw : (∀ v ∈ w, 0 ≤ v) ∧ w.sum = 1 ∧ w.length = P.length)
    (hsum : (convComb d w P).sum = c)
    (hhi : ∃ q ∈ P, c < q.sum) :
    ∃ u : List α, (∀ v ∈ u, 0 ≤ v) ∧ u.sum = 1 ∧ u.length = (sectionPoints P c).length ∧
      convComb d u (sectionPoints P c) = convComb d w P := by
  sorry

end C17
end Dreye
