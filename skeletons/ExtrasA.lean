/-
  Further theorems tying the models together (second batch).
-/
import Dreye.Model.Stack
import Dreye.Props.C03
import Dreye.Props.C04
import Dreye.Props.C06Exact
import Dreye.Props.Linalg
import Dreye.Props.C19
import Mathlib.Tactic

namespace Dreye

/-! ## C05 — the stacked (block-diagonal) least-squares objective is the sum of the row objectives -/
namespace C05
variable {α : Type*} [Field α] [LinearOrder α] [IsStrictOrderedRing α]

/-- **C05 (the stacked problem is separable)**: for blocks `C_i` (each with `n` columns), targets `d_i`
    (`d_i.length = C_i.length`) and intensity blocks `x_i` (length `n`), the least-squares objective of the
    block-diagonal matrix at the concatenated vectors is the sum of the per-row-problem objectives.
    (Zero-padded samples are blocks with `d_i = 0` and zero weights: they add a term that does not
    involve the other blocks.) -/
theorem stacked_objective_sum (n : ℕ) (Cs : List (List (List α))) (ds xs : List (List α))
    (hl : ds.length = Cs.length) (hx : xs.length = Cs.length)
    (hC : ∀ C ∈ Cs, ∀ r ∈ C, r.length = n) (hd : ∀ p ∈ Cs.zip ds, p.1.length = p.2.length)
    (hxs : ∀ x ∈ xs, x.length = n) :
    lsObj (blockDiag n Cs) ds.flatten xs.flatten
      = ((Cs.zip (ds.zip xs)).map (fun q => lsObj q.1 q.2.1 q.2.2)).sum := by
  sorry

end C05

/-! ## C03 — the unbounded ("affine cone") path -/
namespace C03
variable {α : Type*} [Field α] [LinearOrder α] [IsStrictOrderedRing α]

/-- **C03 (unbounded sources: the cone of the shifted corner images is the gamut)**: with no upper
    bounds the code replaces `ub` by `lb + 1`, subtracts the image of `lb` (the first corner image) and
    asks for non-negative weights (no sum constraint). Such weights exist iff some intensity vector
    `x ≥ lb` reproduces the target. -/
theorem cone_path_sound (A' : List (List α)) (base' lb b : List α)
    (hA : ∀ r ∈ A', r.length = lb.length) (hb : base'.length = A'.length) (hbl : b.length = A'.length) :
    let ub1 := lb.map (· + 1)
    let P := (corners lb ub1).map (predict A' base')
    let apex := predict A' base' lb
    (∃ w : List α, (∀ v ∈ w, 0 ≤ v) ∧ w.length = P.length ∧
        linComb A'.length w (P.map (fun p => vsub p apex)) = vsub b apex)
    ↔ (∃ x : List α, x.length = lb.length ∧ (∀ p ∈ lb.zip x, p.1 ≤ p.2) ∧ predict A' base' x = b) := by
  sorry

end C03

/-! ## C04 + C03 — zero error exactly when the target is in the gamut -/
namespace C04
variable {α : Type*} [Field α] [LinearOrder α] [IsStrictOrderedRing α]

/-- **C04 (a target is reproduced with zero error exactly when it is in the gamut)**, per-receptor K,
    finite bounds, non-zero weights: some in-bound intensity vector has zero documented error iff the
    target is a convex combination of the `2^n` corner images (what the gamut test decides). -/
theorem zero_error_iff_in_gamut (nf n : ℕ) (A : List (List α)) (k baseline w b lb ub : List α)
    (hA : A.length = nf) (hrows : ∀ r ∈ A, r.length = n) (hw : w.length = nf) (hb : b.length = nf)
    (hbase : baseline.length = nf ∨ baseline.length = 1) (hk : k.length = nf ∨ k.length = 1)
    (hlb : lb.length = n) (hub : ub.length = n) (hle : ∀ p ∈ lb.zip ub, p.1 ≤ p.2)
    (hw0 : ∀ v ∈ w, v ≠ 0) :
    let A' := transformA n (some (.vec k)) A
    let base' := transformBase nf (some (.vec k)) baseline
    (∃ x : List α, x.length = n ∧ (∀ p ∈ lb.zip x, p.1 ≤ p.2) ∧ (∀ p ∈ x.zip ub, p.1 ≤ p.2) ∧
        docObj (.vec k) A baseline w b x = 0)
    ↔ (∃ wt : List α, (∀ v ∈ wt, 0 ≤ v) ∧ wt.sum = 1 ∧ wt.length = (corners lb ub).length ∧
        convComb A'.length wt ((corners lb ub).map (predict A' base')) = b) := by
  sorry

end C04

end Dreye
