/-
  Correctness of the exact Gauss–Jordan routines of `Dreye/Model/Linalg.lean` (the model of
  `np.linalg.solve` / `np.linalg.inv`), over any field.
-/
import Dreye.Model.Linalg
import Dreye.Props.Cert
import Mathlib.Algebra.Field.Basic
import Mathlib.Algebra.BigOperators.Group.List.Basic
import Mathlib.Tactic

namespace Dreye
namespace LinalgProps

variable {α : Type*} [Field α] [DecidableEq α]

/-- **`solve` is sound**: whatever it returns solves the system. -/
theorem solve_sound (A : List (List α)) (b x : List α)
    (hA : ∀ r ∈ A, r.length = A.length) (hb : b.length = A.length)
    (h : solve A b = some x) : matVec A x = b ∧ x.length = A.length := by
  sorry

/-- **`inverse` is sound**: whatever it returns is a right inverse, `A · A⁻¹ = I`, row by row. -/
theorem inverse_sound (A Ainv : List (List α))
    (hA : ∀ r ∈ A, r.length = A.length)
    (h : inverse A = some Ainv) :
    Ainv.length = A.length ∧ (∀ r ∈ Ainv, r.length = A.length) ∧
    A.map (fun r => linComb A.length r Ainv) = eye A.length := by
  sorry

/-- **`solve` is complete**: if the homogeneous system has only the trivial solution, `solve` succeeds. -/
theorem solve_complete (A : List (List α)) (b : List α)
    (hA : ∀ r ∈ A, r.length = A.length) (hb : b.length = A.length)
    (hinj : ∀ z : List α, z.length = A.length → matVec A z = List.replicate A.length 0 → z = List.replicate A.length 0) :
    ∃ x, solve A b = some x := by
  sorry

end LinalgProps
end Dreye
