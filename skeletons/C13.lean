/-
  C13 — samples drawn in the gamut are in the gamut (the deterministic content), and the mixture
  scheme "simplex ∝ volume, uniform inside" is uniform on the union (finite additivity).
-/
import Dreye.Model.Sampling
import Dreye.Props.C03
import Mathlib.MeasureTheory.Measure.MeasureSpace
import Mathlib.MeasureTheory.Measure.AEDisjoint
import Mathlib.Tactic

namespace Dreye
namespace C13

section algebra
variable {α : Type*} [Field α] [LinearOrder α] [IsStrictOrderedRing α]

/-- **C13 (every sample is in the hull)**: barycentric weights (non-negative, summing to one) applied to
    vertices that are points of the cloud give a convex combination of the cloud — hence, by C03, a
    capture that in-bound intensities reproduce. `idx` are the positions of the simplex vertices in `P`. -/
theorem sample_in_conv (d : ℕ) (P : List (List α)) (idx : List ℕ) (probs : List α)
    (hP : ∀ p ∈ P, p.length = d) (hidx : ∀ i ∈ idx, i < P.length) (hl : probs.length = idx.length)
    (hp : (∀ v ∈ probs, 0 ≤ v) ∧ probs.sum = 1) :
    ∃ w : List α, (∀ v ∈ w, 0 ≤ v) ∧ w.sum = 1 ∧ w.length = P.length ∧
      convComb d w P = combine d probs (idx.map (fun i => P.getD i [])) := by
  sorry

/-- **C13 (QMC weights are valid)**: L1-normalising a non-negative engine point with positive sum gives
    barycentric weights. -/
theorem normalizeProbs_valid (p : List α) (hp : ∀ v ∈ p, 0 ≤ v) (hs : 0 < p.sum) :
    (∀ v ∈ normalizeProbs p, 0 ≤ v) ∧ (normalizeProbs p).sum = 1 := by
  sorry

/-- selection probabilities are a probability vector -/
theorem pvals_valid (vols : List α) (hv : ∀ v ∈ vols, 0 ≤ v) (hs : 0 < vols.sum) :
    (∀ v ∈ pvals vols, 0 ≤ v) ∧ (pvals vols).sum = 1 := by
  sorry

end algebra

section measure
open MeasureTheory ENNReal

/-- **C13 (uniformity of the scheme, finite additivity)**: choose piece `i` with probability
    `vol(S_i)/vol(⋃S)` and then a point uniformly in `S_i`; if the pieces overlap only in null sets, the
    probability of landing in a measurable region `A` is `vol(A ∩ ⋃S)/vol(⋃S)` — proportional to volume.
    (That Delaunay simplices tile the hull with null overlaps, that `Generator.choice` realises the
    probabilities and that Dirichlet(1,…,1) weights are uniform on a simplex are engine facts.) -/
theorem mixture_uniform {Ω : Type*} [MeasurableSpace Ω] (vol : Measure Ω) {ι : Type*} (s : Finset ι)
    (S : ι → Set Ω) (hS : ∀ i ∈ s, MeasurableSet (S i))
    (hd : (s : Set ι).Pairwise (fun i j => AEDisjoint vol (S i) (S j)))
    (hfin : ∀ i ∈ s, vol (S i) ≠ ∞) (hpos : ∀ i ∈ s, vol (S i) ≠ 0)
    (A : Set Ω) (hA : MeasurableSet A) :
    ∑ i ∈ s, (vol (S i) / vol (⋃ i ∈ s, S i)) * (vol (A ∩ S i) / vol (S i))
      = vol (A ∩ ⋃ i ∈ s, S i) / vol (⋃ i ∈ s, S i) := by
  sorry

end measure

end C13
end Dreye
