/-
  C13 (quasi-Monte-Carlo branch) — the bookkeeping that pairs barycentric weights with simplices:
  iteration `k` of the loop writes the weights of rows `[start_k, stop_k)` and `np.repeat(arange, counts)` says
  which simplex each row uses. The theorems: the blocks tile `0 .. Σcounts` without gap or overlap, and the simplex
  index of every row is the index of the block that wrote its weights — for every list of counts (zeros included).
-/
import Dreye.Model.Sampling
import Mathlib.Tactic

namespace Dreye
namespace C13

theorem qmcBlocks_length (t : ℕ) (cs : List ℕ) : (qmcBlocks t cs).length = cs.length := by
  sorry

/-- block `k` has exactly `counts[k]` rows -/
theorem qmcBlocks_sizes (t : ℕ) (cs : List ℕ) : (qmcBlocks t cs).map (fun b => b.2 - b.1) = cs := by
  sorry

/-- the first block starts at `t`; every block starts where the previous one stopped -/
theorem qmcBlocks_chain (t : ℕ) (cs : List ℕ) :
    List.IsChain (fun (a b : ℕ × ℕ) => a.2 = b.1) (qmcBlocks t cs) ∧
    (∀ b, (qmcBlocks t cs).head? = some b → b.1 = t) ∧
    (∀ b, (qmcBlocks t cs).getLast? = some b → b.2 = t + cs.sum) := by
  sorry

theorem repeatIdx_length (i : ℕ) (cs : List ℕ) : (repeatIdx i cs).length = cs.sum := by
  sorry

/-- **C13 (QMC rows and simplices agree)**: every row `r < Σ counts` lies in exactly one block `k`, and the simplex index
    `np.repeat(arange, counts)[r]` is that `k`: the weights drawn for simplex `k` are combined with the vertices of simplex `k`. -/
theorem row_block_simplex (cs : List ℕ) (r : ℕ) (hr : r < cs.sum) :
    ∃ k, ∃ hk : k < (qmcBlocks 0 cs).length,
      ((qmcBlocks 0 cs)[k]).1 ≤ r ∧ r < ((qmcBlocks 0 cs)[k]).2 ∧ (repeatIdx 0 cs)[r]? = some k ∧
      (∀ k', ∀ hk' : k' < (qmcBlocks 0 cs).length,
        ((qmcBlocks 0 cs)[k']).1 ≤ r → r < ((qmcBlocks 0 cs)[k']).2 → k' = k) := by
  sorry

/-- no row beyond `Σ counts` is written -/
theorem blocks_within (t : ℕ) (cs : List ℕ) : ∀ b ∈ qmcBlocks t cs, t ≤ b.1 ∧ b.1 ≤ b.2 ∧ b.2 ≤ t + cs.sum := by
  sorry

example : qmcBlocks 0 [2, 0, 3] = [(0, 2), (2, 2), (2, 5)] ∧ repeatIdx 0 [2, 0, 3] = [0, 0, 2, 2, 2] := by
  sorry

end C13
end Dreye
