/-
  C16 (barycentric half, round trips) — `cartesian_to_barycentric` really inverts `barycentric_to_cartesian`.
  The reverse conversion is `[x | 1] @ inv([T | 1])` with the Gauss–Jordan `inverse` of `Dreye/Model/Linalg.lean`;
  `LinalgProps.inverse_sound` says the result is a right inverse. Here: it is two-sided, it exists whenever the
  matrix has a trivial left kernel, and hence the conversions are mutual inverses (all option variants).
-/
import Dreye.Props.C16Bary
import Dreye.Props.Linalg
import Mathlib.LinearAlgebra.Matrix.NonsingularInverse
import Mathlib.LinearAlgebra.Matrix.ToLin

namespace Dreye
namespace LinalgProps

variable {α : Type*} [Field α] [DecidableEq α]

/-- **`inverse` is two-sided**: the right inverse returned by Gauss–Jordan is also a left inverse: `(w · A⁻¹) · A = w`. -/
theorem inverse_left (A Ainv : List (List α)) (hA : ∀ r ∈ A, r.length = A.length)
    (h : inverse A = some Ainv) (w : List α) (hw : w.length = A.length) :
    linComb A.length (linComb A.length w Ainv) A = w := by
  sorry

/-- … and `(w · A) · A⁻¹ = w`. -/
theorem inverse_right (A Ainv : List (List α)) (hA : ∀ r ∈ A, r.length = A.length)
    (h : inverse A = some Ainv) (w : List α) (hw : w.length = A.length) :
    linComb A.length (linComb A.length w A) Ainv = w := by
  sorry

/-- **`inverse` is complete**: a square matrix with trivial left kernel (`w · A = 0 → w = 0`) is inverted. -/
theorem inverse_complete (A : List (List α)) (hA : ∀ r ∈ A, r.length = A.length)
    (hinj : ∀ w : List α, w.length = A.length → linComb A.length w A = List.replicate A.length 0 →
      w = List.replicate A.length 0) :
    ∃ Ainv, inverse A = some Ainv := by
  sorry

end LinalgProps

namespace C16

/-- the augmented matrix `[T | 1]` of `cartesian_to_barycentric` is always inverted (dimension ≥ 1, i.e. `n ≥ 2` corners) -/
theorem cart_to_bary_succeeds (centered : Bool) (l1 : Option ℝ) (x : List ℝ) (hx : 1 ≤ x.length) :
    ∃ b, cartToBary centered l1 x = some b := by
  sorry

/-- **C16 (reverse then forward)**: whatever `cartesian_to_barycentric(x, L1=None, centered=c)` returns has `n` coordinates
    summing to 1 and is mapped back to `x` by `barycentric_to_cartesian(·, center=c)`. -/
theorem cart_bary_roundtrip (centered : Bool) (x b : List ℝ) (hx : 1 ≤ x.length)
    (h : cartToBary centered none x = some b) :
    b.length = x.length + 1 ∧ b.sum = 1 ∧ baryToCart centered b = x := by
  sorry

/-- with a requested total `L1 = s`: the coordinates sum to `s`, and the point of the unit simplex they describe
    (coordinates divided by `s`) is mapped back to `x`. -/
theorem cart_bary_roundtrip_l1 (centered : Bool) (s : ℝ) (hs : s ≠ 0) (x b : List ℝ) (hx : 1 ≤ x.length)
    (h : cartToBary centered (some s) x = some b) :
    b.length = x.length + 1 ∧ b.sum = s ∧ baryToCart centered (b.map (· / s)) = x := by
  sorry

/-- **C16 (forward then reverse)**: barycentric coordinates summing to 1 are recovered exactly. -/
theorem bary_cart_roundtrip (centered : Bool) (b : List ℝ) (hn : 2 ≤ b.length) (hsum : b.sum = 1) :
    cartToBary centered none (baryToCart centered b) = some b := by
  sorry

/-- forward then reverse with a requested total: coordinates summing to 1 come back multiplied by `L1`
    (so a capture vector with total `s` is recovered from its chromaticity when `L1 = s`). -/
theorem bary_cart_roundtrip_l1 (centered : Bool) (s : ℝ) (b : List ℝ) (hn : 2 ≤ b.length) (hsum : b.sum = 1) :
    cartToBary centered (some s) (baryToCart centered b) = some (b.map (· * s)) := by
  sorry

/-- non-vacuity: the premises are met by a concrete trichromatic point -/
example : (2 : ℕ) ≤ ([1/2, 1/4, 1/4] : List ℝ).length ∧ ([1/2, 1/4, 1/4] : List ℝ).sum = 1 := by
  constructor <;> norm_num

end C16
end Dreye
