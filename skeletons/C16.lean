/-
  C16 — barycentric and n-sphere coordinate transforms are exact mutual inverses.
  Theorems are over ℝ (`Transc ℝ` := Real.sqrt, Real.arccos, Real.cos, Real.sin, Real.pi).
-/
import Dreye.Model.Bary
import Dreye.Model.Sphere
import Mathlib.Analysis.SpecialFunctions.Trigonometric.Inverse
import Mathlib.Analysis.SpecialFunctions.Log.Basic
import Mathlib.Analysis.SpecialFunctions.Sqrt
import Mathlib.Algebra.BigOperators.Group.List.Basic
import Mathlib.Tactic

namespace Dreye

noncomputable instance instTranscReal : Transc ℝ where
  sqrt := Real.sqrt
  arccos := Real.arccos
  cos := Real.cos
  sin := Real.sin
  pi := Real.pi
  log := Real.log

namespace C16

/-! ## n-sphere coordinates -/

/-- **C16 (radius)**: the first spherical coordinate is the Euclidean norm. -/
theorem sph_radius (x : List ℝ) (h : 2 ≤ x.length) :
    (cartToSph x).head? = some (Real.sqrt ((x.map (fun v => v * v)).sum)) := by
  sorry

/-- shape: one radius and `d-1` angles -/
theorem sph_length (x : List ℝ) (h : 1 ≤ x.length) : (cartToSph x).length = x.length := by
  sorry

/-- **C16 (polar angles in [0, π], azimuth in [0, 2π])**: every angle but the last lies in `[0, π]`,
    the last one in `[0, 2π]`. -/
theorem sph_angle_ranges (x : List ℝ) (h : 2 ≤ x.length) :
    (∀ i, i + 1 < (sphAngles x).length → 0 ≤ (sphAngles x).getD i 0 ∧ (sphAngles x).getD i 0 ≤ Real.pi) ∧
    (0 ≤ (sphAngles x).getLastD 0 ∧ (sphAngles x).getLastD 0 ≤ 2 * Real.pi) := by
  sorry

/-- **C16 (round trip)**: converting to n-sphere coordinates and back recovers the point — every
    dimension ≥ 2, every point, including the origin, axis points and negative coordinates. -/
theorem sph_roundtrip (x : List ℝ) (h : 2 ≤ x.length) : sphToCart (cartToSph x) = x := by
  sorry

end C16
end Dreye
-- touch
