/-
  C19 / C02 — a second equalisation is stable.
  `register_system(sources, domain=…)` equalises the filters' and the sources' domains, and the capture of the resampled
  sources equalises once more (filters' domain against the common grid). The theorems: the common grid `linspace lo hi k`
  has minimum `lo`, maximum `hi` and mean step `(hi − lo)/k`; hence equalising it again against any domain that covers it and
  is at least as fine returns the SAME grid (same end points, same number of intervals) — the second pass cannot lose a point.
-/
import Dreye.Props.C19
import Dreye.Props.ExtrasB

namespace Dreye
namespace C19

/-- the common grid is strictly ascending -/
theorem linspace_strictMono (lo hi : ℚ) (k : ℕ) (hk : 0 < k) (h : lo < hi) :
    List.Pairwise (· < ·) (linspace lo hi k) := by
  sorry

/-- an ascending list is its own sort -/
theorem sortAsc_of_sorted (d : List ℚ) (h : List.Pairwise (· < ·) d) : sortAsc d = d := by
  sorry

theorem linspace_min (lo hi : ℚ) (k : ℕ) (hk : 0 < k) (h : lo < hi) : listMin (linspace lo hi k) = lo := by
  sorry

theorem linspace_max (lo hi : ℚ) (k : ℕ) (hk : 0 < k) (h : lo < hi) : listMax (linspace lo hi k) = hi := by
  sorry

/-- the mean step of the common grid is `(hi − lo)/k` -/
theorem linspace_meanStep (lo hi : ℚ) (k : ℕ) (hk : 0 < k) (h : lo < hi) :
    meanStep (linspace lo hi k) = (hi - lo) / k := by
  sorry

/-- **C19/C02 (a second equalisation is stable)**: let `nd = linspace lo hi k` be a common grid (`k ≥ 1`, `lo < hi`) and `F` any
    domain that covers it (`min F ≤ lo`, `hi ≤ max F`) and is at least as fine (`meanStep F ≤ (hi − lo)/k`). Equalising `[F, nd]`
    computes the bounds `lo`, `hi`, the step `(hi − lo)/k`, does not reject, and asks for exactly `k` intervals again: the new grid is
    `nd` itself. -/
theorem regrid_stable (F : List ℚ) (lo hi : ℚ) (k : ℕ) (hk : 0 < k) (h : lo < hi)
    (hmin : listMin F ≤ lo) (hmax : hi ≤ listMax F) (hstep : meanStep F ≤ (hi - lo) / k) :
    boundsAndDiff [F, linspace lo hi k] = (lo, hi, (hi - lo) / k) ∧
    rejected lo hi ((hi - lo) / k) = false ∧
    (roundHalfEven ((hi - lo) / ((hi - lo) / k))).toNat = k := by
  sorry

/-- non-vacuity: a 2-nm filter grid 398 … 412 against the common grid 400 … 410 in 5 intervals meets all three premises -/
example : listMin ([398, 400, 402, 404, 406, 408, 410, 412] : List ℚ) ≤ 400 ∧
    (410 : ℚ) ≤ listMax ([398, 400, 402, 404, 406, 408, 410, 412] : List ℚ) ∧
    meanStep ([398, 400, 402, 404, 406, 408, 410, 412] : List ℚ) ≤ (410 - 400) / (5 : ℕ) := by
  sorry

end C19
end Dreye
