/-
  C10 — adaptive fit scales intensity and chroma uniformly and stays inside the gamut.
  Unknown `z = X.flatten ++ [s₀, s₁]` (`X` : one intensity vector of length `n` per sample).
-/
import Dreye.Model.Adaptive
import Dreye.Props.Cert
import Dreye.Props.C03
import Mathlib.Algebra.Order.Field.Basic
import Mathlib.Algebra.BigOperators.Group.List.Basic
import Mathlib.Tactic

namespace Dreye
namespace C10

variable {α : Type*} [Field α] [LinearOrder α] [IsStrictOrderedRing α]

/-- the unknown vector of the adaptive problem -/
def zOf (X : List (List α)) (s0 s1 : α) : List α := X.flatten ++ [s0, s1]

/-- a `zRow` picks out block `i` of `X` and the two scales -/
theorem zRow_dot (n : ℕ) (X : List (List α)) (hX : ∀ x ∈ X, x.length = n) (i : ℕ) (hi : i < X.length)
    (blk : List α) (hb : blk.length = n) (c0 c1 s0 s1 : α) :
    dot (zRow X.length n i blk c0 c1) (zOf X s0 s1) = dot blk (X[i]) + c0 * s0 + c1 * s1 := by
  sorry

/-- the scale-only rows (block index out of range) see only the scales -/
theorem zRow_scales_dot (n : ℕ) (X : List (List α)) (hX : ∀ x ∈ X, x.length = n) (c0 c1 s0 s1 : α) :
    dot (zRow X.length n X.length [] c0 c1) (zOf X s0 s1) = c0 * s0 + c1 * s1 := by
  sorry

/-- what the documented conditions say for one sample: fitted total = `s₀`·target total within `d1`, and
    fitted offset from the neutral direction = `s₁`·target offset within `dr` in every receptor -/
def SampleOK (A' : List (List α)) (base' nu b x : List α) (s0 s1 d1 dr : α) : Prop :=
  |(predict A' base' x).sum - s0 * bsum b| ≤ d1 ∧
  ∀ p ∈ (predict A' base' x).zip ((neutralPoint nu b).zip (brad nu b)),
    |s1 * p.2.2 - (p.1 - s0 * p.2.1)| ≤ dr

/-- **C10 (the constraint rows mean what the property says)**: `z = (X, s₀, s₁)` satisfies all rows
    built by the model iff every sample meets the two documented conditions. -/
theorem adaptive_rows_iff (n : ℕ) (A' : List (List α)) (base' nu : List α) (B X : List (List α)) (d1 dr s0 s1 : α)
    (hA : ∀ r ∈ A', r.length = n) (hbase : base'.length = A'.length) (hnu : nu.length = A'.length)
    (hB : ∀ b ∈ B, b.length = A'.length) (hXl : X.length = B.length) (hX : ∀ x ∈ X, x.length = n) :
    (∀ p ∈ (matVec (adaptiveRows n A' base' nu B d1 dr).1 (zOf X s0 s1)).zip (adaptiveRows n A' base' nu B d1 dr).2, p.1 ≤ p.2)
    ↔ ∀ q ∈ B.zip X, SampleOK A' base' nu q.1 q.2 s0 s1 d1 dr := by
  sorry

/-- the 'unity' objective in least-squares form -/
theorem unity_value (n : ℕ) (X : List (List α)) (hX : ∀ x ∈ X, x.length = n) (w0 w1 s0 s1 : α) :
    lsObj (unityQuad X.length n w0 w1).1 (unityQuad X.length n w0 w1).2 (zOf X s0 s1)
      = (w0 * (s0 - 1)) * (w0 * (s0 - 1)) + (w1 * (s1 - 1)) * (w1 * (s1 - 1)) := by
  sorry

/-- the 'max' cost is minus the weighted sum of the scales -/
theorem max_value (n : ℕ) (X : List (List α)) (hX : ∀ x ∈ X, x.length = n) (w0 w1 s0 s1 : α) :
    dot (maxCost X.length n w0 w1) (zOf X s0 s1) = -(w0 * s0 + w1 * s1) := by
  sorry

/-- **C10 ('unity': certified closest feasible pair to (1,1))**: accepted multipliers bound, for EVERY
    feasible `(Y, t₀, t₁)`, how much closer to (1,1) it can be than the returned pair. -/
theorem unity_opt_of_cert (dim : ℕ) (M : List (List α)) (r : List α) (G : List (List α)) (h lam lb : List α)
    (ub : List (Option α)) (b : α) (z y : List α)
    (hb : linLower dim (lsGrad dim M r z) G h [] [] 0 lam [] 0 lb ub = some b)
    (hy : inBox lb ub y = true ∧ ∀ p ∈ (matVec G y).zip h, p.1 ≤ p.2)
    (hz : z.length = dim) (hyl : y.length = dim) (hM : ∀ m ∈ M, m.length = dim) (hr : M.length = r.length) :
    lsObj M r z ≤ lsObj M r y + (dot (lsGrad dim M r z) z - b) := by
  sorry

/-- **C10 ('max': no feasible pair has a larger weighted sum, up to the certified gap)** -/
theorem max_opt_of_cert (dim : ℕ) (c : List α) (G : List (List α)) (h lam lb : List α)
    (ub : List (Option α)) (b : α) (y : List α)
    (hb : linLower dim c G h [] [] 0 lam [] 0 lb ub = some b)
    (hy : inBox lb ub y = true ∧ ∀ p ∈ (matVec G y).zip h, p.1 ≤ p.2) (hyl : y.length = dim) :
    b ≤ dot c y := by
  sorry

/-- **C10 ('unity' with all targets in gamut gives (1,1))**: if intensities `X` reproduce every target
    exactly, then `(X, 1, 1)` meets every sample condition (for non-negative tolerances) and its objective
    value 0 is the smallest possible. -/
theorem unity_in_gamut (A' : List (List α)) (base' nu b x : List α) (d1 dr : α) (hd1 : 0 ≤ d1) (hdr : 0 ≤ dr)
    (hlen : b.length = nu.length) (hrep : predict A' base' x = b) :
    SampleOK A' base' nu b x 1 1 d1 dr := by
  sorry

end C10
end Dreye
