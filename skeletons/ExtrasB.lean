/-
  Further theorems tying the models together (second batch).
-/
import Dreye.Model.Stack
import Dreye.Props.C03
import Dreye.Props.C04
import Dreye.Props.C06Exact
import Dreye.Props.Linalg
import Dreye.Props.C19
import Mathlib.Tactic

namespace Dreye

/-! ## C06 — the solvability hypothesis of `range_exact` from trivial kernels -/
namespace C06
variable {α : Type*} [Field α] [LinearOrder α] [IsStrictOrderedRing α]

/-- **C06 (when `np.linalg.solve` never raises)**: if every square column sub-matrix the enumeration
    uses has only the trivial kernel, then every square system of the enumeration is uniquely solvable
    and the model's Gauss–Jordan `solve` finds the solution — the hypothesis of `range_exact`. -/
theorem squareSystemsSolvable_of_trivial_kernels (n : ℕ) (A : List (List α))
    (hA : ∀ r ∈ A, r.length = n) (hm : A.length ≤ n)
    (hker : ∀ r ∈ combinations n (n - A.length), ∀ z : List α, z.length = A.length →
        matVec (selectCols A (restOf n r)) z = List.replicate A.length 0 → z = List.replicate A.length 0) :
    SquareSystemsSolvable n A := by
  sorry

end C06

/-! ## C19 — an unsorted domain with its array permuted alike gives the same interpolant -/
namespace C19
variable {α : Type*} [Field α] [LinearOrder α] [IsStrictOrderedRing α]

/-- **C19 (unsorted domains)**: if the knots are pairwise distinct, permuting the (knot, value) pairs
    does not change the interpolated array (`interp1d(assume_sorted=False)` sorts them). -/
theorem interp1_perm (fill : α) (xs ys xs' ys' newDom : List α)
    (hl : xs.length = ys.length) (hl' : xs'.length = ys'.length)
    (hperm : List.Perm (xs.zip ys) (xs'.zip ys')) (hnd : xs.Nodup) :
    interp1 fill xs ys newDom = interp1 fill xs' ys' newDom := by
  sorry

end C19

end Dreye
