/-
  C06 (full strength) — the enumeration of basic solutions finds the exact per-source extremes of
  `F = { x | lb ≤ x ≤ ub ∧ A x = b }`, for every size, over any ordered field.
-/
import Dreye.Model.Range
import Dreye.Props.C06
import Mathlib.Algebra.Order.Field.Basic
import Mathlib.LinearAlgebra.Dimension.Constructions
import Mathlib.LinearAlgebra.FiniteDimensional.Defs
import Mathlib.Tactic

namespace Dreye
namespace C06

variable {α : Type*} [Field α] [LinearOrder α] [IsStrictOrderedRing α]

/-- the sources that are *not* fixed at a bound in a candidate (the code's `np.delete(A, ridcs, axis=1)`) -/
def restOf (n : ℕ) (ridcs : List ℕ) : List ℕ := (List.range n).filter (fun j => !ridcs.contains j)

/-- "every square system the enumeration solves is uniquely solvable and `solve` solves it": the code's
    `np.linalg.solve` never raises and returns the solution (all `m × m` column sub-matrices of `A`
    are invertible). -/
def SquareSystemsSolvable (n : ℕ) (A : List (List α)) : Prop :=
  ∀ r ∈ combinations n (n - A.length), ∀ v : List α, v.length = A.length →
    ∃ z : List α, solve (selectCols A (restOf n r)) v = some z ∧ z.length = A.length ∧
      matVec (selectCols A (restOf n r)) z = v ∧
      ∀ z' : List α, z'.length = A.length → matVec (selectCols A (restOf n r)) z' = v → z' = z

/-- **C06 (exact extent, full strength)**: if the system is under-determined (`m < n`), every square
    system of the enumeration is uniquely solvable, and the target is reproducible within the bounds,
    then the reported minimum and maximum of every source are the least and the greatest intensity that
    source takes over *all* in-bound intensity vectors reproducing the target (and they are attained). -/
theorem range_exact (n : ℕ) (A : List (List α)) (b lb ub mins maxs : List α) (nc na : ℕ)
    (hm : A.length < n) (hA : ∀ r ∈ A, r.length = n) (hb : b.length = A.length)
    (hlb : lb.length = n) (hub : ub.length = n)
    (hsolv : SquareSystemsSolvable n A)
    (hF : ∃ x, Feasible A b lb ub x)
    (hr : rangeOfSolutions n A b lb ub = some (mins, maxs, nc, na)) :
    0 < na ∧ ∀ j, j < n →
      (∀ x, Feasible A b lb ub x → mins.getD j 0 ≤ x.getD j 0) ∧
      (∀ x, Feasible A b lb ub x → x.getD j 0 ≤ maxs.getD j 0) ∧
      (∃ x, Feasible A b lb ub x ∧ x.getD j 0 = mins.getD j 0) ∧
      (∃ x, Feasible A b lb ub x ∧ x.getD j 0 = maxs.getD j 0) := by
  sorry

end C06
end Dreye
