/-
  Soundness of the certificate checkers of `Dreye/Cert/Box.lean`, for every size and every ordered field.
  These theorems are what turns "for every other feasible point" into one exact evaluation.
-/
import Dreye.Cert.Box
import Mathlib.Algebra.Order.Field.Basic
import Mathlib.Algebra.BigOperators.Group.List.Basic
import Mathlib.Tactic

namespace Dreye
namespace Cert

variable {α : Type*} [Field α] [LinearOrder α] [IsStrictOrderedRing α]

/-- **exact KKT ⇒ global optimum**: if `x` passes the exact KKT check then no point of the box has a
    smaller least-squares error. -/
theorem kkt_global_min (n : ℕ) (C : List (List α)) (d lb : List α) (ub : List (Option α)) (x y : List α)
    (hk : kktOK n C d lb ub x = true) (hy : inBox lb ub y = true) :
    lsObj C d x ≤ lsObj C d y := by
  sorry

/-- **duality gap ⇒ near-optimality** against every point of the box (finite gap only). -/
theorem gap_bound (n : ℕ) (C : List (List α)) (d lb : List α) (ub : List (Option α)) (x y : List α) (g : α)
    (hx : inBox lb ub x = true) (hy : inBox lb ub y = true) (hn : x.length = n)
    (hC : ∀ r ∈ C, r.length = n) (hd : C.length = d.length)
    (hg : fwGap n C d lb ub x = some g) :
    lsObj C d x ≤ lsObj C d y + g := by
  sorry

/-- the error is a sum of squares -/
theorem lsObj_nonneg (C : List (List α)) (d x : List α) : 0 ≤ lsObj C d x := by
  sorry

/-- zero error means the target is reproduced exactly -/
theorem lsObj_eq_zero_iff (C : List (List α)) (d x : List α) (hd : C.length = d.length) :
    lsObj C d x = 0 ↔ matVec C x = d := by
  sorry

/-- **the predicted capture of a minimiser is unique**, even when the intensities are not:
    two minimisers over the box have the same `C x`. -/
theorem ls_pred_unique (n : ℕ) (C : List (List α)) (d lb : List α) (ub : List (Option α)) (x x' : List α)
    (hx : inBox lb ub x = true) (hx' : inBox lb ub x' = true) (hn : x.length = n)
    (hC : ∀ r ∈ C, r.length = n) (hd : C.length = d.length)
    (hmin : ∀ y, inBox lb ub y = true → lsObj C d x ≤ lsObj C d y)
    (hmin' : ∀ y, inBox lb ub y = true → lsObj C d x' ≤ lsObj C d y) :
    matVec C x = matVec C x' := by
  sorry

/-- **weak duality over box + linear rows + one norm ball**: an accepted multiplier set gives a lower
    bound of the linear cost over the whole feasible set. -/
theorem lin_lower_sound (n : ℕ) (c : List α) (G : List (List α)) (h : List α) (C : List (List α)) (d : List α)
    (eps : α) (lam v : List α) (sigma : α) (lb : List α) (ub : List (Option α)) (b : α) (x : List α)
    (hb : linLower n c G h C d eps lam v sigma lb ub = some b)
    (hx : linFeasible G h C d eps lb ub x) (hxn : x.length = n) :
    b ≤ dot c x := by
  sorry

/-- a convex quadratic lies above its tangent: `‖My-r‖² ≥ ‖Mx-r‖² + ∇·(y-x)` -/
theorem quad_tangent (n : ℕ) (M : List (List α)) (r x y : List α)
    (hx : x.length = n) (hy : y.length = n) (hM : ∀ m ∈ M, m.length = n) (hr : M.length = r.length) :
    lsObj M r x + dot (lsGrad n M r x) (vsub y x) ≤ lsObj M r y := by
  sorry

/-- same for a non-negative diagonal quadratic `Σ e_k x_k²` (the capture-variance objective) -/
theorem diag_quad_tangent (e x y : List α) (he : ∀ v ∈ e, 0 ≤ v)
    (hx : x.length = e.length) (hy : y.length = e.length) :
    dot e (vmul x x) + dot (smul two (vmul e x)) (vsub y x) ≤ dot e (vmul y y) := by
  sorry

/-- **certified sub-optimality of a quadratic secondary objective**: with the gradient at `x` as linear
    cost, an accepted multiplier set bounds how much better any feasible `y` can be. -/
theorem quad_opt_of_cert (n : ℕ) (M : List (List α)) (r : List α) (G : List (List α)) (h : List α)
    (C : List (List α)) (d : List α) (eps : α) (lam v : List α) (sigma : α) (lb : List α) (ub : List (Option α))
    (b : α) (x y : List α)
    (hb : linLower n (lsGrad n M r x) G h C d eps lam v sigma lb ub = some b)
    (hy : linFeasible G h C d eps lb ub y) (hxn : x.length = n) (hyn : y.length = n)
    (hM : ∀ m ∈ M, m.length = n) (hr : M.length = r.length) :
    lsObj M r x ≤ lsObj M r y + (dot (lsGrad n M r x) x - b) := by
  sorry

/-- same with the diagonal quadratic -/
theorem diag_opt_of_cert (n : ℕ) (e : List α) (G : List (List α)) (h : List α)
    (C : List (List α)) (d : List α) (eps : α) (lam v : List α) (sigma : α) (lb : List α) (ub : List (Option α))
    (b : α) (x y : List α) (he : ∀ t ∈ e, 0 ≤ t) (hen : e.length = n)
    (hb : linLower n (smul two (vmul e x)) G h C d eps lam v sigma lb ub = some b)
    (hy : linFeasible G h C d eps lb ub y) (hxn : x.length = n) (hyn : y.length = n) :
    dot e (vmul x x) ≤ dot e (vmul y y) + (dot (smul two (vmul e x)) x - b) := by
  sorry

end Cert
end Dreye
