/-
  C12 — gamut-corrective scalings keep hue and ratios and land in the chromatic gamut.
-/
import Dreye.Model.Project
import Dreye.Props.C03
import Mathlib.Algebra.Order.Field.Basic
import Mathlib.Algebra.BigOperators.Group.List.Basic
import Mathlib.Tactic

namespace Dreye
namespace C12

variable {α : Type*} [Field α] [LinearOrder α] [IsStrictOrderedRing α]

/-- the common factor of intensity scaling -/
def l1Factor (A' : List (List α)) (base' ub : List α) (B : List (List α)) : α :=
  l1Amax A' ub / listMaxOf ((B.map (fun b => vsub b base')).map listMaxOf)

/-- **C12 (one common factor)**: every scaled target is `f • (b − base') + base'` with the same `f`. -/
theorem l1_common_factor (A' : List (List α)) (base' ub : List α) (B : List (List α)) :
    l1Scaling A' base' ub B = B.map (fun b => vadd (smul (l1Factor A' base' ub B) (vsub b base')) base') := by
  sorry

/-- **C12 (capture ratios of the light-induced part are unchanged)**: for any two receptors `c`, `e` of
    one sample, `(b'_c − base_c)(b_e − base_e) = (b'_e − base_e)(b_c − base_c)`. -/
theorem l1_ratios_kept (f : α) (base' b : List α) (hl : base'.length = b.length) (c e : ℕ) :
    ((vadd (smul f (vsub b base')) base').getD c 0 - base'.getD c 0) * (b.getD e 0 - base'.getD e 0) =
    ((vadd (smul f (vsub b base')) base').getD e 0 - base'.getD e 0) * (b.getD c 0 - base'.getD c 0) := by
  sorry

/-- `listMaxOf` of a non-empty list is its greatest element -/
theorem listMaxOf_spec (l : List α) (hne : l ≠ []) :
    listMaxOf l ∈ l ∧ ∀ v ∈ l, v ≤ listMaxOf l := by
  sorry

/-- scaling a list by a positive factor scales its maximum -/
theorem listMaxOf_smul (f : α) (hf : 0 < f) (l : List α) (hne : l ≠ []) :
    listMaxOf (smul f l) = f * listMaxOf l := by
  sorry

/-- **C12 (the largest light-induced capture becomes the smallest single-source maximum)**: with a
    positive overall maximum `bmax`, the maximum of the scaled light-induced parts is `amax`. -/
theorem l1_max_becomes_amax (A' : List (List α)) (base' ub : List α) (B : List (List α))
    (hB : B ≠ []) (hrows : ∀ b ∈ B, b.length = base'.length ∧ b ≠ [])
    (hamax : 0 < l1Amax A' ub)
    (hbmax : 0 < listMaxOf ((B.map (fun b => vsub b base')).map listMaxOf)) :
    listMaxOf (((l1Scaling A' base' ub B).map (fun b => vsub b base')).map listMaxOf) = l1Amax A' ub := by
  sorry

/-- **C12 (chromatic scaling keeps every target's total capture)** -/
theorem dist_total_kept (l1 alpha : α) (chat bhat : List α) (hl : chat.length = bhat.length)
    (hc : chat.sum = 1) (hb : bhat.sum = 1) : (distScaled l1 alpha chat bhat).sum = l1 := by
  sorry

/-- **C12 (… and its hue direction from the neutral point, contracting saturation by `alpha`)** -/
theorem dist_hue_kept (l1 alpha : α) (chat bhat : List α) (hl : chat.length = bhat.length) (hl1 : l1 ≠ 0) :
    vsub (smul (1 / l1) (distScaled l1 alpha chat bhat)) chat = smul alpha (vsub bhat chat) := by
  sorry

/-- **C12 (targets already inside are returned unchanged)**: contraction factor one is the identity. -/
theorem dist_identity (l1 : α) (chat bhat : List α) (hl : chat.length = bhat.length) :
    distScaled l1 1 chat bhat = smul l1 bhat := by
  sorry

/-- **C12 (contracted chromaticities stay in a convex chromatic gamut)**: if the neutral chromaticity
    and `chat + a (bhat − chat)` are convex combinations of the gamut's corner chromaticities, so is
    `chat + a' (bhat − chat)` for every `0 ≤ a' ≤ a` — the common factor (the minimum over samples)
    keeps every sample inside. -/
theorem dist_contraction_in_hull (d : ℕ) (P : List (List α)) (chat bhat : List α) (a a' : α)
    (hP : ∀ p ∈ P, p.length = d) (hc : chat.length = d) (hb : bhat.length = d)
    (ha : 0 ≤ a') (haa : a' ≤ a) (hpos : 0 < a)
    (hin0 : ∃ w : List α, (∀ v ∈ w, 0 ≤ v) ∧ w.sum = 1 ∧ w.length = P.length ∧ convComb d w P = chat)
    (hin1 : ∃ w : List α, (∀ v ∈ w, 0 ≤ v) ∧ w.sum = 1 ∧ w.length = P.length ∧
        convComb d w P = vadd chat (smul a (vsub bhat chat))) :
    ∃ w : List α, (∀ v ∈ w, 0 ≤ v) ∧ w.sum = 1 ∧ w.length = P.length ∧
        convComb d w P = vadd chat (smul a' (vsub bhat chat)) := by
  sorry

end C12
end Dreye
