/-
  C08 — underdetermined fits reproduce the target and optimise the chosen secondary goal.
  (Also the algebra of the variance objective used by C09.)
-/
import Dreye.Model.Under
import Dreye.Props.Cert
import Dreye.Props.C20
import Mathlib.Algebra.Order.Field.Basic
import Mathlib.Algebra.BigOperators.Group.List.Basic
import Mathlib.Tactic

namespace Dreye
namespace C08

variable {α : Type*} [Field α] [LinearOrder α] [IsStrictOrderedRing α]

/-- the feasible set of the underdetermined fit: within the bounds and `‖W(A'x − b')‖₂ ≤ l2_eps`
    (`C = diag(w)A'`, `d = w ⊙ b'` as prepared by the code) -/
def InU (C : List (List α)) (d : List α) (eps : α) (lb : List α) (ub : List (Option α)) (x : List α) : Prop :=
  linFeasible [] [] C d eps lb ub x

/-- **C08 (every feasible point reproduces the target within the requested tolerance)** -/
theorem reproduces (C : List (List α)) (d : List α) (eps : α) (lb : List α) (ub : List (Option α)) (x : List α)
    (h : InU C d eps lb ub x) : lsObj C d x ≤ eps * eps ∧ inBox lb ub x = true := by
  sorry

/-! the quadratic options are least-squares forms `‖M x − r‖²` -/

theorem quad_l2 (n : ℕ) (x : List α) (hx : x.length = n) :
    lsObj (eye n) (List.replicate n 0) x = underObjective .l2 x := by
  sorry

theorem quad_vector (n : ℕ) (x v : List α) (hx : x.length = n) (hv : v.length = n) :
    lsObj (eye n) v x = underObjective (.vector v) x := by
  sorry

theorem quad_number (n : ℕ) (x : List α) (s : α) (hx : x.length = n) :
    lsObj [List.replicate n 1] [s] x = underObjective (.number s) x := by
  sorry

/-- variance across sources: `‖(nI − J) x‖² = n² Σ_k (x_k − mean x)²` -/
theorem quad_var (n : ℕ) (x : List α) (hx : x.length = n) (hn : 0 < n) :
    lsObj (centering n) (List.replicate n 0) x = (n : α) * (n : α) * underObjective .var x := by
  sorry

/-- linear options -/
theorem lin_min (n : ℕ) (x : List α) (hx : x.length = n) : dot (List.replicate n 1) x = underObjective .min x := by
  sorry
theorem lin_max (n : ℕ) (x : List α) (hx : x.length = n) : dot (List.replicate n (-1)) x = underObjective .max x := by
  sorry

/-- **C08 (certified optimality of a linear secondary goal — smallest / largest total intensity)**:
    accepted multipliers bound the goal over *all* intensities that reproduce the target within the
    tolerance and respect the bounds. -/
theorem linear_goal_of_cert (n : ℕ) (c : List α) (C : List (List α)) (d : List α) (eps : α)
    (v : List α) (sigma : α) (lb : List α) (ub : List (Option α)) (b : α) (y : List α)
    (hb : linLower n c [] [] C d eps [] v sigma lb ub = some b)
    (hy : InU C d eps lb ub y) (hyn : y.length = n) : b ≤ dot c y := by
  sorry

/-- **C08 (certified optimality of a quadratic secondary goal — norm, variance, total closest to a
    value, intensities closest to a vector)**: `‖Mx̂ − r‖² ≤ ‖My − r‖² + δ` for every feasible `y`,
    with `δ = ∇·x̂ − b` computed from the accepted multipliers. -/
theorem quadratic_goal_of_cert (n : ℕ) (M : List (List α)) (r : List α) (C : List (List α)) (d : List α) (eps : α)
    (v : List α) (sigma : α) (lb : List α) (ub : List (Option α)) (b : α) (x y : List α)
    (hb : linLower n (lsGrad n M r x) [] [] C d eps [] v sigma lb ub = some b)
    (hy : InU C d eps lb ub y) (hxn : x.length = n) (hyn : y.length = n)
    (hM : ∀ m ∈ M, m.length = n) (hr : M.length = r.length) :
    lsObj M r x ≤ lsObj M r y + (dot (lsGrad n M r x) x - b) := by
  sorry

/-- minimising the Euclidean norm and minimising its square are the same thing: a bound on the squares
    gives a bound on the norms (stated without square roots) -/
theorem l2_sq_bound (a b δ : α) (ha : 0 ≤ a) (hb : 0 ≤ b) (hδ : 0 ≤ δ) (h : a * a ≤ b * b + δ) :
    a ≤ b + δ / (a + b) ∨ a + b = 0 := by
  sorry

/-! ### the variance objective (C09) -/

/-- `sum(Epsilon @ x²) = Σ_k e_k x_k²` with `e = ` column sums of `Epsilon` -/
theorem variance_as_diag (n : ℕ) (Eps : List (List α)) (x : List α) (hE : ∀ r ∈ Eps, r.length = n)
    (hx : x.length = n) :
    varianceObjective Eps x = dot (columnSums n Eps) (vmul x x) := by
  sorry

/-- the reported capture variances sum to the objective -/
theorem capture_variance_sum (Eps : List (List α)) (x : List α) :
    (captureVariance Eps x).sum = varianceObjective Eps x := by
  sorry

/-- variance propagates through a per-receptor adaptation with the *square* of `K` -/
theorem propagate_vec_entry (n : ℕ) (k : List α) (Eps : List (List α)) (c : ℕ)
    (hk : k.length = Eps.length) (hk1 : k.length ≠ 1) (hc : c < Eps.length) :
    (propagateError n (some (.vec k)) Eps)[c]? = some (smul (k[c]'(by omega) * k[c]'(by omega)) Eps[c]) := by
  sorry

end C08
end Dreye
