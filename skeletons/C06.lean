/-
  C06 — range of solutions is the exact per-source extent of the solution polytope
  `F = { x | lb ≤ x ≤ ub ∧ A x = b }`.
-/
import Dreye.Model.Range
import Dreye.Props.Cert
import Mathlib.Algebra.Order.Field.Basic
import Mathlib.Algebra.BigOperators.Group.List.Basic
import Mathlib.Tactic

namespace Dreye
namespace C06

variable {α : Type*} [Field α] [LinearOrder α] [IsStrictOrderedRing α]

/-- membership in the solution polytope -/
def Feasible (A : List (List α)) (b lb ub x : List α) : Prop :=
  x.length = lb.length ∧ x.length = ub.length ∧
  (∀ p ∈ lb.zip x, p.1 ≤ p.2) ∧ (∀ p ∈ x.zip ub, p.1 ≤ p.2) ∧ matVec A x = b

/-- **C06 (accepted candidates are genuine solutions)**: whatever passes the acceptance test lies
    within the bounds and reproduces the target exactly. -/
theorem accepted_sound (A : List (List α)) (b lb ub x : List α)
    (hl : x.length = lb.length) (hu : x.length = ub.length) (h : accepted A b lb ub x = true) :
    Feasible A b lb ub x := by
  sorry

/-- coordinate-wise running minimum: below the start value and below every folded vector -/
theorem foldl_min_le (ub : List α) (acc : List (List α)) (hlen : ∀ x ∈ acc, x.length = ub.length) (j : ℕ)
    (hj : j < ub.length) :
    (acc.foldl (fun m x => List.zipWith mn m x) ub).getD j 0 ≤ ub.getD j 0 ∧
    ∀ x ∈ acc, (acc.foldl (fun m x => List.zipWith mn m x) ub).getD j 0 ≤ x.getD j 0 := by
  sorry

/-- … and it is attained: it is the start value or a coordinate of one of the folded vectors -/
theorem foldl_min_attained (ub : List α) (acc : List (List α)) (hlen : ∀ x ∈ acc, x.length = ub.length) (j : ℕ)
    (hj : j < ub.length) :
    (acc.foldl (fun m x => List.zipWith mn m x) ub).getD j 0 = ub.getD j 0 ∨
    ∃ x ∈ acc, (acc.foldl (fun m x => List.zipWith mn m x) ub).getD j 0 = x.getD j 0 := by
  sorry

theorem foldl_max_ge (lb : List α) (acc : List (List α)) (hlen : ∀ x ∈ acc, x.length = lb.length) (j : ℕ)
    (hj : j < lb.length) :
    lb.getD j 0 ≤ (acc.foldl (fun m x => List.zipWith mx m x) lb).getD j 0 ∧
    ∀ x ∈ acc, x.getD j 0 ≤ (acc.foldl (fun m x => List.zipWith mx m x) lb).getD j 0 := by
  sorry

theorem foldl_max_attained (lb : List α) (acc : List (List α)) (hlen : ∀ x ∈ acc, x.length = lb.length) (j : ℕ)
    (hj : j < lb.length) :
    (acc.foldl (fun m x => List.zipWith mx m x) lb).getD j 0 = lb.getD j 0 ∨
    ∃ x ∈ acc, (acc.foldl (fun m x => List.zipWith mx m x) lb).getD j 0 = x.getD j 0 := by
  sorry

/-- **C06 (min ≤ max, both within the bounds, both attained by feasible points)**: if at least one
    candidate is accepted, then for every source `j` the reported ends satisfy
    `lb_j ≤ min_j ≤ max_j ≤ ub_j`, and each end is the `j`-th intensity of a feasible solution. -/
theorem range_ends (n : ℕ) (A : List (List α)) (b lb ub mins maxs : List α) (nc na : ℕ)
    (hlb : lb.length = n) (hub : ub.length = n)
    (hr : rangeOfSolutions n A b lb ub = some (mins, maxs, nc, na)) (hna : 0 < na) (j : ℕ) (hj : j < n) :
    lb.getD j 0 ≤ mins.getD j 0 ∧ mins.getD j 0 ≤ maxs.getD j 0 ∧ maxs.getD j 0 ≤ ub.getD j 0 ∧
    (∃ x, Feasible A b lb ub x ∧ x.getD j 0 = mins.getD j 0) ∧
    (∃ x, Feasible A b lb ub x ∧ x.getD j 0 = maxs.getD j 0) := by
  sorry

/-- the `j`-th unit vector of length `n` -/
def unitVec (n j : ℕ) : List α := (List.range n).map (fun i => if i = j then 1 else 0)

/-- **C06 (extremality from a dual certificate)**: multipliers accepted by the verified checker for the
    cost `e_j` over `{A x ≤ b, −A x ≤ −b, box}` bound the `j`-th intensity of *every* feasible solution
    from below; with cost `−e_j` from above. (Instance of `Cert.lin_lower_sound`.) -/
theorem lower_end_of_cert (n : ℕ) (A : List (List α)) (b lb : List α) (ub : List α) (lam : List α) (v : α) (j : ℕ)
    (x : List α) (hx : Feasible A b lb ub x) (hn : x.length = n) (hj : j < n)
    (hA : ∀ r ∈ A, r.length = n) (hb : A.length = b.length)
    (hc : linLower n (unitVec n j) (A ++ A.map (fun r => r.map (fun t => -t))) (b ++ b.map (fun t => -t))
            [] [] 0 lam [] 0 lb (ub.map some) = some v) :
    v ≤ x.getD j 0 := by
  sorry

theorem upper_end_of_cert (n : ℕ) (A : List (List α)) (b lb : List α) (ub : List α) (lam : List α) (v : α) (j : ℕ)
    (x : List α) (hx : Feasible A b lb ub x) (hn : x.length = n) (hj : j < n)
    (hA : ∀ r ∈ A, r.length = n) (hb : A.length = b.length)
    (hc : linLower n ((unitVec n j).map (fun t => -t)) (A ++ A.map (fun r => r.map (fun t => -t)))
            (b ++ b.map (fun t => -t)) [] [] 0 lam [] 0 lb (ub.map some) = some v) :
    x.getD j 0 ≤ -v := by
  sorry

/-- **C06 (spaced solutions stay in the polytope)**: points of an affine line `p + t q` between two
    parameter values at which the line is inside the box are inside the box. -/
theorem affine_segment_in_box (lb ub p q : List α) (a c t : α) (hat : a ≤ t) (htc : t ≤ c)
    (hl : p.length = lb.length) (hu : p.length = ub.length) (hq : q.length = p.length)
    (ha : (∀ z ∈ lb.zip (vadd p (smul a q)), z.1 ≤ z.2) ∧ (∀ z ∈ (vadd p (smul a q)).zip ub, z.1 ≤ z.2))
    (hc : (∀ z ∈ lb.zip (vadd p (smul c q)), z.1 ≤ z.2) ∧ (∀ z ∈ (vadd p (smul c q)).zip ub, z.1 ≤ z.2)) :
    (∀ z ∈ lb.zip (vadd p (smul t q)), z.1 ≤ z.2) ∧ (∀ z ∈ (vadd p (smul t q)).zip ub, z.1 ≤ z.2) := by
  sorry

end C06
end Dreye
