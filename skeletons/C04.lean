/-
  C04 — the default fit is the global bounded weighted least-squares optimum.
-/
import Dreye.Model.Fit
import Dreye.Props.Cert
import Mathlib.Algebra.Order.Field.Basic
import Mathlib.Algebra.BigOperators.Group.List.Basic
import Mathlib.Tactic

namespace Dreye
namespace C04

variable {α : Type*} [Field α] [LinearOrder α] [IsStrictOrderedRing α]

/-- well-shapedness of the API-level arguments: `A` is `nf × n`, `x` has `n` entries, `w` and `b` have
    `nf` entries, `baseline` has `nf` entries or is a length-1 (scalar) array -/
structure Shapes (nf n : ℕ) (A : List (List α)) (baseline w b x : List α) : Prop where
  hA : A.length = nf
  hrows : ∀ r ∈ A, r.length = n
  hx : x.length = n
  hw : w.length = nf
  hb : b.length = nf
  hbase : baseline.length = nf ∨ baseline.length = 1

/-- **C04 (the problem handed to the solver is the documented one, per-receptor / scalar K)**:
    the least-squares data built by the parameter preparation has, at every `x`, exactly the weighted
    squared error of the model's relative capture `K(Ax+baseline)` against the target. -/
theorem prepare_correct_vec (nf n : ℕ) (A : List (List α)) (k baseline w b x : List α)
    (h : Shapes nf n A baseline w b x) (hk : k.length = nf ∨ k.length = 1) :
    lsObj (gaussC (transformA n (some (.vec k)) A) w)
          (gaussD (transformBase nf (some (.vec k)) baseline) w b) x
      = docObj (.vec k) A baseline w b x := by
  sorry

/-- same for a square matrix `K` -/
theorem prepare_correct_mat (nf n : ℕ) (A M : List (List α)) (baseline w b x : List α)
    (h : Shapes nf n A baseline w b x) (hM : M.length = nf) (hMr : ∀ r ∈ M, r.length = nf) :
    lsObj (gaussC (transformA n (some (.mat M)) A) w)
          (gaussD (transformBase nf (some (.mat M)) baseline) w b) x
      = docObj (.mat M) A baseline w b x := by
  sorry

/-- `K = None` is the identity adaptation -/
theorem prepare_correct_none (nf n : ℕ) (A : List (List α)) (baseline w b x : List α)
    (h : Shapes nf n A baseline w b x) :
    lsObj (gaussC (transformA n none A) w) (gaussD (transformBase nf none baseline) w b) x
      = docObj (.vec [1]) A baseline w b x := by
  sorry

/-- **C04 (returned prediction = the model's capture of the returned intensities)**, per-receptor K -/
theorem predict_eq_model_vec (nf n : ℕ) (A : List (List α)) (k baseline w b x : List α)
    (h : Shapes nf n A baseline w b x) (hk : k.length = nf ∨ k.length = 1) :
    predict (transformA n (some (.vec k)) A) (transformBase nf (some (.vec k)) baseline) x
      = relCapture (.vec k) baseline (systemCapture A x) := by
  sorry

theorem predict_eq_model_mat (nf n : ℕ) (A M : List (List α)) (baseline w b x : List α)
    (h : Shapes nf n A baseline w b x) (hM : M.length = nf) (hMr : ∀ r ∈ M, r.length = nf) :
    predict (transformA n (some (.mat M)) A) (transformBase nf (some (.mat M)) baseline) x
      = relCapture (.mat M) baseline (systemCapture A x) := by
  sorry

/-- **C04 (global optimum)**: if the exact KKT check accepts `x` for the prepared problem, then the
    documented weighted squared capture error at `x` is minimal over *all* in-bound intensities. -/
theorem fit_optimal_of_kkt_vec (nf n : ℕ) (A : List (List α)) (k baseline w b x y lb : List α)
    (ub : List (Option α))
    (h : Shapes nf n A baseline w b x) (hk : k.length = nf ∨ k.length = 1)
    (hkkt : kktOK n (gaussC (transformA n (some (.vec k)) A) w)
              (gaussD (transformBase nf (some (.vec k)) baseline) w b) lb ub x = true)
    (hy : inBox lb ub y = true) :
    docObj (.vec k) A baseline w b x ≤ docObj (.vec k) A baseline w b y := by
  sorry

theorem fit_optimal_of_kkt_mat (nf n : ℕ) (A M : List (List α)) (baseline w b x y lb : List α)
    (ub : List (Option α))
    (h : Shapes nf n A baseline w b x) (hM : M.length = nf) (hMr : ∀ r ∈ M, r.length = nf)
    (hkkt : kktOK n (gaussC (transformA n (some (.mat M)) A) w)
              (gaussD (transformBase nf (some (.mat M)) baseline) w b) lb ub x = true)
    (hy : inBox lb ub y = true) :
    docObj (.mat M) A baseline w b x ≤ docObj (.mat M) A baseline w b y := by
  sorry

/-- **C04 (zero error exactly when the target is reproduced)**: with non-zero weights the documented
    error vanishes iff the model's capture of `x` is the target. -/
theorem zero_error_iff (nf n : ℕ) (K : Adapt α) (A : List (List α)) (baseline w b x : List α)
    (hw : ∀ v ∈ w, v ≠ 0)
    (hlen : (relCapture K baseline (systemCapture A x)).length = b.length) (hwl : w.length = b.length) :
    docObj K A baseline w b x = 0 ↔ relCapture K baseline (systemCapture A x) = b := by
  sorry

end C04
end Dreye
