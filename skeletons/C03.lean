/-
  C03 — gamut membership is exact: in-gamut iff reproducible by in-bound intensities.
  Spec: `Gamut = { A' x + base' | lb ≤ x ≤ ub }`.  The code decides membership in `conv (getP …)`.
-/
import Dreye.Model.Gamut
import Dreye.Props.Cert
import Mathlib.Algebra.Order.Field.Basic
import Mathlib.Algebra.BigOperators.Group.List.Basic
import Mathlib.Tactic

namespace Dreye
namespace C03

variable {α : Type*} [Field α] [LinearOrder α] [IsStrictOrderedRing α]

/-- `t ∈ [0,1]^n` -/
def unitBox (t : List α) : Prop := ∀ v ∈ t, 0 ≤ v ∧ v ≤ 1

/-- the product weights are valid convex weights -/
theorem cweights_valid (t : List α) (ht : unitBox t) :
    (∀ v ∈ cweights t, 0 ≤ v) ∧ (cweights t).sum = 1 ∧ (cweights t).length = 2 ^ t.length := by
  sorry

theorem corners_length (lb ub : List α) (h : lb.length = ub.length) :
    (corners lb ub).length = 2 ^ lb.length ∧ ∀ c ∈ corners lb ub, c.length = lb.length := by
  sorry

/-- **C03 (box ⊆ conv corners)**: the box point with coordinates `lb + t(ub−lb)` is the convex
    combination of the `2^n` corners with the product weights — for every number of sources. -/
theorem box_point_is_conv_comb (lb ub t : List α) (h1 : lb.length = ub.length) (h2 : t.length = lb.length) :
    convComb lb.length (cweights t) (corners lb ub) = boxPoint lb ub t := by
  sorry

/-- every point of the box has such a `t` (when `lb ≤ ub`) -/
theorem box_has_param (lb ub x : List α) (h1 : lb.length = ub.length) (hx : x.length = lb.length)
    (hle : ∀ p ∈ lb.zip ub, p.1 ≤ p.2)
    (hin : (∀ p ∈ lb.zip x, p.1 ≤ p.2) ∧ (∀ p ∈ x.zip ub, p.1 ≤ p.2)) :
    ∃ t : List α, t.length = lb.length ∧ unitBox t ∧ boxPoint lb ub t = x := by
  sorry

/-- **C03 (conv corners ⊆ box)**: any convex combination of the corners lies in the box. -/
theorem conv_corners_in_box (lb ub w : List α) (h1 : lb.length = ub.length)
    (hle : ∀ p ∈ lb.zip ub, p.1 ≤ p.2)
    (hw : (∀ v ∈ w, 0 ≤ v) ∧ w.sum = 1 ∧ w.length = (corners lb ub).length) :
    let x := convComb lb.length w (corners lb ub)
    x.length = lb.length ∧ (∀ p ∈ lb.zip x, p.1 ≤ p.2) ∧ (∀ p ∈ x.zip ub, p.1 ≤ p.2) := by
  sorry

/-- the affine model commutes with convex combinations: `A'(Σ w_k c_k) + base' = Σ w_k (A' c_k + base')`
    whenever `Σ w = 1` -/
theorem predict_conv_comb (n : ℕ) (A' : List (List α)) (base' w : List α) (cs : List (List α))
    (hA : ∀ r ∈ A', r.length = n) (hb : base'.length = A'.length) (hc : ∀ c ∈ cs, c.length = n)
    (hw : w.sum = 1) (hwl : w.length = cs.length) :
    predict A' base' (convComb n w cs) = convComb A'.length w (cs.map (predict A' base')) := by
  sorry

/-- **C03 (certified in ⇒ reproducible)**: if convex weights express `b` by the corner images (what a
    Delaunay hit or a zero NNLS residual asserts), then some intensity vector within the bounds
    reproduces `b` through the model — finite bounds, any K / baseline / non-zero lower bounds. -/
theorem reproducible_of_weights (A' : List (List α)) (base' lb ub w b : List α)
    (h1 : lb.length = ub.length) (hA : ∀ r ∈ A', r.length = lb.length) (hb : base'.length = A'.length)
    (hle : ∀ p ∈ lb.zip ub, p.1 ≤ p.2)
    (hw : (∀ v ∈ w, 0 ≤ v) ∧ w.sum = 1 ∧ w.length = (corners lb ub).length)
    (hb' : convComb A'.length w ((corners lb ub).map (predict A' base')) = b) :
    ∃ x : List α, x.length = lb.length ∧ (∀ p ∈ lb.zip x, p.1 ≤ p.2) ∧ (∀ p ∈ x.zip ub, p.1 ≤ p.2) ∧
      predict A' base' x = b := by
  sorry

/-- **C03 (reproducible ⇒ in the hull of the corner images)**: every capture of in-bound intensities
    is a convex combination of the `2^n` corner images. -/
theorem weights_of_reproducible (A' : List (List α)) (base' lb ub x : List α)
    (h1 : lb.length = ub.length) (hA : ∀ r ∈ A', r.length = lb.length) (hb : base'.length = A'.length)
    (hx : x.length = lb.length) (hle : ∀ p ∈ lb.zip ub, p.1 ≤ p.2)
    (hin : (∀ p ∈ lb.zip x, p.1 ≤ p.2) ∧ (∀ p ∈ x.zip ub, p.1 ≤ p.2)) :
    ∃ w : List α, (∀ v ∈ w, 0 ≤ v) ∧ w.sum = 1 ∧ w.length = (corners lb ub).length ∧
      convComb A'.length w ((corners lb ub).map (predict A' base')) = predict A' base' x := by
  sorry

/-- **C03 (separating hyperplane ⇒ not a convex combination)**: the "out" certificate is sound. -/
theorem not_conv_of_separator (d : ℕ) (P : List (List α)) (h b : List α) (c : α)
    (hs : sepCert P h c b = true) (hd : b.length = d) :
    ¬ ∃ w : List α, (∀ v ∈ w, 0 ≤ v) ∧ w.sum = 1 ∧ w.length = P.length ∧ convComb d w P = b := by
  sorry

/-- **C03 (certified out ⇒ not reproducible)**: with a separator for the corner images, no in-bound
    intensity vector reproduces `b`. -/
theorem not_reproducible_of_separator (A' : List (List α)) (base' lb ub h b : List α) (c : α)
    (h1 : lb.length = ub.length) (hA : ∀ r ∈ A', r.length = lb.length) (hb : base'.length = A'.length)
    (hle : ∀ p ∈ lb.zip ub, p.1 ≤ p.2) (hbl : b.length = A'.length)
    (hs : sepCert ((corners lb ub).map (predict A' base')) h c b = true) :
    ¬ ∃ x : List α, x.length = lb.length ∧ (∀ p ∈ lb.zip x, p.1 ≤ p.2) ∧ (∀ p ∈ x.zip ub, p.1 ≤ p.2) ∧
      predict A' base' x = b := by
  sorry

/-- **C03 (offset subtraction is harmless)**: subtracting one vector from all points and from the target
    does not change which weights work. -/
theorem conv_comb_translate (d : ℕ) (P : List (List α)) (w o b : List α)
    (hP : ∀ p ∈ P, p.length = d) (ho : o.length = d) (hb : b.length = d)
    (hw : w.sum = 1) (hwl : w.length = P.length) :
    convComb d w (P.map (fun p => vsub p o)) = vsub b o ↔ convComb d w P = b := by
  sorry

/-- the exact "in" certificate checker is sound -/
theorem inHullCert_sound (d : ℕ) (P : List (List α)) (w b : List α) (h : inHullCert d P w b = true) :
    (∀ v ∈ w, 0 ≤ v) ∧ w.sum = 1 ∧ w.length = P.length ∧ convComb d w P = b := by
  sorry

end C03
end Dreye
