/-
  C07 — Poisson and excitation models minimise their documented objective; all agree in gamut.
  Excitation: any ordered field.  Poisson: ℝ (`Transc ℝ` from Dreye.Props.C16).
-/
import Dreye.Model.Models
import Dreye.Props.Cert
import Dreye.Props.C16
import Mathlib.Analysis.SpecialFunctions.Log.Basic
import Mathlib.Tactic

namespace Dreye
namespace C07

section excitation
variable {α : Type*} [Field α] [LinearOrder α] [IsStrictOrderedRing α]

/-- **C07 (the code's quasi-convex term is the documented excitation difference)**:
    `|b − p| / ((1+b)(1+p)) = |b/(1+b) − p/(1+p)|` whenever `1+b, 1+p > 0`. -/
theorem exc_identity (b p : α) (hb : 0 < 1 + b) (hp : 0 < 1 + p) : excCodeTerm b p = excDocTerm b p := by
  sorry

/-- one receptor: excitation error `≤ t` is the pair of linear inequalities used by `excLevelRows` -/
theorem exc_term_le_iff (b p t : α) (hb : 0 < 1 + b) (hp : 0 < 1 + p) :
    excDocTerm b p ≤ t ↔ (b - p ≤ t * (1 + b) * (1 + p) ∧ p - b ≤ t * (1 + b) * (1 + p)) := by
  sorry

/-- **C07 (excitation: certified lower bound on the achievable level)**: if the verified checker accepts
    multipliers for the zero cost over the level-`t` rows with a *positive* value, then no in-bound
    intensity vector satisfies those rows — no in-bound fit has excitation error `≤ t` in all receptors. -/
theorem level_infeasible_of_cert (n : ℕ) (G : List (List α)) (h lam lb : List α) (ub : List (Option α)) (v : α)
    (hc : linLower n (List.replicate n 0) G h [] [] 0 lam [] 0 lb ub = some v) (hv : 0 < v) :
    ¬ ∃ x : List α, x.length = n ∧ inBox lb ub x = true ∧ (∀ p ∈ (matVec G x).zip h, p.1 ≤ p.2) := by
  sorry

end excitation

section poisson
open Real

/-- one term of the Poisson objective is convex in the predicted capture: for `p, q > 0`, `b ≥ 0`,
    `q − b log q ≥ p − b log p + (1 − b/p)(q − p)` -/
theorem poisson_term_tangent (b p q : ℝ) (hb : 0 ≤ b) (hp : 0 < p) (hq : 0 < q) :
    p - b * Real.log p + (1 - b / p) * (q - p) ≤ q - b * Real.log q := by
  sorry

/-- **C07 (Poisson: the tangent bound)**: for weights `w ≥ 0`, targets `b ≥ 0` and positive predicted
    captures `p`, `q` of equal length, the objective at `q` is at least the objective at `p` plus the
    directional derivative. -/
theorem poisson_tangent (w b p q : List ℝ) (hl1 : w.length = b.length) (hl2 : b.length = p.length)
    (hl3 : p.length = q.length) (hw : ∀ v ∈ w, 0 ≤ v) (hb : ∀ v ∈ b, 0 ≤ v) (hp : ∀ v ∈ p, 0 < v) (hq : ∀ v ∈ q, 0 < v) :
    poissonObj w b p +
      dot (List.zipWith (fun (wc : ℝ) (bp : ℝ × ℝ) => wc * (1 - bp.1 / bp.2)) w (b.zip p)) (vsub q p)
      ≤ poissonObj w b q := by
  sorry

/-- **C07 (Poisson: certified near-optimality against every in-bound intensity vector)**: with the
    (logarithm-free) gradient `g` at `x̂`, and `m = min_{box} g·z`, every in-bound `y` with positive
    predicted capture satisfies `obj(x̂) ≤ obj(y) + (g·x̂ − m)`. -/
theorem poisson_gap_bound (n : ℕ) (A' : List (List ℝ)) (base' w b lb : List ℝ) (ub : List (Option ℝ))
    (x y : List ℝ) (m : ℝ)
    (hA : ∀ r ∈ A', r.length = n) (hbase : base'.length = A'.length) (hwl : w.length = A'.length)
    (hbl : b.length = A'.length) (hxn : x.length = n)
    (hx : inBox lb ub x = true) (hy : inBox lb ub y = true)
    (hw : ∀ v ∈ w, 0 ≤ v) (hb : ∀ v ∈ b, 0 ≤ v)
    (hpx : ∀ v ∈ totalCapture A' base' x, 0 < v) (hpy : ∀ v ∈ totalCapture A' base' y, 0 < v)
    (hm : boxMinLin (poissonGrad n A' w b (totalCapture A' base' x)) lb ub = some m) :
    poissonObj w b (totalCapture A' base' x) ≤ poissonObj w b (totalCapture A' base' y)
      + (dot (poissonGrad n A' w b (totalCapture A' base' x)) x - m) := by
  sorry

/-- **C07 (in gamut, the Poisson optimum reproduces the target)**: the objective at `p = b` is not larger
    than at any other positive prediction (Gibbs' inequality). -/
theorem poisson_min_at_target (w b p : List ℝ) (hl1 : w.length = b.length) (hl2 : b.length = p.length)
    (hw : ∀ v ∈ w, 0 ≤ v) (hb : ∀ v ∈ b, 0 < v) (hp : ∀ v ∈ p, 0 < v) :
    poissonObj w b b ≤ poissonObj w b p := by
  sorry

end poisson

end C07
end Dreye
