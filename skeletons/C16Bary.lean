/-
  C16 (barycentric half) — the barycentric ↔ cartesian conversion.
  Theorems are over ℝ (`Transc ℝ` from `Dreye.Props.C16`).
-/
import Dreye.Props.C16

namespace Dreye
namespace C16

/-- `h_j = √((j+2)/(2(j+1)))`: the height added in column `j` -/
noncomputable def hcoef (j : ℕ) : ℝ := Real.sqrt (((j : ℝ) + 2) / (2 * ((j : ℝ) + 1)))

/-- closed form of the vertex matrix: row `i`, column `j` is `0` above the "diagonal" `i = j+1`,
    `h_j` on it and the centroid value `h_j/(j+2)` below it -/
noncomputable def baryClosed (n : ℕ) : List (List ℝ) :=
  (List.range n).map fun i => (List.range (n - 1)).map fun j =>
    if i ≤ j then 0 else if i = j + 1 then hcoef j else hcoef j / ((j : ℝ) + 2)

/-- **C16 (the recursion computes the regular simplex)**: the matrix built by the code's loop is the
    closed form above, for every `n`. -/
theorem baryT_closed_form (n : ℕ) : (baryT n : List (List ℝ)) = baryClosed n := by
  sorry

/-- **C16 (regular simplex with unit edges)**: any two distinct vertices are at distance exactly 1. -/
theorem simplex_regular (n i k : ℕ) (hi : i < n) (hk : k < n) (hik : i ≠ k) :
    sqdist ((baryT n : List (List ℝ)).getD i []) ((baryT n : List (List ℝ)).getD k []) = 1 := by
  sorry

/-- **C16 (affine)**: barycentric → cartesian is linear (and the centred variant subtracts a constant). -/
theorem bary_linear (a : ℝ) (x y : List ℝ) (h : x.length = y.length) :
    baryToCart false (vadd (smul a x) y) = vadd (smul a (baryToCart false x)) (baryToCart false y) := by
  sorry

theorem bary_centered (x : List ℝ) :
    baryToCart true x = vsub (baryToCart false x) (baryCenter x.length) := by
  sorry

/-- **C16 (invertible on every plane Σx = s)**: two barycentric points with the same coordinate sum and
    the same cartesian image are equal — so the reverse conversion is determined uniquely. -/
theorem bary_injective_on_plane (x y : List ℝ) (hl : x.length = y.length) (hn : 2 ≤ x.length)
    (hs : x.sum = y.sum) (h : baryToCart false x = baryToCart false y) : x = y := by
  sorry

/-- **C16 (what the reverse conversion returns)**: any `b` solving the augmented system
    `b · [T | 1] = [x | 1]` — which is what `X @ inv([A, 1])` computes — maps back to `x` and has
    coordinates summing to 1 (hence to `L1` after the final multiplication). -/
theorem cart_to_bary_spec (x b : List ℝ) (hb : b.length = x.length + 1)
    (h : vecMat (x.length + 1) b ((baryT (x.length + 1) : List (List ℝ)).map (· ++ [(1 : ℝ)])) = x ++ [1]) :
    baryToCart false b = x ∧ b.sum = 1 := by
  sorry

/-- scaling by `L1` gives coordinates summing to `L1` -/
theorem cart_to_bary_l1 (b : List ℝ) (l : ℝ) (h : b.sum = 1) : (b.map (· * l)).sum = l := by
  sorry

/-- **C16 (chromatic reduction ignores the overall scale)** -/
theorem dim_reduction_scale_invariant (c : ℝ) (hc : 0 < c) (ctr : Bool) (x : List ℝ) :
    baryDimReduction ctr (smul c x) = baryDimReduction ctr x := by
  sorry

end C16
end Dreye
