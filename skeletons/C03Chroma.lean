/-
  C03 / C12 — chromatic (L1-normalised) gamut membership.
  `in_hull(B, normalized=True)` tests the chromaticity `b / Σb` against the hull of the chromaticities `p / Σp` of the
  gamut's corner images `P` (in barycentric coordinates, which are an injective affine image of the plane `Σ = 1`:
  `C16.bary_linear`, `C16.bary_injective_on_plane`). The theorem below says what that means for the target itself:
  its chromaticity is in the chromatic gamut iff SOME positive multiple of the target is in the gamut — for every
  dimension and every number of points, over any ordered field.
-/
import Dreye.Props.C03
import Dreye.Model.Bary

namespace Dreye
namespace C03

variable {α : Type} [Field α] [LinearOrder α] [IsStrictOrderedRing α]

set_option linter.unusedSectionVars false

/-- for a non-negative vector the model's `l1normalize` (division by `Σ|x|`) is division by the sum -/
theorem l1normalize_nonneg (x : List α) (hx : ∀ v ∈ x, 0 ≤ v) (hs : 0 < x.sum) :
    l1normalize x = x.map (· / x.sum) := by
  sorry

/-- chromaticities sum to one -/
theorem l1normalize_sum (x : List α) (hx : ∀ v ∈ x, 0 ≤ v) (hs : 0 < x.sum) : (l1normalize x).sum = 1 := by
  sorry

/-- the sum of a convex combination is the combination of the sums -/
theorem sum_convComb (d : ℕ) : ∀ (w : List α) (P : List (List α)), w.length = P.length → (∀ p ∈ P, p.length = d) →
    (convComb d w P).sum = (List.zipWith (fun (wi : α) (p : List α) => wi * p.sum) w P).sum := by
  sorry

/-- **C03/C12 (chromatic membership)**: for corner images `P` with non-negative entries and positive totals, and a
    non-negative target `b` with positive total: the chromaticity of `b` is a convex combination of the chromaticities of
    `P` **iff** some positive multiple `t • b` of the target is a convex combination of `P` itself
    (i.e., by `C03.reproducible_of_weights` / `weights_of_reproducible`, is reproducible by in-bound intensities). -/
theorem chromatic_mem_iff (d : ℕ) (P : List (List α)) (b : List α)
    (hP : ∀ p ∈ P, p.length = d ∧ (∀ v ∈ p, 0 ≤ v) ∧ 0 < p.sum)
    (hb : b.length = d) (hbn : ∀ v ∈ b, 0 ≤ v) (hbs : 0 < b.sum) :
    (∃ w, weightsOK w (P.map l1normalize) = true ∧ convComb d w (P.map l1normalize) = l1normalize b) ↔
    (∃ t : α, 0 < t ∧ ∃ μ, weightsOK μ P = true ∧ convComb d μ P = smul t b) := by
  sorry

/-- consequence used by the chromatic scaling (C12): membership of the chromaticity does not depend on the
    overall intensity of the target -/
theorem chromatic_mem_scale_invariant (d : ℕ) (P : List (List α)) (b : List α) (c : α) (hc : 0 < c)
    (hP : ∀ p ∈ P, p.length = d ∧ (∀ v ∈ p, 0 ≤ v) ∧ 0 < p.sum)
    (hb : b.length = d) (hbn : ∀ v ∈ b, 0 ≤ v) (hbs : 0 < b.sum) :
    (∃ w, weightsOK w (P.map l1normalize) = true ∧ convComb d w (P.map l1normalize) = l1normalize (smul c b)) ↔
    (∃ w, weightsOK w (P.map l1normalize) = true ∧ convComb d w (P.map l1normalize) = l1normalize b) := by
  sorry

/-- non-vacuity: a concrete gamut and target meeting all hypotheses, inside the chromatic gamut -/
example : ∃ w, weightsOK w ([[2, 0], [0, 4], [3, 3]].map (l1normalize (α := ℚ))) = true ∧
    convComb 2 w ([[2, 0], [0, 4], [3, 3]].map l1normalize) = l1normalize ([1, 3] : List ℚ) := by
  sorry

end C03
end Dreye
