"""C01 — capture is the pairwise, linear trapezoid integral (correspondence + predicate B)."""
import numpy as np
from common import F, rs, vs, ms, dyadic, close, call, as_given


def dom_text(dom, trapz):
    if np.isscalar(dom):
        return "step %s %d" % (rs(dom), 1 if trapz else 0)
    return "grid " + vs(dom)


def gen_domain(rng, nd):
    kind = rng.choice(["uniform", "nonuniform", "step", "step_rect", "intgrid"])
    if kind == "intgrid":
        # whole-number wavelengths handed in with an integer dtype (np.arange(300, 700), [0, 3, 4]): odd and even steps
        steps = rng.integers(1, 8, size=nd - 1)
        if rng.integers(2):
            steps[:] = int(rng.integers(1, 6))
        start = int(rng.integers(-4, 400))
        return kind, np.concatenate([[start], start + np.cumsum(steps)]).astype(np.int64), bool(rng.integers(4) > 0)
    # physical unit of the domain axis: nm, or metres / km-like scales (exact powers of two)
    unit = 2.0 ** int(rng.choice([0, 0, 0, -10, -23, -30, -40, 8]))
    if kind == "uniform":
        start = float(dyadic(rng, 0, 400, 2))
        step = float(dyadic(rng, 0.25, 8, 2))
        return kind, (start + step * np.arange(nd)) * unit, True
    if kind == "nonuniform":
        steps = dyadic(rng, 0.125, 8, 3, size=nd - 1)
        if rng.integers(2):   # strongly non-uniform: fine at one end, coarse at the other
            steps = np.sort(steps) * np.where(np.arange(nd - 1) < (nd - 1) // 2, 0.125, 4.0)
        start = float(dyadic(rng, -4, 300, 2))
        return kind, np.concatenate([[start], start + np.cumsum(steps)]) * unit, bool(rng.integers(2))
    dx = float(dyadic(rng, 0.125, 8, 3)) * unit
    return kind, dx, kind == "step"


def sparsify(rng, arr, p_row):
    """sparse data: whole spectra that are identically zero ("lights off" frames of a stimulus, a blocked channel, a receptor that
    is not expressed) among the others -- each row along the last-but-one axis is zeroed with probability p_row, independently;
    returns the number of zero rows"""
    if arr.ndim < 2:
        return 0
    flat = arr.reshape(-1, arr.shape[-1])
    z = rng.random(flat.shape[0]) < p_row
    flat[z] = 0.0
    return int(np.sum(z))


def scale_of(dom, trapz, f, s):
    """Σ|terms| of the exact computation (a tolerance scale only)"""
    y = np.abs(f) * np.abs(s)
    if np.isscalar(dom):
        return float(np.sum(y) * dom) + 1e-300
    d = np.abs(np.diff(dom))
    return float(np.sum(d * (y[1:] + y[:-1]) / 2)) + 1e-300


def run(R):
    import dreye
    from dreye.api.utils import integral
    n = 200 if R.tier == "quick" else 4000
    R.rule = ("random dyadic filters/signals; shapes 2Dx2D, 1Dx1D, 1Dx2D, 2Dx1D, batch x batch, 1-batch x batch, "
              "2D x batch; domains uniform/non-uniform arrays, scalar step with trapz True/False; plus integral() on "
              "rank 1-3 arrays (any axis, keepdims) and ReceptorEstimator.capture (signals on the filters' own domain: domain left out, or "
              "the very same domain / step handed over again explicitly as the same object, a copy, a list or a strided view). Sparse data: in "
              "a third of the matrix cases (up to 7 signals) whole signal rows (each with probability 1/2) and filter rows (1/4) are identically "
              "zero ('lights off' frames between lit ones; counted by the number of zero signal rows), also in half of the large calls. Non-trivial: >=2 filters and >=2 "
              "signals with pairwise distinct rows (sparse cases: >=2 distinct non-zero filters and >=2 distinct non-zero signals) and >=3 "
              "domain points (a transposed/diagonal result differs).")
    RT = 1e-12
    cases = []
    for k in range(n):
        if not R.want(k):
            continue
        rng = R.rng(1, k)
        nd = int(rng.integers(2, 9))
        kind, dom, trapz = gen_domain(rng, nd)
        shape = rng.choice(["2x2", "1x1", "1x2", "2x1", "bxb", "1bxb", "2xb", "integral", "estimator"])
        nf, ns, nb = int(rng.integers(1, 5)), int(rng.integers(1, 5)), int(rng.integers(1, 4))
        c = dict(k=k, shape=str(shape), domain_kind=kind, dom=dom, trapz=bool(trapz), nd=nd)
        R.count("shape:" + str(shape)); R.count("domain:" + kind)
        if shape == "integral":
            rank = int(rng.integers(1, 4))
            shp = [int(rng.integers(1, 4)) for _ in range(rank)]
            axis = int(rng.integers(-rank, rank))
            shp[axis] = nd
            arr = dyadic(rng, -4, 4, 5, size=tuple(shp))
            keep = bool(rng.integers(2))
            d_ = dom if not np.isscalar(dom) else float(dom)
            st, out = call(integral, arr, d_, axis=axis, keepdims=keep)
            c.update(arr=arr, axis=axis, keepdims=keep)
            fibers = np.moveaxis(arr, axis, -1).reshape(-1, nd)
            for fi, y in enumerate(fibers):
                R.driver.ask("c%d_%d" % (k, fi), "integrate", dom_text(dom, True), vs(y))
            cases.append((c, st, out, ("integral", fibers, arr.shape, axis, keep)))
            continue
        if shape == "estimator":
            filt = dyadic(rng, 0, 2, 5, size=(nf + 1, nd))
            sig = dyadic(rng, 0, 4, 5, size=(ns, nd))
            d_ = dom if not np.isscalar(dom) else float(dom)
            # the signals live on the filters' own domain: it is left out, or the very same domain is named again explicitly
            # (the same object, an equal copy, a list, a strided view; the same scalar step)
            how = str(rng.choice(["none", "same-object", "copy", "other-repr"]))
            R.count("estimator-domain:" + how)
            if how == "none":
                kw = {}
            elif how == "same-object" or np.isscalar(d_):
                kw = dict(domain=d_)
            elif how == "copy":
                kw = dict(domain=np.array(d_, dtype=float))
            else:
                kw = dict(domain=as_given(rng, np.array(d_, dtype=float), R, "estimator-domain", kinds=("list", "strided", "int")))
            sig_g = as_given(rng, sig, R, "estimator-signals")
            st, est = call(dreye.ReceptorEstimator, filt, domain=d_)
            out = est
            if st == "ok":
                st, out = call(est.capture, sig_g, **kw)
            c.update(filters=filt, signals=sig)
            R.driver.ask("c%d_0" % k, "capture", dom_text(dom, True), ms(filt), ms(sig))
            cases.append((c, st, out, ("mat", [(filt, sig)], None)))
            continue
        fshape = {"2x2": (nf, nd), "1x1": (nd,), "1x2": (nd,), "2x1": (nf, nd), "bxb": (nb, nf, nd),
                  "1bxb": (1, nf, nd), "2xb": (nf, nd)}[str(shape)]
        sshape = {"2x2": (ns, nd), "1x1": (nd,), "1x2": (ns, nd), "2x1": (nd,), "bxb": (nb, ns, nd),
                  "1bxb": (nb, ns, nd), "2xb": (nb, ns, nd)}[str(shape)]
        whole = bool(rng.integers(4) == 0)     # whole-number data: may be handed in with an integer dtype
        sparse = bool(rng.integers(3) == 0) and shape in ("2x2", "bxb", "1bxb", "2xb", "1x2", "2x1")
        if sparse:
            # a stimulus sequence with dark frames: more signals, so that lit rows lie between and after several dark ones
            ns2 = int(rng.integers(2, 8))
            sshape = tuple(ns2 if (i == len(sshape) - 2) else v for i, v in enumerate(sshape))
        filt = dyadic(rng, -2, 2, 0 if whole else 5, size=fshape)
        sig = dyadic(rng, -4, 4, 0 if whole else 5, size=sshape)
        if sparse:
            nz = sparsify(rng, sig, 0.5); nzf = sparsify(rng, filt, 0.25)
            if sig.ndim >= 2:
                R.count("sparse:zero signal rows=%s of %d..%d" % (nz if nz < 3 else ">=3", 2, 7))
            if filt.ndim >= 2:
                R.count("sparse:zero filter rows=%s" % (nzf if nzf < 2 else ">=2"))
        d_ = as_given(rng, dom, R, "domain", kinds=("same", "list", "strided")) if not np.isscalar(dom) else float(dom)
        filt_g = as_given(rng, filt, R, "filters"); sig_g = as_given(rng, sig, R, "signals")
        st, out = call(dreye.calculate_capture, filt_g, sig_g, domain=d_, trapz=trapz)
        if st == "ok" and bool(rng.integers(3) == 0):
            # history: the same arrays are used again (a call must not have changed them)
            st2, out2 = call(dreye.calculate_capture, filt_g, sig_g, domain=d_, trapz=trapz)
            if st2 != "ok" or not np.array_equal(np.asarray(out), np.asarray(out2)):
                R.failB(dict(k=k, shape=str(shape), filters=filt, signals=sig, dom=dom, trapz=bool(trapz)),
                        "a second identical call with the same arrays gave a different capture", "C01:%s:second-call-differs" % shape)
        c.update(filters=filt, signals=sig, sparse=sparse)
        dt = dom_text(dom, trapz)
        if shape in ("2x2", "bxb", "1bxb", "2xb"):
            pairs = []
            nbb = sig.shape[0] if sig.ndim == 3 else 1
            for b in range(nbb):
                fb = filt if filt.ndim == 2 else filt[b if filt.shape[0] > 1 else 0]
                sb = sig if sig.ndim == 2 else sig[b]
                pairs.append((fb, sb))
                R.driver.ask("c%d_%d" % (k, b), "capture", dt, ms(fb), ms(sb))
            cases.append((c, st, out, ("mat", pairs, sig.ndim == 3)))
        elif shape == "1x1":
            R.driver.ask("c%d_0" % k, "integrate", dt, vs(filt * sig))
            cases.append((c, st, out, ("scalar", (filt, sig), None)))
        elif shape == "1x2":
            R.driver.ask("c%d_0" % k, "capture1", dt, vs(filt), ms(sig))
            cases.append((c, st, out, ("vec", (filt, sig), None)))
        else:  # 2x1: broadcasting filters(nf,nd)*signals(nd) -> one value per filter
            R.driver.ask("c%d_0" % k, "capture1", dt, vs(sig), ms(filt))
            cases.append((c, st, out, ("vec", (sig, filt), None)))
    R.driver.run()

    for c, st, out, (mode, data, extra, *rest) in cases:
        k = c["k"]
        dom, trapz = c["dom"], c["trapz"]
        nontriv = None
        if st != "ok":
            R.case(c, None, sample=False)
            R.failB(dict(c, impl_error=out), "implementation raised %s on a well-formed input: %s" % (st, out),
                    "C01:%s:raises:%s" % (c["shape"], st))
            continue
        out = np.asarray(out)
        bad = None
        if mode == "mat":
            pairs = data
            exp_shape = ((len(pairs),) if extra else ()) + (pairs[0][1].shape[0], pairs[0][0].shape[0])
            if tuple(out.shape) != exp_shape:
                bad = "shape %s, expected %s" % (out.shape, exp_shape)
            else:
                o3 = out.reshape((len(pairs),) + exp_shape[-2:])
                for b, (fb, sb) in enumerate(pairs):
                    m = R.driver.get("c%d_%d" % (k, b)).mat()
                    for i in range(sb.shape[0]):
                        for j in range(fb.shape[0]):
                            sc = scale_of(dom, trapz or not np.isscalar(dom), fb[j], sb[i])
                            if not close(o3[b, i, j], m[i][j], sc, RT):
                                bad = bad or ("entry (batch %d, signal %d, filter %d) = %r but the integral of signal*filter is %s"
                                              % (b, i, j, float(o3[b, i, j]), rs(m[i][j])))
                fb, sb = pairs[0]
                if (fb.shape[0] >= 2 and sb.shape[0] >= 2 and c["nd"] >= 3
                        and (len({tuple(r) for r in fb}) == fb.shape[0] if not c.get("sparse") else len({tuple(r) for r in fb if np.any(r)}) >= 2)
                        and (len({tuple(r) for r in sb}) == sb.shape[0] if not c.get("sparse") else len({tuple(r) for r in sb if np.any(r)}) >= 2)):
                    nontriv = (c["shape"], c["domain_kind"], fb.tobytes(), sb.tobytes())
        elif mode == "scalar":
            f, s = data
            m = R.driver.get("c%d_0" % k).rat()
            if out.shape != () or not close(out, m, scale_of(dom, True, f, s), RT):
                bad = "value %r, expected %s" % (out.tolist(), rs(m))
        elif mode == "vec":
            f, S = data
            m = R.driver.get("c%d_0" % k).vec()
            if out.shape != (S.shape[0],):
                bad = "shape %s, expected (%d,)" % (out.shape, S.shape[0])
            else:
                for i in range(S.shape[0]):
                    if not close(out[i], m[i], scale_of(dom, True, f, S[i]), RT):
                        bad = bad or "entry %d = %r, expected %s" % (i, float(out[i]), rs(m[i]))
        elif mode == "integral":
            fibers, shp, axis, keep = data, extra, rest[0], rest[1]
            exp = list(shp)
            ax = axis % len(shp)
            if keep:
                exp[ax] = 1
            else:
                del exp[ax]
            if tuple(out.shape) != tuple(exp):
                bad = "integral shape %s, expected %s" % (out.shape, tuple(exp))
            else:
                flat = out.reshape(-1)
                for fi, y in enumerate(fibers):
                    m = R.driver.get("c%d_%d" % (k, fi)).rat()
                    if not close(flat[fi], m, scale_of(dom, True, np.ones_like(y), y), RT):
                        bad = bad or "integral fiber %d = %r, expected %s" % (fi, float(flat[fi]), rs(m))
                if len(fibers) >= 2 and c["nd"] >= 3:
                    nontriv = ("integral", c["domain_kind"], c["arr"].tobytes(), axis, keep)
        R.case(c, nontriv, sample=(nontriv is not None))
        if bad:
            R.failB(dict(c, impl=out), bad, "C01:%s:%s:entry-mismatch" % (c["shape"], c["domain_kind"]))

    # B3: large calls (many signals): every sampled row must equal the integral of that signal alone
    for bi, tot in enumerate([2 ** 21, int(2 ** 22.5), int(2 ** 23.4)] if R.tier == "quick" else
                             [2 ** 20, 2 ** 21, int(2 ** 22.5), int(2 ** 23.4), 2 ** 24 + 12345]):
        k = "big%d" % bi
        if not R.want(k):
            continue
        rng = R.rng(3, bi)
        nf = int(rng.integers(2, 5)); nd = int(rng.choice([101, 401, 31]))
        ns = tot // (nf * nd) + 1
        kind, dom, trapz = gen_domain(rng, nd)
        filt = dyadic(rng, 0, 2, 4, size=(nf, nd))
        sig = dyadic(rng, 0, 4, 4, size=(ns, nd))
        d_ = dom if not np.isscalar(dom) else float(dom)
        dark = np.zeros(ns, dtype=bool)
        if rng.integers(2):
            # a long stimulus with "lights off" frames: runs of identically zero signals between the lit ones
            dark = np.repeat(rng.random(ns // 16 + 1) < 0.3, 16)[:ns]
            sig[dark] = 0.0
        R.count("big:dark frames=%s" % ("none" if not dark.any() else "%d%%" % (10 * round(10 * float(dark.mean())))))
        c = dict(k=k, shape="big", n_signals=ns, n_filters=nf, nd=nd, domain_kind=kind, trapz=bool(trapz), n_dark=int(dark.sum()))
        R.count("shape:big")
        st, out = call(dreye.calculate_capture, filt, sig, domain=d_, trapz=trapz)
        rows = set([0, 1, ns - 1, ns - 2, ns // 2] + rng.integers(0, ns, size=25).tolist())
        if dark.any() and not dark.all():
            # rows at the borders between dark and lit runs
            edges = np.flatnonzero(dark[1:] != dark[:-1])
            pick = edges[rng.integers(0, len(edges), size=min(6, len(edges)))]
            rows |= set(pick.tolist()) | set((pick + 1).tolist())
        rows = sorted(rows)
        R.case(c, ("big", ns, nf, nd, kind), sample=True)
        if st != "ok":
            R.failB(dict(c, impl_error=out), "implementation raised %s on a large input: %s" % (st, out), "C01:big:raises:%s" % st)
            continue
        out = np.asarray(out)
        if out.shape != (ns, nf):
            R.failB(c, "shape %s, expected %s" % (out.shape, (ns, nf)), "C01:big:shape")
            continue
        drv = R.driver.__class__()
        drv.ask("b", "capture", dom_text(dom, trapz), ms(filt), ms(sig[rows]))
        drv.run()
        m = drv.get("b").mat()
        for ri, i in enumerate(rows):
            for j in range(nf):
                if not close(out[i, j], m[ri][j], scale_of(dom, trapz or not np.isscalar(dom), filt[j], sig[i]), RT):
                    R.failB(dict(c, row=i, filter=j, impl=float(out[i, j]), model=rs(m[ri][j]), filters=filt, signal=sig[i], dom=dom),
                            "in a call with %d signals, entry (%d,%d)=%r but the integral of that signal x filter is %s"
                            % (ns, i, j, float(out[i, j]), rs(m[ri][j])), "C01:big:entry-mismatch")
                    break

    # B2: linearity and scalar-step/explicit-domain agreement on the implementation itself
    m2 = 40 if R.tier == "quick" else 400
    for k in range(n, n + m2):
        if not R.want(k):
            continue
        rng = R.rng(2, k)
        nd = int(rng.integers(3, 9)); nf = int(rng.integers(2, 5)); ns = int(rng.integers(2, 5))
        filt = dyadic(rng, 0, 2, 4, size=(nf, nd)); s1 = dyadic(rng, 0, 4, 4, size=(ns, nd)); s2 = dyadic(rng, 0, 4, 4, size=(ns, nd))
        a = float(dyadic(rng, -3, 3, 2)); dx = float(dyadic(rng, 0.25, 4, 2))
        c = dict(k=k, shape="linearity", filters=filt, s1=s1, s2=s2, a=a, dx=dx)
        R.count("shape:linearity")
        st, res = call(lambda: (dreye.calculate_capture(filt, a * s1 + s2, domain=dx),
                                dreye.calculate_capture(filt, s1, domain=dx), dreye.calculate_capture(filt, s2, domain=dx),
                                dreye.calculate_capture(filt, s1, domain=dx * np.arange(nd))))
        R.case(c, ("lin", filt.tobytes(), s1.tobytes(), s2.tobytes(), a, dx), sample=False)
        if st != "ok":
            R.failB(dict(c, impl_error=res), "implementation raised %s" % res, "C01:linearity:raises:%s" % st)
            continue
        q12, q1, q2, q1x = res
        sc = float(np.max(np.abs(q1)) * abs(a) + np.max(np.abs(q2))) + 1e-300
        if not np.all(np.abs(q12 - (a * q1 + q2)) <= 1e-10 * sc):
            R.failB(dict(c, impl=[q12, q1, q2]), "capture(a*s1+s2) != a*capture(s1)+capture(s2)", "C01:linearity:superposition")
        if not np.all(np.abs(q1 - q1x) <= 1e-10 * sc):
            R.failB(dict(c, impl=[q1, q1x]), "scalar step dx and explicit domain 0,dx,2dx,.. disagree", "C01:linearity:dx-vs-domain")
