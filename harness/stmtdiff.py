"""stmtdiff.py <skeleton.lean> <final.lean>: every theorem statement of the skeleton (text up to `:= by sorry`)
must appear verbatim (whitespace-normalised) in the final file."""
import re, sys
sk = open(sys.argv[1]).read(); fin = re.sub(r'\s+', ' ', open(sys.argv[2]).read())
ok = True
for m in re.finditer(r'^(theorem \w+.*?):=\s*by\s*\n\s*sorry', sk, re.S | re.M):
    h = re.sub(r'\s+', ' ', m.group(1)).strip()
    name = h.split()[1]
    if h in fin:
        print("SAME", name)
    else:
        ok = False; print("CHANGED", name)
if 'sorry' in re.sub(r'--.*', '', open(sys.argv[2]).read()): ok = False; print("SORRY PRESENT")
sys.exit(0 if ok else 1)
