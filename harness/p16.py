"""C16 — barycentric and n-sphere coordinate transforms are exact mutual inverses (Float model + predicates)."""
import struct
import numpy as np
from common import F, rs, vs, ms, dyadic, close, call


def f_of_bits(t):
    return struct.unpack("<d", struct.pack("<Q", int(t)))[0]


def fvec(T):
    n = T.nat()
    return np.array([f_of_bits(T.tok()) for _ in range(n)])


def fmat(T):
    m = T.nat(); n = T.nat()
    return np.array([[f_of_bits(T.tok()) for _ in range(n)] for _ in range(m)]).reshape(m, n)


def special_points(rng, d):
    """points on axes / coordinate planes, the origin, negative coordinates"""
    pts = [np.zeros(d)]
    for _ in range(6):
        p = dyadic(rng, -4, 4, 3, size=d)
        kind = rng.integers(5)
        if kind == 0:      # on one axis (possibly negative)
            i = rng.integers(d); q = np.zeros(d); q[i] = p[i] if p[i] != 0 else -1.5; p = q
        elif kind == 1:    # zero tail
            t = rng.integers(1, d); p[t:] = 0
        elif kind == 2:    # zero head
            t = rng.integers(1, d); p[:t] = 0
        elif kind == 3:    # last coordinate zero / negative
            p[-1] = rng.choice([0.0, -abs(p[-1]) - 0.5])
        pts.append(p)
    return np.array(pts)


def near_axis_points(rng, d, R=None):
    """points close to, but not on, a coordinate axis / plane: one coordinate (either sign) dominates all the coordinates after
    it by a factor 2^8 .. 2^14 (polar angle, or for the last pair the azimuth, within ~1e-2 .. 1e-5 of 0 or pi); the coordinates
    before it are zero or generic. All values dyadic (exact for the model)."""
    pts = []
    for _ in range(4):
        lead = int(rng.integers(0, d - 1))
        e = int(rng.integers(8, 15))
        p = np.zeros(d)
        if lead > 0 and rng.integers(2):
            p[:lead] = dyadic(rng, -4, 4, 3, size=lead)
        p[lead] = float(rng.choice([-1.0, 1.0])) * float(dyadic(rng, 1, 4, 3))
        tail = rng.integers(-3, 4, size=d - lead - 1).astype(np.float64)
        if not tail.any():
            tail[int(rng.integers(len(tail)))] = float(rng.choice([-1.0, 1.0]))
        p[lead + 1:] = tail * 2.0 ** (-e)
        pts.append(p)
        if R is not None:
            R.count("near-axis:lead-%s:2^-%d" % ("last-pair" if lead == d - 2 else "polar", e))
    return np.array(pts)


def run(R):
    import dreye
    from dreye.api.barycentric import barycentric_to_cartesian_transformer, barycentric_dim_reduction
    n = 120 if R.tier == "quick" else 2000
    R.rule = ("dimensions 2-12; barycentric: transformer matrix, forward/backward conversion (centred and not, L1 none/scalar/"
              "per-row, points inside and outside the simplex), chromatic reduction and its scale invariance, unit edges; "
              "spherical: random points plus axis/plane points, the origin, negative coordinates, points close to but not on an axis/plane "
              "(one coordinate of either sign 2^8..2^14 times larger than all later ones: angles within 1e-2..1e-5 of 0 or pi), both directions and the "
              "round trip; compared with the Float run of the Lean model (1e-10; angles 3e-8 because arccos is ill-conditioned "
              "at +-1) and with the property predicates. Non-trivial: dimension >=3 and a point set containing a special point.")
    cases = []
    for k in range(n):
        if not R.want(k):
            continue
        rng = R.rng(1, k)
        what = str(rng.choice(["bary", "sph"]))
        d = int(rng.integers(2, 13))
        c = dict(k=k, what=what, dim=d)
        R.count("what:" + what); R.count("dim:%d" % d)
        if what == "sph":
            X = np.vstack([dyadic(rng, -4, 4, 3, size=(4, d)), special_points(rng, d), near_axis_points(R.rng(2, k), d, R)])
            c["X"] = X
            st, out = call(lambda: (dreye.cartesian_to_spherical(X.copy()), dreye.spherical_to_cartesian(dreye.cartesian_to_spherical(X.copy()))))
            for i, x in enumerate(X):
                R.driver.ask("s%d_%d" % (k, i), "cart2sph", vs(x))
            Y = dyadic(rng, 0, 3, 4, size=(3, d)); Y[:, 0] = dyadic(rng, 0, 4, 3, size=3)
            c["Y"] = Y
            st2, out2 = call(dreye.spherical_to_cartesian, Y.copy())
            for i, y in enumerate(Y):
                R.driver.ask("t%d_%d" % (k, i), "sph2cart", vs(y))
            cases.append((c, st, out, st2, out2))
        else:
            nb = d  # number of barycentric coordinates
            Xb = dyadic(rng, 0, 4, 3, size=(4, nb)); Xb[Xb.sum(1) == 0] += 1
            Xb = np.vstack([Xb, np.eye(nb)[:2], dyadic(rng, -2, 4, 3, size=(2, nb))])   # corners and points outside the simplex
            center = bool(rng.integers(2))
            l1kind = str(rng.choice(["none", "scalar", "rows"]))
            L1 = None if l1kind == "none" else (float(dyadic(rng, 0.5, 8, 2)) if l1kind == "scalar" else dyadic(rng, 0.5, 8, 2, size=len(Xb)))
            Xc = dyadic(rng, -1, 1, 4, size=(len(Xb), nb - 1))
            c.update(X=Xb, center=center, L1=L1, Xc=Xc); R.count("L1:" + l1kind)

            def impl():
                T = barycentric_to_cartesian_transformer(nb)
                fwd = dreye.barycentric_to_cartesian(Xb.copy(), center=center)
                bwd = dreye.cartesian_to_barycentric(Xc.copy(), L1=L1, centered=center)
                red = barycentric_dim_reduction(Xb[:6].copy(), center=center)
                red2 = barycentric_dim_reduction(Xb[:6].copy() * 8.0, center=center)
                Xn = Xb / Xb.sum(1, keepdims=True)
                rt = dreye.cartesian_to_barycentric(dreye.barycentric_to_cartesian(Xn, center=center), centered=center)
                rt2 = dreye.barycentric_to_cartesian(dreye.cartesian_to_barycentric(Xc, centered=center), center=center)
                return T, fwd, bwd, red, red2, Xn, rt, rt2
            st, out = call(impl)
            R.driver.ask("T%d" % k, "baryT", nb)
            for i in range(len(Xb)):
                R.driver.ask("f%d_%d" % (k, i), "bary2cart", int(center), vs(Xb[i]))
                l = 0 if L1 is None else (L1 if np.isscalar(L1) else L1[i])
                R.driver.ask("b%d_%d" % (k, i), "cart2bary", int(center), int(L1 is not None), rs(l), vs(Xc[i]))
            for i in range(6):
                R.driver.ask("r%d_%d" % (k, i), "dimred", int(center), vs(Xb[i]))
            cases.append((c, st, out, None, None))
    R.driver.run()
    for c, st, out, st2, out2 in cases:
        k = c["k"]; d = c["dim"]
        nontriv = (c["what"], d, c["X"].tobytes()) if d >= 3 else None
        R.case(c, nontriv, sample=(nontriv is not None))
        sig = "C16:%s" % c["what"]
        if st != "ok" or (st2 not in (None, "ok")):
            R.failB(dict(c, impl_error=[out, out2]), "transform raised: %s %s" % (out, out2), sig + ":raises:" + (st if st != "ok" else st2))
            continue
        bad = []
        if c["what"] == "sph":
            S, RT_ = out
            X = c["X"]
            for i, x in enumerate(X):
                m = fvec(R.driver.get("s%d_%d" % (k, i)))
                r = float(np.linalg.norm(x))
                if S.shape != X.shape:
                    bad.append(("shape", "spherical shape %s" % (S.shape,))); break
                if abs(S[i, 0] - m[0]) > 1e-12 * (r + 1) or abs(S[i, 0] - r) > 1e-12 * (r + 1):
                    bad.append(("radius", "radius %r for point %s, norm is %r" % (S[i, 0], x.tolist(), r)))
                if np.any(np.abs(S[i, 1:] - m[1:]) > 3e-8) or not np.all(np.isfinite(S[i])):
                    bad.append(("angles", "angles %s for point %s, model %s" % (S[i, 1:].tolist(), x.tolist(), m[1:].tolist())))
                if np.any(S[i, 1:-1] < 0) or np.any(S[i, 1:-1] > np.pi) or S[i, -1] < 0 or S[i, -1] > 2 * np.pi:
                    bad.append(("range", "angle out of range for point %s: %s" % (x.tolist(), S[i, 1:].tolist())))
                if not np.all(np.abs(RT_[i] - x) <= 1e-9 * (r + 1)):
                    bad.append(("roundtrip", "round trip of %s gives %s" % (x.tolist(), RT_[i].tolist())))
            Y = c["Y"]
            for i, y in enumerate(Y):
                m = fvec(R.driver.get("t%d_%d" % (k, i)))
                if np.shape(out2) != Y.shape or np.any(np.abs(out2[i] - m) > 1e-10 * (abs(y[0]) + 1)):
                    bad.append(("sph2cart", "spherical_to_cartesian(%s) = %s, model %s" % (y.tolist(), np.asarray(out2)[i].tolist(), m.tolist())))
        else:
            T, fwd, bwd, red, red2, Xn, rt, rt2 = out
            Tm = fmat(R.driver.get("T%d" % k))
            if T.shape != Tm.shape or np.any(np.abs(T - Tm) > 1e-12):
                bad.append(("T", "transformer matrix differs from the model by %r" % (float(np.max(np.abs(T - Tm))) if T.shape == Tm.shape else None)))
            else:
                D = np.linalg.norm(T[:, None, :] - T[None, :, :], axis=-1)
                off = D[~np.eye(d, dtype=bool)]
                if np.any(np.abs(off - 1) > 1e-12):
                    bad.append(("regular", "simplex edges are not all 1: %s" % off[:6].tolist()))
            Xb = c["X"]
            for i in range(len(Xb)):
                m = fvec(R.driver.get("f%d_%d" % (k, i)))
                if np.shape(fwd) != (len(Xb), d - 1) or np.any(np.abs(fwd[i] - m) > 1e-10 * (np.abs(Xb[i]).sum() + 1)):
                    bad.append(("bary2cart", "barycentric_to_cartesian(%s) = %s, model %s" % (Xb[i].tolist(), np.asarray(fwd)[i].tolist() if np.ndim(fwd) == 2 else fwd, m.tolist())))
                t = R.driver.get("b%d_%d" % (k, i))
                m = fvec(t)
                L1 = c["L1"]; l = 1.0 if L1 is None else (L1 if np.isscalar(L1) else L1[i])
                if np.shape(bwd) != (len(Xb), d) or np.any(np.abs(bwd[i] - m) > 1e-9 * (abs(l) + 1) * d):
                    bad.append(("cart2bary", "cartesian_to_barycentric(%s) = %s, model %s" % (c["Xc"][i].tolist(), np.asarray(bwd)[i].tolist() if np.ndim(bwd) == 2 else bwd, m.tolist())))
                elif abs(bwd[i].sum() - l) > 1e-9 * (abs(l) + 1) * d:
                    bad.append(("l1sum", "coordinates sum to %r, requested L1 %r" % (float(bwd[i].sum()), l)))
            for i in range(6):
                m = fvec(R.driver.get("r%d_%d" % (k, i)))
                if np.any(np.abs(red[i] - m) > 1e-10):
                    bad.append(("dimred", "barycentric_dim_reduction row %d = %s, model %s" % (i, red[i].tolist(), m.tolist())))
            if np.any(np.abs(red - red2) > 1e-12):
                bad.append(("scale", "chromatic reduction changed when the capture vector was scaled by 8"))
            if np.any(np.abs(rt - Xn) > 1e-9 * d):
                bad.append(("roundtrip", "cartesian_to_barycentric(barycentric_to_cartesian(x)) != x"))
            if np.any(np.abs(rt2 - c["Xc"]) > 1e-9 * d):
                bad.append(("roundtrip2", "barycentric_to_cartesian(cartesian_to_barycentric(y)) != y"))
        seen = set()
        for s_, w in bad:
            if s_ not in seen:
                seen.add(s_)
                R.failB(dict(c, impl=[np.asarray(o) for o in out]), w, sig + ":" + s_)
