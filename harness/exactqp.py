"""
Untrusted hint generators (exact rational arithmetic): from the solver's floating-point answer, guess the
active set and compute a candidate exact optimum of   min ||C x - d||^2  s.t.  lb <= x <= ub.
The candidate is only ever *accepted* by the Lean-verified `kktOK` checker (Dreye/Cert/Box.lean); a wrong
guess can make a certificate fail, never pass.
"""
from fractions import Fraction
import math


def solve_exact(M, rhs):
    """Gaussian elimination over Fractions; returns x or None if singular. M: list of rows (square)."""
    n = len(M)
    A = [list(map(Fraction, M[i])) + [Fraction(rhs[i])] for i in range(n)]
    for col in range(n):
        piv = None
        for r in range(col, n):
            if A[r][col] != 0:
                piv = r
                break
        if piv is None:
            return None
        A[col], A[piv] = A[piv], A[col]
        pv = A[col][col]
        A[col] = [v / pv for v in A[col]]
        for r in range(n):
            if r != col and A[r][col] != 0:
                f = A[r][col]
                A[r] = [a - f * b for a, b in zip(A[r], A[col])]
    return [A[i][n] for i in range(n)]


def independent_columns(cols):
    """greedy maximal independent subset of the given column vectors (list of lists of Fractions); returns indices"""
    basis = []   # reduced rows with pivot positions
    keep = []
    for idx, c in enumerate(cols):
        v = list(c)
        for piv, b in basis:
            if v[piv] != 0:
                f = v[piv] / b[piv]
                v = [x - f * y for x, y in zip(v, b)]
        piv = next((i for i, x in enumerate(v) if x != 0), None)
        if piv is not None:
            basis.append((piv, v))
            keep.append(idx)
    return keep


def round_dyadic(x, bits=40):
    return Fraction(int(round(float(x) * 2 ** bits)), 2 ** bits)


def candidate_optimum(C, d, lb, ub, xhat, tau):
    """C: m x n Fractions, d: m, lb: n Fractions, ub: n (Fraction or None), xhat: floats.
    returns a candidate x* (list of Fractions) or None"""
    m, n = len(C), len(lb)
    x = [None] * n
    interior = []
    for k in range(n):
        rng_k = (ub[k] - lb[k]) if ub[k] is not None else max(Fraction(1), abs(lb[k]))
        t = Fraction(tau) * rng_k
        xv = Fraction(*float(xhat[k]).as_integer_ratio())
        if xv - lb[k] <= t:
            x[k] = lb[k]
        elif ub[k] is not None and ub[k] - xv <= t:
            x[k] = ub[k]
        else:
            interior.append(k)
    cols = [[C[i][k] for i in range(m)] for k in interior]
    keep = independent_columns(cols)
    free = [interior[i] for i in keep]
    for k in interior:
        if k not in free:
            x[k] = round_dyadic(xhat[k])
    if free:
        # rhs = d - C_fixed x_fixed
        rhs = [d[i] - sum(C[i][k] * x[k] for k in range(n) if x[k] is not None) for i in range(m)]
        G = [[sum(C[i][a] * C[i][b] for i in range(m)) for b in free] for a in free]
        g = [sum(C[i][a] * rhs[i] for i in range(m)) for a in free]
        z = solve_exact(G, g)
        if z is None:
            return None
        for a, v in zip(free, z):
            x[a] = v
    return x


def obj(C, d, x):
    return sum((sum(C[i][k] * x[k] for k in range(len(x))) - d[i]) ** 2 for i in range(len(C)))


def matvec(C, x):
    return [sum(c * v for c, v in zip(row, x)) for row in C]
