"""C02 — a registered system is the exact linear model of the receptor responses."""
import numpy as np
from common import F, rs, vs, ms, dyadic, close, call, as_given, err_kind
from p01 import dom_text


class ImplError(Exception):
    """an implementation call (routed through common.call for the frame condition) raised: (error kind, message)"""


def gen_system(rng, nf=None, ns=None, positive=True):
    """random estimator ingredients with dyadic data"""
    nf = int(rng.integers(2, 6)) if nf is None else nf
    ns = int(rng.integers(1, 9)) if ns is None else ns
    nd = int(rng.integers(3, 8))
    if rng.integers(2):
        dom = float(dyadic(rng, 0.25, 4, 2)); dkind = "step"
    else:
        steps = dyadic(rng, 0.25, 4, 2, size=nd - 1)
        dom = np.concatenate([[300.0], 300.0 + np.cumsum(steps)]); dkind = "array"
    filt = dyadic(rng, 0, 2, 4, size=(nf, nd))
    filt[np.arange(nf), rng.integers(0, nd, size=nf)] += 1.0   # no all-zero filter
    src = dyadic(rng, 0, 2, 4, size=(ns, nd))
    src[np.arange(ns), rng.integers(0, nd, size=ns)] += 0.5
    return nf, ns, nd, dom, dkind, filt, src


def gen_gains(rng, nf, ns):
    """dynamic range of the system: receptors of very different sensitivity to the light at hand (a UV opsin under a red
    LED next to a green opsin: ten decades) and sources of very different power. Exact powers of two, so that every
    product and sum of the dyadic data stays exactly representable and the exact model sees the same values."""
    rk = str(rng.choice(["unit", "unit", "wide"]))
    fg = np.ones(nf) if rk == "unit" else 2.0 ** (-8.0 * rng.integers(0, 7, size=nf))     # 1 .. 2^-48 (14 decades)
    sk = str(rng.choice(["unit", "unit", "unit", "wide"]))
    sg = np.ones(ns) if sk == "unit" else 2.0 ** (-4.0 * rng.integers(0, 6, size=ns))     # 1 .. 2^-20 (6 decades)
    return rk, fg, sk, sg


def gen_K(rng, nf):
    kk = rng.choice(["scalar", "vector", "matrix"])
    if kk == "scalar":
        return kk, float(dyadic(rng, 0.25, 3, 2))
    if kk == "vector":
        return kk, dyadic(rng, 0.25, 3, 2, size=nf)
    M = dyadic(rng, -1, 1, 2, size=(nf, nf)) + 2 * np.eye(nf)   # deliberately non-symmetric
    return kk, M


def gen_base(rng, nf):
    bk = rng.choice(["zero", "scalar", "vector"])
    if bk == "zero":
        return bk, 0.0
    if bk == "scalar":
        return bk, float(dyadic(rng, 0.25, 2, 2))
    return bk, dyadic(rng, 0, 2, 2, size=nf)


def K_text(K):
    K = np.atleast_1d(K)
    return ("vec " + vs(K)) if K.ndim == 1 else ("mat " + ms(K))


def run(R):
    import dreye
    n = 120 if R.tier == "quick" else 2500
    R.rule = ("real ReceptorEstimator from dyadic filters (2-5) / sources (1-8), scalar-step and array domains, "
              "K scalar/vector/non-symmetric matrix, baseline 0/scalar/vector, single and batched intensities; compares A, "
              "system_capture, capture of the physically mixed spectrum, (system_)relative_capture, K after both adaptation "
              "calls (add/replace, add_baseline on/off) with the exact model. Dynamic range: in a third of the systems the "
              "receptors differ in sensitivity by exact powers of two up to 2^48 (adapting captures up to 14 decades apart, "
              "baseline zero or of the order of the receptor's own capture), in a quarter the sources differ in power up to "
              "2^20. Representations: filters, sources, domain, K, baseline, intensities and backgrounds are handed over as "
              "float/integer (whole-number intensities) arrays, Fortran-ordered, strided views or lists (as_given); every call "
              "is checked for the frame condition (arguments and registered state unchanged by a query). Non-trivial: >=2 "
              "sources, K not scalar or baseline non-zero, distinct rows.")
    RT = 1e-10
    todo = []
    for k in range(n):
        if not R.want(k):
            continue
        rng = R.rng(1, k)
        nf, ns, nd, dom, dkind, filt, src = gen_system(rng)
        rk, fg, sk, sg = gen_gains(rng, nf, ns)
        filt = filt * fg[:, None]; src = src * sg[:, None]
        kk, K = gen_K(rng, nf)
        bk, base = gen_base(rng, nf)
        if rk == "wide":
            # a baseline of the order of each receptor's own capture (vector) or of the least sensitive one (scalar)
            base = base * (fg if bk == "vector" else float(np.min(fg)))
        nx = int(rng.integers(1, 4))
        whole = bool(rng.integers(4) == 0)     # whole-number intensities: may be handed in with an integer dtype
        X = dyadic(rng, 0, 3, 0 if whole else 3, size=(nx, ns))
        bgx = dyadic(rng, 1, 2, 0, size=ns) if whole else dyadic(rng, 0.25, 2, 2, size=ns)
        bgspec = dyadic(rng, 0.125, 2, 3, size=nd)
        add_baseline = bool(rng.integers(4) > 0)
        add = bool(rng.integers(3) == 0)
        c = dict(k=k, nf=nf, ns=ns, nd=nd, domain_kind=dkind, dom=dom, K_kind=str(kk), K=K, baseline_kind=str(bk),
                 baseline=base, filters=filt, sources=src, X=X, bg_x=bgx, bg_spec=bgspec, add_baseline=add_baseline, add=add,
                 receptor_range=rk, source_range=sk)
        for key in ("domain_kind", "K_kind", "baseline_kind", "receptor_range", "source_range"):
            R.count("%s:%s" % (key, c[key]))
        R.count("adapt:add=%s,add_baseline=%s" % (add, add_baseline))
        # the same VALUES in the representation a caller may hold them in (the model sees the values only); the
        # implementation gets its own copies, the exact model works from the originals
        g = dict(filt=as_given(rng, filt.copy(), R, "filters"), src=as_given(rng, src.copy(), R, "sources"),
                 X=as_given(rng, X.copy(), R, "X"), x0=as_given(rng, X[0].copy(), R, "x"),
                 bgx=as_given(rng, bgx.copy(), R, "bg_x"), bgspec=as_given(rng, bgspec.copy(), R, "bg_spec"),
                 dom=(dom if np.isscalar(dom) else as_given(rng, dom.copy(), R, "domain", kinds=("same", "list", "strided"))),
                 K=(K if np.isscalar(K) else as_given(rng, K.copy(), R, "K")),
                 base=(base if np.isscalar(base) else as_given(rng, base.copy(), R, "baseline")))

        def q(f, *a, **kw):
            # every implementation call goes through common.call: the arrays handed in and the registered state of the
            # estimator must be unchanged afterwards (frame condition; registration calls may change the state only)
            st_, v = call(f, *a, **kw)
            if st_ != "ok":
                raise ImplError(st_, v)
            return v

        def impl(g=g, X=X, src=src, bgspec=bgspec, add_baseline=add_baseline, add=add, kk=kk):
            est = q(dreye.ReceptorEstimator, g["filt"], domain=g["dom"], K=g["K"], baseline=g["base"], sources=g["src"])
            out = dict(A=est.A.copy(), sc=q(est.system_capture, g["X"]), src=q(est.system_relative_capture, g["X"]))
            mix = X @ src
            out["cap_mix"] = q(est.capture, mix)
            out["relcap_mix"] = q(est.relative_capture, mix)
            out["sc1"] = q(est.system_capture, g["x0"])          # a single (1-D) intensity vector
            # adaptation to a spectrum
            K0 = est.K.copy()
            q(est.register_background_adaptation, g["bgspec"], add_baseline=add_baseline, add=(add and kk != "matrix"))
            out["K_bg"] = est.K.copy()
            out["q_bg"] = q(est.capture, g["bgspec"])
            out["rel_bg"] = q(est.relative_capture, bgspec[None])
            q(est.register_adaptation, K0)
            q(est.register_system_adaptation, g["bgx"], add_baseline=add_baseline, add=(add and kk != "matrix"))
            out["K_sys"] = est.K.copy()
            out["rel_sys"] = q(est.system_relative_capture, g["bgx"])
            return out
        try:
            st, out = "ok", impl()
        except ImplError as e:
            st, out = e.args
        except Exception as e:  # noqa: BLE001
            st, out = err_kind(e), "%s: %s" % (type(e).__name__, str(e)[:200])
        dt = dom_text(dom, True)
        R.driver.ask("a%d" % k, "systemA", dt, ms(filt), ms(src))
        R.driver.ask("m%d" % k, "capture", dt, ms(filt), ms(X @ src))   # X@src exact: dyadic, small
        R.driver.ask("b%d" % k, "capture1", dt, vs(bgspec), ms(filt))
        todo.append((c, st, out))
    R.driver.run()
    # second round: quantities that need the model's A
    for c, st, out in todo:
        if st != "ok":
            continue
        k = c["k"]
        A = R.driver.get("a%d" % k).mat()
        c["_A"] = A
        nf = c["nf"]
        basev = np.atleast_1d(c["baseline"])
        for i, x in enumerate(c["X"]):
            R.driver.ask("s%d_%d" % (k, i), "syscap", ms(A), vs(x))
        R.driver.ask("sb%d" % k, "syscap", ms(A), vs(c["bg_x"]))
    R.driver.run()
    for c, st, out in todo:
        if st != "ok":
            continue
        k = c["k"]
        basev = np.atleast_1d(c["baseline"])
        c["_Q"] = [R.driver.get("s%d_%d" % (k, i)).vec() for i in range(len(c["X"]))]
        c["_qbx"] = R.driver.get("sb%d" % k).vec()
        c["_qbs"] = R.driver.get("b%d" % k).vec()
        for i, q in enumerate(c["_Q"]):
            R.driver.ask("r%d_%d" % (k, i), "relcap", K_text(c["K"]), vs(basev), vs(q))
        R.driver.ask("ks%d" % k, "adapt", int(c["add_baseline"]), vs(basev), vs(c["_qbx"]))
        R.driver.ask("kb%d" % k, "adapt", int(c["add_baseline"]), vs(basev), vs(c["_qbs"]))
    R.driver.run()

    for c, st, out in todo:
        k = c["k"]
        pub = {kk: v for kk, v in c.items() if not kk.startswith("_")}
        nontriv = None
        if c["ns"] >= 2 and (c["K_kind"] != "scalar" or c["baseline_kind"] != "zero"):
            nontriv = (c["filters"].tobytes(), c["sources"].tobytes(), c["X"].tobytes(), c["K_kind"], c["baseline_kind"])
        R.case(pub, nontriv, sample=(nontriv is not None))
        if st != "ok":
            R.failB(dict(pub, impl_error=out), "estimator raised %s: %s" % (st, out), "C02:raises:%s" % st)
            continue
        A = c["_A"]; Q = c["_Q"]
        nf, ns = c["nf"], c["ns"]
        scaleA = float(np.max(np.abs(out["A"]))) + 1e-300
        bad = []
        Aimpl = np.asarray(out["A"])
        if Aimpl.shape != (nf, ns):
            bad.append(("A-shape", "A has shape %s, expected %s" % (Aimpl.shape, (nf, ns))))
        else:
            for j in range(nf):
                for s in range(ns):
                    if not close(Aimpl[j, s], A[j][s], scaleA, RT):
                        bad.append(("A", "A[%d,%d]=%r but the capture of source %d by filter %d is %s" % (j, s, Aimpl[j, s], s, j, rs(A[j][s]))))
        sc = np.asarray(out["sc"]); Mix = R.driver.get("m%d" % k).mat()
        scaleQ = float(np.max(np.abs(sc))) + scaleA
        if sc.shape != (len(Q), nf):
            bad.append(("sc-shape", "system_capture shape %s" % (sc.shape,)))
        else:
            for i in range(len(Q)):
                for j in range(nf):
                    if not close(sc[i, j], Q[i][j], scaleQ, RT):
                        bad.append(("system_capture", "system_capture[%d,%d]=%r, model %s" % (i, j, sc[i, j], rs(Q[i][j]))))
                    # the property clause: equals the capture of the physically mixed spectrum
                    if not close(sc[i, j], Mix[i][j], scaleQ, RT) or not close(out["cap_mix"][i, j], Mix[i][j], scaleQ, RT):
                        bad.append(("mixture", "system_capture[%d,%d]=%r but capture of the mixed spectrum is %s (impl %r)"
                                    % (i, j, sc[i, j], rs(Mix[i][j]), out["cap_mix"][i, j])))
            if not np.allclose(out["sc1"], sc[0], rtol=1e-12, atol=1e-12 * scaleQ):
                bad.append(("sc-1d", "system_capture of a 1-D vector differs from the batched row"))
        rel = np.asarray(out["src"])
        Kabs = float(np.max(np.abs(np.atleast_1d(c["K"])))); babs = float(np.max(np.abs(np.atleast_1d(c["baseline"]))))
        scaleR = (scaleQ + babs) * Kabs * nf
        for i in range(len(Q)):
            r = R.driver.get("r%d_%d" % (k, i)).vec()
            for j in range(nf):
                if rel.shape != (len(Q), nf) or not close(rel[i, j], r[j], scaleR, RT):
                    bad.append(("relative", "system_relative_capture[%d,%d]=%r but K(Q+baseline) is %s" % (i, j, rel[i, j] if rel.shape == (len(Q), nf) else None, rs(r[j]))))
                if np.shape(out["relcap_mix"]) != (len(Q), nf) or not close(out["relcap_mix"][i, j], r[j], scaleR, RT):
                    bad.append(("relative-mix", "relative_capture(mixed spectrum)[%d,%d] != K(Q+baseline)=%s" % (i, j, rs(r[j]))))
        # adaptation
        basev = np.atleast_1d(c["baseline"])
        for tag_, qv in (("spectrum", c["_qbs"]), ("intensities", c["_qbx"])):
            # decades between the most and the least excited receptor under the adapting background (evidence only)
            qa = [qj + (F(basev[j if basev.size > 1 else 0]) if c["add_baseline"] else 0) for j, qj in enumerate(qv)]
            R.count("adapting-%s:receptor-captures-%s-decades-apart" % (tag_, "<=8" if max(qa) <= 10 ** 8 * min(qa) else ">8"))
        for tag, Kimpl, relb, kid in (("sys", out["K_sys"], out["rel_sys"], "ks%d" % k), ("bg", out["K_bg"], out["rel_bg"], "kb%d" % k)):
            km = R.driver.get(kid).vec()
            use_add = c["add"] and c["K_kind"] != "matrix"
            if use_add:
                K0 = np.atleast_1d(c["K"])
                km = [F(K0[j if K0.size > 1 else 0]) + km[j] for j in range(nf)]
            Kimpl = np.asarray(Kimpl)
            sK = float(np.max(np.abs(Kimpl))) + 1e-300
            if Kimpl.shape != (nf,):
                bad.append(("K-%s-shape" % tag, "adapted K has shape %s" % (Kimpl.shape,)))
                continue
            for j in range(nf):
                if not close(Kimpl[j], km[j], sK, RT):
                    bad.append(("K-%s" % tag, "adapted K[%d]=%r, model %s" % (j, Kimpl[j], rs(km[j]))))
            if c["add_baseline"] and not use_add:
                if not np.allclose(np.asarray(relb).ravel(), 1.0, rtol=0, atol=1e-9):
                    bad.append(("adapt-one-%s" % tag, "relative capture of the adapting background is %s, not 1" % np.asarray(relb).ravel().tolist()))
        seen = set()
        for sig, what in bad:
            if sig in seen:
                continue
            seen.add(sig)
            R.failB(dict(pub, impl={kk: v for kk, v in out.items()}), what, "C02:%s:K=%s:baseline=%s" % (sig, c["K_kind"], c["baseline_kind"]))
