"""C02 — a registered system is the exact linear model of the receptor responses."""
from bisect import bisect_left
import numpy as np
from common import F, rs, vs, ms, dyadic, close, call, as_given, err_kind
from p01 import dom_text


class ImplError(Exception):
    """an implementation call (routed through common.call for the frame condition) raised: (error kind, message)"""


def gen_system(rng, nf=None, ns=None, positive=True, nd=None, dkind=None):
    """random estimator ingredients with dyadic data (nd / dkind: fix the number of domain points / the domain kind)"""
    nf = int(rng.integers(2, 6)) if nf is None else nf
    ns = int(rng.integers(1, 9)) if ns is None else ns
    nd_ = int(rng.integers(3, 8))
    nd = nd_ if nd is None else nd
    step = bool(rng.integers(2))
    if dkind is not None:
        step = dkind == "step"
    if step:
        dom = float(dyadic(rng, 0.25, 4, 2)); dkind = "step"
    else:
        steps = dyadic(rng, 0.25, 4, 2, size=nd - 1)
        dom = np.concatenate([[300.0], 300.0 + np.cumsum(steps)]); dkind = "array"
    filt = dyadic(rng, 0, 2, 4, size=(nf, nd))
    filt[np.arange(nf), rng.integers(0, nd, size=nf)] += 1.0   # no all-zero filter
    src = dyadic(rng, 0, 2, 4, size=(ns, nd))
    src[np.arange(ns), rng.integers(0, nd, size=ns)] += 0.5
    return nf, ns, nd, dom, dkind, filt, src


def gen_gains(rng, nf, ns):
    """dynamic range of the system: receptors of very different sensitivity to the light at hand (a UV opsin under a red
    LED next to a green opsin: ten decades) and sources of very different power. Exact powers of two, so that every
    product and sum of the dyadic data stays exactly representable and the exact model sees the same values."""
    rk = str(rng.choice(["unit", "unit", "wide"]))
    fg = np.ones(nf) if rk == "unit" else 2.0 ** (-8.0 * rng.integers(0, 7, size=nf))     # 1 .. 2^-48 (14 decades)
    sk = str(rng.choice(["unit", "unit", "unit", "wide"]))
    sg = np.ones(ns) if sk == "unit" else 2.0 ** (-4.0 * rng.integers(0, 6, size=ns))     # 1 .. 2^-20 (6 decades)
    return rk, fg, sk, sg


def gen_K(rng, nf):
    kk = rng.choice(["scalar", "vector", "matrix"])
    if kk == "scalar":
        return kk, float(dyadic(rng, 0.25, 3, 2))
    if kk == "vector":
        return kk, dyadic(rng, 0.25, 3, 2, size=nf)
    M = dyadic(rng, -1, 1, 2, size=(nf, nf)) + 2 * np.eye(nf)   # deliberately non-symmetric
    return kk, M


def gen_base(rng, nf):
    bk = rng.choice(["zero", "scalar", "vector"])
    if bk == "zero":
        return bk, 0.0
    if bk == "scalar":
        return bk, float(dyadic(rng, 0.25, 2, 2))
    return bk, dyadic(rng, 0, 2, 2, size=nf)


def gen_signal_domain(rng, fdom):
    """the grid the spectra (sources, mixed spectra, backgrounds) were measured on, handed over with `domain=`: a spectrometer's
    own ascending grid that is finer or coarser than the filters' grid, shifted against it, wider or narrower than it, made of
    whole numbers, or the very same grid given explicitly. Dyadic values. The grids overlap by at least two mean steps of the
    coarser one (otherwise the library refuses to equalise them, which is not what is examined here)."""
    lo, hi = float(fdom[0]), float(fdom[-1])
    fstep = (hi - lo) / (len(fdom) - 1)
    for _ in range(30):
        kind = str(rng.choice(["finer", "coarser", "similar", "whole", "equal"], p=[0.3, 0.2, 0.25, 0.15, 0.1]))
        if kind == "equal":
            return kind, fdom.copy()
        nds = int(rng.integers(8, 41)) if kind == "finer" else int(rng.integers(3, 17))
        if kind == "whole":
            steps = rng.integers(1, 4, size=nds - 1).astype(float)
            start = float(np.floor(lo)) + float(rng.integers(-3, 4))
        else:
            f = dict(finer=0.25, coarser=2.0, similar=1.0)[kind]
            steps = dyadic(rng, 0.5, 1.5, 3, size=nds - 1) * f * 2.0 ** np.round(np.log2(fstep))
            start = lo + float(dyadic(rng, -2, 2, 3)) * 2.0 ** np.round(np.log2(fstep))
        sdom = np.concatenate([[start], start + np.cumsum(steps)])
        lemin, lemax = max(lo, sdom[0]), min(hi, sdom[-1])
        lediff = max(fstep, float(np.mean(np.diff(sdom))))
        if lemax - lemin >= 2 * lediff and not np.array_equal(sdom, fdom):
            return kind, sdom
    return "equal", fdom.copy()


def gen_file_grids(rng, short):
    """grids as they come out of files, tens to hundreds of points with values that are not dyadic: the filters on a regular nm grid
    (np.arange(300, 701, 1.)-like with step 0.5/1/2/5, or np.linspace(lo, hi, n)), the spectra on the spectrometer's own regular grid
    (np.linspace(a, b, n), or a + step*np.arange(n) with a two-decimal step), which starts/ends up to a tenth of the span before or after
    the filters' grid. `short`: at most 48 points each (the cases that are also integrated exactly)."""
    nmax = 49 if short else 421
    def npts():
        return int(round(float(np.exp(rng.uniform(np.log(20), np.log(nmax - 1))))))
    fk = str(rng.choice(["arange", "linspace"]))
    lo = float(rng.integers(280, 401))
    n = npts()
    if fk == "arange":
        fdom = lo + float(rng.choice([0.5, 1.0, 2.0, 5.0])) * np.arange(n)
    else:
        fdom = np.linspace(lo, lo + float(rng.integers(100, 451)), n)
    span = float(fdom[-1] - fdom[0])
    a_ = float(np.floor(fdom[0] + rng.uniform(-0.1, 0.1) * span)); b_ = float(np.ceil(fdom[-1] + rng.uniform(-0.1, 0.15) * span))
    sk = str(rng.choice(["linspace", "linspace", "arange"]))
    m = npts()
    if sk == "linspace":
        sdom = np.linspace(a_, b_, m)
    else:
        sdom = a_ + max(0.01, round((b_ - a_) / (m - 1), 2)) * np.arange(m)
    return "file-grid:filters %s, spectra %s" % (fk, sk), fdom, sdom


def resample_exact(dom, arr, grid):
    """piecewise-linear interpolation of the rows of `arr` (given on the ascending grid `dom`) at the points of `grid`, zero
    outside [dom[0], dom[-1]] -- what 'equalising the domains' of filters and signals means -- evaluated in exact rationals"""
    dom = [F(v) for v in dom]
    out = []
    for row in np.atleast_2d(arr):
        y = [F(v) for v in row]
        r = []
        for g in grid:
            g = F(g)
            if g < dom[0] or g > dom[-1]:
                r.append(F(0)); continue
            i = min(bisect_left(dom, g, 1) - 1, len(dom) - 2)      # the first interval [dom[i], dom[i+1]] that contains g
            r.append(y[i] + (y[i + 1] - y[i]) * (g - dom[i]) / (dom[i + 1] - dom[i]))
        out.append(r)
    return out


def K_text(K):
    K = np.atleast_1d(K)
    return ("vec " + vs(K)) if K.ndim == 1 else ("mat " + ms(K))


def run(R):
    import dreye
    n = 120 if R.tier == "quick" else 2500
    R.rule = ("real ReceptorEstimator from dyadic filters (2-5) / sources (1-8), scalar-step and array domains, "
              "K scalar/vector/non-symmetric matrix, baseline 0/scalar/vector, single and batched intensities; compares A, "
              "system_capture, capture of the physically mixed spectrum, (system_)relative_capture, K after both adaptation "
              "calls (add/replace, add_baseline on/off) with the exact model. Dynamic range: in a third of the systems the "
              "receptors differ in sensitivity by exact powers of two up to 2^48 (adapting captures up to 14 decades apart, "
              "baseline zero or of the order of the receptor's own capture), in a quarter the sources differ in power up to "
              "2^20. Representations: filters, sources, domain, K, baseline, intensities and backgrounds are handed over as "
              "float/integer (whole-number intensities) arrays, Fortran-ordered, strided views or lists (as_given); every call "
              "is checked for the frame condition (arguments and registered state unchanged by a query). Registered intensity bounds: in half of "
              "the cases the system carries bounds (scalar or per source; lb, ub or both; given with the constructor or with register_bounds) "
              "and the queried intensities and the adapting intensity background lie inside or outside them (counted): the model has no bounds. Large batches (cases L*): "
              "1e3..1e5 intensity vectors (image pixels / long stimulus sequences; the product filters x signals x domain up to 8e6 values) "
              "over 3-7 point or 20-60 point grids, array and scalar-step domains: the whole batch of system_capture / "
              "capture(X @ sources) / both relative captures is compared in floating point with A x and K(A x + baseline) from the exact "
              "model's A and route against route, four sampled rows (first, last, two random) with the exact model, and the sampled "
              "spectra once more as a small batch afterwards. Spectra measured on their own grid (cases D*): sources, mixed spectra and the "
              "adapting background are handed over with `domain=grid` (register_system / capture / relative_capture / "
              "register_background_adaptation), the grid finer or coarser than the filters', shifted, wider or narrower, whole-numbered (also "
              "integer dtype / list / strided), the filters' own grid given explicitly, or the same scalar step given explicitly: predicate on the "
              "implementation's answers (system_capture(x) = capture(sum_k x_k source_k, domain=grid), A = capture of the single sources, both "
              "relative captures = K(Q+baseline), relative capture of the adapting background = 1) and correspondence of A, captures, relative "
              "captures and adapted K with the exact model integrating the exactly (rational, piecewise-linear, zero outside the measured range) "
              "resampled filters and spectra over the common grid reported by the estimator. File grids (cases G*): the same with regular grids of "
              "20-420 points whose values are not dyadic (filters on lo+step*arange(n), step 0.5/1/2/5, or linspace(lo, hi, n); spectra on "
              "linspace(a, b, m) or a+step*arange(m) with a two-decimal step, starting/ending up to a tenth of the span off the filters' grid): "
              "the clauses on the implementation's answers in every case, the exact model in every 16th (grids of at most 48 points). Non-trivial: >=2 "
              "sources, K not scalar or baseline non-zero, distinct rows.")
    RT = 1e-10
    todo = []
    for k in range(n):
        if not R.want(k):
            continue
        rng = R.rng(1, k)
        nf, ns, nd, dom, dkind, filt, src = gen_system(rng)
        rk, fg, sk, sg = gen_gains(rng, nf, ns)
        filt = filt * fg[:, None]; src = src * sg[:, None]
        kk, K = gen_K(rng, nf)
        bk, base = gen_base(rng, nf)
        if rk == "wide":
            # a baseline of the order of each receptor's own capture (vector) or of the least sensitive one (scalar)
            base = base * (fg if bk == "vector" else float(np.min(fg)))
        nx = int(rng.integers(1, 4))
        whole = bool(rng.integers(4) == 0)     # whole-number intensities: may be handed in with an integer dtype
        X = dyadic(rng, 0, 3, 0 if whole else 3, size=(nx, ns))
        bgx = dyadic(rng, 1, 2, 0, size=ns) if whole else dyadic(rng, 0.25, 2, 2, size=ns)
        bgspec = dyadic(rng, 0.125, 2, 3, size=nd)
        add_baseline = bool(rng.integers(4) > 0)
        add = bool(rng.integers(3) == 0)
        # registered intensity bounds of the system (own random stream): they restrict what a FIT may return, not which intensity
        # vectors the linear model is asked about -- "all intensity vectors": the queried intensities and the adapting background lie
        # inside or outside them (an adapting background brighter than the displayable range, darker than a non-zero lower bound).
        # Given with the constructor, with register_system's successor register_bounds after construction, or left at the default.
        rb = R.rng(11, k)
        bounds_via = str(rb.choice(["default", "default", "constructor", "register_bounds"]))
        lbv = ubv = None
        if bounds_via != "default":
            bshape = str(rb.choice(["scalar", "per-source"]))
            which = str(rb.choice(["lb", "ub", "both", "both"]))
            if which in ("lb", "both"):
                lbv = float(dyadic(rb, 0.25, 1, 2)) if bshape == "scalar" else dyadic(rb, 0, 1, 2, size=ns)
            if which in ("ub", "both"):
                ubv = float(dyadic(rb, 1, 2.5, 2)) if bshape == "scalar" else dyadic(rb, 1, 2.5, 2, size=ns)
            R.count("bounds:%s %s" % (bshape, which))
            lo_ = np.broadcast_to(0.0 if lbv is None else lbv, (ns,)); hi_ = np.broadcast_to(np.inf if ubv is None else ubv, (ns,))
            R.count("bounds:adapting intensities %s the registered bounds" % ("inside" if np.all((bgx >= lo_) & (bgx <= hi_)) else "outside"))
            R.count("bounds:queried intensities %s the registered bounds" % ("inside" if np.all((X >= lo_) & (X <= hi_)) else "outside"))
        R.count("bounds:given with %s" % bounds_via)
        c = dict(k=k, nf=nf, ns=ns, nd=nd, domain_kind=dkind, dom=dom, K_kind=str(kk), K=K, baseline_kind=str(bk),
                 baseline=base, filters=filt, sources=src, X=X, bg_x=bgx, bg_spec=bgspec, add_baseline=add_baseline, add=add,
                 receptor_range=rk, source_range=sk, bounds_via=bounds_via, lb=lbv, ub=ubv)
        for key in ("domain_kind", "K_kind", "baseline_kind", "receptor_range", "source_range"):
            R.count("%s:%s" % (key, c[key]))
        R.count("adapt:add=%s,add_baseline=%s" % (add, add_baseline))
        # the same VALUES in the representation a caller may hold them in (the model sees the values only); the
        # implementation gets its own copies, the exact model works from the originals
        g = dict(filt=as_given(rng, filt.copy(), R, "filters"), src=as_given(rng, src.copy(), R, "sources"),
                 X=as_given(rng, X.copy(), R, "X"), x0=as_given(rng, X[0].copy(), R, "x"),
                 bgx=as_given(rng, bgx.copy(), R, "bg_x"), bgspec=as_given(rng, bgspec.copy(), R, "bg_spec"),
                 dom=(dom if np.isscalar(dom) else as_given(rng, dom.copy(), R, "domain", kinds=("same", "list", "strided"))),
                 K=(K if np.isscalar(K) else as_given(rng, K.copy(), R, "K")),
                 base=(base if np.isscalar(base) else as_given(rng, base.copy(), R, "baseline")),
                 lb=(lbv if (lbv is None or np.isscalar(lbv)) else as_given(rb, lbv.copy(), R, "lb")),
                 ub=(ubv if (ubv is None or np.isscalar(ubv)) else as_given(rb, ubv.copy(), R, "ub")))

        def q(f, *a, **kw):
            # every implementation call goes through common.call: the arrays handed in and the registered state of the
            # estimator must be unchanged afterwards (frame condition; registration calls may change the state only)
            st_, v = call(f, *a, **kw)
            if st_ != "ok":
                raise ImplError(st_, v)
            return v

        def impl(g=g, X=X, src=src, bgspec=bgspec, add_baseline=add_baseline, add=add, kk=kk, bounds_via=bounds_via):
            bkw = {kk_: g[kk_] for kk_ in ("lb", "ub") if g[kk_] is not None}
            est = q(dreye.ReceptorEstimator, g["filt"], domain=g["dom"], K=g["K"], baseline=g["base"], sources=g["src"],
                    **(bkw if bounds_via == "constructor" else {}))
            if bounds_via == "register_bounds":
                q(est.register_bounds, **bkw)
            out = dict(A=est.A.copy(), sc=q(est.system_capture, g["X"]), src=q(est.system_relative_capture, g["X"]))
            mix = X @ src
            out["cap_mix"] = q(est.capture, mix)
            out["relcap_mix"] = q(est.relative_capture, mix)
            out["sc1"] = q(est.system_capture, g["x0"])          # a single (1-D) intensity vector
            # adaptation to a spectrum
            K0 = est.K.copy()
            q(est.register_background_adaptation, g["bgspec"], add_baseline=add_baseline, add=(add and kk != "matrix"))
            out["K_bg"] = est.K.copy()
            out["q_bg"] = q(est.capture, g["bgspec"])
            out["rel_bg"] = q(est.relative_capture, bgspec[None])
            q(est.register_adaptation, K0)
            q(est.register_system_adaptation, g["bgx"], add_baseline=add_baseline, add=(add and kk != "matrix"))
            out["K_sys"] = est.K.copy()
            out["rel_sys"] = q(est.system_relative_capture, g["bgx"])
            return out
        try:
            st, out = "ok", impl()
        except ImplError as e:
            st, out = e.args
        except Exception as e:  # noqa: BLE001
            st, out = err_kind(e), "%s: %s" % (type(e).__name__, str(e)[:200])
        dt = dom_text(dom, True)
        R.driver.ask("a%d" % k, "systemA", dt, ms(filt), ms(src))
        R.driver.ask("m%d" % k, "capture", dt, ms(filt), ms(X @ src))   # X@src exact: dyadic, small
        R.driver.ask("b%d" % k, "capture1", dt, vs(bgspec), ms(filt))
        todo.append((c, st, out))
    # ---- large batches -------------------------------------------------------------------------------------------------
    # "all intensity vectors and batches of them": a batch is also the 1e3 .. 1e5 pixels of an image or the frames of a long
    # stimulus, over the short grids above or a spectrometer-like grid of 20-60 points. The whole batch is judged in floating
    # point against the exact model's A (intensity route) and the two routes against each other (the property's clause:
    # system_capture(X) equals capture(X @ sources), relative captures likewise); a few rows of it (first, last, two random)
    # are compared with the exact model as above. Orthogonal design over the case number: domain kind, grid length, size.
    nbig = 8 if R.tier == "quick" else 48
    big = []
    for kb in range(nbig):
        kname = "L%d" % kb
        if not R.want(kname):
            continue
        rng = R.rng(2, kb)
        long_grid = (kb // 2) % 2 == 0
        nf, ns, nd, dom, dkind, filt, src = gen_system(rng, nd=(int(rng.integers(20, 61)) if long_grid else None),
                                                       dkind=("array" if kb % 2 == 0 else "step"))
        rk, fg, sk, sg = gen_gains(rng, nf, ns)
        filt = filt * fg[:, None]; src = src * sg[:, None]
        kk, K = gen_K(rng, nf)
        bk, base = gen_base(rng, nf)
        if rk == "wide":
            base = base * (fg if bk == "vector" else float(np.min(fg)))
        lo, hi = ((2e4, 1e5) if (kb // 4) % 2 == 0 else (1e3, 2e4))
        N = int(round(float(np.exp(rng.uniform(np.log(lo), np.log(hi))))))
        N = max(1000, min(N, int(8e6 // (nf * nd))))      # the broadcast product filters x signals x domain stays below 8e6 values (64 MB)
        whole = bool(rng.integers(4) == 0)
        X = dyadic(rng, 0, 3, 0 if whole else 3, size=(N, ns))
        rows = sorted({0, N - 1, int(rng.integers(N)), int(rng.integers(N))})
        c = dict(k=kname, nf=nf, ns=ns, nd=nd, domain_kind=dkind, dom=dom, K_kind=str(kk), K=K, baseline_kind=str(bk), baseline=base,
                 filters=filt, sources=src, batch_size=N, X_generation="dyadic(rng(2,%d), 0, 3, bits=%d, size=(N, ns)) after the system draws" % (kb, 0 if whole else 3),
                 sampled_rows=rows, X_sampled=X[rows], receptor_range=rk, source_range=sk)
        for key in ("domain_kind", "K_kind", "baseline_kind", "receptor_range", "source_range"):
            R.count("large-batch:%s:%s" % (key, c[key]))
        R.count("large-batch:grid=%s" % ("20-60 points" if long_grid else "3-7 points"))
        R.count("large-batch:rows=%s" % ("<=3e3" if N <= 3000 else ("<=2e4" if N <= 20000 else "<=1e5")))
        R.count("large-batch:filters x signals x domain %s 1e6 values" % (">" if nf * N * nd > 1e6 else "<="))
        g = dict(filt=as_given(rng, filt.copy(), R, "filters"), src=as_given(rng, src.copy(), R, "sources"),
                 X=as_given(rng, X.copy(), R, "X-large", kinds=("same", "int", "fortran", "strided")),
                 dom=(dom if np.isscalar(dom) else as_given(rng, dom.copy(), R, "domain", kinds=("same", "list", "strided"))),
                 K=(K if np.isscalar(K) else as_given(rng, K.copy(), R, "K")),
                 base=(base if np.isscalar(base) else as_given(rng, base.copy(), R, "baseline")))
        mix = X @ src       # exact: dyadic data, at most 8 terms
        mixg = as_given(rng, mix, R, "mix-large", kinds=("same", "fortran", "strided"))
        st, out = "ok", {}
        stc, est = call(dreye.ReceptorEstimator, g["filt"], domain=g["dom"], K=g["K"], baseline=g["base"], sources=g["src"])
        if stc != "ok":
            st, out = stc, est
        else:
            out["A"] = est.A.copy()
            for name, f, arg in (("sc", est.system_capture, g["X"]), ("src", est.system_relative_capture, g["X"]),
                                 ("cap_mix", est.capture, mixg), ("relcap_mix", est.relative_capture, mixg)):
                stc, v = call(f, arg)
                if stc != "ok":
                    st, out = stc, "%s: %s" % (name, v)
                    break
                out[name] = np.asarray(v)
            if st == "ok":
                # a small batch through the same estimator afterwards: the rows sampled for the exact comparison, on their own
                stc, v = call(est.capture, mix[rows].copy())
                if stc != "ok":
                    st, out = stc, "capture of %d rows after the large batch: %s" % (len(rows), v)
                else:
                    out["cap_rows"] = np.asarray(v)
        dt = dom_text(dom, True)
        R.driver.ask("La%d" % kb, "systemA", dt, ms(filt), ms(src))
        R.driver.ask("Lm%d" % kb, "capture", dt, ms(filt), ms(mix[rows]))
        big.append((c, st, out, X, kb))
    # ---- spectra measured on their own grid (`domain=` of the signals) ---------------------------------------------------
    # "scalar-step and array domains": the sources, the mixed spectra and the adapting background come from a spectrometer with
    # its own grid and are handed over with `domain=grid` (register_system / capture / relative_capture /
    # register_background_adaptation); the library brings filters and signals onto a common grid. The property's clauses are
    # judged on the implementation's answers alone (intensity route against spectrum route, K(Q+baseline), adaptation -> 1);
    # the correspondence compares A and the captures with the exact model integrating the exactly resampled (piecewise-linear,
    # zero outside the measured range) filters and spectra over the common grid the estimator reports (`sources_domain`).
    nsd = 40 if R.tier == "quick" else 800
    # cases G*: the same on grids as they come out of files (regular, tens to hundreds of points, not dyadic: np.arange(300, 701, 1.) for
    # the filters, np.linspace(300, 720, 97) for the LEDs): the property's clauses on the implementation's answers in all of them, the
    # exact model in every 16th (short grids)
    nfg = 128 if R.tier == "quick" else 1600
    sdcases = []
    for kd in range(nsd + nfg):
        filegrid = kd >= nsd
        kname = ("G%d" % (kd - nsd)) if filegrid else ("D%d" % kd)
        if not R.want(kname):
            continue
        rng = R.rng(4, kd - nsd) if filegrid else R.rng(3, kd)
        exact = (not filegrid) or (kd - nsd) % 16 == 0
        explicit_step = bool(rng.integers(10) == 0) and not filegrid
        if filegrid:
            nf, ns = int(rng.integers(2, 6)), int(rng.integers(1, 9))
            skind, dom, sdom = gen_file_grids(rng, short=exact)
            nd, dkind = len(dom), "array"
            filt = dyadic(rng, 0, 2, 4, size=(nf, nd)) + 0.0625
            R.count("file-grid:exact model %s" % ("yes (<=48 points)" if exact else "no (clauses on the implementation's answers)"))
            R.count("file-grid:points filters %s, spectra %s" % tuple("<=48" if v <= 48 else ("<=150" if v <= 150 else "<=420") for v in (nd, len(sdom))))
        else:
            nf, ns, nd, dom, dkind, filt, src = gen_system(rng, dkind=("step" if explicit_step else "array"))
            filt = filt + 0.0625        # strictly positive filters: the adapting background excites every receptor on any common range
        if explicit_step:
            skind, sdom = "step-explicit", dom
        else:
            if not filegrid:
                skind, sdom = gen_signal_domain(rng, dom)
            src = dyadic(rng, 0, 2, 4, size=(ns, len(sdom)))
            src[np.arange(ns), rng.integers(0, len(sdom), size=ns)] += 0.5
        nds = nd if explicit_step else len(sdom)
        kk, K = gen_K(rng, nf)
        bk, base = gen_base(rng, nf)
        nx = int(rng.integers(1, 4))
        whole = bool(rng.integers(4) == 0)
        X = dyadic(rng, 0, 3, 0 if whole else 3, size=(nx, ns))
        bgspec = dyadic(rng, 0.125, 2, 3, size=nds)
        add_baseline = bool(rng.integers(4) > 0)
        c = dict(k=kname, nf=nf, ns=ns, nd=nd, domain_kind=dkind, dom=dom, signal_domain_kind=skind, signal_domain=sdom, K_kind=str(kk), K=K,
                 baseline_kind=str(bk), baseline=base, filters=filt, sources=src, X=X, bg_spec=bgspec, add_baseline=add_baseline, _exact=exact)
        R.count("signal-domain:%s" % skind)
        for key in ("K_kind", "baseline_kind"):
            R.count("signal-domain:%s:%s" % (key, c[key]))
        if not explicit_step:
            fs, ss = (dom[-1] - dom[0]) / (nd - 1), (sdom[-1] - sdom[0]) / (nds - 1)
            R.count("signal-domain:mean step %s the filters'" % ("<" if ss < fs else (">" if ss > fs else "=")))
            R.count("signal-domain:range %s" % ("covers the filters'" if (sdom[0] <= dom[0] and sdom[-1] >= dom[-1]) else
                                                 ("within the filters'" if (sdom[0] >= dom[0] and sdom[-1] <= dom[-1]) else "overlaps the filters' partly")))
        mix = X @ src       # exact: dyadic data, at most 8 terms
        g = dict(filt=as_given(rng, filt.copy(), R, "filters"), src=as_given(rng, src.copy(), R, "sources"),
                 X=as_given(rng, X.copy(), R, "X"), mix=as_given(rng, mix.copy(), R, "mix"), bgspec=as_given(rng, bgspec.copy(), R, "bg_spec"),
                 dom=(dom if np.isscalar(dom) else as_given(rng, dom.copy(), R, "domain", kinds=("same", "list", "strided"))),
                 sdom=(sdom if np.isscalar(sdom) else as_given(rng, sdom.copy(), R, "signal-domain", kinds=("same", "int", "list", "strided"))),
                 K=(K if np.isscalar(K) else as_given(rng, K.copy(), R, "K")),
                 base=(base if np.isscalar(base) else as_given(rng, base.copy(), R, "baseline")))
        st, out = "ok", {}
        stc, est = call(dreye.ReceptorEstimator, g["filt"], domain=g["dom"], K=g["K"], baseline=g["base"])
        if stc != "ok":
            st, out = stc, est
        else:
            stc, v = call(est.register_system, g["src"], domain=g["sdom"])
            if stc != "ok":
                st, out = stc, "register_system(sources, domain=grid): %s" % v
        if st == "ok":
            out["A"] = np.array(est.A, dtype=float)
            out["grid"] = est.sources_domain if np.isscalar(est.sources_domain) else np.array(est.sources_domain, dtype=float)
            steps = [("sc", est.system_capture, (g["X"],), {}), ("src", est.system_relative_capture, (g["X"],), {}),
                     ("cap_mix", est.capture, (g["mix"],), dict(domain=g["sdom"])),
                     ("relcap_mix", est.relative_capture, (g["mix"],), dict(domain=g["sdom"])),
                     ("cap_single", est.capture, (g["src"],), dict(domain=g["sdom"])),
                     ("adapt", est.register_background_adaptation, (g["bgspec"],), dict(domain=g["sdom"], add_baseline=add_baseline)),
                     ("q_bg", est.capture, (g["bgspec"],), dict(domain=g["sdom"])),
                     ("rel_bg", est.relative_capture, (bgspec[None].copy(),), dict(domain=g["sdom"]))]
            for name, f, a_, kw_ in steps:
                stc, v = call(f, *a_, **kw_)
                if stc != "ok":
                    st, out = stc, "%s: %s" % (name, v)
                    break
                if name == "adapt":
                    out["K_bg"] = np.array(est.K, dtype=float)
                else:
                    out[name] = np.asarray(v, dtype=float)
        if st == "ok" and not np.isscalar(out["grid"]):
            G = out["grid"]
            R.count("signal-domain:%s: common grid has %s points" % ("file grids" if filegrid else "small grids", "<=48" if len(G) <= 48 else ("<=150" if len(G) <= 150 else ">150")))
        if st == "ok" and exact:
            G = out["grid"]
            if np.isscalar(G):
                Fi, Si, Mi, Bi = filt, src, mix, [bgspec]
            else:
                Fi = resample_exact(dom, filt, G); Si = resample_exact(sdom, src, G)
                Mi = resample_exact(sdom, mix, G); Bi = resample_exact(sdom, bgspec, G)
                R.count("signal-domain:common grid %s" % ("= the filters' grid" if np.array_equal(G, dom) else ("= the signals' grid" if np.array_equal(G, sdom) else "new")))
            dt = dom_text(G if np.isscalar(G) else list(G), True)
            R.driver.ask("Da%d" % kd, "systemA", dt, ms(Fi), ms(Si))
            R.driver.ask("Dm%d" % kd, "capture", dt, ms(Fi), ms(Mi))
            R.driver.ask("Db%d" % kd, "capture", dt, ms(Fi), ms(Bi))
        sdcases.append((c, st, out, kd))
    R.driver.run()
    for c, st, out, kd in sdcases:
        if st != "ok" or not c["_exact"]:
            continue
        c["_A"] = R.driver.get("Da%d" % kd).mat()
        for i, x in enumerate(c["X"]):
            R.driver.ask("Ds%d_%d" % (kd, i), "syscap", ms(c["_A"]), vs(x))
    for c, st, out, X, kb in big:
        if st != "ok":
            continue
        c["_A"] = R.driver.get("La%d" % kb).mat()
        for i, r_ in enumerate(c["sampled_rows"]):
            R.driver.ask("Ls%d_%d" % (kb, i), "syscap", ms(c["_A"]), vs(X[r_]))
    # second round: quantities that need the model's A
    for c, st, out in todo:
        if st != "ok":
            continue
        k = c["k"]
        A = R.driver.get("a%d" % k).mat()
        c["_A"] = A
        nf = c["nf"]
        basev = np.atleast_1d(c["baseline"])
        for i, x in enumerate(c["X"]):
            R.driver.ask("s%d_%d" % (k, i), "syscap", ms(A), vs(x))
        R.driver.ask("sb%d" % k, "syscap", ms(A), vs(c["bg_x"]))
    R.driver.run()
    for c, st, out, X, kb in big:
        if st != "ok":
            continue
        c["_Q"] = [R.driver.get("Ls%d_%d" % (kb, i)).vec() for i in range(len(c["sampled_rows"]))]
        for i, q in enumerate(c["_Q"]):
            R.driver.ask("Lr%d_%d" % (kb, i), "relcap", K_text(c["K"]), vs(np.atleast_1d(c["baseline"])), vs(q))
    for c, st, out in todo:
        if st != "ok":
            continue
        k = c["k"]
        basev = np.atleast_1d(c["baseline"])
        c["_Q"] = [R.driver.get("s%d_%d" % (k, i)).vec() for i in range(len(c["X"]))]
        c["_qbx"] = R.driver.get("sb%d" % k).vec()
        c["_qbs"] = R.driver.get("b%d" % k).vec()
        for i, q in enumerate(c["_Q"]):
            R.driver.ask("r%d_%d" % (k, i), "relcap", K_text(c["K"]), vs(basev), vs(q))
        R.driver.ask("ks%d" % k, "adapt", int(c["add_baseline"]), vs(basev), vs(c["_qbx"]))
        R.driver.ask("kb%d" % k, "adapt", int(c["add_baseline"]), vs(basev), vs(c["_qbs"]))
    for c, st, out, kd in sdcases:
        if st != "ok" or not c["_exact"]:
            continue
        basev = np.atleast_1d(c["baseline"])
        c["_Q"] = [R.driver.get("Ds%d_%d" % (kd, i)).vec() for i in range(len(c["X"]))]
        c["_qbs"] = R.driver.get("Db%d" % kd).mat()[0]
        for i, q in enumerate(c["_Q"]):
            R.driver.ask("Dr%d_%d" % (kd, i), "relcap", K_text(c["K"]), vs(basev), vs(q))
        R.driver.ask("Dk%d" % kd, "adapt", int(c["add_baseline"]), vs(basev), vs(c["_qbs"]))
    R.driver.run()

    for c, st, out in todo:
        k = c["k"]
        pub = {kk: v for kk, v in c.items() if not kk.startswith("_")}
        nontriv = None
        if c["ns"] >= 2 and (c["K_kind"] != "scalar" or c["baseline_kind"] != "zero"):
            nontriv = (c["filters"].tobytes(), c["sources"].tobytes(), c["X"].tobytes(), c["K_kind"], c["baseline_kind"])
        R.case(pub, nontriv, sample=(nontriv is not None))
        if st != "ok":
            R.failB(dict(pub, impl_error=out), "estimator raised %s: %s" % (st, out), "C02:raises:%s" % st)
            continue
        A = c["_A"]; Q = c["_Q"]
        nf, ns = c["nf"], c["ns"]
        scaleA = float(np.max(np.abs(out["A"]))) + 1e-300
        bad = []
        Aimpl = np.asarray(out["A"])
        if Aimpl.shape != (nf, ns):
            bad.append(("A-shape", "A has shape %s, expected %s" % (Aimpl.shape, (nf, ns))))
        else:
            for j in range(nf):
                for s in range(ns):
                    if not close(Aimpl[j, s], A[j][s], scaleA, RT):
                        bad.append(("A", "A[%d,%d]=%r but the capture of source %d by filter %d is %s" % (j, s, Aimpl[j, s], s, j, rs(A[j][s]))))
        sc = np.asarray(out["sc"]); Mix = R.driver.get("m%d" % k).mat()
        scaleQ = float(np.max(np.abs(sc))) + scaleA
        if sc.shape != (len(Q), nf):
            bad.append(("sc-shape", "system_capture shape %s" % (sc.shape,)))
        else:
            for i in range(len(Q)):
                for j in range(nf):
                    if not close(sc[i, j], Q[i][j], scaleQ, RT):
                        bad.append(("system_capture", "system_capture[%d,%d]=%r, model %s" % (i, j, sc[i, j], rs(Q[i][j]))))
                    # the property clause: equals the capture of the physically mixed spectrum
                    if not close(sc[i, j], Mix[i][j], scaleQ, RT) or not close(out["cap_mix"][i, j], Mix[i][j], scaleQ, RT):
                        bad.append(("mixture", "system_capture[%d,%d]=%r but capture of the mixed spectrum is %s (impl %r)"
                                    % (i, j, sc[i, j], rs(Mix[i][j]), out["cap_mix"][i, j])))
            if not np.allclose(out["sc1"], sc[0], rtol=1e-12, atol=1e-12 * scaleQ):
                bad.append(("sc-1d", "system_capture of a 1-D vector differs from the batched row"))
        rel = np.asarray(out["src"])
        Kabs = float(np.max(np.abs(np.atleast_1d(c["K"])))); babs = float(np.max(np.abs(np.atleast_1d(c["baseline"]))))
        scaleR = (scaleQ + babs) * Kabs * nf
        for i in range(len(Q)):
            r = R.driver.get("r%d_%d" % (k, i)).vec()
            for j in range(nf):
                if rel.shape != (len(Q), nf) or not close(rel[i, j], r[j], scaleR, RT):
                    bad.append(("relative", "system_relative_capture[%d,%d]=%r but K(Q+baseline) is %s" % (i, j, rel[i, j] if rel.shape == (len(Q), nf) else None, rs(r[j]))))
                if np.shape(out["relcap_mix"]) != (len(Q), nf) or not close(out["relcap_mix"][i, j], r[j], scaleR, RT):
                    bad.append(("relative-mix", "relative_capture(mixed spectrum)[%d,%d] != K(Q+baseline)=%s" % (i, j, rs(r[j]))))
        # adaptation
        basev = np.atleast_1d(c["baseline"])
        for tag_, qv in (("spectrum", c["_qbs"]), ("intensities", c["_qbx"])):
            # decades between the most and the least excited receptor under the adapting background (evidence only)
            qa = [qj + (F(basev[j if basev.size > 1 else 0]) if c["add_baseline"] else 0) for j, qj in enumerate(qv)]
            R.count("adapting-%s:receptor-captures-%s-decades-apart" % (tag_, "<=8" if max(qa) <= 10 ** 8 * min(qa) else ">8"))
        for tag, Kimpl, relb, kid in (("sys", out["K_sys"], out["rel_sys"], "ks%d" % k), ("bg", out["K_bg"], out["rel_bg"], "kb%d" % k)):
            km = R.driver.get(kid).vec()
            use_add = c["add"] and c["K_kind"] != "matrix"
            if use_add:
                K0 = np.atleast_1d(c["K"])
                km = [F(K0[j if K0.size > 1 else 0]) + km[j] for j in range(nf)]
            Kimpl = np.asarray(Kimpl)
            sK = float(np.max(np.abs(Kimpl))) + 1e-300
            if Kimpl.shape != (nf,):
                bad.append(("K-%s-shape" % tag, "adapted K has shape %s" % (Kimpl.shape,)))
                continue
            for j in range(nf):
                if not close(Kimpl[j], km[j], sK, RT):
                    bad.append(("K-%s" % tag, "adapted K[%d]=%r, model %s" % (j, Kimpl[j], rs(km[j]))))
            if c["add_baseline"] and not use_add:
                if not np.allclose(np.asarray(relb).ravel(), 1.0, rtol=0, atol=1e-9):
                    bad.append(("adapt-one-%s" % tag, "relative capture of the adapting background is %s, not 1" % np.asarray(relb).ravel().tolist()))
        seen = set()
        for sig, what in bad:
            if sig in seen:
                continue
            seen.add(sig)
            R.failB(dict(pub, impl={kk: v for kk, v in out.items()}), what, "C02:%s:K=%s:baseline=%s" % (sig, c["K_kind"], c["baseline_kind"]))

    # ---- large batches: judge ---------------------------------------------------------------------------------------
    for c, st, out, X, kb in big:
        pub = {kk: v for kk, v in c.items() if not kk.startswith("_")}
        nf, ns, N, rows = c["nf"], c["ns"], c["batch_size"], c["sampled_rows"]
        nontriv = (c["k"], c["filters"].tobytes(), c["sources"].tobytes()) if (ns >= 2 and (c["K_kind"] != "scalar" or c["baseline_kind"] != "zero")) else None
        R.case(pub, nontriv)
        sigt = "C02:large-batch:%%s:K=%s:baseline=%s" % (c["K_kind"], c["baseline_kind"])
        if st != "ok":
            R.failB(dict(pub, impl_error=out), "estimator raised %s on a batch of %d intensity vectors: %s" % (st, N, out), sigt % ("raises:" + st))
            continue
        bad = []
        A = c["_A"]
        Af = np.array([[float(v) for v in row] for row in A])
        Aimpl = np.asarray(out["A"])
        scaleA = float(np.max(np.abs(Aimpl))) + 1e-300
        if Aimpl.shape != (nf, ns):
            bad.append(("A-shape", None, "A has shape %s, expected %s" % (Aimpl.shape, (nf, ns))))
        else:
            for j in range(nf):
                for s_ in range(ns):
                    if not close(Aimpl[j, s_], A[j][s_], scaleA, RT):
                        bad.append(("A", None, "A[%d,%d]=%r but the capture of source %d by filter %d is %s" % (j, s_, Aimpl[j, s_], s_, j, rs(A[j][s_]))))
        shapes_ok = True
        for name in ("sc", "src", "cap_mix", "relcap_mix"):
            if out[name].shape != (N, nf):
                shapes_ok = False
                bad.append((name + "-shape", None, "%s of a batch of %d has shape %s, expected %s" % (name, N, out[name].shape, (N, nf))))
        if out["cap_rows"].shape != (len(rows), nf):
            shapes_ok = False
            bad.append(("cap_rows-shape", None, "capture of %d spectra has shape %s" % (len(rows), out["cap_rows"].shape)))
        if shapes_ok:
            sc, rel, cm, rm = out["sc"], out["src"], out["cap_mix"], out["relcap_mix"]
            scaleQ = float(np.max(np.abs(sc))) + scaleA
            Kabs = float(np.max(np.abs(np.atleast_1d(c["K"])))); babs = float(np.max(np.abs(np.atleast_1d(c["baseline"]))))
            scaleR = (scaleQ + babs) * Kabs * nf
            # whole batch, floating point: reference from the exact model's A (float64 of the exact entries); the float
            # evaluation of at most 8 (x nf for a matrix K) non-cancelling terms is accurate to ~1e-15 of the scale
            Qref = X @ Af.T
            Kv = np.atleast_1d(np.asarray(c["K"], dtype=float)); bv = np.atleast_1d(np.asarray(c["baseline"], dtype=float))
            Rref = (Qref + bv) * Kv if Kv.ndim == 1 else (Qref + bv) @ Kv.T

            def worst(a, b):
                d = np.abs(np.asarray(a, dtype=float) - b)
                d = np.where(np.isfinite(d), d, np.inf)
                i, j = np.unravel_index(int(np.argmax(d)), d.shape)
                return float(d[i, j]), int(i), int(j)
            for sig, a, b, scale, what in (
                    ("system_capture", sc, Qref, scaleQ, "system_capture[%d,%d]=%r but A x (exact model's A) is %r"),
                    ("mixture", sc, cm, scaleQ, "system_capture[%d,%d]=%r but the capture of the physically mixed spectrum (same row of the batch) is %r"),
                    ("mixture-model", cm, Qref, scaleQ, "capture(mixed spectra)[%d,%d]=%r but A x (exact model's A) is %r"),
                    ("relative", rel, Rref, scaleR, "system_relative_capture[%d,%d]=%r but K(Q+baseline) is %r"),
                    ("relative-mix", rm, Rref, scaleR, "relative_capture(mixed spectra)[%d,%d]=%r but K(Q+baseline) is %r")):
                d, i, j = worst(a, b)
                if not d <= RT * scale:
                    bad.append((sig, i, (what % (i, j, float(a[i, j]), float(b[i, j]))) + " (batch of %d rows, tolerance %.3g)" % (N, RT * scale)))
            # sampled rows against the exact model
            Mix = R.driver.get("Lm%d" % kb).mat()
            for ii, r_ in enumerate(rows):
                q = c["_Q"][ii]; rr = R.driver.get("Lr%d_%d" % (kb, ii)).vec()
                for j in range(nf):
                    if not close(sc[r_, j], q[j], scaleQ, RT):
                        bad.append(("system_capture", r_, "system_capture[%d,%d]=%r, model %s" % (r_, j, sc[r_, j], rs(q[j]))))
                    if not close(sc[r_, j], Mix[ii][j], scaleQ, RT) or not close(cm[r_, j], Mix[ii][j], scaleQ, RT):
                        bad.append(("mixture", r_, "system_capture[%d,%d]=%r but capture of the mixed spectrum is %s (impl, within the batch of %d: %r)"
                                    % (r_, j, sc[r_, j], rs(Mix[ii][j]), N, cm[r_, j])))
                    if not close(out["cap_rows"][ii, j], Mix[ii][j], scaleQ, RT):
                        bad.append(("mixture-small-after-large", r_, "capture of mixed spectrum %d asked in a batch of %d after the large batch is %r, model %s"
                                    % (r_, len(rows), out["cap_rows"][ii, j], rs(Mix[ii][j]))))
                    if not close(rel[r_, j], rr[j], scaleR, RT):
                        bad.append(("relative", r_, "system_relative_capture[%d,%d]=%r but K(Q+baseline) is %s" % (r_, j, rel[r_, j], rs(rr[j]))))
                    if not close(rm[r_, j], rr[j], scaleR, RT):
                        bad.append(("relative-mix", r_, "relative_capture(mixed spectrum)[%d,%d]=%r but K(Q+baseline)=%s" % (r_, j, rm[r_, j], rs(rr[j]))))
        seen = set()
        for sig, row, what in bad:
            if sig in seen:
                continue
            seen.add(sig)
            extra = {} if row is None else dict(row=row, x=X[row], impl={n_: out[n_][row] for n_ in ("sc", "src", "cap_mix", "relcap_mix") if out[n_].ndim == 2 and out[n_].shape[0] > row})
            R.failB(dict(pub, impl_A=out["A"], **extra), what, sigt % sig)

    # ---- spectra measured on their own grid: judge ------------------------------------------------------------------
    for c, st, out, kd in sdcases:
        pub = {kk: v for kk, v in c.items() if not kk.startswith("_")}
        nf, ns, X = c["nf"], c["ns"], c["X"]
        nontriv = None
        if ns >= 2 and c["signal_domain_kind"] not in ("equal", "step-explicit"):
            nontriv = (c["k"], c["filters"].tobytes(), c["sources"].tobytes(), c["signal_domain"].tobytes(), X.tobytes())
        R.case(pub, nontriv, sample=(nontriv is not None and (kd < 2 or kd == nsd)))
        sigt = "C02:signal-domain:%%s:K=%s:baseline=%s" % (c["K_kind"], c["baseline_kind"])
        if st != "ok":
            R.failB(dict(pub, impl_error=out), "estimator raised %s with spectra on their own grid (%s): %s" % (st, c["signal_domain_kind"], out), sigt % ("raises:" + st))
            continue
        bad, badA = [], []
        nx = len(X)
        shapes = dict(A=(nf, ns), sc=(nx, nf), src=(nx, nf), cap_mix=(nx, nf), relcap_mix=(nx, nf), cap_single=(ns, nf), q_bg=(nf,), rel_bg=(1, nf), K_bg=(nf,))
        for name, shp in shapes.items():
            if out[name].shape != shp:
                bad.append((name + "-shape", "%s has shape %s, expected %s" % (name, out[name].shape, shp)))
        if not bad:
            Aimpl, sc, rel, cm, rm = out["A"], out["sc"], out["src"], out["cap_mix"], out["relcap_mix"]
            scaleA = float(np.max(np.abs(Aimpl))) + 1e-300
            scaleQ = float(max(np.max(np.abs(sc)), np.max(np.abs(cm)))) + scaleA
            Kv = np.atleast_1d(np.asarray(c["K"], dtype=float)); bv = np.atleast_1d(np.asarray(c["baseline"], dtype=float))
            Kabs = float(np.max(np.abs(Kv))); babs = float(np.max(np.abs(bv)))
            scaleR = (scaleQ + babs) * Kabs * nf
            # -- the property's clauses, on the implementation's own answers ------------------------------------------
            # the capture predicted from the intensities equals the capture of the physically mixed spectrum (same grid as the sources)
            d = np.abs(sc - cm)
            if not np.all(d <= RT * scaleQ):
                i, j = np.unravel_index(int(np.argmax(np.where(np.isfinite(d), d, np.inf))), d.shape)
                bad.append(("mixture", "system_capture(x)[%d,%d]=%r but capture(sum_k x_k source_k, domain=grid)=%r (sources registered with the same domain=grid)"
                            % (i, j, sc[i, j], cm[i, j])))
            # the columns of A are the captures of the single sources
            d = np.abs(Aimpl.T - out["cap_single"])
            if not np.all(d <= RT * scaleA):
                bad.append(("single-source", "A differs from capture(sources, domain=grid) by %r" % float(np.max(d))))
            # relative capture = K (Q + baseline), Q the implementation's own absolute capture
            for name, r_, q_ in (("relative", rel, sc), ("relative-mix", rm, cm)):
                ref = (q_ + bv) * Kv if Kv.ndim == 1 else (q_ + bv) @ Kv.T
                d = np.abs(r_ - ref)
                if not np.all(d <= RT * scaleR):
                    i, j = np.unravel_index(int(np.argmax(np.where(np.isfinite(d), d, np.inf))), d.shape)
                    bad.append((name, "%s[%d,%d]=%r but K(Q+baseline) of the absolute capture %r is %r" % (name, i, j, r_[i, j], q_[i].tolist(), ref[i, j])))
            # adapted to the background (baseline included): relative capture of that background is 1
            if c["add_baseline"] and not np.allclose(out["rel_bg"].ravel(), 1.0, rtol=0, atol=1e-9):
                bad.append(("adapt-one-bg", "relative capture of the adapting background (domain=grid) is %s, not 1" % out["rel_bg"].ravel().tolist()))
        if not bad and c["_exact"]:
            # -- correspondence with the exact model over the common grid ------------------------------------------------
            A = c["_A"]; Q = c["_Q"]; Mix = R.driver.get("Dm%d" % kd).mat()
            for j in range(nf):
                for s_ in range(ns):
                    if not close(Aimpl[j, s_], A[j][s_], scaleA, RT):
                        badA.append("A[%d,%d]=%r, exact model over the common grid %s" % (j, s_, Aimpl[j, s_], rs(A[j][s_])))
            for i in range(nx):
                rr = R.driver.get("Dr%d_%d" % (kd, i)).vec()
                for j in range(nf):
                    if not close(sc[i, j], Q[i][j], scaleQ, RT):
                        badA.append("system_capture[%d,%d]=%r, model %s" % (i, j, sc[i, j], rs(Q[i][j])))
                    if not close(cm[i, j], Mix[i][j], scaleQ, RT):
                        badA.append("capture(mixed spectrum, domain=grid)[%d,%d]=%r, model %s" % (i, j, cm[i, j], rs(Mix[i][j])))
                    if not close(rel[i, j], rr[j], scaleR, RT) or not close(rm[i, j], rr[j], scaleR, RT):
                        badA.append("relative captures [%d,%d] = %r / %r, model K(Q+baseline) = %s" % (i, j, rel[i, j], rm[i, j], rs(rr[j])))
            km = R.driver.get("Dk%d" % kd).vec()
            sK = float(np.max(np.abs(out["K_bg"]))) + 1e-300
            for j in range(nf):
                if not close(out["q_bg"][j], c["_qbs"][j], float(np.max(np.abs(out["q_bg"]))) + 1e-300, RT):
                    badA.append("capture(background, domain=grid)[%d]=%r, model %s" % (j, out["q_bg"][j], rs(c["_qbs"][j])))
                if not close(out["K_bg"][j], km[j], sK, RT):
                    badA.append("K[%d]=%r after adapting to a background given with domain=grid, model %s" % (j, out["K_bg"][j], rs(km[j])))
        seen = set()
        for sig, what in bad:
            if sig in seen:
                continue
            seen.add(sig)
            R.failB(dict(pub, impl=dict(out)), what, sigt % sig)
        if badA and not bad:
            R.failA(dict(pub, impl=dict(out)), "spectra on their own grid (%s): %s" % (c["signal_domain_kind"], badA[0]))
