"""./check Cxx [--tier quick|thorough] [--seed N] [--case K] [--replay FILE]"""
import os
import sys
import json
import argparse
import importlib
import traceback

sys.path.insert(0, os.path.dirname(os.path.abspath(__file__)))
import common  # noqa: E402


def main():
    ap = argparse.ArgumentParser()
    ap.add_argument("prop")
    ap.add_argument("--tier", default=os.environ.get("VERIF_TIER") or "quick")
    ap.add_argument("--seed", type=int, default=None)
    ap.add_argument("--case", default=None)
    ap.add_argument("--replay", default=None)
    a = ap.parse_args()
    seed = a.seed if a.seed is not None else int(os.environ.get("VERIF_SEED") or 0)
    tier = a.tier if a.tier in ("quick", "thorough") else "quick"
    case = a.case
    if a.replay:
        rp = json.load(open(a.replay))
        seed = int(rp.get("seed", seed))
        tier = rp.get("tier", tier)
        c = rp.get("case") or {}
        case = c.get("k", case) if isinstance(c, dict) else case
        print("replaying %s: seed=%d tier=%s case=%s" % (a.replay, seed, tier, case))
    if case in ("", None):
        case = None
    try:
        mod = importlib.import_module("p" + a.prop[1:])
    except ImportError:
        print("no check module for", a.prop)
        traceback.print_exc()
        return 2
    R = common.Run(a.prop, tier, seed, only_case=case)
    try:
        lean = common.lean_obligations(a.prop, tier)
        mod.run(R)
        return R.finish(lean)
    except Exception:  # noqa: BLE001  infrastructure problem: neither pass nor violation
        traceback.print_exc()
        print("INFRASTRUCTURE-ERROR property=%s" % a.prop)
        return 2


if __name__ == "__main__":
    sys.exit(main())
