#!/bin/bash
# runs the repository's test suite with the hook guard OFF and compares with BASELINE.json's stable_pass
cd /repo && env -u DREYE_VERIF /venv/bin/python -m pytest -q -p no:cacheprovider --timeout=900 --continue-on-collection-errors --junitxml=/tmp/baseline_junit.xml > /tmp/baseline_tests.log 2>&1
python3 - <<'PY'
import json, xml.etree.ElementTree as ET
base=set(json.load(open('/root/.vp/BASELINE.json'))['stable_pass'])
ok=set()
for tc in ET.parse('/tmp/baseline_junit.xml').getroot().iter('testcase'):
    if not any(ch.tag in ('failure','error','skipped') for ch in tc):
        ok.add(tc.get('classname')+'::'+tc.get('name'))
missing=sorted(base-ok)
print("baseline tests passing: %d/%d; additionally passing: %d"%(len(base&ok),len(base),len(ok-base)))
if missing: print("MISSING:", missing)
PY
