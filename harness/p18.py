"""C18 — gamut-size and divergence metrics equal their geometric / information definitions."""
import math
import numpy as np
from common import F, rs, vs, ms, dyadic, close, call, as_given
from p16 import f_of_bits


def rot_cayley(rng, d):
    """exact-ish rational orthogonal matrix via the Cayley transform of a small skew matrix"""
    S = dyadic(rng, -1, 1, 2, size=(d, d)); S = S - S.T
    I = np.eye(d)
    return np.linalg.solve(I + S, I - S)


def directions(seed, d, n):
    U = np.random.default_rng(seed).standard_normal(size=(d, n))
    U /= np.linalg.norm(U, axis=0)
    return U.T


def polygon(rng, m):
    ang = np.sort(rng.uniform(0, 2 * np.pi, size=m))
    r = float(dyadic(rng, 1, 3, 2))
    return np.c_[r * np.cos(ang), r * np.sin(ang)]


def flat_cloud(rv, npts, d):
    """npts points of affine rank r < d in d dimensions: an exact (dyadic) affine image of an r-dimensional cloud, or an
    r-dimensional cloud rotated out of the coordinate flat (flat up to rounding)"""
    r = int(rv.integers(1, d))
    kind = str(rv.choice(["affine", "rotated"]))
    if kind == "affine":
        X = dyadic(rv, -2, 2, 2, size=(npts, r)) @ dyadic(rv, -2, 2, 2, size=(r, d)) + dyadic(rv, -4, 4, 2, size=d)
    else:
        Z = np.zeros((npts, d)); Z[:, :r] = dyadic(rv, -4, 4, 3, size=(npts, r))
        X = Z @ rot_cayley(rv, d).T + dyadic(rv, -4, 4, 2, size=d)
    return X, "%s:rank%d-in-%d" % (kind, r, d)


def few_points_cloud(rv):
    """a cloud with NO MORE POINTS THAN DIMENSIONS (2 <= n <= d, d = 2..5) of affine rank r = 1..n-1 and the r-dimensional
    volume of its hull in closed form. r = n-1: a simplex in general position (sqrt(Gram determinant)/r!). r < n-1: affinely
    DEPENDENT points - the vertices of an r-simplex plus points of it (a repeated vertex, a point on an edge, a convex
    combination: the hull is unchanged), or for r = 2 the corners of a convex polygon (shoelace area); so also a planar
    quadrilateral in 4-D/5-D, collinear points in 3-5 dimensions. Embedded by an exact dyadic affine map, a Cayley rotation
    (flat up to rounding) or into coordinate axes. Well conditioned: the smallest variance within the span is >= 1e-3 of
    the total. Returns (X, exact volume, description)."""
    for _ in range(40):
        d = int(rv.choice([2, 3, 3, 3, 4, 4, 4, 5, 5, 5])); n = int(rv.integers(2, d + 1))
        r = n - 1 if (n == 2 or rv.integers(2)) else int(rv.integers(1, n - 1))
        m = n - (r + 1)
        if r == 2 and m >= 1 and rv.integers(2):
            Z = polygon(rv, n); x, y = Z[:, 0], Z[:, 1]
            vol = 0.5 * abs(np.dot(x, np.roll(y, -1)) - np.dot(y, np.roll(x, -1))); how = "polygon"
        else:
            V = dyadic(rv, -3, 3, 2, size=(r + 1, r))
            vol = abs(np.linalg.det(V[1:] - V[0])) / math.factorial(r)
            rows = [V]; hows = []
            for _j in range(m):
                kind = str(rv.choice(["repeated-vertex", "edge-point", "convex-combination"]))
                w = np.zeros(r + 1)
                if kind == "repeated-vertex":
                    w[int(rv.integers(r + 1))] = 1.0
                elif kind == "edge-point":
                    i0 = int(rv.integers(r + 1)); i1 = (i0 + 1 + int(rv.integers(r))) % (r + 1); a = float(rv.integers(1, 8)) / 8.0
                    w[i0] = a; w[i1] = 1.0 - a
                else:
                    w = rv.multinomial(8, np.ones(r + 1) / (r + 1)) / 8.0
                rows.append((w @ V)[None, :]); hows.append(kind)
            Z = np.vstack(rows); how = "simplex" + ("+" + "+".join(sorted(set(hows))) if hows else "")
        Z = Z[rv.permutation(len(Z))]
        emb = str(rv.choice(["affine", "rotated", "axes"]))
        if emb == "affine":
            A = dyadic(rv, -2, 2, 2, size=(r, d))
            X = Z @ A + dyadic(rv, -4, 4, 2, size=d); vol = vol * math.sqrt(max(float(np.linalg.det(A @ A.T)), 0.0))
        elif emb == "rotated":
            X = np.c_[Z, np.zeros((n, d - r))] @ rot_cayley(rv, d).T + dyadic(rv, -4, 4, 2, size=d)
        else:
            X = np.zeros((n, d)); X[:, np.sort(rv.permutation(d)[:r])] = Z; X = X + dyadic(rv, -4, 4, 2, size=d)
        sv = np.linalg.svd(X - X.mean(0), compute_uv=False) ** 2
        if sv.sum() > 0 and sv[r - 1] >= 1e-3 * sv.sum() and vol > 1e-3:
            return np.ascontiguousarray(X), float(vol), "%d-points-in-%dD:rank%d:%s:%s" % (n, d, r, how, emb)
    X = np.array([[0.0, 0.0, 0.0], [1.0, 2.0, 2.0], [0.5, 1.0, 1.0]])
    return X, 3.0, "3-points-in-3D:rank1:simplex+edge-point:fallback"


def chroma_rank(X):
    C = X / X.sum(1, keepdims=True)
    return int(np.linalg.matrix_rank(C - C[0], tol=1e-9))


def planar_mean_width_factor(d):
    """mean width of a planar convex body embedded in R^d = perimeter/pi * E|projection of a uniform unit vector onto a
    2-plane| = perimeter/pi * Gamma(3/2) Gamma(d/2) / Gamma((d+1)/2)   (d=2: perimeter/pi, d=3: perimeter/4)"""
    return math.gamma(1.5) * math.gamma(d / 2) / math.gamma((d + 1) / 2) / math.pi


def run(R):
    import dreye
    n = 50 if R.tier == "quick" else 600
    R.rule = ("point clouds in 1-5 dimensions (random dyadic, large >300 points, flat/rank-deficient of every affine rank below the "
              "dimension - exact affine images and rotated flats, with more points than a simplex -, boxes, simplices, polygons also "
              "embedded in 3-4 dimensions with interior points; gamut clouds from fewer sources than receptors incl. faces of the "
              "simplex, gamut clouds strictly inside the chromaticity simplex, touching its boundary (exact zeros in some but not all "
              "channels), containing its corners (single-channel captures; volume compared with the unit-edge regular simplex) and "
              "whole-number captures handed in as integer arrays / lists / Fortran / strided views; estimator systems with fewer "
              "sources than receptors, with everywhere-positive, banded (compact overlapping support) and scattered-zero filters and "
              "broad or band-limited sources, in the default adaptational state or with a registered K (scalar / per receptor) and a dark "
              "baseline capture (scalar / per receptor / in a single receptor or some receptors only; 1/1024 of to the order of the light-induced captures): the "
              "fraction in absolute capture lies in (0, 1] in every state), "
              "clouds with NO MORE POINTS THAN DIMENSIONS: 2..d points in 2-5 dimensions, affinely independent (a simplex within its "
              "span) or dependent (repeated vertex, point on an edge, convex combination, planar polygon; collinear points) "
              "embedded by a dyadic affine map / a rotation / into coordinate axes, handed in as array / Fortran / strided / list, "
              "volume compared with the closed form, with s^rank x volume after scaling+rotation+shift and with the volume "
              "after a point of the hull was added; gamut clouds with 2..n_receptors rows; "
              "rigid motions (Cayley rotations), positive scalings, added points, seeds; non-negative vector pairs incl. zeros and "
              "unequal totals for the divergence. Mean width is compared with the Float run of the model on the SAME direction "
              "sample (regenerated from the seed), and with the closed form perimeter/pi * Gamma(3/2)Gamma(d/2)/Gamma((d+1)/2) on planar polygons in d dimensions; volume with closed forms; gamut ratios with "
              "their stated invariances (intensity scale, 1 relative to itself and positive whenever two chromaticities differ, <= 1 "
              "relative to a superset, unchanged when non-negative mixtures of the rows are added = same convex hull; every second gamut "
              "cloud is also measured with 1-2 zero-intensity (dark) rows at random positions, as measured and as reference cloud: 1 "
              "relative to itself, <= 1 as a superset of the cloud without them; whether the metric itself is unchanged is recorded); divergence with the Float model and the proved bounds. Non-trivial: dimension >= 2 with "
              ">= 4 distinct points, or a divergence pair with unequal totals.")
    jobs = []
    for k in range(n):
        if not R.want(k):
            continue
        rng = R.rng(1, k)
        what = str(rng.choice(["width", "width", "volume", "gamut", "gamut", "jsd"]))
        c = dict(k=k, what=what)
        R.count("what:" + what)
        if what == "width":
            d = int(rng.integers(1, 6)); big = bool(rng.integers(4) == 0)
            npts = int(rng.integers(300, 500)) if big else int(rng.integers(2, 15))
            X = dyadic(rng, -4, 4, 3, size=(npts, d)); flat = None
            if rng.integers(4) == 0 and d >= 2:
                X[:, -1] = X[:, 0] * 0.5      # flat cloud
                flat = "hyperplane"
            rv = R.rng(5, k)
            if d >= 2 and rv.integers(3) == 0:    # flat clouds of every affine rank below d (incl. more than d+1 points)
                X, flat = flat_cloud(rv, npts, d)
            seed = int(rng.integers(0, 1000)); nd = 48 if not big else 1000
            vec = bool(rng.integers(2)); ctr = bool(rng.integers(2))
            R.count("width-cloud:%s" % ("flat:" + flat if flat else "full-dimensional"))
            c.update(dim=d, n_points=npts, flat=flat, X=X if not big else "(%d x %d cloud, seed %d)" % (npts, d, k), seed=seed, n_dirs=nd, vectorized=vec, center=ctr)
            t = dyadic(rng, -8, 8, 2, size=d); s = float(dyadic(rng, 0.25, 8, 2))
            extra = dyadic(rng, -6, 6, 3, size=(int(rng.integers(1, 250 if big else 5)), d))

            def impl():
                f = lambda Y: dreye.compute_mean_width(Y, n=nd, vectorized=vec, center=ctr, seed=seed)  # noqa: E731
                return f(X), f(X + t), f(X * s), f(np.vstack([X, extra])), dreye.compute_mean_width(X, n=nd, vectorized=not vec, center=ctr, seed=seed)
            st, out = call(impl)
            if d >= 2 and not big:
                U = directions(seed, d, nd)
                R.driver.ask("w%d" % k, "meanwidth", ms(U), ms(X))
            elif d == 1:
                R.driver.ask("w%d" % k, "range1", vs(X[:, 0]))
            jobs.append((c, st, out, dict(X=X, d=d, big=big, s=s)))
            R.count("width:%s" % ("big" if big else "small")); R.count("dim:%d" % d)
        elif what == "volume":
            d = int(rng.integers(1, 5))
            fam = str(rng.choice(["box", "simplex", "polygon", "flat_box", "identical"]))
            if fam == "box":
                sides = dyadic(rng, 0.5, 4, 2, size=d)
                from itertools import product
                X = np.array(list(product(*[[0.0, sd] for sd in sides]))) + dyadic(rng, -2, 2, 2, size=d)
                X = np.vstack([X, X.mean(0, keepdims=True)]); exact = float(np.prod(sides)) if d >= 2 else float(sides[0])
            elif fam == "simplex":
                V = dyadic(rng, -3, 3, 2, size=(d + 1, d))
                exact = abs(np.linalg.det(V[1:] - V[0])) / math.factorial(d) if d >= 2 else float(V.max() - V.min())
                X = V
                if exact < 1e-6:
                    # degenerate simplex drawn: use a segment instead -- two points; the volume within the affine span is its length
                    fam = "box"; X = np.array([[0.0] * d, [1.0] * d]); exact = math.sqrt(d)
            elif fam == "polygon":
                d = 2; X = polygon(rng, int(rng.integers(3, 9)))
                x, y = X[:, 0], X[:, 1]; exact = 0.5 * abs(np.dot(x, np.roll(y, -1)) - np.dot(y, np.roll(x, -1)))
            elif fam == "flat_box":
                d = 3; a, b = dyadic(rng, 1, 4, 2, size=2)
                Q2 = np.array([[0, 0], [a, 0], [0, b], [a, b], [a / 2, b / 2]])
                Rm = rot_cayley(rng, 3); X = np.c_[Q2, np.zeros(5)] @ Rm.T + 1.0; exact = float(a * b)
            else:
                X = np.tile(dyadic(rng, -2, 2, 2, size=(1, max(d, 2))), (4, 1)); exact = 0.0
            rv = R.rng(12, k)
            c.update(family=fam, X=X, exact=exact)
            R.count("volume:" + fam)
            st, out = call(dreye.compute_volume, as_given(rv, X.copy(), R, "volume-X", kinds=("same", "fortran", "strided", "list")))
            jobs.append((c, st, out, dict(exact=exact, X=X)))
        elif what == "gamut":
            nf = int(rng.integers(2, 5)); npts = int(rng.integers(4, 12))
            X = dyadic(rng, 0.125, 4, 3, size=(npts, nf)); seed = int(rng.integers(1000))
            metric = str(rng.choice(["width", "volume"]))
            scales = dyadic(rng, 0.25, 8, 2, size=(npts, 1))
            # few rows: a cloud may have no more rows than receptors (2..nf captures: the chromaticities are then no more points
            # than dimensions of the chromaticity diagram, or just one more)
            rf = R.rng(13, k)
            if rf.integers(4) == 0:
                npts = int(rf.integers(2, nf + 1)); X = X[:npts]; scales = scales[:npts]
            R.count("gamut-rows:%s" % ("few(<=receptors)" if npts <= nf else "more-than-receptors"))
            rv = R.rng(6, k); gflat = None; sup = None
            if nf >= 3 and rv.integers(3) == 0:
                # captures of fewer sources than receptors: the chromaticities lie in a flat of the simplex (on a face of it
                # when the sources do not reach one receptor at all)
                ns_ = int(rv.integers(2, nf))
                A = dyadic(rv, 0, 2, 3, size=(ns_, nf)) + 0.125
                gflat = "%d-sources-%d-receptors" % (ns_, nf)
                if rv.integers(2):
                    A[:, int(rv.integers(nf))] = 0.0; gflat += ":face"
                W = dyadic(rv, 0, 1, 3, size=(npts, ns_)); W[:, 0] += 0.125
                X = W @ A
                if metric == "width":       # a full-dimensional superset (per direction the width cannot shrink)
                    sup = np.vstack([X, dyadic(rv, 0.125, 4, 3, size=(nf + 2, nf))])
            # where the cloud sits in the chromaticity simplex: strictly inside (all captures positive), touching its boundary
            # (exact zeros in some but not all channels of some rows), containing its corners (single-channel captures, so that
            # the hull is the whole simplex), or whole-number captures 0..4 (zeros included; may be handed in with an integer dtype)
            rb = R.rng(9, k)
            where = "flat" if gflat else str(rb.choice(["positive", "positive", "boundary", "corners", "whole"]))
            if where == "boundary":
                mask = rb.random(X.shape) < 0.35
                mask[np.arange(npts), rb.integers(nf, size=npts)] = False      # every row keeps a positive channel
                X = np.where(mask, 0.0, X)
            elif where == "corners":
                rows = [np.diag(dyadic(rb, 0.25, 4, 2, size=nf))]
                ni_ = int(rb.integers(0, 4)); nb_ = int(rb.integers(0, 3))
                if ni_:
                    rows.append(dyadic(rb, 0.125, 4, 3, size=(ni_, nf)))
                if nb_:
                    Bd = dyadic(rb, 0.125, 4, 3, size=(nb_, nf)); Bd[np.arange(nb_), rb.integers(nf, size=nb_)] = 0.0
                    rows.append(Bd)
                X = np.vstack(rows)
                X = X[rb.permutation(len(X))]
            elif where == "whole":
                X = dyadic(rb, 0, 4, 0, size=(npts, nf))
                X[X.sum(1) == 0, 0] = 1.0
            if len(X) != npts:
                npts = len(X); scales = dyadic(rb, 0.25, 8, 2, size=(npts, 1))
            sub = X[: max(nf + 1, npts // 2)]
            # volume is measured within the affine span: the subset/superset comparison needs equal affine rank
            same_rank = metric == "width" or chroma_rank(sub) == chroma_rank(X)
            # further captures that are non-negative mixtures of the rows: their chromaticities are convex combinations of the
            # cloud's chromaticities, so the convex hull -- and with it mean width and volume -- is the same
            Wm = dyadic(rb, 0, 1, 3, size=(int(rb.integers(1, 5)), npts)); Wm[:, int(rb.integers(npts))] += 0.125
            mixed = np.vstack([X, Wm @ X])
            Cx = X / X.sum(1, keepdims=True)
            distinct = bool(np.max(np.abs(Cx - Cx[0])) > 1e-6)
            Xg = as_given(rb, X.copy(), R, "X")
            # dark samples: every second cloud is also measured with 1-2 zero-intensity rows (all sources off: the capture point of a
            # system with zero lower bounds and no baseline) at random positions -- as the measured cloud and as the reference cloud.
            # A dark row has no chromaticity; the cloud with it is a superset of the cloud without it.
            rd = R.rng(11, k); Xd = None
            if rd.integers(2) == 0:
                Xd = X.copy()
                for _ in range(int(rd.integers(1, 3))):
                    Xd = np.insert(Xd, int(rd.integers(0, len(Xd) + 1)), 0.0, axis=0)
                Xdg = as_given(rd, Xd.copy(), R, "X-with-dark-rows")
            R.count("gamut-dark-rows:%s" % ("none" if Xd is None else int(np.sum(Xd.sum(1) == 0))))
            c.update(nf=nf, X=X, metric=metric, seed=seed, flat=gflat, cloud=where, mixtures=Wm @ X,
                     given_as=("list" if isinstance(Xg, list) else str(Xg.dtype)), with_dark_rows=Xd)
            R.count("gamut:" + metric); R.count("gamut-cloud:%s" % ("flat:" + gflat if gflat else "full-dimensional"))
            R.count("gamut-where:" + where); R.count("gamut-rows-with-zero-channel:%s" % ("none" if not np.any(X == 0) else ("all" if np.all(np.any(X == 0, axis=1)) else "some")))

            def impl():
                def g(Y, **kw):
                    # a cloud whose rows all have one chromaticity has size 0; relative to such a reference the ratio is 0/0, which has no
                    # value: dreye answers nan or a loud ZeroDivisionError, and the property's "relative to" clauses say nothing there
                    # (the checks below are already conditioned on g != 0 or distinct). Only that refusal, only for such a cloud.
                    try:
                        return dreye.compute_gamut(Y, metric=metric, seed=seed, **kw)
                    except ZeroDivisionError:
                        if distinct or "relative_to" not in kw:
                            raise
                        R.count("gamut:single-chromaticity-reference:0/0-refused-loudly")
                        return float("nan")
                out = (g(Xg), g(X * scales), g(X, relative_to=X), g(sub, relative_to=X), (g(X, relative_to=sup) if sup is not None else 0.0),
                       g(mixed), g(X, relative_to=mixed))
                if Xd is not None:
                    out += (g(Xdg), g(Xdg, relative_to=Xdg), g(Xd, relative_to=Xd.copy()), g(X, relative_to=Xdg), g(sub, relative_to=Xd))
                return out
            st, out = call(impl)
            jobs.append((c, st, out, dict(same_rank=same_rank, distinct=distinct, where=where, nf=nf, metric=metric, dark=Xd is not None)))
        else:
            m = int(rng.integers(2, 9))
            P = dyadic(rng, 0, 4, 3, size=m); Q = dyadic(rng, 0, 4, 3, size=m)
            if rng.integers(3) == 0:
                P[rng.integers(m)] = 0.0
            kind = str(rng.choice(["generic", "proportional", "disjoint", "unequal_totals"]))
            if kind == "proportional":
                Q = P * float(dyadic(rng, 0.25, 8, 2))
            elif kind == "disjoint":
                mask = rng.random(m) < 0.5; mask[0] = True; mask[-1] = False
                P = np.where(mask, P + 0.5, 0.0); Q = np.where(mask, 0.0, Q + 0.5)
            elif kind == "unequal_totals":
                Q = Q * 8.0
            if P.sum() == 0 or Q.sum() == 0:
                P = P + 1.0; Q = Q + 0.5
            a = float(dyadic(rng, 0.25, 8, 2))
            c.update(P=P, Q=Q, pair_kind=kind)
            R.count("jsd:" + kind)
            st, out = call(lambda: (dreye.compute_jensen_shannon_divergence(P, Q), dreye.compute_jensen_shannon_divergence(Q, P),
                                    dreye.compute_jensen_shannon_divergence(P * a, Q), dreye.compute_jensen_shannon_similarity(P, Q)))
            R.driver.ask("j%d" % k, "jsd", vs(P), vs(Q))
            jobs.append((c, st, out, dict(kind=kind)))
    R.driver.run()
    for c, st, out, X_ in jobs:
        k = c["k"]; what = c["what"]
        sig = "C18:" + what
        nontriv = None
        if what == "width" and X_["d"] >= 2 and len(X_["X"]) >= 4:
            nontriv = (k,)
        if what == "jsd" and X_["kind"] in ("unequal_totals", "generic"):
            nontriv = (k,)
        if what in ("volume", "gamut"):
            nontriv = (k,)
        R.case(c, nontriv, sample=(nontriv is not None and what != "width") or (what == "width" and not X_["big"] and X_["d"] >= 2))
        if st != "ok":
            R.failB(dict(c, impl_error=out), "%s raised %s: %s" % (what, st, out), sig + ":raises:" + st); continue
        if what == "width":
            w, wt, ws, wa, wv = [float(v) for v in out]
            sc = abs(w) + 1.0
            t = R.driver.get("w%d" % k)
            if t is not None:
                m = f_of_bits(t.tok())
                if abs(w - m) > 1e-10 * sc:
                    R.failB(dict(c, impl=w, model=m), "mean width %r differs from the average of max+max(-) over the same direction sample: %r" % (w, m), sig + ":mismatch")
            if abs(wt - w) > 1e-9 * sc:
                R.failB(dict(c, impl=[w, wt]), "mean width changed under translation: %r -> %r" % (w, wt), sig + ":translation")
            if abs(ws - X_["s"] * w) > 1e-9 * sc * X_["s"]:
                R.failB(dict(c, impl=[w, ws], scale=X_["s"]), "mean width is not homogeneous: %r x %r != %r" % (X_["s"], w, ws), sig + ":scale")
            if wa < w - 1e-9 * sc:
                R.failB(dict(c, impl=[w, wa]), "mean width decreased when points were added: %r -> %r" % (w, wa), sig + ":monotone" + (":big" if X_["big"] else ""))
            if abs(wv - w) > 1e-9 * sc:
                R.failB(dict(c, impl=[w, wv]), "vectorized and loop versions differ: %r vs %r" % (w, wv), sig + ":vectorized" + (":big" if X_["big"] else ""))
        elif what == "volume":
            v = float(out); ex = X_["exact"]
            if abs(v - ex) > 1e-9 * (abs(ex) + 1.0):
                R.failB(dict(c, impl=v), "volume %r, closed form %r (%s)" % (v, ex, c["family"]), sig + ":" + c["family"])
        elif what == "gamut":
            g, gs, gself, gsub, gsup, gmix, gxmix = [float(v) for v in out[:7]]
            if X_["dark"]:
                gd, gdself, gdself2, gxd, gsubd = [float(v) for v in out[7:]]
                R.count("gamut-dark-rows:metric-%s" % ("unchanged-by-dark-rows" if abs(gd - g) <= 1e-9 * (abs(g) + 1) else "changed-by-dark-rows(recorded)"))
                for v_ in (gdself, gdself2):
                    if (g != 0 or X_["distinct"]) and not abs(v_ - 1.0) <= 1e-12:
                        R.failB(dict(c, impl=v_), "gamut of a cloud with zero-intensity (dark) rows relative to itself is %r" % v_, sig + ":self:dark-rows"); break
                if gxd > 1.0 + 1e-9:
                    R.failB(dict(c, impl=gxd), "gamut relative to a superset (the cloud plus dark rows) is %r > 1" % gxd, sig + ":superset:dark-rows")
                if X_["same_rank"] and gsubd > 1.0 + 1e-9:
                    R.failB(dict(c, impl=gsubd), "gamut of a subset relative to its superset (with dark rows) is %r > 1" % gsubd, sig + ":superset:dark-rows")
            if abs(gs - g) > 1e-9 * (abs(g) + 1):
                R.failB(dict(c, impl=[g, gs]), "gamut metric changed when rows were rescaled in intensity: %r -> %r" % (g, gs), sig + ":intensity-scale")
            if X_["distinct"] and not g > 0:
                # two different chromaticities span a hull of positive width / positive volume within its affine span
                R.failB(dict(c, impl=g), "gamut metric of a cloud with at least two different chromaticities is %r, not positive" % g, sig + ":not-positive")
            if (g != 0 or X_["distinct"]) and not abs(gself - 1.0) <= 1e-12:
                R.failB(dict(c, impl=gself), "gamut relative to itself is %r" % gself, sig + ":self")
            if not abs(gmix - g) <= 1e-9 * (abs(g) + 1):
                R.failB(dict(c, impl=[g, gmix]), "gamut metric changed (%r -> %r) when captures were added whose chromaticities are convex combinations of the cloud's (same convex hull)" % (g, gmix),
                        sig + ":hull-only")
            if gxmix > 1.0 + 1e-9:
                R.failB(dict(c, impl=gxmix), "gamut relative to a superset (the cloud plus mixtures of its rows) is %r > 1" % gxmix, sig + ":superset")
            if X_["where"] == "corners" and X_["metric"] == "volume":
                # the hull is the whole chromaticity simplex: a regular simplex with unit edges in nf-1 dimensions
                m_ = X_["nf"] - 1
                ex = math.sqrt(m_ + 1) / (math.factorial(m_) * math.sqrt(2.0 ** m_))
                if not abs(g - ex) <= 1e-9:
                    R.failB(dict(c, impl=g, closed_form=ex), "gamut volume of a cloud containing all corners of the chromaticity simplex is %r, the unit-edge regular simplex has %r" % (g, ex), sig + ":corners-volume")
            if X_["same_rank"] and gsub > 1.0 + 1e-9:
                R.failB(dict(c, impl=gsub), "gamut of a subset relative to its superset is %r > 1" % gsub, sig + ":superset")
            if gsup > 1.0 + 1e-9:
                R.failB(dict(c, impl=gsup), "gamut of a flat cloud relative to a full-dimensional superset is %r > 1" % gsup, sig + ":superset")
        else:
            j, jr, ja, sim = [float(v) for v in out]
            m = f_of_bits(R.driver.get("j%d" % k).tok())
            if abs(j - m) > 1e-12:
                R.failB(dict(c, impl=j, model=m), "divergence %r, model %r" % (j, m), sig + ":mismatch:" + X_["kind"])
            if abs(j - jr) > 1e-12:
                R.failB(dict(c, impl=[j, jr]), "divergence is not symmetric", sig + ":symmetry")
            if abs(ja - j) > 1e-12:
                R.failB(dict(c, impl=[j, ja]), "divergence changed when one input was rescaled: %r -> %r" % (j, ja), sig + ":normalisation")
            if j < -1e-12 or j > 1 + 1e-12:
                R.failB(dict(c, impl=j), "divergence %r outside [0, 1] bit" % j, sig + ":range")
            if X_["kind"] == "proportional" and abs(j) > 1e-12:
                R.failB(dict(c, impl=j), "divergence of proportional inputs is %r" % j, sig + ":proportional")
            if X_["kind"] == "disjoint" and abs(j - 1) > 1e-12:
                R.failB(dict(c, impl=j), "divergence of inputs with disjoint support is %r, not 1 bit" % j, sig + ":disjoint")
            if abs(sim - (1 - j)) > 1e-12:
                R.failB(dict(c, impl=[j, sim]), "similarity is not 1 - divergence", sig + ":similarity")
    # geometric mean width: polygons, perimeter / pi (Monte-Carlo: 5 sigma)
    for k in range(n, n + (4 if R.tier == "quick" else 40)):
        if not R.want(k):
            continue
        rng = R.rng(2, k)
        X = polygon(rng, int(rng.integers(3, 10)))
        hull_per = float(np.sum(np.linalg.norm(X - np.roll(X, -1, axis=0), axis=1)))
        nd = 20000
        rv = R.rng(7, k); de = int(rv.choice([2, 2, 3, 3, 4])); factor = planar_mean_width_factor(de)
        ni = int(rv.integers(0, 6))
        if ni:       # interior points do not change the hull
            Wc = rv.dirichlet(np.ones(len(X)), size=ni)
            X = np.vstack([X, Wc @ X])[rv.permutation(len(X) + ni)]
        if de > 2:   # the same polygon embedded in 3 or 4 dimensions (a flat cloud)
            X = np.c_[X, np.zeros((len(X), de - 2))] @ rot_cayley(rv, de).T + dyadic(rv, -2, 2, 2, size=de)
        c = dict(k=k, what="width_geometric", X=X, n_dirs=nd, embedded_in=de, interior_points=ni)
        R.count("what:width_geometric"); R.count("width_geometric:polygon-in-%dD" % de)
        st, w = call(dreye.compute_mean_width, X, n=nd, vectorized=True, seed=int(k))
        R.case(c, (k,))
        if st != "ok":
            R.failB(dict(c, impl_error=w), "raised %s" % w, "C18:width_geometric:raises:" + st); continue
        if abs(float(w) - hull_per * factor) > 5 * hull_per / np.sqrt(nd):
            R.failB(dict(c, impl=float(w)), "mean width %r of a convex polygon in %d dimensions, closed form (perimeter/pi in the plane, perimeter/4 in space) = %r" % (float(w), de, hull_per * factor), "C18:width_geometric:cauchy")
    # volume of clouds with no more points than dimensions (2..d points in 2-5 dimensions; affinely independent or dependent):
    # closed form within the affine span; rigid motion / scaling / added points of the hull leave it / scale it / do not shrink it
    for k in range(n + 200, n + 200 + (12 if R.tier == "quick" else 150)):
        if not R.want(k):
            continue
        rv = R.rng(12, k)
        X, exact, few = few_points_cloud(rv)
        n_, d_ = X.shape; r_ = int(few.split(":")[1][4:])
        sc_ = float(dyadic(rv, 0.25, 8, 2)); t_ = dyadic(rv, -8, 8, 2, size=d_); Rm = rot_cayley(rv, d_)
        # one more point of the hull (a convex combination of the rows): the hull, hence its volume, is the same; the cloud may
        # then have more points than dimensions
        w_ = rv.multinomial(8, np.ones(n_) / n_) / 8.0
        Xa = np.vstack([X, (w_ @ X)[None, :]])[rv.permutation(n_ + 1)]
        c = dict(k=k, what="volume", family="few_points", X=X, exact=exact, few_points=few, scale=sc_, shift=t_, rotation=Rm, with_hull_point=Xa)
        R.count("what:volume_few_points"); R.count("volume-few-points:%d-in-%dD" % (n_, d_))
        R.count("volume-few-points:%s" % ("affinely-independent" if r_ == n_ - 1 else "affinely-dependent:rank%d" % r_))
        R.count("volume-few-points:%s" % ":".join(few.split(":")[2:]))
        Xg = as_given(rv, X.copy(), R, "volume-X", kinds=("same", "fortran", "strided", "list"))
        st, out = call(lambda: (dreye.compute_volume(Xg), dreye.compute_volume((X * sc_) @ Rm.T + t_), dreye.compute_volume(Xa)))
        R.case(c, (k,), sample=True)
        sig = "C18:volume:few_points" + (":fewer-than-d-1-points" if n_ < d_ - 1 else "")
        if st != "ok":
            R.failB(dict(c, impl_error=out), "volume raised %s: %s" % (st, out), sig + ":raises:" + st); continue
        v, vm, va = [float(x_) for x_ in out]
        if abs(v - exact) > 1e-9 * (abs(exact) + 1.0):
            R.failB(dict(c, impl=v), "volume %r of %d points in %d dimensions, the hull within its affine span (rank %d) has %r (%s)" % (v, n_, d_, r_, exact, few), sig + ":closed-form")
        elif abs(vm - sc_ ** r_ * exact) > 1e-9 * (sc_ ** r_ * abs(exact) + 1.0):
            R.failB(dict(c, impl=[v, vm]), "volume after scaling by %r, rotating and shifting is %r, expected %r^%d x %r" % (sc_, vm, sc_, r_, exact), sig + ":motion-scale")
        elif va < v - 1e-9 * (abs(v) + 1.0) or abs(va - exact) > 1e-9 * (abs(exact) + 1.0):
            R.failB(dict(c, impl=[v, va]), "volume changed from %r to %r when a point of the hull was added" % (v, va), sig + ":added-point")
    # estimator: fractional gamut in absolute capture lies in (0, 1]
    for k in range(n + 100, n + 100 + (40 if R.tier == "quick" else 90)):
        if not R.want(k):
            continue
        rng = R.rng(3, k)
        nf = int(rng.integers(2, 5)); ns = int(rng.integers(nf, nf + 3)); nd_ = int(rng.integers(ns + 2, ns + 8))
        filt = dyadic(rng, 0, 1, 3, size=(nf, nd_)) + 0.125; src = dyadic(rng, 0, 1, 3, size=(ns, nd_)) + 0.125
        metric = str(rng.choice(["width", "volume"]))
        rv = R.rng(8, k)
        if nf >= 3 and rv.integers(3) == 0:
            # fewer sources than receptors: the system's chromaticities are a flat cloud inside the simplex; the mean width is
            # still at most that of the perfect system (volumes of different affine rank are not comparable)
            ns = int(rv.integers(2, nf)); metric = "width"
            src = dyadic(rv, 0, 1, 3, size=(ns, nd_)) + 0.125
        # support of the filters: everywhere positive (smooth templates), or compact -- contiguous overlapping bands (box /
        # triangular filters) or scattered exact zeros --, so that the single-wavelength captures of the perfect system have
        # exact zeros in some channels (they lie on the boundary of the chromaticity simplex); sources broad or band-limited
        rs_ = R.rng(10, k)
        support = str(rs_.choice(["positive", "banded", "scattered"]))
        if support == "banded":
            width_ = int(rs_.integers(max(2, nd_ // nf), nd_))
            starts = np.round(np.linspace(0, nd_ - width_, nf)).astype(int)
            band = np.zeros((nf, nd_), dtype=bool)
            for i_, s0 in enumerate(starts):
                band[i_, s0:s0 + width_] = True
            filt = np.where(band, filt, 0.0)
        elif support == "scattered":
            zm = rs_.random(filt.shape) < 0.4
            zm[np.arange(nf), rs_.integers(nd_, size=nf)] = False
            filt = np.where(zm, 0.0, filt)
        src_support = str(rs_.choice(["broad", "broad", "band-limited"]))
        if src_support == "band-limited":
            zs = rs_.random(src.shape) < 0.4
            src = np.where(zs, 0.0, src)
        if support != "positive" or src_support != "broad":
            # premise of a registered system: every source is seen by some receptor, and at least two chromaticities exist
            A_ = filt @ src.T
            Ch = A_ / np.where(A_.sum(0) > 0, A_.sum(0), 1.0)
            if np.any(A_.sum(0) <= 0) or np.max(np.abs(Ch - Ch[:, :1])) < 1e-3 or np.linalg.matrix_rank(Ch - Ch[:, :1], tol=1e-6) < min(nf - 1, ns - 1):
                support += "(degenerate->positive)"; filt = filt + 0.125; src = src + 0.125
        c = dict(k=k, what="estimator_gamut", filters=filt, sources=src, metric=metric, filter_support=support, source_support=src_support)
        R.count("what:estimator_gamut"); R.count("estimator_gamut:%s" % ("fewer-sources-than-receptors" if ns < nf else "sources>=receptors"))
        R.count("estimator_gamut:filters-%s" % support); R.count("estimator_gamut:sources-%s" % src_support)
        # adaptational state of the estimator (own stream): the default (K = 1, baseline = 0) or a registered one - K a scalar or one
        # value per receptor; a dark baseline capture as a scalar, one value per receptor, or in a single receptor only (dark noise of
        # one channel), from 1/1024 of to the same order as the light-induced captures. Absolute (light-induced) capture is what the
        # property speaks about: the fraction lies in (0, 1] whatever state is registered; whether it equals the fraction of the same
        # system in the default state is recorded.
        ra = R.rng(14, k)
        kkind = str(ra.choice(["default", "default", "scalar", "per-receptor"]))
        bkind = str(ra.choice(["default", "scalar", "per-receptor", "single-receptor", "single-receptor", "single-receptor", "some-receptors"]))
        ekw = {}
        if kkind == "scalar":
            ekw["K"] = float(dyadic(ra, 0.25, 4, 2))
        elif kkind == "per-receptor":
            ekw["K"] = dyadic(ra, 0.25, 4, 2, size=nf)
        bmag = float(2.0 ** -int(ra.integers(0, 11)))
        if bkind == "scalar":
            ekw["baseline"] = bmag * float(dyadic(ra, 1, 4, 2))
        elif bkind == "per-receptor":
            ekw["baseline"] = bmag * dyadic(ra, 0, 4, 2, size=nf)
        elif bkind == "single-receptor":
            b_ = np.zeros(nf); b_[int(ra.integers(nf))] = bmag * float(dyadic(ra, 1, 4, 2)); ekw["baseline"] = b_
        elif bkind == "some-receptors":
            on_ = ra.random(nf) < 0.5; on_[int(ra.integers(nf))] = True
            ekw["baseline"] = np.where(on_, bmag * dyadic(ra, 1, 4, 2, size=nf), 0.0)
        c.update(K=ekw.get("K", "default (1.0)"), baseline=ekw.get("baseline", "default (0.0)"))
        R.count("estimator_gamut:K-%s" % kkind); R.count("estimator_gamut:baseline-%s" % bkind)
        ekw_given = {q: (as_given(ra, v, R, "estimator-" + q, kinds=("same", "strided", "list")) if isinstance(v, np.ndarray) else v) for q, v in ekw.items()}

        def impl_est():
            g_ = dreye.ReceptorEstimator(filt, domain=1.0, sources=src, ub=np.ones(ns), **ekw_given).compute_gamut(metric=metric, seed=1, relative=False)
            g0_ = dreye.ReceptorEstimator(filt, domain=1.0, sources=src, ub=np.ones(ns)).compute_gamut(metric=metric, seed=1, relative=False) if ekw else g_
            return g_, g0_
        st, g = call(impl_est)
        R.case(c, (k,))
        if st != "ok":
            R.failB(dict(c, impl_error=g), "compute_gamut raised %s" % g, "C18:estimator_gamut:raises:" + st); continue
        g, g0 = float(g[0]), float(g[1])
        if ekw:
            R.count("estimator_gamut:absolute-fraction-%s" % ("same-as-in-default-state" if abs(g - g0) <= 1e-9 * (abs(g0) + 1) else "differs-from-default-state(recorded)"))
        if not (0 < float(g) <= 1 + 1e-9):
            R.failB(dict(c, impl=float(g), in_default_state=g0), "fractional gamut %r not in (0, 1]" % float(g), "C18:estimator_gamut:range:" + metric)
