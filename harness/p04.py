"""C04 — the default fit is the global bounded weighted least-squares optimum."""
import numpy as np
from common import F, rs, vs, ms, dyadic, close, call, as_given
from fitlib import gen_wellscaled, gen_target, certify_rows, fsqrt, K_text
import exactqp

HIGH = dict(solver="CLARABEL", tol_gap_abs=1e-12, tol_gap_rel=1e-12, tol_feas=1e-12, max_iter=500)


def drain():
    from dreye import _verif
    return _verif.drain()


# Corpus of past failing inputs, replayed by every run (all tiers, all seeds) before anything is concluded from the random cases: inputs on
# which the default fit failed at some commit of the library, judged with the ordinary default-fit predicates and certificates. The
# class they stand for -- problems on which the default QP solver cycles until its iteration limit -- is met by about one random
# well-scaled problem in 2000, i.e. not reliably by a run of a few hundred. Every entry: values only (exact binary floats as written).
CORPUS = [
    # KNOWN_FINDINGS.jsonl, commit 6801003 (found by ./check C04 --seed 5 --case s15:default): OSQP stops at its iteration limit
    dict(name="osqp-cycling-4x2-lower-bound-out-of-gamut", origin="KNOWN_FINDINGS.jsonl 6801003 (./check C04 --seed 5 --case s15:default)",
         A=[[5, 4.5], [7.5, 1.75], [3.5, 5], [1.75, 2]], B=[[39.14453125, 69.859375, 17.435546875, 5.7021484375]], kinds=["outside"],
         lb=[0.0625, 0.0625], ub=[np.inf, np.inf], W=[1.5, 1.5, 0.5, 1.25], K=[0.75], K_kind="scalar", baseline=[0.5, 1, 0.75, 0.75], baseline_kind="vector"),
    # exactly determined 3x3 system, default bounds, no weights / adaptation / baseline, in-gamut target A @ (0.27, 2.88, 4.6): OSQP stops at
    # its iteration limit (seeded change C04-m13 shows what happens without the library's retry)
    dict(name="osqp-cycling-3x3-default-bounds-in-gamut", origin="seeded/C04-m13/demo.py",
         A=[[3.02, 3.78, 0.78], [4.95, 4.71, 4.65], [2.23, 1.63, 3.24]],
         B=[(np.array([[3.02, 3.78, 0.78], [4.95, 4.71, 4.65], [2.23, 1.63, 3.24]]) @ np.array([0.27, 2.88, 4.6])).tolist()], kinds=["inside"],
         lb=[0.0, 0.0, 0.0], ub=[np.inf] * 3, W=None, K=None, K_kind="none", baseline=[0.0], baseline_kind="zero"),
]


def corpus_system(e):
    """the corpus entry as a system dict like fitlib.gen_wellscaled's"""
    from systems import apply_K
    A = np.array(e["A"], dtype=float); K = None if e["K"] is None else np.array(e["K"], dtype=float)
    base = np.array(e["baseline"], dtype=float); lb = np.array(e["lb"], dtype=float); ub = np.array(e["ub"], dtype=float)
    Ap, bp = apply_K(A, K, base)
    return dict(nf=A.shape[0], ns=A.shape[1], A=A, K=K, K_kind=e["K_kind"], baseline=base, baseline_kind=e["baseline_kind"], lb=lb, ub=ub,
                ub_kind=("finite" if np.all(np.isfinite(ub)) else "inf"), lb_kind=("zero" if not np.any(lb) else "pos"), Ap=Ap, bp=bp,
                cond=float(np.linalg.cond(Ap)))


PRIOR_KINDS = ["coarse", "solver_options", "excitation", "poisson", "other_bounds"]


def gen_prior(rng, S, force=None):
    """an earlier legitimate fit of the same system in the same process: dict(kind, model, kw (solver keyword pass-through), B
    (one or two targets that are captures of in-bound intensities, i.e. positive), optionally other bounds lb/ub)"""
    kind = force if force is not None else str(rng.choice(["none"] * 4 + [k_ for k_ in PRIOR_KINDS if k_ != "excitation"]))
    if kind == "none":
        return dict(kind=kind)
    nb = 1 if kind == "excitation" else int(rng.integers(1, 3))
    P = dict(kind=kind, model="gaussian", kw={}, B=np.array([gen_target(rng, S, "inside") for _ in range(nb)]))
    if kind == "coarse":
        # first-order solver, loose tolerance, a handful of iterations
        P["kw"] = dict(solver="SCS", eps=float(rng.choice([0.3, 0.1, 0.03])), max_iters=int(rng.choice([5, 20, 50])))
    elif kind == "solver_options":
        P["kw"] = [dict(solver="OSQP", eps_abs=1e-1, eps_rel=1e-1, max_iter=int(rng.choice([10, 40]))),
                   dict(solver="CLARABEL", max_iter=int(rng.choice([2, 5])), tol_gap_abs=1e-1, tol_gap_rel=1e-1, tol_feas=1e-1),
                   dict(solver="SCS", eps=1e-2, acceleration_lookback=0, max_iters=int(rng.choice([30, 200]))),
                   dict(solver="OSQP", polish=False, eps_abs=1e-2, eps_rel=1e-2, warm_start=False)][int(rng.integers(4))]
    elif kind in ("excitation", "poisson"):
        P["model"] = kind
        P["B"] = np.maximum(P["B"], 0.0625)
    elif kind == "other_bounds":
        lb = S["lb"] + 0.25
        P["lb"] = lb
        P["ub"] = np.where(np.isfinite(S["ub"]), lb + 0.5 * np.maximum(S["ub"] - S["lb"], 0.5), np.inf)
    return P


def run(R):
    import dreye
    from dreye.api.optimize.lsq_linear import lsq_linear, lsq_linear_excitation
    nsys = 28 if R.tier == "quick" else 340
    R.rule = ("well-scaled systems (1-5 receptors x 1-8 sources; extent 1-100, bounds in [0.05,10] or default (0,inf), cond<=1e3), "
              "K none/scalar/vector/matrix, baseline 0/scalar/vector, per-receptor and per-sample weights; targets inside, on the "
              "boundary, at vertices, outside and below the baseline; default settings and a high-accuracy solver through the "
              "keyword pass-through; via lsq_linear and via ReceptorEstimator.fit; the performance option batch_size drawn from "
              "{1, 2, 3, 4 (padded last batch), 'full'} (rows of a jointly solved batch are independent: theorem "
              "ExtrasA.stacked_objective_sum, so every row is still certified on its own, with per-source bounds that differ "
              "between sources), six targets per call or one single-row call; in three fifths of the six-row calls targets repeat (a pair of rows, mostly a "
              "non-reproducible target, or all six rows ask for the same target) while every row keeps its own per-sample weights and is certified for them; "
              "per-sample weights also through ReceptorEstimator.register_targets(B, W=W) + fit(); a third mode 'limited' passes a deliberately small "
              "iteration limit through the keyword pass-through (max_iter=1..25 for the default solver, solver=OSQP/CLARABEL with max_iter=1..100): the fit "
              "must either raise (counted) or return an answer that satisfies the default-accuracy predicates and certificates -- never an unconverged iterate "
              "(rows the solver itself declares optimal_inaccurate under the caller's limit are counted and only judged for the prediction identity); targets, per-sample weights, bounds and the "
              "capture matrix handed in as C-ordered / Fortran-ordered / strided arrays or lists (the model sees values only; "
              "arguments must be unchanged afterwards). Histories: two thirds of the calls are preceded, in the same process (on the same "
              "estimator object when the judged fit goes through one), by an earlier legitimate fit of the same system -- coarse "
              "first-order solver settings (SCS, eps 0.03-0.3, 5-50 iterations), another solver with its own option names "
              "(OSQP / CLARABEL / SCS with loose tolerances, few iterations, warm_start=False), another model (poisson, "
              "excitation), or other bounds -- whose outcome is not judged; the judged fit must satisfy the same predicates "
              "as without a history (a fit does not depend on what was fitted before it). For every row the exact optimum is computed in "
              "Q from the active set suggested by the answer and accepted only by the Lean-verified exact KKT check (theorem "
              "kkt_global_min => optimal against every in-bound point); otherwise a Frank-Wolfe gap certificate. Corpus of past failing inputs (cases "
              "corpus<i>:lsq_linear / corpus<i>:estimator, every run): inputs on which the default fit failed at some commit of the library -- problems on "
              "which the default QP solver cycles until its iteration limit, met by about one random well-scaled problem in 2000 -- are replayed through "
              "lsq_linear and ReceptorEstimator.fit with default settings and judged with the same predicates and certificates. Non-trivial: a "
              "bound active at the optimum, or target outside the gamut, or under-determined.")
    kinds = ["inside", "boundary", "vertex", "outside", "outside", "below_baseline"]
    rows = []
    for si in range(nsys):
        rng = R.rng(1, si)
        S = gen_wellscaled(rng)
        nf, ns = S["nf"], S["ns"]
        wk = str(rng.choice(["none", "vector", "per_sample"]))
        B = np.array([gen_target(rng, S, kd) for kd in kinds])
        # degenerate shape: a call with one single target row (any of the classes); drawn from its own stream so that the
        # systems / targets of the six-row calls are the same as before
        rng2 = R.rng(2, si)
        kinds_s = list(kinds)
        if rng2.random() < 0.15:
            j = int(rng2.integers(len(kinds)))
            B = B[j:j + 1].copy(); kinds_s = [kinds[j]]
        nrow = len(kinds_s)
        # stimulus sets repeat targets (frames of a flicker, repeated trials, the background between flashes): a pair of rows, or all
        # rows, ask for the same target; with per-sample weights every row still has its own weights and therefore its own optimum
        # when the target is not reproducible. (own stream again)
        rep = "none"
        if nrow > 1:
            rep = str(rng2.choice(["none", "none", "pair", "pair", "all"]))
            if rep == "pair":
                i_, j_ = [int(v) for v in rng2.permutation(nrow)[:2]]
                if rng2.random() < 0.6:
                    i_ = int(rng2.choice([3, 4, 5]))          # the repeated target is mostly one that is not reproducible
                    j_ = int(rng2.choice([v for v in range(nrow) if v != i_]))
                B[j_] = B[i_]; kinds_s[j_] = kinds_s[i_]
            elif rep == "all":
                i_ = int(rng2.choice([0, 1, 2, 3, 3, 4, 4, 5, 5]))
                B = np.tile(B[i_], (nrow, 1)); kinds_s = [kinds_s[i_]] * nrow
        if wk == "none":
            W = None; Wrows = np.ones((nrow, nf))
        elif wk == "vector":
            W = dyadic(rng, 0.5, 2, 2, size=nf); Wrows = np.broadcast_to(W, (nrow, nf))
        else:
            W = dyadic(rng, 0.5, 2, 2, size=(nrow, nf)); Wrows = W
        via = ("estimator" if si % 6 == 0 else "estimator_internal") if (si % 3 == 0 and wk != "per_sample") else "lsq_linear"
        if si % 3 == 0 and wk == "per_sample":
            via = "estimator_targets"        # per-sample weights through the estimator: register_targets(B, W=W), fit()
        # a deliberately small iteration limit through the keyword pass-through (own stream), see mode 'limited' below
        rngl = R.rng(6, si)
        LIM = [dict(max_iter=int(rngl.choice([1, 2, 5, 10, 25]))), dict(solver="OSQP", max_iter=int(rngl.choice([1, 2, 5, 10, 25, 100]))),
               dict(solver="CLARABEL", max_iter=int(rngl.choice([1, 2, 3, 5, 8])))][int(rngl.integers(3))]
        for mode in ("default", "high", "limited"):
            k = "s%d:%s" % (si, mode)
            if not R.want(k):
                continue
            kw = dict(HIGH) if mode == "high" else (dict(LIM) if mode == "limited" else {})
            mi = ("default", "high", "limited").index(mode)
            # batch size is a pure performance setting (C05); rows solved jointly are certified row by row
            rngm = R.rng(3, si, mi)
            bs = [1, 1, 2, 3, 4, "full"][int(rngm.integers(6))]
            if bs != 1:
                kw["batch_size"] = bs
            # the same values in another representation (implementation side only)
            Bg = as_given(rngm, B, R, "B")
            Wg = W if W is None else as_given(rngm, W, R, "W")
            if via == "lsq_linear":
                Ag = as_given(rngm, S["A"], R, "A"); lbg = as_given(rngm, S["lb"], R, "lb"); ubg = as_given(rngm, S["ub"], R, "ub")
            else:
                Ag, lbg, ubg = S["A"], S["lb"], S["ub"]
            # history: a program fits more than once. Before the judged call an EARLIER legitimate fit may have run in the same
            # process (same estimator object when the judged call goes through one): a quick-and-coarse look with a first-order
            # solver and loose tolerances / few iterations, another solver with its own option names, another model (poisson,
            # excitation), other bounds -- all through the documented interfaces. Nothing is asserted about the earlier fit
            # (it may even stop at its iteration limit and raise); the judged call is an independent problem and is held to
            # the same predicates as without a history. Drawn from its own stream: systems and targets are unchanged.
            rngh = R.rng(4, si, mi)
            force = PRIOR_KINDS[(si // 3) % len(PRIOR_KINDS)] if si % 3 == 0 else None
            if force == "excitation" and mode != "default":
                force = "poisson"       # (the quasi-convex bisection takes about a second per row: one excitation fit per 15 systems)
            prior = gen_prior(rngh, S, force=force)
            R.count("history:earlier-fit=%s" % prior["kind"])
            drain()
            if via.startswith("estimator"):
                filt = np.hstack([np.zeros((nf, 1)), S["A"], np.zeros((nf, 1))])
                src = np.hstack([np.zeros((ns, 1)), np.eye(ns), np.zeros((ns, 1))])

                def impl(*watched):
                    est = dreye.ReceptorEstimator(filt, domain=1.0, K=(1.0 if S["K"] is None else S["K"]), baseline=S["baseline"],
                                                  w=(1.0 if (Wg is None or np.ndim(Wg) == 2) else Wg), sources=src, lb=lbg, ub=ubg)
                    if prior["kind"] != "none":
                        if "ub" in prior:
                            est.register_bounds(lb=prior["lb"].copy(), ub=prior["ub"].copy())
                        prior["status"] = call(est.fit, prior["B"].copy(), model=prior["model"], **prior["kw"])[0]
                        if "ub" in prior:
                            est.register_bounds(lb=lbg, ub=ubg)
                    if via == "estimator":
                        return est.fit(Bg, **kw)
                    if via == "estimator_targets":
                        est.register_targets(Bg, W=Wg)
                        est.fit(**kw)
                        return est.X, est.B
                    # history: other targets with per-sample weights were registered (and fitted) before
                    est.register_targets(B[::-1] * 0.5 + 1.0, W=np.linspace(0.5, 2.0, B.size).reshape(B.shape))
                    est.fit(**kw)
                    est.register_targets(Bg)
                    est.fit(**kw)
                    return est.X, est.B
            else:
                def impl(*watched):
                    if prior["kind"] != "none":
                        f_ = lsq_linear_excitation if prior["model"] == "excitation" else lsq_linear
                        mkw = {} if prior["model"] == "excitation" else dict(model=prior["model"])
                        prior["status"] = call(f_, S["A"].copy(), prior["B"].copy(), lb=prior.get("lb", S["lb"]).copy(), ub=prior.get("ub", S["ub"]).copy(),
                                               K=S["K"], baseline=S["baseline"], **mkw, **prior["kw"])[0]
                    return lsq_linear(Ag, Bg, lb=lbg, ub=ubg, W=Wg, K=S["K"], baseline=S["baseline"], return_pred=True, **kw)
            # frame condition: the arrays handed to the fit are unchanged afterwards (call() snapshots its array arguments)
            st, out = call(impl, *[a for a in (Ag, Bg, lbg, ubg, Wg, S["K"], S["baseline"], filt, src) if isinstance(a, np.ndarray)]) \
                if via.startswith("estimator") else call(impl, *[a for a in (Ag, Bg, lbg, ubg, Wg, S["K"], S["baseline"]) if isinstance(a, np.ndarray)])
            # solver status per row: every 'batch' event names the rows written by the preceding solve (later fits overwrite earlier ones)
            if prior["kind"] != "none":
                R.count("history:earlier-fit-ended:%s" % ("ok" if prior.get("status") == "ok" else "raised"))
            statuses = [None] * nrow; last = None
            for e in drain():
                if e["event"] == "solve":
                    last = e.get("status")
                elif e["event"] == "batch":
                    for i in range(int(e["start"]), min(int(e["stop"]), nrow)):
                        statuses[i] = last
            c = dict(k=k, via=via, mode=mode, solver_options=(dict(LIM) if mode == "limited" else None), repeated_targets=rep, nf=nf, ns=ns, A=S["A"], K=S["K"], K_kind=S["K_kind"], baseline=S["baseline"],
                     baseline_kind=S["baseline_kind"], lb=S["lb"], ub=S["ub"], W=W, W_kind=wk, B=B, target_kinds=kinds_s, cond=S["cond"],
                     batch_size=bs, n_rows=nrow, earlier_fit=dict(kind=prior["kind"], model=prior.get("model"), options=prior.get("kw"), B=prior.get("B"),
                                                                  lb=prior.get("lb"), ub=prior.get("ub")))
            for key in ("via", "mode", "K_kind", "baseline_kind", "W_kind"):
                R.count("%s:%s" % (key, c[key]))
            R.count("ub:" + S["ub_kind"]); R.count("lb:" + S["lb_kind"])
            R.count("batch_size:%s" % bs); R.count("rows_per_call:%d" % nrow)
            R.count("repeated-targets:%s:W=%s" % (rep, wk))
            if mode == "limited":
                R.count("iteration-limit:%s" % ",".join("%s=%s" % kv for kv in sorted(LIM.items())))
            nbatch = nrow if bs == "full" else bs
            R.count("joint-batch-with-unequal-bounds:%s" % bool(min(nbatch, nrow) >= 2 and (len(set(S["lb"].tolist())) > 1 or len(set(S["ub"].tolist())) > 1)))
            R.count("shape:%s" % ("under" if ns > nf else ("exact" if ns == nf else "over")))
            if st in ("runtime", "other:SolverError") and mode == "high":
                # (cvxpy reports a numerical failure of the solver at tolerances of 1e-12 as SolverError, the library a missing
                # solution as RuntimeError: both are loud, and the property promises an error-free return for the default fit only)
                R.count("high-accuracy-solver-did-not-converge" + ("" if st == "runtime" else ":SolverError")); R.case(c, None)
                continue
            if mode == "limited":
                # a fit that cannot finish within the caller's iteration limit has to say so (raise); an answer that is returned is
                # held to the same predicates as the default fit -- never a silently unconverged iterate
                R.count("iteration-limit:outcome:%s" % ("answer returned (judged like the default fit)" if st == "ok" else ("raised " + st)))
                if st in ("runtime", "other:SolverError"):
                    R.case(c, None)
                    continue
            if st != "ok":
                R.case(c, None)
                # which rows make it fail? (search for the failing input: each row alone)
                failing = []
                for i in range(nrow):
                    Wi = W if (W is None or np.ndim(W) == 1) else W[i:i + 1]
                    s1, o1 = call(lsq_linear, S["A"], B[i:i + 1], lb=S["lb"], ub=S["ub"], W=Wi, K=S["K"], baseline=S["baseline"], return_pred=True, **kw)
                    if s1 != "ok":
                        failing.append(kinds_s[i])
                R.failB(dict(c, impl_error=out, failing_target_kinds=failing), "fit raised %s (target kinds that fail alone: %s)" % (out, sorted(set(failing))),
                        "C04:raises:%s:%s" % (st, ",".join(sorted(set(failing))) or "joint"))
                continue
            X, Bp = np.asarray(out[0]), np.asarray(out[1])
            for i in range(nrow):
                rows.append(dict(case=c, row=i, kind=kinds_s[i], n=ns, K=S["K"], A=S["A"], baseline=S["baseline"], w=Wrows[i], b=B[i], lb=S["lb"], ub=S["ub"],
                                 xhat=X[i], bpred=Bp[i], mode=mode, status=statuses[i], S=S))
    # ---- corpus of past failing inputs: the default fit (no options), through lsq_linear and through ReceptorEstimator.fit -----------------
    for ci, e in enumerate(CORPUS):
        S = corpus_system(e)
        nf, ns = S["nf"], S["ns"]
        B = np.array(e["B"], dtype=float); nrow = len(B)
        W = None if e["W"] is None else np.array(e["W"], dtype=float)
        Wrows = np.ones((nrow, nf)) if W is None else np.broadcast_to(W, (nrow, nf))
        for via in ("lsq_linear", "estimator"):
            k = "corpus%d:%s" % (ci, via)
            if not R.want(k):
                continue
            drain()
            if via == "estimator":
                filt = np.hstack([np.zeros((nf, 1)), S["A"], np.zeros((nf, 1))])
                src = np.hstack([np.zeros((ns, 1)), np.eye(ns), np.zeros((ns, 1))])

                def impl(*watched):
                    est = dreye.ReceptorEstimator(filt, domain=1.0, K=(1.0 if S["K"] is None else S["K"]), baseline=S["baseline"],
                                                  w=(1.0 if W is None else W), sources=src, lb=S["lb"], ub=S["ub"])
                    return est.fit(B)
                st, out = call(impl, *[a for a in (B, S["lb"], S["ub"], W, S["K"], S["baseline"], filt, src) if isinstance(a, np.ndarray)])
            else:
                def impl(*watched):
                    return lsq_linear(S["A"], B, lb=S["lb"], ub=S["ub"], W=W, K=S["K"], baseline=S["baseline"], return_pred=True)
                st, out = call(impl, *[a for a in (S["A"], B, S["lb"], S["ub"], W, S["K"], S["baseline"]) if isinstance(a, np.ndarray)])
            statuses = [None] * nrow; last = None; solvers = []
            for ev in drain():
                if ev["event"] == "solve":
                    last = ev.get("status"); solvers.append(str(ev.get("solver", "?")))
                elif ev["event"] == "batch":
                    for i in range(int(ev["start"]), min(int(ev["stop"]), nrow)):
                        statuses[i] = last
            c = dict(k=k, via=via, mode="default", corpus_entry=e["name"], origin=e["origin"], solver_options=None, repeated_targets="none", nf=nf, ns=ns,
                     A=S["A"], K=S["K"], K_kind=S["K_kind"], baseline=S["baseline"], baseline_kind=S["baseline_kind"], lb=S["lb"], ub=S["ub"], W=W,
                     W_kind=("none" if W is None else "vector"), B=B, target_kinds=list(e["kinds"]), cond=S["cond"], batch_size=1, n_rows=nrow,
                     earlier_fit=dict(kind="none"))
            R.count("corpus:%s:%s:%s" % (e["name"], via, "answer returned" if st == "ok" else "raised " + st))
            if st != "ok":
                R.case(c, None)
                R.failB(dict(c, impl_error=out), "default fit of corpus input %s (%s) raised %s" % (e["name"], e["origin"], out),
                        "C04:raises:%s:%s" % (st, ",".join(sorted(set(e["kinds"])))))
                continue
            X, Bp = np.atleast_2d(np.asarray(out[0])), np.atleast_2d(np.asarray(out[1]))
            for i in range(nrow):
                rows.append(dict(case=c, row=i, kind=e["kinds"][i], n=ns, K=S["K"], A=S["A"], baseline=S["baseline"], w=Wrows[i], b=B[i], lb=S["lb"], ub=S["ub"],
                                 xhat=X[i], bpred=Bp[i], mode="default", status=statuses[i], S=S))
    certify_rows(R, "c4", rows)
    seen_case = set()
    for r in rows:
        c = r["case"]; S = r["S"]
        kcase = c["k"]
        mode = r["mode"]
        tolc, tolb = (2e-3, 1e-6) if mode == "high" else (2e-2, 1e-2)
        wmax = float(np.max(np.abs(r["w"])))
        lb, ub, xhat = r["lb"], r["ub"], r["xhat"]
        rngb = np.where(np.isfinite(ub), ub - lb, 1.0)
        sig = "C04:%s:%s" % (mode, r["kind"])
        info = dict(c, row=r["row"], target_kind=r["kind"], xhat=xhat, bpred=r["bpred"], solver_status=r["status"],
                    xstar=r["xstar"], fstar=r["fstar"], fhat=r["fhat"])
        active = r["xstar"] is not None and any(xs == l or (u is not None and xs == u) for xs, l, u in zip(r["xstar"], r["lbF"], r["ubF"]))
        nontriv = (kcase, r["row"]) if (active or (r["fstar"] is not None and r["fstar"] > 0) or S["ns"] > S["nf"]) else None
        R.case(info, nontriv, sample=(nontriv is not None and r["row"] == 3))
        R.count("target:" + r["kind"]); R.count("status:%s" % r["status"])
        # under a caller-imposed iteration limit the solver itself may declare its answer inaccurate (status optimal_inaccurate: its
        # reduced tolerances were met when the limit was reached). The property states accuracies for the default settings and for a
        # high-accuracy solver only; such rows are counted and judged for the prediction identity only. Every other returned row
        # (status optimal -- or any status that is not a solution) is judged like the default fit.
        declared_inaccurate = mode == "limited" and r["status"] == "optimal_inaccurate"
        if mode == "limited":
            R.count("iteration-limit:returned-row:%s" % ("solver-declared inaccurate (prediction identity only)" if declared_inaccurate else "judged like the default fit"))
        # bounds
        if (not declared_inaccurate) and (np.any(xhat < lb - tolb * rngb) or np.any(xhat > ub + tolb * rngb)):
            R.failB(info, "intensities %s violate the bounds by more than %g of the range" % (xhat.tolist(), tolb), sig + ":bounds")
        # prediction is the model's capture of the returned intensities
        pm = [F(v) for v in np.zeros(0)]
        pred_model = [sum(a * F(x) for a, x in zip(row, xhat)) + b0 for row, b0 in zip(r["Ap"], r["bp"])]
        sc = max(abs(float(v)) for v in pred_model) + 1.0
        if len(r["bpred"]) != len(pred_model) or any(not close(bi, pm_, sc, 1e-11) for bi, pm_ in zip(r["bpred"], pred_model)):
            R.failB(dict(info, model_prediction=[rs(v) for v in pred_model]), "returned prediction %s is not the model's capture %s of the returned intensities"
                    % (np.asarray(r["bpred"]).tolist(), [float(v) for v in pred_model]), sig + ":pred-mismatch")
        # optimality
        if declared_inaccurate:
            continue
        ehat = fsqrt(r["fhat"])
        if r["kkt_ok"]:
            estar = fsqrt(r["fstar"])
            R.count("certificate:exact-kkt")
            if ehat > estar + tolc * wmax:
                R.failB(info, "weighted error %.6g exceeds the certified global minimum %.6g by more than %g" % (ehat, estar, tolc * wmax), sig + ":suboptimal")
            if r["fstar"] == 0 and ehat > tolc * wmax:
                R.failB(info, "in-gamut target not reproduced: weighted error %.6g" % ehat, sig + ":in-gamut-not-reproduced")
        elif r["gap"] is not None:
            R.count("certificate:fw-gap")
            # f(clip xhat) - gap <= f(y) for all y: lower bound on the optimum
            lower = max(F(0), r["fclip"] - r["gap"])
            if ehat > fsqrt(lower) + tolc * wmax:
                # not certified near-optimal and no exact optimum: correspondence (certificate) failure, not a proven violation
                R.failA(info, "no exact optimum found and duality gap too large: error %.6g, certified lower bound %.6g" % (ehat, fsqrt(lower)))
        else:
            R.count("certificate:none")
            R.failA(info, "no certificate could be established for this row")
