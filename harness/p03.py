"""C03 — gamut membership is exact: in-gamut iff reproducible by in-bound intensities."""
import numpy as np
from fractions import Fraction
from common import F, rs, vs, ms, dyadic, close, call
from systems import gen_A, gen_K, gen_baseline, apply_K
from fitlib import K_text, ub_text


def drain():
    from dreye import _verif
    return _verif.drain()


def fdot(h, p):
    return sum(a * b for a, b in zip(h, p))


def exact_float_vec(v):
    """round a Fraction vector to float64 and return (floats, exact Fractions of those floats)"""
    fl = np.array([float(x) for x in v])
    return fl, [F(x) for x in fl]


def gen_system(rng):
    nf = int(rng.integers(2, 6)); ns = int(rng.integers(1, 9))
    A = gen_A(rng, nf, ns, lo=0.25, hi=4.0, bits=2, zeros=bool(rng.integers(3) == 0))
    kk, K = gen_K(rng, nf, kinds=("none", "scalar", "vector", "matrix", "matrix_signed"))
    if kk == "matrix_signed":
        K = np.eye(nf) + dyadic(rng, -0.5, 0.5, 2, size=(nf, nf)) * (1 - np.eye(nf))
    bk, base = gen_baseline(rng, nf)
    ubk = str(rng.choice(["finite", "finite", "finite", "inf"]))
    lbk = str(rng.choice(["zero", "zero", "pos"]))
    ub = dyadic(rng, 0.5, 4, 2, size=ns) if ubk == "finite" else np.full(ns, np.inf)
    lb = np.zeros(ns) if lbk == "zero" else dyadic(rng, 0.0625, 0.25, 4, size=ns)
    return dict(nf=nf, ns=ns, A=A, K=K, K_kind=kk, baseline=base, baseline_kind=bk, lb=lb, ub=ub, ub_kind=ubk, lb_kind=lbk)


def run(R):
    import dreye
    from dreye.api.convex import in_hull_from_A
    from scipy.spatial import ConvexHull
    nsys = 40 if R.tier == "quick" else 600
    R.rule = ("systems 2-5 receptors x 1-8 sources, lb zero/positive, ub finite/infinite, K none/scalar/vector/matrix (also with "
              "negative entries), baseline 0/scalar/vector; targets constructed WITH exact certificates: interior and "
              "near-boundary-inside (product weights of the corners, verified by inHullCert), vertices, near-boundary-outside "
              "and far outside (supporting hyperplane from a rationalised qhull normal, verified by sepCert); plain, relative and "
              "L1-normalised membership via in_hull_from_A and ReceptorEstimator.in_hull. Non-trivial: full-dimensional gamut with "
              "at least one certified-in and one certified-out target.")
    EPS = 2.0 ** -17
    work = []
    for si in range(nsys):
        k = "s%d" % si
        if not R.want(k):
            continue
        rng = R.rng(1, si)
        S = gen_system(rng)
        R.driver.ask("P" + k, "getP", S["ns"], K_text(S["K"]), ms(S["A"]), vs(np.atleast_1d(S["baseline"])), vs(S["lb"]), ub_text(S["ub"]))
        work.append((k, rng, S))
    R.driver.run()
    jobs = []
    for k, rng, S in work:
        t = R.driver.get("P" + k)
        P = t.mat(); Ap = t.mat(); bp = t.vec()
        nf, ns = S["nf"], S["ns"]
        Pf = np.array([[float(v) for v in row] for row in P])
        finite = S["ub_kind"] == "finite"
        ext = float(np.max(Pf.max(0) - Pf.min(0))) + 1e-300
        fulldim = np.linalg.matrix_rank(Pf - Pf[0], tol=1e-9 * ext) == nf
        lbF = [F(v) for v in S["lb"]]; ubF = [F(v) if np.isfinite(v) else None for v in S["ub"]]
        targets = []   # dict(kind, b_float, b_exact, expect, cert=(type, payload))

        def predictF(x):
            return [sum(a * xv for a, xv in zip(row, x)) + b0 for row, b0 in zip(Ap, bp)]
        # interior and near-boundary-inside (intensity space, exact dyadic)
        for kind, tset in (("interior", None), ("interior", None), ("near_in", EPS)):
            if tset is None:
                tv = [F(v) for v in dyadic(rng, 0.125, 0.875, 3, size=ns)]
            else:
                tv = [F(EPS) if rng.integers(2) else F(1 - EPS) for _ in range(ns)]
                tv[int(rng.integers(ns))] = F(0.5)
            span = [(u - l) if u is not None else F(4) for l, u in zip(lbF, ubF)]
            x = [l + tt * s for l, tt, s in zip(lbF, tv, span)]
            b = predictF(x)
            bf, be = exact_float_vec(b)
            if be != b:
                continue
            targets.append(dict(kind=kind, b=bf, be=be, expect=True, cert=("box", tv) if finite else ("construct", x), x=x))
        if finite:
            kidx = int(rng.integers(len(P)))
            bf, be = exact_float_vec(P[kidx])
            w = [F(0)] * len(P); w[kidx] = F(1)
            targets.append(dict(kind="vertex", b=bf, be=be, expect=True, cert=("weights", w)))
        # supporting hyperplanes
        normals = []
        if finite and fulldim:
            try:
                hull = ConvexHull(Pf)
                sel = rng.permutation(len(hull.equations))[:3]
                normals = [hull.equations[i, :-1] for i in sel]
            except Exception:  # noqa: BLE001
                normals = []
        elif (not fulldim) or (not finite):
            # a direction normal to the affine span (flat gamut) if there is one
            U, s, Vt = np.linalg.svd(Pf - Pf.mean(0))
            rank = int(np.sum(s > 1e-9 * ext))
            if rank < nf:
                normals = [Vt[-1]]
        for hn in normals:
            h = [F(float(np.round(v * 2 ** 20) / 2 ** 20)) for v in hn]
            if all(v == 0 for v in h):
                continue
            vals = [fdot(h, p) for p in P]
            c = max(vals); p0 = P[vals.index(c)]
            hh = fdot(h, h)
            for kind, mu in (("near_out", 1e-5 * ext), ("far_out", 2.0 * ext)):
                muF = F(float(mu)) / F(float(np.sqrt(float(hh))))
                bf, be = exact_float_vec([p + muF * hv for p, hv in zip(p0, h)])
                margin = (fdot(h, be) - c)
                if margin <= 0:
                    continue
                dist = float(margin) / float(np.sqrt(float(hh)))
                if finite or not fulldim:
                    targets.append(dict(kind=kind, b=bf, be=be, expect=False, cert=("sep", h, c), dist=dist))
        B = np.array([t_["b"] for t_ in targets])
        via = "estimator" if rng.integers(2) else "function"
        filt = np.hstack([np.zeros((nf, 1)), S["A"], np.zeros((nf, 1))]); src = np.hstack([np.zeros((ns, 1)), np.eye(ns), np.zeros((ns, 1))])

        def mk_est():
            return dreye.ReceptorEstimator(filt, domain=1.0, K=(1.0 if S["K"] is None else S["K"]), baseline=S["baseline"], sources=src, lb=S["lb"], ub=S["ub"])
        drain()
        if via == "estimator":
            st, out = call(lambda: mk_est().in_hull(B.copy()))
        else:
            st, out = call(in_hull_from_A, B.copy(), S["A"], S["lb"], S["ub"], K=S["K"], baseline=S["baseline"])
        paths = sorted({e["path"] for e in drain() if e["event"] == "in_hull"})
        # chromatic membership of the same in-box captures (and of positive multiples)
        stn, outn = (None, None)
        Bn = None
        if finite and np.all(Pf >= 0):
            Bn = np.array([t_["b"] for t_ in targets if t_["expect"] and np.sum(np.abs(t_["b"])) > 0])
            if len(Bn):
                Bn = np.vstack([Bn, Bn * 2.0])
                stn, outn = call(lambda: mk_est().in_hull(Bn.copy(), normalized=True))
        # history: the same estimator is queried, re-adapted / re-bounded through every registration call, and queried
        # again; a fresh estimator holding the same registered values must give the same answers
        hist = None
        if finite and len(B):
            def history():
                e1 = mk_est()
                first = e1.in_hull(B.copy())
                x0 = dyadic(rng, 0.25, 1.0, 2, size=ns)
                step = int(rng.integers(4))
                if np.any(S["A"] @ x0 + np.atleast_1d(S["baseline"]) <= 0):
                    step = 3   # adapting to a background with zero capture is undefined: only re-bound
                if step == 0:
                    e1.register_system_adaptation(x0)
                elif step == 1:
                    e1.register_background_adaptation(src.T @ x0)
                elif step == 2:
                    e1.register_system_adaptation(x0, add=True) if np.ndim(e1.K) == 1 else e1.register_system_adaptation(x0)
                else:
                    e1.register_bounds(ub=S["ub"] * 0.5)
                again = e1.in_hull(B.copy())
                e2 = dreye.ReceptorEstimator(filt, domain=1.0, K=np.array(e1.K, copy=True), baseline=S["baseline"], sources=src, lb=e1.lb.copy(), ub=e1.ub.copy())
                return step, np.asarray(again), np.asarray(e2.in_hull(B.copy()))
            hist = call(history)
        # certificates
        for ti, t_ in enumerate(targets):
            ct = t_["cert"]
            rid = "%s_t%d" % (k, ti)
            if ct[0] == "box":
                R.driver.ask(rid, "inhullbox", ms(Ap), vs(bp), vs(S["lb"]), ub_text(S["ub"]), vs(ct[1]), vs(t_["be"]))
            elif ct[0] == "weights":
                R.driver.ask(rid, "inhull", nf, ms(P), vs(ct[1]), vs(t_["be"]))
            elif ct[0] == "sep":
                R.driver.ask(rid, "sep", ms(P), vs(ct[1]), rs(ct[2]), vs(t_["be"]))
        jobs.append((k, S, targets, via, st, out, paths, fulldim, finite, ext, stn, outn, Bn, hist))
    R.driver.run()
    for k, S, targets, via, st, out, paths, fulldim, finite, ext, stn, outn, Bn, hist in jobs:
        c = dict(k=k, via=via, nf=S["nf"], ns=S["ns"], A=S["A"], K=S["K"], K_kind=S["K_kind"], baseline=S["baseline"], baseline_kind=S["baseline_kind"],
                 lb=S["lb"], ub=S["ub"], full_dimensional=bool(fulldim), paths=paths,
                 targets=[dict(kind=t_["kind"], b=t_["b"], expect=t_["expect"]) for t_ in targets])
        for key in ("via", "K_kind", "baseline_kind"):
            R.count("%s:%s" % (key, c[key]))
        R.count("ub:" + S["ub_kind"]); R.count("lb:" + S["lb_kind"]); R.count("fulldim:%s" % bool(fulldim))
        for p_ in paths:
            R.count("path:" + p_)
        cfg = "%s:%s" % ("bounded" if finite else "unbounded", "full" if fulldim else "flat")
        sigbase = "C03:%s:K=%s" % (cfg, S["K_kind"])
        has_in = has_out = False
        if st != "ok":
            R.case(c, None)
            R.failB(dict(c, impl_error=out), "membership test raised %s: %s" % (st, out), sigbase + ":raises:" + st)
            continue
        out = np.atleast_1d(np.asarray(out)).astype(bool)
        for ti, t_ in enumerate(targets):
            ct = t_["cert"]
            certified = True
            if ct[0] in ("box", "weights", "sep"):
                certified = R.driver.get("%s_t%d" % (k, ti)).bool()
                R.cert(certified)
            R.count("target:%s" % t_["kind"])
            if not certified:
                R.failA(dict(c, target=t_["kind"]), "constructed certificate for a %s target was not accepted by the checker" % t_["kind"])
                continue
            said = bool(out[ti])
            if t_["kind"] == "vertex":
                # a vertex is on the boundary: neither "strictly inside" nor "strictly outside" -- recorded, not asserted
                R.count("vertex-reported-%s" % ("in" if said else "out"))
                continue
            if t_["expect"]:
                has_in = True
                if not said:
                    R.failB(dict(c, target_kind=t_["kind"], target=t_["b"], intensities=[rs(v) for v in t_.get("x", [])]),
                            "a %s target (capture of intensities strictly inside the bounds / certified convex combination of the corner images) was reported OUT of gamut" % t_["kind"],
                            sigbase + ":false-negative:" + t_["kind"])
            else:
                has_out = True
                if said and t_["dist"] > 1e-6 * ext:
                    R.failB(dict(c, target_kind=t_["kind"], target=t_["b"], separator=[rs(v) for v in ct[1]], distance=t_["dist"]),
                            "a target at distance %.3g (> 1e-6 x extent %.3g) outside the gamut (certified by a separating hyperplane) was reported IN gamut" % (t_["dist"], ext),
                            sigbase + ":false-positive:" + t_["kind"])
        if hist is not None:
            R.count("history")
            if hist[0] != "ok":
                R.failB(dict(c, impl_error=hist[1]), "membership after re-registration raised: %s" % (hist[1],), "C03:history:raises:" + hist[0])
            else:
                step, again, fresh = hist[1]
                if not np.array_equal(again, fresh):
                    R.failB(dict(c, registration_step=["register_system_adaptation", "register_background_adaptation", "register_system_adaptation(add)", "register_bounds"][step],
                                 after_history=again, fresh_estimator=fresh),
                            "the same targets get different gamut answers from an estimator that was queried before its last registration call and from a fresh estimator with the same registered values",
                            "C03:history-dependence")
        if stn is not None:
            R.count("normalized")
            if stn != "ok":
                R.failB(dict(c, impl_error=outn), "chromatic (normalized) membership raised %s: %s" % (stn, outn), "C03:normalized:nf=%d:raises:%s" % (S["nf"], stn))
            elif not np.all(outn):
                R.failB(dict(c, targets_normalized=Bn, impl=outn), "captures of in-bound intensities (or positive multiples of them) were reported outside the chromatic gamut",
                        "C03:normalized:false-negative")
        R.case(c, (k,) if (fulldim and finite and has_in and has_out) else None, sample=(fulldim and finite and has_out))
