"""C03 — gamut membership is exact: in-gamut iff reproducible by in-bound intensities."""
import numpy as np
from fractions import Fraction
from common import F, rs, vs, ms, dyadic, close, call, as_given
from systems import gen_A, gen_K, gen_baseline, apply_K
from fitlib import K_text, ub_text


def drain():
    from dreye import _verif
    return _verif.drain()


def fdot(h, p):
    return sum(a * b for a, b in zip(h, p))


def exact_float_vec(v):
    """round a Fraction vector to float64 and return (floats, exact Fractions of those floats)"""
    fl = np.array([float(x) for x in v])
    return fl, [F(x) for x in fl]


def signed_K(rng, nf, kk):
    """adaptation matrices with negative entries: a perturbed identity, or opponent coding (every channel is inhibited by its
    neighbours); invertible, so that the gamut keeps its dimension"""
    for _ in range(20):
        if kk == "matrix_signed":
            K = np.eye(nf) + dyadic(rng, -0.5, 0.5, 2, size=(nf, nf)) * (1 - np.eye(nf))
        else:
            K = np.eye(nf)
            for i in range(nf - 1):
                K[i, i + 1] = -float(dyadic(rng, 0.25, 1, 2)); K[i + 1, i] = -float(dyadic(rng, 0.25, 1, 2))
        if abs(np.linalg.det(K)) > 0.05:
            return K
    return np.eye(nf) - 0.25 * (1 - np.eye(nf)) / nf


def nullvec(rows, n):
    """exact: the one-dimensional null space of the rational rows (vectors of length n), or None if it is not one-dimensional"""
    M = [list(r) for r in rows]
    piv = []
    r = 0
    for col in range(n):
        pr = next((i for i in range(r, len(M)) if M[i][col] != 0), None)
        if pr is None:
            continue
        M[r], M[pr] = M[pr], M[r]
        M[r] = [v / M[r][col] for v in M[r]]
        for i in range(len(M)):
            if i != r and M[i][col] != 0:
                f = M[i][col]
                M[i] = [a - f * b for a, b in zip(M[i], M[r])]
        piv.append(col); r += 1
        if r == len(M):
            break
    free = [c_ for c_ in range(n) if c_ not in piv]
    if len(free) != 1:
        return None
    h = [Fraction(0)] * n
    h[free[0]] = Fraction(1)
    for i, col in enumerate(piv):
        h[col] = -M[i][free[0]]
    return h


def dependent_sources(rng, A):
    """sources that are not linearly independent (gen_A only makes full-rank matrices): two LEDs of the same type with different
    power (a column is a dyadic multiple of another), or a broadband source whose capture is a mixture of two others. The
    intensities reproducing a target are then not unique; the gamut is the same zonotope of the corner images. Exact (dyadic)."""
    ns = A.shape[1]
    A = A.copy()
    kind = "duplicate" if (ns < 3 or rng.integers(3) > 0) else "mixture"
    idx = rng.permutation(ns)
    if kind == "duplicate":
        i, j = int(idx[0]), int(idx[1])
        A[:, j] = A[:, i] * float(rng.choice([0.5, 0.75, 1.0, 1.0, 1.5, 2.0]))
    else:
        i, i2, j = int(idx[0]), int(idx[1]), int(idx[2])
        A[:, j] = A[:, i] * float(rng.choice([0.25, 0.5, 1.0])) + A[:, i2] * float(rng.choice([0.25, 0.5, 1.0]))
    return kind, A


def gen_system(rng, si=None):
    nf = int(rng.integers(2, 6)); ns = int(rng.integers(1, 9))
    # linearly dependent sources are a deterministic share of the systems (every 5th: si = 2, 7, 12, ...; gen_A never makes them) plus
    # a random eighth of the others; every other one of the deterministic share is a bounded rig with fewer sources than receptor types
    flatdep = si is not None and si % 10 == 2
    if flatdep:
        nf = max(nf, 3); ns = int(rng.integers(2, nf))
    A = gen_A(rng, nf, ns, lo=0.25, hi=4.0, bits=2, zeros=bool(rng.integers(3) == 0))
    kk, K = gen_K(rng, nf, kinds=("none", "scalar", "vector", "matrix", "matrix_signed", "matrix_opponent"))
    if kk in ("matrix_signed", "matrix_opponent"):
        K = signed_K(rng, nf, kk)
    bk, base = gen_baseline(rng, nf)
    Ak = "dyadic"
    if rng.integers(6) == 0:
        # whole-number capture matrix (may be handed over with an integer dtype)
        Aw = np.ceil(A)
        if np.linalg.matrix_rank(Aw) == min(nf, ns):
            A, Ak = Aw, "whole"
    ubk = str(rng.choice(["finite", "finite", "whole", "inf"]))
    # unbounded sources x adaptation with negative entries (the cone's apex, the image of lb, is then not the coordinate-wise
    # or lexicographic minimum of the corner images) is a rare product of two choices: a deterministic share of the systems
    # (every 10th) has it, with at least as many sources as needed for a pointed full-dimensional cone, and half of the other
    # unbounded systems get a signed matrix as well
    forced = si is not None and si % 10 == 0
    if forced:
        ubk = "inf"
        if si % 20 == 0 and ns > nf:
            ns = nf; A = A[:, :nf]
            if np.linalg.matrix_rank(A) < nf:
                A = A + np.eye(nf)
    if ubk == "inf" and (forced or rng.integers(2) == 0):
        kk = "matrix_signed" if rng.integers(2) else "matrix_opponent"
        K = signed_K(rng, nf, kk)
    dep = "independent"
    if flatdep:
        ubk = str(rng.choice(["finite", "whole"]))
    if ns >= 2 and not forced and ((si is not None and si % 5 == 2) or rng.integers(8) == 0):
        dep, A = dependent_sources(rng, A)
        if Ak == "whole" and not np.all(A == np.round(A)):
            Ak = "dyadic"
    lbk = str(rng.choice(["zero", "zero", "zero", "pos", "pos", "whole"]))
    # whole-number bounds (lb = 0 or [0, 1, 2], ub = [1, 3, 2]) are the ones a caller writes as integers
    lb = np.zeros(ns) if lbk == "zero" else (dyadic(rng, 0.0625, 0.25, 4, size=ns) if lbk == "pos" else dyadic(rng, 0, 2, 0, size=ns))
    lb0 = lb if lbk == "whole" else np.zeros(ns)
    ub = (lb0 + dyadic(rng, 0.5, 4, 2, size=ns)) if ubk == "finite" else ((lb0 + dyadic(rng, 1, 4, 0, size=ns)) if ubk == "whole" else np.full(ns, np.inf))
    return dict(nf=nf, ns=ns, A=A, A_kind=Ak, K=K, K_kind=kk, baseline=base, baseline_kind=bk, lb=lb, ub=ub, ub_kind=ubk, lb_kind=lbk, sources=dep)


def held(rng, S, R):
    """what the caller's program holds and hands to the implementation: its own copies of the system's values, in one of
    the legitimate representations (float or - for whole numbers - integer dtype, Fortran order, strided view, list). The
    exact model works from the values in S. The same objects are used for every call of a case, as a program would."""
    nf, ns = S["nf"], S["ns"]
    filt = np.hstack([np.zeros((nf, 1)), S["A"], np.zeros((nf, 1))])
    return dict(A=as_given(rng, S["A"].copy(), R, "A"), filters=as_given(rng, filt, R, "filters"),
                lb=as_given(rng, S["lb"].copy(), R, "lb"), ub=as_given(rng, S["ub"].copy(), R, "ub"),
                K=(None if S["K"] is None else as_given(rng, np.array(S["K"], dtype=float), R, "K")),
                baseline=as_given(rng, np.array(S["baseline"], dtype=float), R, "baseline"))


def run(R):
    import dreye
    from dreye.api.convex import in_hull_from_A, get_P_from_A, range_of_solutions
    from scipy.spatial import ConvexHull
    nsys = 40 if R.tier == "quick" else 600
    R.rule = ("systems 2-5 receptors x 1-8 sources, lb zero/positive, ub finite/infinite, K none/scalar/vector/matrix (also with "
              "negative entries), baseline 0/scalar/vector; targets constructed WITH exact certificates: interior and "
              "near-boundary-inside (product weights of the corners, verified by inHullCert), vertices, near-boundary-outside "
              "and far outside (supporting hyperplane from a rationalised qhull normal, verified by sepCert); unbounded sources with a "
              "full-dimensional cone also get targets just outside / far outside every sampled facet of the cone, at the apex and along the "
              "facet (exact rational facet normal, sepCert against the apex value); adaptation matrices with negative entries (perturbed "
              "identity, opponent coding) -- every 10th system is unbounded with such a matrix, half of the other unbounded ones too; unbounded systems also get four "
              "'interior_bright' targets, captures of in-bound intensities 2^6..2^17 units above the lower bounds (all or some of the sources bright); "
              "plain, relative and "
              "L1-normalised membership via in_hull_from_A and ReceptorEstimator.in_hull / in_gamut, batched and as a single 1-D target (any one of the targets). "
              "Chromatic (normalized=True) membership also for absolute capture (relative=False; captures A x of the same in-bound intensities, every unbounded and "
              "a random half of the bounded systems) and on unbounded systems (dim and 'interior_bright' captures, non-negative adaptation): there the implementation "
              "may decline (ValueError, counted) - if it answers, every capture of intensities strictly inside the bounds must be accepted. "
              "Linearly dependent sources (every 5th system and a random eighth of the others): two sources of the same type with different power "
              "(proportional columns of A) or a source that is a mixture of two others -- every 10th system is such a rig with finite bounds and fewer sources "
              "than receptors; the intensities reproducing a target are then not unique, the certificates (box coordinates, corner weights, separators) are unchanged. "
              "Flat bounded gamuts also get targets that leave the gamut within its affine span (beyond the bounds; supporting hyperplane in a direction of the "
              "column span, sepCert; kinds *_inspan). "
              "Whole-number A / lb / ub variants; A, filters, lb, ub, K, baseline and targets are handed over as float or (whole numbers) "
              "integer arrays, Fortran-ordered, strided views or lists (as_given); the model gets the values. Every call is checked for the "
              "frame condition (arguments and registered estimator state unchanged by a query). Histories, bounded and unbounded: the same "
              "estimator / the same held arrays answer a first query (in_hull, in_gamut, absolute in_hull, sample_in_hull, range_of_solutions, "
              "get_P_from_A), are optionally re-adapted / re-bounded, and are asked again: answers must equal a fresh estimator's with the same "
              "registered values and, without a registration in between, satisfy the certified expectations again. Non-trivial: "
              "full-dimensional gamut with at least one certified-in and one certified-out target.")
    EPS = 2.0 ** -17
    work = []
    for si in range(nsys):
        k = "s%d" % si
        if not R.want(k):
            continue
        rng = R.rng(1, si)
        S = gen_system(rng, si)
        R.driver.ask("P" + k, "getP", S["ns"], K_text(S["K"]), ms(S["A"]), vs(np.atleast_1d(S["baseline"])), vs(S["lb"]), ub_text(S["ub"]))
        work.append((k, rng, S))
    R.driver.run()
    jobs = []
    for k, rng, S in work:
        t = R.driver.get("P" + k)
        P = t.mat(); Ap = t.mat(); bp = t.vec()
        nf, ns = S["nf"], S["ns"]
        Pf = np.array([[float(v) for v in row] for row in P])
        finite = S["ub_kind"] != "inf"
        ext = float(np.max(Pf.max(0) - Pf.min(0))) + 1e-300
        fulldim = np.linalg.matrix_rank(Pf - Pf[0], tol=1e-9 * ext) == nf
        lbF = [F(v) for v in S["lb"]]; ubF = [F(v) if np.isfinite(v) else None for v in S["ub"]]
        targets = []   # dict(kind, b_float, b_exact, expect, cert=(type, payload))

        def predictF(x):
            return [sum(a * xv for a, xv in zip(row, x)) + b0 for row, b0 in zip(Ap, bp)]
        # interior and near-boundary-inside (intensity space, exact dyadic)
        # unbounded sources have no brightest stimulus: besides intensities of the order of the lower bounds / of one unit, the
        # in-bound intensities of four more targets are 2^6 .. 2^17 units (an LED's dynamic range of two to five decades above
        # its dimmest setting); their captures are that much larger than the unit-intensity captures, and still in gamut.
        # (own stream: the other targets of a system are the same with and without them)
        rngb = R.rng(5, int(k[1:]))
        bright = [] if finite else [("interior_bright", int(e_)) for e_ in rngb.integers(6, 18, size=4)]
        for kind, tset in [("interior", None), ("interior", None), ("near_in", EPS)] + bright:
            if kind == "interior_bright":
                tv = [F(v) for v in dyadic(rngb, 0.125, 0.875, 3, size=ns)]
                if rngb.integers(3) == 0:
                    # only some of the sources are bright, the others stay near their lower bound
                    dim = rngb.random(ns) < 0.5
                    tv = [tt * F(2) ** (-tset) if d_ else tt for tt, d_ in zip(tv, dim)]
            elif tset is None:
                tv = [F(v) for v in dyadic(rng, 0.125, 0.875, 3, size=ns)]
            else:
                tv = [F(EPS) if rng.integers(2) else F(1 - EPS) for _ in range(ns)]
                tv[int(rng.integers(ns))] = F(0.5)
            span = [(u - l) if u is not None else (F(2) ** tset if kind == "interior_bright" else F(4)) for l, u in zip(lbF, ubF)]
            x = [l + tt * s for l, tt, s in zip(lbF, tv, span)]
            b = predictF(x)
            bf, be = exact_float_vec(b)
            if be != b:
                continue
            targets.append(dict(kind=kind, b=bf, be=be, expect=True, cert=("box", tv) if finite else ("construct", x), x=x))
        if finite:
            kidx = int(rng.integers(len(P)))
            bf, be = exact_float_vec(P[kidx])
            w = [F(0)] * len(P); w[kidx] = F(1)
            targets.append(dict(kind="vertex", b=bf, be=be, expect=True, cert=("weights", w)))
        # supporting hyperplanes
        normals = []
        inspan = set()
        if finite and fulldim:
            try:
                hull = ConvexHull(Pf)
                sel = rng.permutation(len(hull.equations))[:3]
                normals = [hull.equations[i, :-1] for i in sel]
            except Exception:  # noqa: BLE001
                normals = []
        elif (not fulldim) or (not finite):
            # a direction normal to the affine span (flat gamut) if there is one
            U, s, Vt = np.linalg.svd(Pf - Pf.mean(0))
            rank = int(np.sum(s > 1e-9 * ext))
            if rank < nf:
                normals = [Vt[-1]]
            if finite and rank >= 1:
                # flat bounded gamut: besides leaving its affine span, a target can leave it WITHIN the span (beyond the bounds):
                # directions in the span of the transformed capture matrix's columns; the supporting hyperplane of the corner
                # images in that direction is the certificate, as for the facet normals of a full-dimensional gamut
                Apf = np.array([[float(v) for v in row] for row in Ap])
                for _ in range(2):
                    hn_ = Apf @ (dyadic(rng, -1, 1, 3, size=ns) if rng.integers(2) else np.eye(ns)[int(rng.integers(ns))])
                    if np.linalg.norm(hn_) > 1e-6 * ext:
                        normals.append(hn_ / np.linalg.norm(hn_))
                        inspan.add(len(normals) - 1)
        if (not finite) and fulldim:
            # unbounded sources: the gamut is the cone p0 + cone(columns of A') with apex p0 = image of lb. Its facets are the
            # facets of the corner images' hull through p0. For each, an EXACT rational normal h (null vector of the columns lying
            # in the facet; h.a <= 0 for every column a, verified exactly) gives targets base + mu*h just outside / far outside,
            # based at the apex or at a point of the facet. Certificate: sepCert on the corner images with c = h.p0, i.e.
            # h.p <= h.p0 for all corner images p and h.b > h.p0 -- by cone_path_sound every point of the gamut is
            # p0 + sum w_k (p_k - p0) with w >= 0, hence has h.y <= h.p0: b is not reproducible.
            p0 = predictF(lbF)
            cols = [[row[j] for row in Ap] for j in range(ns)]
            colsf = np.array([[float(v) for v in cl] for cl in cols])
            try:
                eqs = ConvexHull(Pf).equations
            except Exception:  # noqa: BLE001
                eqs = np.zeros((0, nf + 1))
            p0f = np.array([float(v) for v in p0])
            thru = [e for e in eqs if abs(float(e[:-1] @ p0f + e[-1])) <= 1e-9 * ext]
            R.count("unbounded-cone:%s" % ("pointed(apex on the hull of the corner images)" if thru else "apex inside (no supporting hyperplane)"))
            seen = set()
            for e in [thru[i] for i in rng.permutation(len(thru))[:3]]:
                nrm = e[:-1]
                J = [j for j in range(ns) if abs(float(nrm @ colsf[j])) <= 1e-9 * (np.linalg.norm(colsf[j]) + 1e-300)]
                h = nullvec([cols[j] for j in J], nf) if J else None
                if h is None:
                    continue
                if sum(float(a) * b for a, b in zip(h, nrm)) < 0:
                    h = [-v for v in h]
                mx = max(abs(v) for v in h)
                h = [v / mx for v in h]
                if tuple(h) in seen or any(fdot(h, cl) > 0 for cl in cols):
                    continue
                seen.add(tuple(h))
                c = fdot(h, p0)
                hh = fdot(h, h)
                for kind, mu, onfacet in (("near_out", 1e-5 * ext, False), ("near_out", 1e-5 * ext, True), ("far_out", 2.0 * ext, True)):
                    base = list(p0)
                    if onfacet:
                        for j in J:
                            sj = F(float(dyadic(rng, 0, 2, 2)))
                            base = [bv + sj * cv for bv, cv in zip(base, cols[j])]
                    muF = F(float(mu)) / F(float(np.sqrt(float(hh))))
                    bf, be = exact_float_vec([p + muF * hv for p, hv in zip(base, h)])
                    margin = fdot(h, be) - c
                    if margin <= 0:
                        continue
                    targets.append(dict(kind=kind, b=bf, be=be, expect=False, cert=("sep", h, c), dist=float(margin) / float(np.sqrt(float(hh))), cone=True))
        for hi_, hn in enumerate(normals):
            h = [F(float(np.round(v * 2 ** 20) / 2 ** 20)) for v in hn]
            if all(v == 0 for v in h):
                continue
            vals = [fdot(h, p) for p in P]
            c = max(vals); p0 = P[vals.index(c)]
            hh = fdot(h, h)
            for kind, mu in (("near_out", 1e-5 * ext), ("far_out", 2.0 * ext)):
                muF = F(float(mu)) / F(float(np.sqrt(float(hh))))
                bf, be = exact_float_vec([p + muF * hv for p, hv in zip(p0, h)])
                margin = (fdot(h, be) - c)
                if margin <= 0:
                    continue
                dist = float(margin) / float(np.sqrt(float(hh)))
                if finite or not fulldim:
                    targets.append(dict(kind=kind + ("_inspan" if hi_ in inspan else ""), b=bf, be=be, expect=False, cert=("sep", h, c), dist=dist))
        if not targets:
            R.count("no-exactly-representable-target")
            continue
        B = np.array([t_["b"] for t_ in targets])
        via = "estimator" if rng.integers(2) else "function"
        src = np.hstack([np.zeros((ns, 1)), np.eye(ns), np.zeros((ns, 1))])
        G = held(rng, S, R)
        Bg = as_given(rng, B.copy(), R, "B", kinds=("same", "fortran", "strided", "list"))

        def mk_est(G=G, src=src):
            return dreye.ReceptorEstimator(G["filters"], domain=1.0, K=(1.0 if G["K"] is None else G["K"]), baseline=G["baseline"], sources=src, lb=G["lb"], ub=G["ub"])

        def by_function(Bq, G=G):
            return call(in_hull_from_A, Bq, G["A"], G["lb"], G["ub"], K=G["K"], baseline=G["baseline"])
        drain()
        # every query goes through common.call: arguments and the registered state of the estimator must be unchanged by it
        single = None
        isingle = int(rngb.integers(len(targets)))     # which target is (sometimes) also asked as one 1-D vector
        if via == "estimator":
            st, e0 = call(mk_est)
            out = e0
            if st == "ok":
                meth = str(rng.choice(["in_hull", "in_gamut"]))
                R.count("query:" + meth)
                st, out = call(getattr(e0, meth), Bg)
                if st == "ok" and rng.integers(3) == 0:
                    single = call(e0.in_hull, as_given(rng, B[isingle].copy(), R, "b", kinds=("same", "strided", "list")))   # one 1-D target
        else:
            st, out = by_function(Bg)
            if st == "ok" and rng.integers(3) == 0:
                single = by_function(as_given(rng, B[isingle].copy(), R, "b", kinds=("same", "strided", "list")))
        paths = sorted({e["path"] for e in drain() if e["event"] == "in_hull"})
        # chromatic membership of the same in-box captures (and of positive multiples)
        stn, outn = (None, None)
        Bn = None
        npaths = []
        if finite and np.all(Pf >= 0):
            Bn = np.array([t_["b"] for t_ in targets if t_["expect"] and np.sum(np.abs(t_["b"])) > 0])
            if len(Bn):
                Bn = np.vstack([Bn, Bn * 2.0])
                stn, en = call(mk_est)
                outn = en
                if stn == "ok":
                    stn, outn = call(en.in_hull, as_given(rng, Bn.copy(), R, "B", kinds=("same", "fortran", "strided", "list")), normalized=True)
                npaths = sorted({e["path"] for e in drain() if e["event"] == "in_hull"})
        # chromatic membership, further configurations (own random stream, the draws above are unchanged):
        #  - unbounded sources: the chromatic gamut is still defined (the chromaticities of all captures of in-bound intensities). An
        #    implementation may decline the question (ValueError); if it answers, every capture of intensities strictly inside the
        #    bounds - dim or bright - must be accepted
        #  - absolute capture (relative=False: adaptation and baseline play no role, the captures are A x), bounded or not
        rngc = R.rng(6, int(k[1:]))
        chroma2 = []
        Apf_ = np.array([[float(v) for v in row] for row in Ap]); p0f_ = np.array([float(v) for v in predictF(lbF)])
        tin = [t_ for t_ in targets if t_["expect"] and "x" in t_]
        cq = []
        if (not finite) and np.all(Apf_ >= 0) and np.all(p0f_ >= 0):
            cq.append(("relative", np.array([t_["b"] for t_ in tin if np.sum(np.abs(t_["b"])) > 0]), [t_["x"] for t_ in tin if np.sum(np.abs(t_["b"])) > 0]))
        if np.all(S["A"] >= 0) and ((not finite) or rngc.integers(2) == 0):
            AF = [[F(v) for v in row] for row in S["A"]]
            rows_, xs_ = [], []
            for t_ in tin:
                ba = [sum(a * xv for a, xv in zip(row, t_["x"])) for row in AF]
                bf_, be_ = exact_float_vec(ba)
                if be_ == ba and sum(ba) > 0:
                    rows_.append(bf_); xs_.append(t_["x"])
            cq.append(("absolute", np.array(rows_), xs_))
        for mode, Bc, xs_ in cq:
            if not len(Bc):
                continue
            Bc = np.vstack([Bc, Bc * 2.0]) if finite else Bc      # bounded: chromaticity is that of any positive multiple
            stc, ec = call(mk_est)
            outc = ec
            methc = str(rngc.choice(["in_hull", "in_gamut"]))
            if stc == "ok":
                kw_ = dict(normalized=True) if mode == "relative" else dict(normalized=True, relative=False)
                drain()
                stc, outc = call(getattr(ec, methc), as_given(rngc, Bc.copy(), R, "B", kinds=("same", "fortran", "strided", "list")), **kw_)
            chroma2.append(dict(mode=mode, method=methc, status=stc, out=outc, B=Bc, x=xs_, paths=sorted({e["path"] for e in drain() if e["event"] == "in_hull"})))
        # history: a program keeps using what it holds. The same estimator (or, with the functional interface, the same
        # arrays) answers a first gamut query of any kind, is optionally re-adapted / re-bounded through a registration call,
        # and is asked again. (1) a fresh estimator given the same registered values must give the same answers;
        # (2) without a registration in between the certified targets keep their status: the second answer is judged like the first.
        hist = dict(via=("estimator" if rng.integers(3) else "function"), step="none", first=None)
        if hist["via"] == "estimator":
            sth, e1 = call(mk_est)
            if sth != "ok":
                hist.update(error=(sth, e1))
            else:
                firsts = ["in_hull", "in_gamut", "in_hull(relative=False)", "sample_in_hull"] + (["range_of_solutions"] if ns > nf else [])
                first = str(rng.choice(firsts))
                if first == "in_hull":
                    r1 = call(e1.in_hull, Bg)
                elif first == "in_gamut":
                    r1 = call(e1.in_gamut, Bg)
                elif first == "in_hull(relative=False)":
                    r1 = call(e1.in_hull, Bg, relative=False)
                elif first == "sample_in_hull":
                    r1 = call(e1.sample_in_hull, 3, seed=int(rng.integers(100)))
                else:
                    r1 = call(e1.range_of_solutions, Bg, error="ignore")
                # (the value of the first query is the subject of other checks; here it is only part of the history)
                hist.update(first=first, first_status=r1[0])
                step = str(rng.choice(["none", "none", "system_adaptation", "background_adaptation", "system_adaptation(add)", "bounds"]))
                x0 = dyadic(rng, 0.25, 1.0, 2, size=ns)
                if step != "none" and np.any(S["A"] @ x0 + np.atleast_1d(S["baseline"]) <= 0):
                    step = "bounds"   # adapting to a background with zero capture is undefined: only re-bound
                ub_reg = S["ub"].copy()
                r2 = ("ok", None)
                if step == "system_adaptation":
                    r2 = call(e1.register_system_adaptation, x0)
                elif step == "background_adaptation":
                    r2 = call(e1.register_background_adaptation, src.T @ x0)
                elif step == "system_adaptation(add)":
                    r2 = call(e1.register_system_adaptation, x0, add=True) if np.ndim(e1.K) == 1 else call(e1.register_system_adaptation, x0)
                elif step == "bounds":
                    ub_reg = S["ub"] * 0.5 + S["lb"] * 0.5     # stays above lb; infinite stays infinite
                    r2 = call(e1.register_bounds, ub=ub_reg.copy())
                hist.update(step=step)
                if r2[0] != "ok":
                    hist.update(error=r2)
                else:
                    sta, again = call(e1.in_hull, Bg)
                    if sta != "ok":
                        hist.update(error=(sta, again))
                    else:
                        filt0 = np.hstack([np.zeros((nf, 1)), S["A"], np.zeros((nf, 1))])
                        stf, fresh = call(lambda: dreye.ReceptorEstimator(filt0, domain=1.0, K=np.array(e1.K, dtype=float), baseline=np.array(S["baseline"], dtype=float),
                                                                           sources=src.copy(), lb=S["lb"].copy(), ub=ub_reg.copy()).in_hull(B.copy()))
                        hist.update(again=np.atleast_1d(np.asarray(again)).astype(bool), fresh=(np.atleast_1d(np.asarray(fresh)).astype(bool) if stf == "ok" else None))
                        if stf != "ok":
                            hist.update(error=(stf, fresh))
        else:
            firsts = ["in_hull_from_A", "get_P_from_A"] + (["range_of_solutions"] if ns > nf else [])
            first = str(rng.choice(firsts))
            if first == "in_hull_from_A":
                r1 = by_function(Bg)
            elif first == "get_P_from_A":
                r1 = call(get_P_from_A, G["A"], G["lb"], G["ub"], K=G["K"], baseline=G["baseline"], bounded=bool(finite))
            else:
                r1 = call(range_of_solutions, Bg, G["A"], G["lb"], G["ub"], K=G["K"], baseline=G["baseline"], error="ignore")
            hist.update(first=first, first_status=r1[0])
            sta, again = by_function(Bg)
            if sta != "ok":
                hist.update(error=(sta, again))
            else:
                stf, fresh = call(in_hull_from_A, B.copy(), S["A"].copy(), S["lb"].copy(), S["ub"].copy(), K=(None if S["K"] is None else np.array(S["K"], dtype=float)),
                                  baseline=np.array(S["baseline"], dtype=float))
                hist.update(again=np.atleast_1d(np.asarray(again)).astype(bool), fresh=(np.atleast_1d(np.asarray(fresh)).astype(bool) if stf == "ok" else None))
                if stf != "ok":
                    hist.update(error=(stf, fresh))
        # certificates
        for ti, t_ in enumerate(targets):
            ct = t_["cert"]
            rid = "%s_t%d" % (k, ti)
            if ct[0] == "box":
                R.driver.ask(rid, "inhullbox", ms(Ap), vs(bp), vs(S["lb"]), ub_text(S["ub"]), vs(ct[1]), vs(t_["be"]))
            elif ct[0] == "weights":
                R.driver.ask(rid, "inhull", nf, ms(P), vs(ct[1]), vs(t_["be"]))
            elif ct[0] == "sep":
                R.driver.ask(rid, "sep", ms(P), vs(ct[1]), rs(ct[2]), vs(t_["be"]))
        jobs.append((k, S, targets, via, st, out, paths, fulldim, finite, ext, stn, outn, Bn, hist, (single, isingle), npaths,
                     {n_: ("list" if isinstance(v, list) else ("None" if v is None else "%s%s" % (v.dtype, "" if v.flags["C_CONTIGUOUS"] else (" F-order" if v.flags["F_CONTIGUOUS"] else " strided"))))
                      for n_, v in G.items()}, chroma2))
    R.driver.run()
    for k, S, targets, via, st, out, paths, fulldim, finite, ext, stn, outn, Bn, hist, (single, isingle), npaths, given, chroma2 in jobs:
        c = dict(k=k, via=via, nf=S["nf"], ns=S["ns"], A=S["A"], K=S["K"], K_kind=S["K_kind"], baseline=S["baseline"], baseline_kind=S["baseline_kind"],
                 lb=S["lb"], ub=S["ub"], given_as=given, full_dimensional=bool(fulldim), paths=paths,
                 targets=[dict(kind=t_["kind"], b=t_["b"], expect=t_["expect"]) for t_ in targets])
        for key in ("via", "K_kind", "baseline_kind"):
            R.count("%s:%s" % (key, c[key]))
        R.count("sources:" + S["sources"])
        if S["sources"] != "independent":
            R.count("dependent-sources:%s:%s:%s" % ("bounded" if finite else "unbounded", "fewer sources than receptors" if S["ns"] < S["nf"] else "sources >= receptors",
                                                     "full-dimensional gamut" if fulldim else "flat gamut"))
        R.count("ub:" + S["ub_kind"]); R.count("lb:" + S["lb_kind"]); R.count("A:" + S["A_kind"]); R.count("fulldim:%s" % bool(fulldim))
        for p_ in paths:
            R.count("path:" + p_)
        cfg = "%s:%s" % ("bounded" if finite else "unbounded", "full" if fulldim else "flat")
        sigbase = "C03:%s:K=%s" % (cfg, S["K_kind"])
        has_in = has_out = False
        if st != "ok":
            R.case(c, None)
            R.failB(dict(c, impl_error=out), "membership test raised %s: %s" % (st, out), sigbase + ":raises:" + st)
            continue
        out = np.atleast_1d(np.asarray(out)).astype(bool)
        certified = []
        for ti, t_ in enumerate(targets):
            ct = t_["cert"]
            ok_ = True
            if ct[0] in ("box", "weights", "sep"):
                ok_ = R.driver.get("%s_t%d" % (k, ti)).bool()
                R.cert(ok_)
            R.count("target:%s" % t_["kind"])
            if not ok_:
                R.failA(dict(c, target=t_["kind"]), "constructed certificate for a %s target was not accepted by the checker" % t_["kind"])
            certified.append(ok_)

        def judge(answers, idx, when, extra):
            """the property predicate on the answers given for the targets idx (certified in / certified out)"""
            for said, ti in zip(answers, idx):
                t_ = targets[ti]
                said = bool(said)
                if not certified[ti] or t_["kind"] == "vertex":
                    continue
                if t_["expect"] and not said:
                    R.failB(dict(c, target_kind=t_["kind"], target=t_["b"], intensities=[rs(v) for v in t_.get("x", [])], **extra),
                            "a %s target (capture of intensities strictly inside the bounds / certified convex combination of the corner images) was reported OUT of gamut%s" % (t_["kind"], when),
                            sigbase + ":false-negative:" + t_["kind"])
                if (not t_["expect"]) and said and t_["dist"] > 1e-6 * ext:
                    R.failB(dict(c, target_kind=t_["kind"], target=t_["b"], separator=[rs(v) for v in t_["cert"][1]], distance=t_["dist"], **extra),
                            "a target at distance %.3g (> 1e-6 x extent %.3g) outside the gamut (certified by a separating hyperplane) was reported IN gamut%s" % (t_["dist"], ext, when),
                            sigbase + ":false-positive:" + t_["kind"])
        for ti, t_ in enumerate(targets):
            if certified[ti] and t_["kind"] == "vertex":
                # a vertex is on the boundary: neither "strictly inside" nor "strictly outside" -- recorded, not asserted
                R.count("vertex-reported-%s" % ("in" if out[ti] else "out"))
            elif certified[ti]:
                has_in = has_in or t_["expect"]
                has_out = has_out or not t_["expect"]
        if len(out) != len(targets):
            R.failB(dict(c, impl=out), "%d answers for %d targets" % (len(out), len(targets)), sigbase + ":answer-shape")
        else:
            judge(out, range(len(targets)), "", {})
        if single is not None:
            R.count("single-1d-target")
            if single[0] != "ok":
                R.failB(dict(c, impl_error=single[1]), "membership of a single (1-D) target raised %s: %s" % single, sigbase + ":single-target:raises:" + single[0])
            elif np.size(single[1]) != 1:
                R.failB(dict(c, impl=single[1]), "membership of a single (1-D) target is not one answer", sigbase + ":single-target:shape")
            else:
                judge([bool(np.asarray(single[1]).ravel()[0])], [isingle], " when asked as a single 1-D target", dict(query="single 1-D target"))
        R.count("history:%s" % hist["via"]); R.count("history:first=%s" % hist["first"]); R.count("history:then=%s" % hist["step"])
        if not finite:
            R.count("history:unbounded")
        hinfo = dict(history_via=hist["via"], first_query=hist["first"], registration_step=hist["step"])
        if "error" in hist:
            R.failB(dict(c, impl_error=hist["error"][1], **hinfo), "membership query in a history (first query: %s, then: %s) raised: %s" % (hist["first"], hist["step"], hist["error"][1]),
                    "C03:history:raises:" + hist["error"][0])
        else:
            again, fresh = hist["again"], hist["fresh"]
            if not np.array_equal(again, fresh):
                R.failB(dict(c, after_history=again, fresh=fresh, **hinfo),
                        "the same targets get different gamut answers from an estimator (or arrays) used for an earlier query / registration call and from a fresh one holding the same registered values",
                        "C03:history-dependence")
            if hist["step"] == "none" and len(again) == len(targets):
                judge(again, range(len(targets)), " by the second query on the same %s (first query: %s)" % ("estimator" if hist["via"] == "estimator" else "arrays", hist["first"]), hinfo)
        if stn is not None:
            R.count("normalized")
            for p_ in npaths:
                R.count("normalized-path:" + p_)
            if stn != "ok":
                R.failB(dict(c, impl_error=outn), "chromatic (normalized) membership raised %s: %s" % (stn, outn), "C03:normalized:nf=%d:raises:%s" % (S["nf"], stn))
            elif not np.all(outn):
                R.failB(dict(c, targets_normalized=Bn, impl=outn, normalized_paths=npaths), "captures of in-bound intensities (or positive multiples of them) were reported outside the chromatic gamut",
                        "C03:normalized:false-negative:" + "+".join(npaths))
        for q in chroma2:
            cfgc = "%s:%s" % ("bounded" if finite else "unbounded", q["mode"])
            R.count("normalized:%s" % cfgc)
            for p_ in q["paths"]:
                R.count("normalized-path:%s:%s" % (cfgc, p_))
            qinfo = dict(chromatic_query="%s(normalized=True%s)" % (q["method"], "" if q["mode"] == "relative" else ", relative=False"), targets_normalized=q["B"])
            if q["status"] == "value_error" and not finite:
                # the implementation declines to define a chromatic gamut without upper bounds: loud, not a wrong answer
                R.count("normalized:%s:declined(ValueError)" % cfgc)
            elif q["status"] != "ok":
                R.failB(dict(c, impl_error=q["out"], **qinfo), "chromatic (normalized) membership, %s capture, raised %s: %s" % (q["mode"], q["status"], q["out"]),
                        "C03:normalized:%s:nf=%d:raises:%s" % (cfgc, S["nf"], q["status"]))
            else:
                ans = np.atleast_1d(np.asarray(q["out"])).astype(bool)
                R.count("normalized:%s:answered" % cfgc)
                if len(ans) != len(q["B"]) or not np.all(ans):
                    R.failB(dict(c, impl=ans, intensities=[[rs(v) for v in x_] for x_ in q["x"]], normalized_paths=q["paths"], **qinfo),
                            "captures of intensities strictly inside the bounds (%s capture, %s sources) were reported outside the chromatic gamut" % (q["mode"], "bounded" if finite else "unbounded"),
                            "C03:normalized:false-negative:%s:%s" % (cfgc, "+".join(q["paths"])))
        if not finite:
            R.count("unbounded:K=%s:%s" % (S["K_kind"], "certified in+out" if (has_in and has_out) else ("certified in" if has_in else "none")))
        R.case(c, (k,) if (fulldim and has_in and has_out) else None, sample=(fulldim and finite and has_out))
