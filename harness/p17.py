"""C17 — hull projections return the nearest point, the boundary hit and the exact slice."""
import numpy as np
from fractions import Fraction
from itertools import product
from math import gcd
from functools import reduce
from common import F, rs, vs, ms, dyadic, close, call, parse_rat, as_given

ARR = ("same", "int", "fortran", "strided")   # these functions take ndarrays (they call .astype / compare with >=): no python lists


def given(rv, x, R, tag):
    """another legitimate ndarray representation of the same values; never the harness's own buffer (a callee that
    writes into its argument must not change what the model is asked about)"""
    y = as_given(rv, x, R, tag, kinds=ARR)
    return y.copy(order="K") if np.shares_memory(y, x) else y


def flat_cloud(rv, d):
    """non-negative clouds with MORE points than dimensions that lie in a lower-dimensional flat (exact dyadic coordinates,
    so exactly rank-deficient): captures of fewer sources than receptors, a face of the lattice, an affine image of a
    lower-dimensional cloud, collinear points. Returns (P, kind) or (None, None)."""
    for _ in range(12):
        kind = str(rv.choice(["sources", "lattice-face", "affine", "collinear"]))
        if kind == "sources":      # captures B = W A + baseline of s < d sources at on/half/off intensities
            s = int(rv.integers(1, d))
            levels = [0.0, 1.0] if (2 ** s > d + 1 and rv.integers(2)) else [0.0, 0.5, 1.0]
            W = np.array(list(product(levels, repeat=s)))
            A = dyadic(rv, 0, 2, 3, size=(s, d))
            P = W @ A + (dyadic(rv, 0, 1, 3, size=d) if rv.integers(2) else 0.0)
            nsel = int(rv.integers(d + 1, len(P) + 1)) if len(P) > d + 1 else len(P)
            P = P[np.sort(rv.permutation(len(P))[:nsel])]
        elif kind == "lattice-face":
            pts = np.array(list(product([0.0, 1.0, 2.0], repeat=d)))
            if d >= 3 and rv.integers(2):
                pts = pts[pts[:, 0] == pts[:, 1]]
            else:
                pts = pts[pts[:, int(rv.integers(d))] == float(rv.integers(3))]
            nsel = int(rv.integers(d + 1, len(pts) + 1)) if len(pts) > d + 1 else len(pts)
            P = pts[rv.permutation(len(pts))[:nsel]]
        elif kind == "affine":
            r = int(rv.integers(1, d))
            Z = dyadic(rv, 0, 2, 2, size=(int(rv.integers(d + 1, d + 8)), r))
            P = Z @ dyadic(rv, 0, 2, 2, size=(r, d)) + dyadic(rv, 0, 1, 2, size=d)
        else:
            t = rv.permutation(17)[: int(rv.integers(d + 1, d + 5))] / 8.0
            P = dyadic(rv, 0, 2, 2, size=d) + t[:, None] * dyadic(rv, 0, 2, 2, size=d)
        P = np.ascontiguousarray(P, dtype=np.float64)
        sums = P.sum(1)
        if P.shape[0] > d and np.linalg.matrix_rank(P - P[0]) < d and sums.max() - sums.min() >= 0.5:
            return P, kind
    return None, None


def integer_facets(P, hull):
    """the facet equations of a whole-number cloud as one would write them by hand: integer normal and offset with gcd 1
    (x + y - 3 <= 0), one row per facet. None if they cannot be confirmed to describe the same half-spaces as qhull's rows."""
    d = P.shape[1]
    rows = set()
    for simp, q in zip(hull.simplices, hull.equations):
        V = P[simp]
        E = V[1:] - V[0]
        nrm = np.array([(-1) ** j * int(round(np.linalg.det(np.delete(E, j, axis=1)))) if d > 1 else 1 for j in range(d)], dtype=object)
        if not any(int(v) != 0 for v in nrm):
            return None
        if float(np.dot(nrm.astype(float), q[:-1])) < 0:
            nrm = -nrm
        g = reduce(gcd, [abs(int(v)) for v in nrm])
        nrm = [int(v) // g for v in nrm]
        rows.add(tuple(nrm) + (-sum(a * int(b) for a, b in zip(nrm, V[0])),))
    E = np.array(sorted(rows), dtype=np.float64)
    U = E / np.linalg.norm(E[:, :-1], axis=1, keepdims=True)
    for q in hull.equations:
        if np.min(np.max(np.abs(U - q), axis=1)) > 1e-9:
            return None
    for u in U:
        if np.min(np.max(np.abs(hull.equations - u), axis=1)) > 1e-9:
            return None
    return E


def rescale_rows(rv, eq):
    """the same half-spaces with every row multiplied by its own positive factor (exact dyadic factors)"""
    return eq * dyadic(rv, 0.125, 8, 3, size=(len(eq), 1))


def cloud(rng, d, kind):
    if kind == "random":
        return dyadic(rng, 0, 4, 3, size=(int(rng.integers(d + 2, d + 12)), d))
    if kind == "lattice":   # many coplanar / collinear points
        pts = np.array(list(product([0.0, 1.0, 2.0], repeat=d)))
        sel = rng.permutation(len(pts))[: min(len(pts), int(rng.integers(d + 3, 3 ** d + 1)))]
        P = pts[sel]
        return P if np.linalg.matrix_rank(P - P[0]) == d else pts
    if kind == "simplex":   # sharp corners
        return np.vstack([np.zeros(d), np.eye(d) * dyadic(rng, 1, 4, 2, size=d)]) + dyadic(rng, 0, 1, 2, size=d)
    raise ValueError(kind)


def large_hull(rl, size_kind):
    """a cloud whose hull has MANY facets (more than 512): points in convex position on an ellipse (2-D: n points -> n facets)
    or an ellipsoid (3-D: n points -> 2n-4 facets), or many points on a sphere / normally distributed in 4-5 dimensions.
    size_kind 'just-above-block': the facet count is 1..8 above 512 or 1024 (sizes at which implementations that work through
    the facets in blocks start a new, short block); 'arbitrary': any count between 513 and ~1500. The origin is well inside.
    Returns (P, hull, description)."""
    from scipy.spatial import ConvexHull
    for _ in range(8):
        if size_kind == "just-above-block":
            d = int(rl.choice([2, 3])); target = int(rl.choice([512, 1024])) + int(rl.integers(1, 9))
        else:
            d = int(rl.choice([2, 3, 4, 5])); target = int(rl.integers(513, 1500))
        axes_ = dyadic(rl, 0.75, 2, 2, size=d)
        if d == 2:
            ang = np.sort(rl.uniform(0, 2 * np.pi, target)); P = np.c_[np.cos(ang), np.sin(ang)] * axes_
        else:
            npts = (target + 5) // 2 if d == 3 else (int(rl.integers(90, 200)) if d == 4 else int(rl.integers(34, 50)))
            P = rl.normal(size=(npts, d)); P = P / np.linalg.norm(P, axis=1, keepdims=True) * axes_
        try:
            hull = ConvexHull(P)
        except Exception:  # noqa: BLE001
            continue
        nf = len(hull.equations)
        if nf > 512 and nf <= 4000 and np.all(hull.equations[:, -1] < -0.05):
            return P, hull, "%d points on an ellipsoid in %d-D" % (len(P), d)
    ang = np.linspace(0, 2 * np.pi, 520, endpoint=False); P = np.c_[np.cos(ang), np.sin(ang)]
    return P, ConvexHull(P), "regular 520-gon (fallback)"


def in_conv_lp(points, target, tol):
    """tolerance-based membership (predicate evaluation on float outputs): exists u>=0, sum u=1, |sum u r - target|_inf <= tol"""
    from scipy.optimize import linprog
    R_ = np.asarray(points, dtype=float); t = np.asarray(target, dtype=float)
    k, d = R_.shape
    A_ub = np.vstack([R_.T, -R_.T]); b_ub = np.concatenate([t + tol, -t + tol])
    res = linprog(np.zeros(k), A_ub=A_ub, b_ub=b_ub, A_eq=np.ones((1, k)), b_eq=[1.0], bounds=[(0, None)] * k, method="highs")
    return res.status == 0


def run(R):
    import dreye
    from scipy.spatial import ConvexHull
    from quadprog import solve_qp
    n = 60 if R.tier == "quick" else 800
    R.rule = ("point clouds in 2-5 dimensions (random dyadic, lattice with many coplanar points, simplices with sharp corners, "
              "fewer points than dimensions for the slice; for the slice also FLAT clouds with more points than dimensions: captures "
              "of fewer sources than receptors, a face of the lattice, affine images of lower-dimensional clouds, collinear points); "
              "query points inside, outside and beyond corners; plane levels across the admissible range, incl. exactly the smallest "
              "coordinate sum (plane touching the lowest vertex/face), just above it, and exactly through another cloud point; slice "
              "clouds with a point listed two or three times at random positions. The hull handed to "
              "proj_B_to_hull / alpha_for_B_with_P is described by qhull's unit-normal rows, by the same rows each multiplied by its "
              "own positive factor, by rows in the convention n.x <= 1, or by hand-written integer rows (gcd 1) of a whole-number "
              "cloud: all describe the same half-spaces. Arrays reach the implementation as given / integer dtype (whole values) / "
              "Fortran order / strided view; the model receives the values. Nearest point: a Lagrange-dual certificate (multipliers "
              "from an auxiliary quadprog call on the same rows, "
              "evaluated exactly by the Lean projDual; theorem nearest_of_cert => nearest against every hull point; facet "
              "violations are measured relative to the row norm). Boundary "
              "hit: exact model alphaFor. Slice: exact model on the all-pairs branch; on the hull-edge branch every returned "
              "point must be an exact segment/plane intersection and every all-pairs intersection must lie in their hull. "
              "LARGE instances (own stream, 2 per quick run): hulls with more than 512 facets - points in convex position on an "
              "ellipse / ellipsoid in 2-3 dimensions with a facet count 1-8 above 512 or 1024, or an arbitrary count 513-1500 in "
              "2-5 dimensions - and a few hundred or more than 4096 query vectors (more than 1e6 vector x facet products): every "
              "returned multiple must be finite, positive and put the vector on the boundary, 15 sampled vectors (incl. vertex "
              "directions) are compared with the exact model; 6 query points are projected onto the same hull (dual certificate). "
              "MANY-POINT slices (own stream, 10 per quick run): 30-125 rows in 3-5 dimensions - random clouds on a coarse dyadic grid "
              "(many rows are not hull vertices, interleaved at random with the vertices) and subsets of the lattices {0,1,2}^d / "
              "{0..3}^d, dozens to hundreds of hull edges crossing the plane: every returned point is an exact all-pairs intersection "
              "(model), every intersection of a hull edge (harness qhull; these carry all corners of the slice) and 30 sampled other "
              "all-pairs intersections lie in the hull of the returned points. "
              "Non-trivial: dimension >= 3 or a lattice/simplex/flat/large/many-point cloud.")
    jobs = []
    for k in range(n):
        if not R.want(k):
            continue
        rng = R.rng(1, k)
        what = str(rng.choice(["nearest", "alpha", "slice"]))
        d = int(rng.integers(2, 6))
        ckind = str(rng.choice(["random", "lattice", "simplex"]))
        c = dict(k=k, what=what, dim=d, cloud_kind=ckind)
        R.count("what:" + what); R.count("cloud:" + ckind); R.count("dim:%d" % d)
        nontriv = (k,) if (d >= 3 or ckind != "random") else None
        rv = R.rng(2, k)      # stream of the representation / description variants (the base cases keep their values)
        if what in ("nearest", "alpha"):
            P = cloud(rng, d, ckind)
            # how the hull is described: qhull's unit-normal rows | the same rows, each times its own positive factor |
            # rows in the convention n.x <= 1 (origin moved inside) | hand-written integer rows of a whole-number cloud
            ekind = str(rv.choice(["qhull", "qhull", "rescaled", "unit-offset", "integer"]))
            if ekind == "integer" and ckind != "lattice":
                P = rv.integers(0, 5, size=(int(rv.integers(d + 2, d + 12)), d)).astype(np.float64)
            try:
                hull = ConvexHull(P)
            except Exception:  # noqa: BLE001
                P = cloud(rng, d, "random"); hull = ConvexHull(P)
            if ekind == "unit-offset":
                P0 = P - np.round(P[hull.vertices].mean(0) * 8) / 8
                h0 = ConvexHull(P0)
                if np.all(h0.equations[:, -1] < -1e-3):
                    P, hull = P0, h0
                else:
                    ekind = "rescaled"
            eq = hull.equations.copy()
            if ekind == "integer":
                eqi = integer_facets(P, hull) if np.all(P == np.round(P)) else None
                if eqi is None:
                    ekind = "rescaled"
                else:
                    eq = eqi
            if ekind == "rescaled":
                eq = rescale_rows(rv, eq)
            elif ekind == "unit-offset":
                eq = eq / (-eq[:, -1:])
            c.update(equations_kind=ekind)
            R.count("%s-equations:%s" % (what, ekind))
            centre = P[hull.vertices].mean(0)
            c.update(P=P)
            if what == "nearest":
                ext = float(np.max(P.max(0) - P.min(0)))
                Q = np.vstack([centre + (P[rng.integers(len(P), size=3)] - centre) * dyadic(rng, 0.125, 0.875, 3, size=(3, 1)),      # inside
                               centre + (P[rng.integers(len(P), size=4)] - centre) * dyadic(rng, 1.5, 4, 2, size=(4, 1)),          # outside, beyond vertices
                               centre + dyadic(rng, -2, 2, 2, size=(3, d)) * ext])
                if ekind == "integer" and rv.integers(2):
                    Q = np.round(Q)          # whole-number queries (may be handed in with an integer dtype)
                c.update(B=Q, equations=eq)
                st, out = call(dreye.proj_B_to_hull, given(rv, Q, R, "B"), given(rv, eq, R, "equations"))
                G = -(-eq[:, :-1]); h = -eq[:, -1]          # n.z + o <= 0   <=>   G z <= h  with G = n, h = -o
                lams = []
                for q in Q:
                    try:
                        sol = solve_qp(np.eye(d), q.astype(float), -eq[:, :-1].T.copy(), eq[:, -1].copy(), 0, True)
                        lams.append(np.maximum(np.asarray(sol[4], dtype=float), 0.0))
                    except Exception:  # noqa: BLE001
                        lams.append(np.zeros(len(eq)))
                if st == "ok":
                    for i, q in enumerate(Q):
                        R.driver.ask("n%d_%d" % (k, i), "projdual", d, ms(G), vs(h), vs(q), vs(lams[i]), vs(np.asarray(out)[i]))
                rown = max(1.0, float(np.max(np.linalg.norm(G, axis=1))))   # facet values are distances times the row norm
                jobs.append((c, nontriv, st, out, dict(G=G, h=h, Q=Q, ext=ext, rown=rown)))
            else:
                eq0 = eq.copy(); eq0[:, -1] = eq[:, -1] + eq[:, :-1] @ centre     # translate so that the origin (centre) is strictly inside
                Bv = np.vstack([dyadic(rng, -2, 2, 3, size=(5, d)), (P[:3] - centre)])
                Bv = Bv[np.abs(Bv).sum(1) > 0]
                c.update(B=Bv, equations=eq0)
                Bi, Ei = given(rv, Bv, R, "B"), given(rv, eq0, R, "equations")
                st, out = call(lambda: (dreye.alpha_for_B_with_P(Bi, Ei), dreye.B_with_P(Bi, Ei)))
                if not (np.array_equal(np.asarray(Bi, dtype=float), Bv) and np.array_equal(np.asarray(Ei, dtype=float), eq0)):
                    R.failA(dict(c), "frame condition: alpha_for_B_with_P / B_with_P changed an argument in place")
                for i, b in enumerate(Bv):
                    R.driver.ask("a%d_%d" % (k, i), "alpha", ms(eq0), vs(b))
                jobs.append((c, nontriv, st, out, dict(Bv=Bv, eq0=eq0)))
        else:
            few = bool(rng.integers(3) == 0)
            if few:
                P = dyadic(rng, 0, 4, 3, size=(int(rng.integers(2, d + 1)), d))
            else:
                P = np.abs(cloud(rng, d, ckind))
            flat = None
            if not few and rv.integers(5) < 2:
                Pf, flat = flat_cloud(rv, d)
                if Pf is not None:
                    P = Pf
            sums = P.sum(1)
            if sums.max() - sums.min() < 0.5:
                P[0] = 0.0; sums = P.sum(1)
            lev = float(dyadic(rng, 0.125, 0.875, 3))
            cval = float(sums.min() + lev * (sums.max() - sums.min()))
            if cval <= 0:
                cval = float(sums.max()) / 2
            # own stream: (a) repeated rows - the same point listed twice or three times (a capture measured repeatedly), the copy
            # put at a random position (so a repeat may come first and be followed by further hull vertices); (b) the level c at
            # the lower end of the admissible range (exactly the smallest coordinate sum: the plane touches the hull in its lowest
            # vertex / face), just above it, or exactly through the coordinate sum of another cloud point
            rs_ = R.rng(7, k)
            nrep = 0
            if rs_.integers(3) == 0:
                nrep = int(rs_.integers(1, 3))
                for _ in range(nrep):
                    src = int(rs_.integers(len(P))); pos = int(rs_.integers(len(P) + 1))
                    P = np.insert(P, pos, P[src], axis=0)
                sums = P.sum(1)
            R.count("slice-repeated-rows:%d" % nrep)
            lkind = str(rs_.choice(["interior", "interior", "interior", "lowest-sum", "just-above-lowest", "through-a-point"]))
            if lkind == "lowest-sum" and sums.min() > 0:
                cval = float(sums.min())
            elif lkind == "just-above-lowest" and sums.min() + 2.0 ** -10 < sums.max():
                cval = float(sums.min() + 2.0 ** -10)
            elif lkind == "through-a-point" and np.any((sums > 0) & (sums < sums.max())):
                cand = sums[(sums > 0) & (sums < sums.max())]
                cval = float(cand[int(rs_.integers(len(cand)))])
            else:
                lkind = "interior"
            R.count("slice-level:%s" % lkind)
            c.update(P=P, c=cval, few_points=few, flat=flat, level=lkind, repeated_rows=nrep)
            R.count("slice:%s" % ("all-pairs" if P.shape[0] <= P.shape[1] else "hull-edges"))
            R.count("slice-cloud:%s" % ("few-points" if few else ("flat:" + flat if flat else "full-dimensional")))
            if flat:
                nontriv = (k,)
            R.driver.ask("s%d" % k, "section", ms(P), rs(cval))
            st, out = call(dreye.proj_P_to_simplex, given(rv, P, R, "P"), cval)
            jobs.append((c, nontriv, st, out, dict(P=P, cval=cval)))
    # hulls with MANY facets (more than 512, incl. counts just above 512 / 1024) and MANY query vectors (more than 4096, more
    # than 1e6 vector x facet products): own random stream. Every returned multiple is judged by the property predicate
    # (finite, positive, alpha*b on the boundary); a random sample of the vectors also exactly by the model; a few query points
    # are projected onto the same hull (nearest point, exact dual certificate).
    nl = 2 if R.tier == "quick" else 10
    for j in range(nl):
        k = n + 100 + j
        if not R.want(k):
            continue
        rl = R.rng(3, k)
        size_kind = "just-above-block" if j % 2 == 0 else "arbitrary"
        P, hull, descr = large_hull(rl, size_kind)
        d = P.shape[1]; nfac = len(hull.equations)
        many = bool(j % 2 == 1) if R.tier == "quick" else bool(rl.integers(2))
        nq = int(rl.integers(4097, 4700)) if many else int(rl.integers(150, 400))
        ekind = str(rl.choice(["qhull", "rescaled"]))
        eq = hull.equations.copy()
        if ekind == "rescaled":
            eq = rescale_rows(rl, eq)
        centre = np.round(P[hull.vertices].mean(0) * 64) / 64
        eq0 = eq.copy(); eq0[:, -1] = eq[:, -1] + eq[:, :-1] @ centre
        nv = min(8, len(hull.vertices))
        Bv = np.vstack([P[hull.vertices[:nv]] - centre,                                   # vertex directions: several facets tie
                        rl.normal(size=(nq - nv, d)) * dyadic(rl, 0.125, 8, 3, size=(nq - nv, 1))])
        Bv = Bv[np.abs(Bv).sum(1) > 0]
        cbase = dict(k=k, dim=d, cloud_kind="large-hull", cloud=descr + " (regenerate with --case %d)" % k, n_facets=nfac, facet_count=size_kind,
                     n_queries=len(Bv), equations_kind=ekind)
        R.count("large-hull:dim:%d" % d); R.count("large-hull:facets:%s" % size_kind); R.count("large-hull:facets-mod-512:%s" % ("1-8" if 1 <= nfac % 512 <= 8 else "other"))
        R.count("large-hull:queries:%s" % (">4096" if len(Bv) > 4096 else "<=4096")); R.count("large-hull:products:%s" % (">1e6" if len(Bv) * nfac > 10 ** 6 else "<=1e6"))
        R.count("alpha-equations:%s" % ekind)
        Bi, Ei = given(rl, Bv, R, "B"), given(rl, eq0, R, "equations")
        st, out = call(lambda: (dreye.alpha_for_B_with_P(Bi, Ei), dreye.B_with_P(Bi, Ei)))
        if not (np.array_equal(np.asarray(Bi, dtype=float), Bv) and np.array_equal(np.asarray(Ei, dtype=float), eq0)):
            R.failA(dict(cbase), "frame condition: alpha_for_B_with_P / B_with_P changed an argument in place")
        rows = sorted(set(range(min(3, nv))) | set(int(i) for i in rl.permutation(len(Bv))[:12]))
        for i in rows:
            R.driver.ask("a%d_%d" % (k, i), "alpha", ms(eq0), vs(Bv[i]))
        R.count("what:alpha"); R.count("cloud:large-hull")
        jobs.append((dict(cbase, what="alpha", exactly_judged_rows=rows), (k, "alpha"), st, out, dict(Bv=Bv, eq0=eq0, rows=rows)))
        # nearest point on the same hull (all facets in one quadratic programme)
        ext = float(np.max(P.max(0) - P.min(0)))
        vsel = P[hull.vertices[rl.integers(len(hull.vertices), size=6)]]
        Q = np.vstack([vsel[:2] * dyadic(rl, 0.125, 0.875, 3, size=(2, 1)), vsel[2:5] * dyadic(rl, 1.25, 4, 2, size=(3, 1)),
                       dyadic(rl, -2, 2, 2, size=(1, d)) * ext])
        st, out = call(dreye.proj_B_to_hull, given(rl, Q, R, "B"), given(rl, eq, R, "equations"))
        G = eq[:, :-1].copy(); h = -eq[:, -1]
        lams = []
        for q in Q:
            try:
                sol = solve_qp(np.eye(d), q.astype(float), -eq[:, :-1].T.copy(), eq[:, -1].copy(), 0, True)
                lams.append(np.maximum(np.asarray(sol[4], dtype=float), 0.0))
            except Exception:  # noqa: BLE001
                lams.append(np.zeros(len(eq)))
        if st == "ok":
            for i, q in enumerate(Q):
                R.driver.ask("n%d_%d" % (k, i), "projdual", d, ms(G), vs(h), vs(q), vs(lams[i]), vs(np.asarray(out)[i]))
        rown = max(1.0, float(np.max(np.linalg.norm(G, axis=1))))
        R.count("what:nearest"); R.count("nearest-equations:%s" % ekind)
        jobs.append((dict(cbase, what="nearest", B=Q), (k, "nearest"), st, out, dict(G=G, h=h, Q=Q, ext=ext, rown=rown, eq=eq)))
    # slices of clouds with MANY points (30-125 rows in 3-5 dimensions; own stream): random clouds on a coarse dyadic grid (a good part
    # of the rows are interior or coplanar, i.e. not hull vertices, interleaved at random with the vertices) and subsets of the
    # lattices {0,1,2}^d / {0,1,2,3}^d. The hull has dozens to hundreds of edges that cross the plane. Judged: every returned point is
    # an exact segment/plane intersection (model, all pairs); every intersection of a HULL EDGE (vertex pairs of the facets of the
    # harness's own qhull run - these carry all corners of the slice) and a random sample of 30 further all-pairs intersections lie in
    # the hull of the returned points.
    nm = 10 if R.tier == "quick" else 60
    for j in range(nm):
        k = n + 200 + j
        if not R.want(k):
            continue
        rl = R.rng(8, k)
        d = int(rl.choice([3, 4, 4, 5, 5, 5]))
        mkind = str(rl.choice(["random-coarse", "random-coarse", "lattice-0..2", "lattice-0..3"]))
        hull = None
        for _ in range(6):
            if mkind == "random-coarse":
                P = rl.integers(0, 33, size=(int(rl.integers(30, 101)), d)).astype(np.float64) / 8.0
            else:
                L = 3 if mkind == "lattice-0..2" else 4
                pts = np.array(list(product(np.arange(L, dtype=np.float64), repeat=d)))
                P = pts[rl.permutation(len(pts))[: int(rl.integers(min(27, len(pts)), min(len(pts), 125) + 1))]]
            try:
                hull = ConvexHull(P)
                break
            except Exception:  # noqa: BLE001
                mkind = "random-coarse"
        if hull is None:
            continue
        sums = P.sum(1)
        lkind = str(rl.choice(["interior", "interior", "through-a-point"]))
        cval = float(sums.min() + float(dyadic(rl, 0.125, 0.875, 3)) * (sums.max() - sums.min()))
        cand = sums[(sums > sums.min()) & (sums < sums.max())]
        if lkind == "through-a-point" and len(cand):
            cval = float(cand[int(rl.integers(len(cand)))])
        else:
            lkind = "interior"
        # intersections of the hull's edges (all vertex pairs of every facet; for a non-simplicial facet also diagonals of it) with the plane
        pairs = set()
        for e in hull.simplices:
            for a in e:
                for b in e:
                    if sums[a] < cval <= sums[b]:
                        pairs.add((int(a), int(b)))
        pairs = sorted(pairs)
        E = np.array([P[a] + (cval - sums[a]) / (sums[b] - sums[a]) * (P[b] - P[a]) for a, b in pairs]).reshape(len(pairs), d)
        nvert = len(hull.vertices)
        c = dict(k=k, what="slice", dim=d, cloud_kind="many-points", cloud=mkind, P=P, c=cval, few_points=False, flat=None, level=lkind,
                 n_points=len(P), n_hull_vertices=nvert, n_crossing_hull_edges=len(pairs))
        R.count("what:slice"); R.count("cloud:many-points"); R.count("many-points:%s" % mkind); R.count("many-points:dim:%d" % d)
        R.count("many-points:rows-that-are-not-hull-vertices:%s" % ("none" if nvert == len(P) else ("<half" if 2 * nvert > len(P) else ">=half")))
        R.count("many-points:crossing-hull-edges:%s" % ("<50" if len(pairs) < 50 else ("50-149" if len(pairs) < 150 else ">=150")))
        R.count("slice-level:%s" % lkind); R.count("slice:hull-edges")
        R.driver.ask("s%d" % k, "section", ms(P), rs(cval))
        st, out = call(dreye.proj_P_to_simplex, given(rl, P, R, "P"), cval)
        jobs.append((c, (k,), st, out, dict(P=P, cval=cval, edge_points=E, sample_seed=int(rl.integers(2 ** 31)))))
    R.driver.run()
    for c, nontriv, st, out, X in jobs:
        k = c["k"]; what = c["what"]; d = c["dim"]
        R.case(c, nontriv, sample=(nontriv is not None))
        sig = "C17:%s:%s" % (what, c["cloud_kind"])
        if st != "ok":
            R.failB(dict(c, impl_error=out), "%s raised %s: %s" % (what, st, out), sig + ":raises:" + st); continue
        if what == "nearest":
            out = np.asarray(out); Q = X["Q"]; ext = X["ext"]
            inside = np.all(Q @ X["G"].T - X["h"] <= 1e-12, axis=1)
            for i, q in enumerate(Q):
                t = R.driver.get("n%d_%d" % (k, i))
                dv = t.rat(); half = t.rat(); viol = t.rat(); lamok = t.bool()
                gap = float(half - dv)
                ok = lamok and gap <= 1e-9 * ext * ext + 1e-12
                R.cert(ok)
                if float(viol) > 1e-9 * ext * X["rown"]:
                    R.failB(dict(c, query=q, impl=out[i]), "projected point violates a facet inequality by %.3g" % float(viol), sig + ":outside-hull")
                elif inside[i] and np.max(np.abs(out[i] - q)) > 1e-9 * ext:
                    R.failB(dict(c, query=q, impl=out[i]), "a point inside the hull was moved by the projection", sig + ":inside-moved")
                elif not ok:
                    # no certificate: is it really not the nearest point? compare with the auxiliary solve (search for a failing input)
                    try:
                        eq_ = X["eq"] if "eq" in X else c["equations"]
                        ref = solve_qp(np.eye(d), q.astype(float), -eq_[:, :-1].T.copy(), eq_[:, -1].copy(), 0, True)[0]
                        dref = float(np.sum((ref - q) ** 2)); dimp = float(np.sum((out[i] - q) ** 2))
                    except Exception:  # noqa: BLE001
                        dref = None
                    if dref is not None and dimp > dref + 1e-9 * ext * ext:
                        R.failB(dict(c, query=q, impl=out[i], nearer_point=ref), "returned point is at squared distance %.9g, the hull point %s is at %.9g" % (dimp, ref.tolist(), dref), sig + ":not-nearest")
                    else:
                        R.failA(dict(c, query=q), "nearest-point certificate not established (gap %.3g)" % gap)
        elif what == "alpha":
            al, BP = np.asarray(out[0]), np.asarray(out[1]); Bv = X["Bv"]; eq0 = X["eq0"]
            if "rows" in X:
                # large instance: the property predicate on EVERY vector (the origin is strictly inside a bounded hull, so a
                # positive multiple on the boundary exists for every non-zero vector); the exact model on the sampled rows below
                sc = float(np.max(np.abs(eq0[:, -1]))) + 1.0
                if al.shape != (len(Bv),) or BP.shape != Bv.shape:
                    R.failB(dict(c, impl_shape=[al.shape, BP.shape]), "result shapes %s / %s for %d vectors" % (al.shape, BP.shape, len(Bv)), sig + ":shape"); continue
                okv = np.isfinite(al) & (al > 0)
                alz = np.where(okv, al, 0.0)
                mx = np.max((alz[:, None] * Bv) @ eq0[:, :-1].T + eq0[:, -1], axis=1)
                okb = np.abs(mx) <= 1e-9 * sc
                okp = np.all(np.isclose(BP, alz[:, None] * Bv, rtol=1e-12, atol=1e-12), axis=1)
                badrows = np.flatnonzero(~okv)
                if len(badrows):
                    i = int(badrows[0])
                    R.failB(dict(c, b=Bv[i], impl=al[i], row=i, n_rows_failing=len(badrows)), "no positive multiple returned (alpha = %r) for a vector from the interior of a bounded hull with %d facets (%d of %d vectors)" % (al[i], len(eq0), len(badrows), len(Bv)), sig + ":no-positive-multiple")
                    continue
                badrows = np.flatnonzero(~(okb & okp))
                if len(badrows):
                    i = int(badrows[0])
                    R.failB(dict(c, b=Bv[i], impl=float(al[i]), row=i, max_facet_value=float(mx[i])), "alpha*b is not on the hull boundary (max facet value %.3g; %d of %d vectors)" % (float(mx[i]), len(badrows), len(Bv)), sig + ":not-on-boundary")
                    continue
            for i, b in enumerate(Bv):
                if "rows" in X and i not in X["rows"]:
                    continue
                t = R.driver.get("a%d_%d" % (k, i)); tok = t.tok()
                if tok == "none":
                    if np.isfinite(al[i]):
                        R.failB(dict(c, b=b, impl=al[i]), "model finds no positive ratio but dreye returned %r" % al[i], sig + ":alpha-mismatch")
                    continue
                am = parse_rat(tok); inside_m = t.bool()
                if not close(al[i], am, abs(am), 1e-11):
                    R.failB(dict(c, b=b, impl=float(al[i]), model=rs(am)), "alpha = %r but the smallest positive facet ratio is %s" % (float(al[i]), float(am)), sig + ":alpha-mismatch")
                    continue
                hit = eq0[:, :-1] @ (al[i] * b) + eq0[:, -1]
                sc = float(np.max(np.abs(eq0[:, -1]))) + 1.0
                if np.max(hit) > 1e-9 * sc or abs(np.max(hit)) > 1e-9 * sc or not np.allclose(BP[i], al[i] * b, rtol=1e-12, atol=1e-12):
                    R.failB(dict(c, b=b, impl=float(al[i]), facet_values=hit), "alpha*b is not on the hull boundary (max facet value %.3g)" % float(np.max(hit)), sig + ":not-on-boundary")
        else:
            P = X["P"]; cval = X["cval"]
            M = R.driver.get("s%d" % k).mat()
            out = np.asarray(out)
            if out.ndim != 2 or out.shape[1] != d:
                R.failB(dict(c, impl=out), "slice has shape %s" % (out.shape,), sig + ":shape"); continue
            sc = float(np.max(np.abs(P))) + 1.0
            if np.max(np.abs(out.sum(1) - cval)) > 1e-9 * sc:
                R.failB(dict(c, impl=out), "returned points do not sum to c", sig + ":off-plane"); continue
            Mf = np.array([[float(v) for v in r] for r in M]).reshape(len(M), d)
            if P.shape[0] <= P.shape[1]:
                if out.shape != Mf.shape or np.max(np.abs(out - Mf)) > 1e-10 * sc:
                    R.failB(dict(c, impl=out, model=Mf), "all-pairs slice differs from the exact intersections", sig + ":all-pairs-mismatch")
                continue
            # hull-edge branch: (i) every returned point is one of the exact segment/plane intersections
            for r in out:
                if np.min(np.max(np.abs(Mf - r), axis=1)) > 1e-9 * sc:
                    R.failB(dict(c, impl=out, point=r), "a returned point is not the intersection of a segment between two cloud points with the plane", sig + ":not-an-intersection")
                    break
            else:
                if "edge_points" in X:
                    # many-point cloud: (ii) the intersections of the hull's edges (they include every corner of the slice) and a random
                    # sample of the other all-pairs intersections lie in the hull of the returned points
                    smp = Mf[np.random.default_rng(X["sample_seed"]).permutation(len(Mf))[:30]]
                    for s_ in np.vstack([X["edge_points"], smp]):
                        if np.min(np.max(np.abs(out - s_), axis=1)) <= 1e-9 * sc:
                            continue                       # it is one of the returned points
                        if not in_conv_lp(out, s_, 1e-6 * sc):
                            R.failB(dict(c, impl=out, missing=s_), "the point %s of conv(P) on the plane (on a segment between two cloud points) is outside the hull of the returned points: the slice is not exact" % s_.tolist(), sig + ":slice-incomplete")
                            break
                    continue
                # (ii) every exact all-pairs intersection lies in the hull of the returned points (so the slice is complete)
                for s_ in Mf:
                    if not in_conv_lp(out, s_, 1e-6 * sc):   # HiGHS itself is only feasible to 1e-7
                        R.failB(dict(c, impl=out, missing=s_), "the point %s of conv(P) on the plane is outside the hull of the returned points: the slice is not exact" % s_.tolist(), sig + ":slice-incomplete")
                        break
