"""C17 — hull projections return the nearest point, the boundary hit and the exact slice."""
import numpy as np
from fractions import Fraction
from itertools import product
from common import F, rs, vs, ms, dyadic, close, call, parse_rat


def cloud(rng, d, kind):
    if kind == "random":
        return dyadic(rng, 0, 4, 3, size=(int(rng.integers(d + 2, d + 12)), d))
    if kind == "lattice":   # many coplanar / collinear points
        pts = np.array(list(product([0.0, 1.0, 2.0], repeat=d)))
        sel = rng.permutation(len(pts))[: min(len(pts), int(rng.integers(d + 3, 3 ** d + 1)))]
        P = pts[sel]
        return P if np.linalg.matrix_rank(P - P[0]) == d else pts
    if kind == "simplex":   # sharp corners
        return np.vstack([np.zeros(d), np.eye(d) * dyadic(rng, 1, 4, 2, size=d)]) + dyadic(rng, 0, 1, 2, size=d)
    raise ValueError(kind)


def in_conv_lp(points, target, tol):
    """tolerance-based membership (predicate evaluation on float outputs): exists u>=0, sum u=1, |sum u r - target|_inf <= tol"""
    from scipy.optimize import linprog
    R_ = np.asarray(points, dtype=float); t = np.asarray(target, dtype=float)
    k, d = R_.shape
    A_ub = np.vstack([R_.T, -R_.T]); b_ub = np.concatenate([t + tol, -t + tol])
    res = linprog(np.zeros(k), A_ub=A_ub, b_ub=b_ub, A_eq=np.ones((1, k)), b_eq=[1.0], bounds=[(0, None)] * k, method="highs")
    return res.status == 0


def run(R):
    import dreye
    from scipy.spatial import ConvexHull
    from quadprog import solve_qp
    n = 60 if R.tier == "quick" else 800
    R.rule = ("point clouds in 2-5 dimensions (random dyadic, lattice with many coplanar points, simplices with sharp corners, "
              "fewer points than dimensions for the slice); query points inside, outside and beyond corners; plane levels across "
              "the admissible range. Nearest point: a Lagrange-dual certificate (multipliers from an auxiliary quadprog call, "
              "evaluated exactly by the Lean projDual; theorem nearest_of_cert => nearest against every hull point). Boundary "
              "hit: exact model alphaFor. Slice: exact model on the all-pairs branch; on the hull-edge branch every returned "
              "point must be an exact segment/plane intersection and every all-pairs intersection must lie in their hull. "
              "Non-trivial: dimension >= 3 or a lattice/simplex cloud.")
    jobs = []
    for k in range(n):
        if not R.want(k):
            continue
        rng = R.rng(1, k)
        what = str(rng.choice(["nearest", "alpha", "slice"]))
        d = int(rng.integers(2, 6))
        ckind = str(rng.choice(["random", "lattice", "simplex"]))
        c = dict(k=k, what=what, dim=d, cloud_kind=ckind)
        R.count("what:" + what); R.count("cloud:" + ckind); R.count("dim:%d" % d)
        nontriv = (k,) if (d >= 3 or ckind != "random") else None
        if what in ("nearest", "alpha"):
            P = cloud(rng, d, ckind)
            try:
                hull = ConvexHull(P)
            except Exception:  # noqa: BLE001
                P = cloud(rng, d, "random"); hull = ConvexHull(P)
            eq = hull.equations.copy()
            centre = P[hull.vertices].mean(0)
            c.update(P=P)
            if what == "nearest":
                ext = float(np.max(P.max(0) - P.min(0)))
                Q = np.vstack([centre + (P[rng.integers(len(P), size=3)] - centre) * dyadic(rng, 0.125, 0.875, 3, size=(3, 1)),      # inside
                               centre + (P[rng.integers(len(P), size=4)] - centre) * dyadic(rng, 1.5, 4, 2, size=(4, 1)),          # outside, beyond vertices
                               centre + dyadic(rng, -2, 2, 2, size=(3, d)) * ext])
                c.update(B=Q, equations=eq)
                st, out = call(dreye.proj_B_to_hull, Q.copy(), eq.copy())
                G = -(-eq[:, :-1]); h = -eq[:, -1]          # n.z + o <= 0   <=>   G z <= h  with G = n, h = -o
                lams = []
                for q in Q:
                    try:
                        sol = solve_qp(np.eye(d), q.astype(float), -eq[:, :-1].T.copy(), eq[:, -1].copy(), 0, True)
                        lams.append(np.maximum(np.asarray(sol[4], dtype=float), 0.0))
                    except Exception:  # noqa: BLE001
                        lams.append(np.zeros(len(eq)))
                if st == "ok":
                    for i, q in enumerate(Q):
                        R.driver.ask("n%d_%d" % (k, i), "projdual", d, ms(G), vs(h), vs(q), vs(lams[i]), vs(np.asarray(out)[i]))
                jobs.append((c, nontriv, st, out, dict(G=G, h=h, Q=Q, ext=ext)))
            else:
                eq0 = eq.copy(); eq0[:, -1] = eq[:, -1] + eq[:, :-1] @ centre     # translate so that the origin (centre) is strictly inside
                Bv = np.vstack([dyadic(rng, -2, 2, 3, size=(5, d)), (P[:3] - centre)])
                Bv = Bv[np.abs(Bv).sum(1) > 0]
                c.update(B=Bv, equations=eq0)
                st, out = call(lambda: (dreye.alpha_for_B_with_P(Bv.copy(), eq0.copy()), dreye.B_with_P(Bv.copy(), eq0.copy())))
                for i, b in enumerate(Bv):
                    R.driver.ask("a%d_%d" % (k, i), "alpha", ms(eq0), vs(b))
                jobs.append((c, nontriv, st, out, dict(Bv=Bv, eq0=eq0)))
        else:
            few = bool(rng.integers(3) == 0)
            if few:
                P = dyadic(rng, 0, 4, 3, size=(int(rng.integers(2, d + 1)), d))
            else:
                P = np.abs(cloud(rng, d, ckind))
            sums = P.sum(1)
            if sums.max() - sums.min() < 0.5:
                P[0] = 0.0; sums = P.sum(1)
            lev = float(dyadic(rng, 0.125, 0.875, 3))
            cval = float(sums.min() + lev * (sums.max() - sums.min()))
            if cval <= 0:
                cval = float(sums.max()) / 2
            c.update(P=P, c=cval, few_points=few)
            R.count("slice:%s" % ("all-pairs" if P.shape[0] <= P.shape[1] else "hull-edges"))
            st, out = call(dreye.proj_P_to_simplex, P.copy(), cval)
            R.driver.ask("s%d" % k, "section", ms(P), rs(cval))
            jobs.append((c, nontriv, st, out, dict(P=P, cval=cval)))
    R.driver.run()
    for c, nontriv, st, out, X in jobs:
        k = c["k"]; what = c["what"]; d = c["dim"]
        R.case(c, nontriv, sample=(nontriv is not None))
        sig = "C17:%s:%s" % (what, c["cloud_kind"])
        if st != "ok":
            R.failB(dict(c, impl_error=out), "%s raised %s: %s" % (what, st, out), sig + ":raises:" + st); continue
        if what == "nearest":
            out = np.asarray(out); Q = X["Q"]; ext = X["ext"]
            inside = np.all(Q @ X["G"].T - X["h"] <= 1e-12, axis=1)
            for i, q in enumerate(Q):
                t = R.driver.get("n%d_%d" % (k, i))
                dv = t.rat(); half = t.rat(); viol = t.rat(); lamok = t.bool()
                gap = float(half - dv)
                ok = lamok and gap <= 1e-9 * ext * ext + 1e-12
                R.cert(ok)
                if float(viol) > 1e-9 * ext:
                    R.failB(dict(c, query=q, impl=out[i]), "projected point violates a facet inequality by %.3g" % float(viol), sig + ":outside-hull")
                elif inside[i] and np.max(np.abs(out[i] - q)) > 1e-9 * ext:
                    R.failB(dict(c, query=q, impl=out[i]), "a point inside the hull was moved by the projection", sig + ":inside-moved")
                elif not ok:
                    # no certificate: is it really not the nearest point? compare with the auxiliary solve (search for a failing input)
                    try:
                        ref = solve_qp(np.eye(d), q.astype(float), -c["equations"][:, :-1].T.copy(), c["equations"][:, -1].copy(), 0, True)[0]
                        dref = float(np.sum((ref - q) ** 2)); dimp = float(np.sum((out[i] - q) ** 2))
                    except Exception:  # noqa: BLE001
                        dref = None
                    if dref is not None and dimp > dref + 1e-9 * ext * ext:
                        R.failB(dict(c, query=q, impl=out[i], nearer_point=ref), "returned point is at squared distance %.9g, the hull point %s is at %.9g" % (dimp, ref.tolist(), dref), sig + ":not-nearest")
                    else:
                        R.failA(dict(c, query=q), "nearest-point certificate not established (gap %.3g)" % gap)
        elif what == "alpha":
            al, BP = np.asarray(out[0]), np.asarray(out[1]); Bv = X["Bv"]; eq0 = X["eq0"]
            for i, b in enumerate(Bv):
                t = R.driver.get("a%d_%d" % (k, i)); tok = t.tok()
                if tok == "none":
                    if np.isfinite(al[i]):
                        R.failB(dict(c, b=b, impl=al[i]), "model finds no positive ratio but dreye returned %r" % al[i], sig + ":alpha-mismatch")
                    continue
                am = parse_rat(tok); inside_m = t.bool()
                if not close(al[i], am, abs(am), 1e-11):
                    R.failB(dict(c, b=b, impl=float(al[i]), model=rs(am)), "alpha = %r but the smallest positive facet ratio is %s" % (float(al[i]), float(am)), sig + ":alpha-mismatch")
                    continue
                hit = eq0[:, :-1] @ (al[i] * b) + eq0[:, -1]
                sc = float(np.max(np.abs(eq0[:, -1]))) + 1.0
                if np.max(hit) > 1e-9 * sc or abs(np.max(hit)) > 1e-9 * sc or not np.allclose(BP[i], al[i] * b, rtol=1e-12, atol=1e-12):
                    R.failB(dict(c, b=b, impl=float(al[i]), facet_values=hit), "alpha*b is not on the hull boundary (max facet value %.3g)" % float(np.max(hit)), sig + ":not-on-boundary")
        else:
            P = X["P"]; cval = X["cval"]
            M = R.driver.get("s%d" % k).mat()
            out = np.asarray(out)
            if out.ndim != 2 or out.shape[1] != d:
                R.failB(dict(c, impl=out), "slice has shape %s" % (out.shape,), sig + ":shape"); continue
            sc = float(np.max(np.abs(P))) + 1.0
            if np.max(np.abs(out.sum(1) - cval)) > 1e-9 * sc:
                R.failB(dict(c, impl=out), "returned points do not sum to c", sig + ":off-plane"); continue
            Mf = np.array([[float(v) for v in r] for r in M]).reshape(len(M), d)
            if P.shape[0] <= P.shape[1]:
                if out.shape != Mf.shape or np.max(np.abs(out - Mf)) > 1e-10 * sc:
                    R.failB(dict(c, impl=out, model=Mf), "all-pairs slice differs from the exact intersections", sig + ":all-pairs-mismatch")
                continue
            # hull-edge branch: (i) every returned point is one of the exact segment/plane intersections
            for r in out:
                if np.min(np.max(np.abs(Mf - r), axis=1)) > 1e-9 * sc:
                    R.failB(dict(c, impl=out, point=r), "a returned point is not the intersection of a segment between two cloud points with the plane", sig + ":not-an-intersection")
                    break
            else:
                # (ii) every exact all-pairs intersection lies in the hull of the returned points (so the slice is complete)
                for s_ in Mf:
                    if not in_conv_lp(out, s_, 1e-6 * sc):   # HiGHS itself is only feasible to 1e-7
                        R.failB(dict(c, impl=out, missing=s_), "the point %s of conv(P) on the plane is outside the hull of the returned points: the slice is not exact" % s_.tolist(), sig + ":slice-incomplete")
                        break
