"""
Shared machinery of the dreye verification checks.

  * imports dreye from /repo's *current working tree* (hooks on: DREYE_VERIF=1)
  * builds / audits the Lean obligations of one property (lake build, forbidden-token grep,
    `#print axioms`-style audit of every theorem of Dreye.Props.<id>)
  * talks to the Lean model driver through the line protocol (exact rationals)
  * verdict logic of DESIGN.md §3.3, known-findings lookup, replay files, evidence files
"""
import os
import sys
import json
import time
import math
import hashlib
import subprocess
import traceback
from fractions import Fraction

VERIF = os.path.dirname(os.path.dirname(os.path.abspath(__file__)))
LEAN = os.path.join(VERIF, "lean")
REPO = os.environ.get("DREYE_REPO", "/repo")

os.environ["DREYE_VERIF"] = "1"
os.environ.setdefault("MPLBACKEND", "Agg")
if REPO not in sys.path:
    sys.path.insert(0, REPO)

import warnings  # noqa: E402

warnings.filterwarnings("ignore")
import numpy as np  # noqa: E402

EXTRA_MODULES = {
    "C03": ["Dreye.Props.ExtrasA", "Dreye.Props.C03Chroma"],
    "C12": ["Dreye.Props.C03Chroma"],
    "C13": ["Dreye.Props.C13Blocks"],
    "C04": ["Dreye.Props.Cert", "Dreye.Props.ExtrasA"],
    "C05": ["Dreye.Props.ExtrasA"],
    "C06": ["Dreye.Props.Linalg", "Dreye.Props.C06Pivot", "Dreye.Props.C06Bridge", "Dreye.Props.C06Exact", "Dreye.Props.ExtrasB"],
    "C08": ["Dreye.Props.Cert"], "C09": ["Dreye.Props.Cert"], "C10": ["Dreye.Props.Cert"],
    "C16": ["Dreye.Props.C16Bary", "Dreye.Props.Linalg", "Dreye.Props.C16Round"],
    "C19": ["Dreye.Props.ExtrasB", "Dreye.Props.C19Regrid"],
    "C02": ["Dreye.Props.C19Regrid"],
}
# namespaces (besides Dreye.<prop>) whose theorems count as obligations of a property
EXTRA_PREFIX = {"C02": ["Dreye.C19.linspace_", "Dreye.C19.regrid_", "Dreye.C19.sortAsc_"], "C16": ["Dreye.LinalgProps."], "C06": ["Dreye.LinalgProps."], "C04": ["Dreye.Cert."], "C08": ["Dreye.Cert."],
                "C09": ["Dreye.Cert."], "C10": ["Dreye.Cert."]}
ALLOWED_AXIOMS = {"propext", "Classical.choice", "Quot.sound"}
FORBIDDEN = ["sorry", "admit", "native_decide", "bv_decide", "implemented_by", "unsafe ",
             "maxHeartbeats 0", "ofReduceBool"]

TRUSTED_BASE = [
    "Lean 4.33 kernel + elaborator (leanchecker re-check in the thorough tier)",
    "axioms allowed: propext, Classical.choice, Quot.sound (audited per theorem on every run); no sorry/admit/native_decide/bv_decide/axiom",
    "Lean interpreter evaluating the Mathlib-free model at Rat (exact arithmetic) in lean/Driver.lean",
    "correspondence harness (python): case generation, float->exact rational conversion, tolerance comparison",
    "hand-written model <-> code tie is the per-run correspondence on the cases listed in coverage, not a proof",
]


# ----------------------------------------------------------------------------------------------
# exact rationals
# ----------------------------------------------------------------------------------------------

def F(x):
    """exact Fraction of a python/numpy number (floats are converted exactly)"""
    if isinstance(x, Fraction):
        return x
    if isinstance(x, (int, np.integer)):
        return Fraction(int(x))
    x = float(x)
    if not math.isfinite(x):
        raise ValueError("non-finite value cannot cross the protocol: %r" % x)
    return Fraction(*x.as_integer_ratio())


def rs(x):
    """protocol text of one rational"""
    f = F(x)
    return str(f.numerator) if f.denominator == 1 else "%d/%d" % (f.numerator, f.denominator)


def vs(v):
    v = list(np.asarray(v, dtype=object).ravel()) if not isinstance(v, (list, tuple)) else list(v)
    return " ".join([str(len(v))] + [rs(x) for x in v])


def ms(m):
    rows = [list(r) for r in m]
    ncol = len(rows[0]) if rows else 0
    out = [str(len(rows)), str(ncol)]
    for r in rows:
        assert len(r) == ncol
        out.extend(rs(x) for x in r)
    return " ".join(out)


def parse_rat(t):
    if "/" in t:
        a, b = t.split("/")
        return Fraction(int(a), int(b))
    return Fraction(int(t))


class Toks:
    """cursor over the answer tokens of one driver line"""

    def __init__(self, toks):
        self.t = toks
        self.i = 0

    def tok(self):
        v = self.t[self.i]
        self.i += 1
        return v

    def nat(self):
        return int(self.tok())

    def rat(self):
        return parse_rat(self.tok())

    def bool(self):
        return self.tok() == "1"

    def vec(self):
        n = self.nat()
        return [self.rat() for _ in range(n)]

    def mat(self):
        m = self.nat()
        n = self.nat()
        return [[self.rat() for _ in range(n)] for _ in range(m)]

    def natvec(self):
        n = self.nat()
        return [self.nat() for _ in range(n)]

    def rest(self):
        r = self.t[self.i:]
        self.i = len(self.t)
        return r


def dyadic(rng, lo, hi, bits=6, size=None):
    """random dyadic rationals k/2^bits in [lo, hi] as float64 (exactly representable)"""
    k = rng.integers(int(math.ceil(lo * 2 ** bits)), int(math.floor(hi * 2 ** bits)) + 1, size=size)
    return np.asarray(k, dtype=np.float64) / 2.0 ** bits


def close(impl, model, scale=0, rtol=1e-9, atol=0.0):
    """|impl - model| <= atol + rtol*scale, evaluated exactly"""
    try:
        d = abs(F(impl) - F(model))
    except (ValueError, OverflowError):
        return False
    return d <= F(atol) + F(rtol) * F(scale)


def err_kind(e):
    """canonical error enum"""
    if isinstance(e, AssertionError):
        return "assertion"
    if isinstance(e, np.linalg.LinAlgError):
        return "linalg"
    if isinstance(e, (ValueError,)):
        return "value_error"
    if isinstance(e, AttributeError):
        return "attribute"
    if isinstance(e, (UnboundLocalError, NameError)):
        return "name_error"
    if isinstance(e, TypeError):
        return "type_error"
    if isinstance(e, RuntimeError):
        return "runtime"
    if isinstance(e, (IndexError, KeyError)):
        return "index"
    return "other:" + type(e).__name__


def as_given(rng, x, R=None, tag="", kinds=("same", "int", "fortran", "strided", "list")):
    """the same VALUES in another legitimate representation a caller may hand in (the model sees values only):
    integer dtype (only if all values are whole), Fortran order, a strided non-contiguous view, a python list, float32
    (only if exactly representable). Deterministic in rng; the choice is counted in the evidence distribution."""
    x = np.asarray(x)
    opts = ["same", "same"]
    whole = x.dtype.kind == "f" and x.size > 0 and np.all(np.isfinite(x)) and np.all(x == np.round(x)) and np.all(np.abs(x) < 2 ** 40)
    if "int" in kinds and whole:
        opts += ["int", "int"]
    if "fortran" in kinds and x.ndim >= 2:
        opts.append("fortran")
    if "strided" in kinds and x.ndim >= 1 and x.size > 0:
        opts.append("strided")
    if "list" in kinds and x.ndim >= 1:
        opts.append("list")
    if "f32" in kinds and x.dtype.kind == "f" and np.all(np.isfinite(x)) and np.all(x.astype(np.float32).astype(np.float64) == x):
        opts.append("f32")
    ch = str(rng.choice(opts))
    if R is not None:
        R.count("given%s:%s" % (":" + tag if tag else "", ch))
    if ch == "int":
        return x.astype(np.int64)
    if ch == "fortran":
        return np.asfortranarray(x)
    if ch == "strided":
        big = np.zeros(tuple(2 * n for n in x.shape), dtype=x.dtype)
        sl = tuple(slice(None, None, 2) for _ in x.shape)
        big[sl] = x
        return big[sl]
    if ch == "list":
        return x.tolist()
    if ch == "f32":
        return x.astype(np.float32)
    return x


MUTATIONS = []   # (function name, argument) pairs: the implementation changed a caller's array in place (the model's functions are pure)


_STATE_ATTRS = ("A", "lb", "ub", "baseline", "K", "Epsilon", "filters", "sources", "domain", "filters_uncertainty", "w", "sources_domain")


def _snap(a, k):
    out = []
    for name, v in list(enumerate(a)) + list(k.items()):
        if isinstance(v, np.ndarray) and v.dtype != object:
            out.append((name, v, v.copy()))
    return out


def call(f, *a, **k):
    """run the implementation; returns ('ok', value) or (error-kind, message).
    Frame condition of the correspondence: the arrays handed in are the same afterwards (the model is a pure function of its
    arguments); a changed argument is recorded in MUTATIONS and reported by Run.finish as a correspondence failure. The arrays
    are NOT restored: the rest of the case goes on with what the caller now holds, as a user's program would."""
    snap = _snap(a, k)
    # registered state of an estimator is part of the inputs of a bound query method: a non-registering call must leave it unchanged
    obj = getattr(f, "__self__", None)
    fname = getattr(f, "__name__", "")
    if obj is not None and hasattr(obj, "__dict__") and not fname.startswith("register"):
        for name in _STATE_ATTRS:
            v = obj.__dict__.get(name)
            if isinstance(v, np.ndarray) and v.dtype != object:
                snap.append(("self." + name, v, v.copy()))
    try:
        return "ok", f(*a, **k)
    except Exception as e:  # noqa: BLE001
        return err_kind(e), "%s: %s" % (type(e).__name__, str(e)[:200])
    finally:
        for name, v, c in snap:
            if v.shape != c.shape or not np.array_equal(v, c, equal_nan=(v.dtype.kind in "fc")):
                MUTATIONS.append((getattr(f, "__name__", str(f)), str(name)))


# ----------------------------------------------------------------------------------------------
# Lean side
# ----------------------------------------------------------------------------------------------

def sh(cmd, cwd=None, timeout=3600, inp=None):
    p = subprocess.run(cmd, cwd=cwd, input=inp, capture_output=True, text=True, timeout=timeout)
    return p.returncode, p.stdout, p.stderr


def lean_sources():
    out = []
    for root, _, files in os.walk(os.path.join(LEAN, "Dreye")):
        for fn in files:
            if fn.endswith(".lean"):
                out.append(os.path.join(root, fn))
    out.append(os.path.join(LEAN, "Driver.lean"))
    return sorted(out)


def strip_comments(src):
    """remove -- line comments and /- -/ block comments (nesting-aware) and string literals"""
    out = []
    i, n, depth = 0, len(src), 0
    while i < n:
        if src.startswith("/-", i):
            depth += 1
            i += 2
        elif depth and src.startswith("-/", i):
            depth -= 1
            i += 2
        elif depth:
            i += 1
        elif src.startswith("--", i):
            while i < n and src[i] != "\n":
                i += 1
        elif src[i] == '"':
            i += 1
            while i < n and src[i] != '"':
                i += 2 if src[i] == "\\" else 1
            i += 1
        else:
            out.append(src[i])
            i += 1
    return "".join(out)


def grep_forbidden():
    hits = []
    for p in lean_sources():
        if p.endswith(os.path.join("Audit", "Cmd.lean")):
            continue
        code = strip_comments(open(p).read())
        for ln, line in enumerate(code.split("\n"), 1):
            for tok in FORBIDDEN:
                if tok in line:
                    hits.append("%s:%d: %s" % (os.path.relpath(p, VERIF), ln, tok))
            s = line.strip()
            if s.startswith("axiom ") or " axiom " in (" " + s):
                hits.append("%s:%d: axiom" % (os.path.relpath(p, VERIF), ln))
    return hits


def lean_obligations(prop, tier):
    """build + audit the theorems of Dreye.Props.<prop> (serialised across concurrent checks: the thorough tier
    rebuilds a property's module in place, which must not race with another check's build or audit)."""
    import fcntl
    os.makedirs(os.path.join(LEAN, ".lake"), exist_ok=True)
    with open(os.path.join(LEAN, ".lake", "verif.lock"), "w") as lk:
        fcntl.flock(lk, fcntl.LOCK_EX)
        try:
            return _lean_obligations(prop, tier)
        finally:
            fcntl.flock(lk, fcntl.LOCK_UN)


def _lean_obligations(prop, tier):
    """returns dict(ok, theorems=[(name, axioms)], problems=[...], checker_cmd, wall_s)"""
    t0 = time.time()
    mod = "Dreye.Props.%s" % prop
    # extra modules holding further theorems of the same property (namespace Dreye.<prop>)
    extra = [m for m in EXTRA_MODULES.get(prop, []) if os.path.exists(os.path.join(LEAN, *m.split(".")) + ".lean")]
    problems = []
    if tier == "thorough":
        # rebuild the property module from scratch
        for ext in ("olean", "ilean", "trace", "olean.hash", "ilean.hash", "c", "hash",
                    "olean.private", "olean.server"):
            p = os.path.join(LEAN, ".lake", "build", "lib", "lean", "Dreye", "Props", "%s.%s" % (prop, ext))
            if os.path.exists(p):
                os.remove(p)
    build_cmd = ["lake", "build", mod, "Dreye.Driver.All", "Dreye.Audit.Cmd"] + extra
    rc, out, err = sh(build_cmd, cwd=LEAN, timeout=3000)
    if rc != 0:
        msg = [l for l in (out + err).split("\n") if "error" in l][:8]
        problems.append("lake build failed: " + " | ".join(msg))
    hits = grep_forbidden()
    if hits:
        problems.append("forbidden tokens: " + "; ".join(hits[:8]))
    theorems = []
    if rc == 0:
        stub = os.path.join(LEAN, ".lake", "audit_%s_%d.lean" % (prop, os.getpid()))
        with open(stub, "w") as f:
            f.write("import Dreye.Audit.Cmd\n" + "".join("import %s\n" % m for m in [mod] + extra)
                    + "".join("#audit %s\n" % m for m in [mod] + extra))
        rc2, out2, err2 = sh(["lake", "env", "lean", stub], cwd=LEAN, timeout=1200)
        os.remove(stub)
        if rc2 != 0:
            problems.append("audit failed: " + (out2 + err2)[:400])
        for line in out2.split("\n"):
            if "AXIOM " in line:
                problems.append("declared axiom: " + line.strip())
            if "THEOREM " not in line:
                continue
            body = line.split("THEOREM ", 1)[1]
            name, axs = body.split(" : ", 1)
            name = name.strip()
            if not any(name.startswith(pf) for pf in ["Dreye.%s." % prop] + EXTRA_PREFIX.get(prop, [])):
                continue
            last = name.rsplit(".", 1)[-1]
            if last.startswith("eq_") or last == "eq_def" or "match_" in last or "_private" in name:
                continue
            axs = [a.strip() for a in axs.strip().strip("[]").split(",") if a.strip()]
            theorems.append((name, axs))
            bad = [a for a in axs if a not in ALLOWED_AXIOMS]
            if bad:
                problems.append("theorem %s depends on %s" % (name, bad))
        if not theorems:
            problems.append("no theorems found in %s" % mod)
        if tier == "thorough" and not problems:
            rc3, out3, err3 = sh(["lake", "env", "leanchecker", mod] + extra, cwd=LEAN, timeout=3000)
            if rc3 != 0:
                problems.append("leanchecker rejected %s: %s" % (mod, (out3 + err3)[-300:]))
    cmd = "cd lean && lake build %s && lake env lean <stub: #audit %s>" % (mod, mod)
    if tier == "thorough":
        cmd += " && lake env leanchecker %s" % mod
    return dict(ok=not problems, theorems=theorems, problems=problems, checker_cmd=cmd,
                wall_s=time.time() - t0)


class Driver:
    """batch of requests to the Lean model driver"""

    def __init__(self):
        self.lines = []
        self.ans = {}

    def ask(self, rid, op, *parts):
        self.lines.append("%s %s %s" % (rid, op, " ".join(str(p) for p in parts)))

    def run(self, timeout=3000):
        if not self.lines:
            return
        rc, out, err = sh(["lake", "env", "lean", "--run", "Driver.lean"], cwd=LEAN,
                          inp="\n".join(self.lines) + "\n", timeout=timeout)
        if rc != 0:
            raise RuntimeError("driver failed: " + (out + err)[-600:])
        for line in out.split("\n"):
            t = line.split()
            if len(t) >= 1:
                self.ans[t[0]] = t[1:]
        self.lines = []

    def get(self, rid):
        t = self.ans.get(rid)
        if t is None:
            return None
        return Toks(t)

    def is_err(self, rid):
        t = self.ans.get(rid)
        return t is None or (len(t) >= 1 and t[0] == "ERR")


# ----------------------------------------------------------------------------------------------
# verdicts, evidence, known findings
# ----------------------------------------------------------------------------------------------

def load_known():
    p = os.path.join(VERIF, "KNOWN_FINDINGS.jsonl")
    out = []
    if os.path.exists(p):
        for line in open(p):
            line = line.strip()
            if line and not line.startswith("#"):
                out.append(json.loads(line))
    return out


def jsonable(x):
    if isinstance(x, Fraction):
        return rs(x)
    if isinstance(x, np.ndarray):
        return jsonable(x.tolist())
    if isinstance(x, (np.floating,)):
        return float(x)
    if isinstance(x, (np.integer,)):
        return int(x)
    if isinstance(x, (np.bool_,)):
        return bool(x)
    if isinstance(x, dict):
        return {str(k): jsonable(v) for k, v in x.items()}
    if isinstance(x, (list, tuple)):
        return [jsonable(v) for v in x]
    if isinstance(x, float) and not math.isfinite(x):
        return repr(x)
    return x


class Run:
    """one execution of one property check"""

    def __init__(self, prop, tier, seed, only_case=None):
        self.prop = prop
        self.tier = tier
        self.seed = seed
        self.only_case = only_case
        self.t0 = time.time()
        self.evaluations = 0
        self.nontrivial = set()
        self.samples = []
        self.dist = {}
        self.a_fail = []   # correspondence disagreements  (case, what)
        self.b_fail = []   # property predicate failures     (case, what, signature)
        self.cert_total = 0
        self.cert_ok = 0
        self.notes = {}
        self.rule = ""
        self.partial = []
        self.extra_assumptions = []
        self.driver = Driver()

    # -- deterministic per-case randomness --------------------------------------------------
    def rng(self, *key):
        return np.random.default_rng([self.seed & 0x7FFFFFFF] + [int(k) for k in key])

    def want(self, k):
        # a case key may carry a sub-case suffix (s57_5 = system 57, target 5): the system-level filter accepts it
        return self.only_case is None or str(self.only_case) == str(k) or str(self.only_case).startswith(str(k) + "_")

    # -- bookkeeping ---------------------------------------------------------------------------
    def count(self, key, n=1):
        self.dist[key] = self.dist.get(key, 0) + n

    def case(self, case, nontrivial=None, sample=False):
        """register one evaluated case; `nontrivial` is a hashable key when the case is non-trivial"""
        self.evaluations += 1
        if nontrivial is not None:
            self.nontrivial.add(hashlib.sha1(repr(nontrivial).encode()).hexdigest())
        if sample and len(self.samples) < 6:
            self.samples.append(jsonable(case))

    def cert(self, ok):
        self.cert_total += 1
        if ok:
            self.cert_ok += 1

    def failA(self, case, what):
        self.a_fail.append((jsonable(case), what))

    def failB(self, case, what, signature):
        self.b_fail.append((jsonable(case), what, signature))

    # -- finishing -------------------------------------------------------------------------------
    def write_replay(self, name, payload):
        d = os.path.join(VERIF, "replays", self.prop)
        os.makedirs(d, exist_ok=True)
        p = os.path.join(d, name)
        with open(p, "w") as f:
            json.dump(jsonable(payload), f, indent=1)
        return os.path.relpath(p, VERIF)

    def finish(self, lean):
        for fn, arg in sorted(set(MUTATIONS)):
            self.a_fail.append((dict(function=fn, argument=arg), "frame condition: %s() changed its argument %s in place (the model's functions are pure)" % (fn, arg)))
        known = [k for k in load_known() if k.get("property") == self.prop and k.get("status") == "known"]
        def known_for(case, sig):
            # a recorded finding is identified by its signature AND the specific input ("match": case fields that must be equal), so
            # that a different violation of the same property, or the same kind of failure on another input, is still reported
            cj = jsonable(case)
            for k in known:
                if k["signature"] == sig and k.get("match") and all(cj.get(kk) == vv for kk, vv in k["match"].items()):
                    return k
            return None
        lines = []
        violations = 0
        seen_known = set()
        new_b = []
        for case, what, sig in self.b_fail:
            kf = known_for(case, sig)
            if kf is not None:
                if sig not in seen_known:
                    seen_known.add(sig)
                    lines.append("KNOWN-FINDING: property=%s %s [%s]" % (self.prop, kf["what"], sig))
            else:
                new_b.append((case, what, sig))
        for k in known:
            if k["signature"] not in seen_known and self.only_case is None:
                lines.append("KNOWN-FINDING: property=%s %s [%s] (recorded input; not drawn at this seed -- replay: see KNOWN_FINDINGS.jsonl)" % (self.prop, k["what"], k["signature"]))
        if new_b:
            # one VIOLATION line per distinct signature, first failing case as replay
            done = set()
            for case, what, sig in new_b:
                if sig in done:
                    continue
                done.add(sig)
                violations += 1
                h = hashlib.sha1((sig + json.dumps(case, sort_keys=True, default=str)).encode()).hexdigest()[:12]
                rp = self.write_replay("%s.json" % h, dict(
                    property=self.prop, kind="property-predicate-failed-on-implementation", what=what,
                    signature=sig, seed=self.seed, tier=self.tier, case=case,
                    rerun="./check %s --tier %s --seed %d --case %s" % (self.prop, self.tier, self.seed, case.get("k", ""))))
                lines.append("VIOLATION property=%s replay=%s" % (self.prop, rp))
        elif (not lean["ok"]) or self.a_fail:
            # proof obligation or correspondence broken, and the search found no failing input
            violations += 1
            what = dict(
                property=self.prop, kind="obligation-or-correspondence-broken",
                lean_problems=lean["problems"],
                correspondence_failures=[dict(case=c, what=w) for c, w in self.a_fail[:10]],
                n_correspondence_failures=len(self.a_fail),
                searched="property predicate B evaluated on all %d cases of this run (and their shrinks); none failed" % self.evaluations,
                seed=self.seed, tier=self.tier)
            rp = self.write_replay("broken_%d.json" % self.seed, what)
            lines.append("VIOLATION property=%s replay=%s no-failing-input-found" % (self.prop, rp))
        if self.a_fail:
            self.write_replay("afail_%d.json" % self.seed, dict(property=self.prop, seed=self.seed, tier=self.tier,
                              correspondence_failures=[dict(case=c, what=w) for c, w in self.a_fail[:50]]))
            for c, w in self.a_fail[:5]:
                print("A-fail: %s [%s]" % (w, c.get("k", "") if isinstance(c, dict) else ""), file=sys.stderr)
        n_thm = len(lean["theorems"])
        obligations = n_thm + self.cert_total + (1 if True else 0)  # +1: the correspondence itself
        discharged = (n_thm if lean["ok"] else 0) + self.cert_ok + (0 if self.a_fail else 1)
        ev = dict(
            property_id=self.prop, tier=self.tier, seed=int(self.seed), level="proof",
            coverage=dict(
                obligations=int(obligations), discharged=int(discharged),
                obligations_breakdown=dict(theorems=n_thm, certificate_evaluations=self.cert_total,
                                           certificates_accepted=self.cert_ok, correspondence=1),
                checker_cmd=lean["checker_cmd"] + "  &&  lake env lean --run Driver.lean < requests (model/certificates at Rat)",
                trusted_base=TRUSTED_BASE + self.extra_assumptions,
                theorems=[dict(name=n, axioms=a) for n, a in lean["theorems"]],
                lean_problems=lean["problems"],
                evaluations=int(self.evaluations),
                distinct_nontrivial=int(len(self.nontrivial)),
                rule=self.rule,
                samples=self.samples if self.samples else [{"note": "no case generated"}],
                distribution=self.dist,
                correspondence_failures=len(self.a_fail),
                predicate_failures=len(self.b_fail),
                known_findings_hit=sorted(seen_known),
                partial=self.partial,
                notes=self.notes,
                exhaustive=False,
            ),
            assumptions=TRUSTED_BASE + self.extra_assumptions,
            wall_s=round(time.time() - self.t0, 2),
            violations=int(violations),
        )
        # evidence/ is only ever written by runs against /repo itself; a run against a scratch copy carrying a seeded change
        # (DREYE_REPO, harness/seedscan.sh) leaves its record under replays/ (not committed)
        full_run = os.path.realpath(REPO) == "/repo" and self.only_case is None      # a --case / --replay run is a partial run
        evdir = os.path.join(VERIF, "evidence") if full_run else os.path.join(VERIF, "replays", "_scan_evidence")
        os.makedirs(evdir, exist_ok=True)
        with open(os.path.join(evdir, "%s.json" % self.prop), "w") as f:
            json.dump(jsonable(ev), f, indent=1)
        for ln in lines:
            print(ln)
        print("%s tier=%s seed=%d: %d theorems (%s), %d cases (%d distinct non-trivial), certs %d/%d, A-fail %d, B-fail %d, %.1fs"
              % (self.prop, self.tier, self.seed, n_thm, "ok" if lean["ok"] else "BROKEN",
                 self.evaluations, len(self.nontrivial), self.cert_ok, self.cert_total,
                 len(self.a_fail), len(self.b_fail), time.time() - self.t0))
        sys.stdout.flush()
        return 1 if violations else 0
