#!/bin/bash
# seedtool.sh confirm <dir>          : in a scratch worktree: demo passes clean, fails patched; 82 baseline tests still pass patched
# seedtool.sh run <dir> <prop> [tier]: apply <dir>/patch.diff to /repo, run ./check <prop>, revert
set -u
cmd="$1"; dir="$(realpath "$2")"
VERIF="$(cd "$(dirname "$0")/.." && pwd)"
case "$cmd" in
 confirm)
  wt=/tmp/wt_confirm_$$
  git -C /repo worktree add -q --detach "$wt" HEAD || exit 2
  trap 'git -C /repo worktree remove --force "$wt" >/dev/null 2>&1' EXIT
  cd "$wt"
  PYTHONPATH="$wt" /venv/bin/python "$dir/demo.py" >/tmp/seed_demo_clean_$$.log 2>&1; c=$?
  git apply "$dir/patch.diff" || { echo "PATCH DOES NOT APPLY"; exit 1; }
  PYTHONPATH="$wt" /venv/bin/python "$dir/demo.py" >/tmp/seed_demo_patched_$$.log 2>&1; p=$?
  PYTHONPATH="$wt" /venv/bin/python -m pytest -q -p no:cacheprovider --timeout=900 --continue-on-collection-errors --junitxml=/tmp/seed_junit_$$.xml tests >/tmp/seed_tests_$$.log 2>&1
  python3 - <<PY
import json, xml.etree.ElementTree as ET
base=set(json.load(open('/root/.vp/BASELINE.json'))['stable_pass'])
ok=set()
for tc in ET.parse('/tmp/seed_junit_$$.xml').getroot().iter('testcase'):
    if not any(ch.tag in ('failure','error','skipped') for ch in tc):
        ok.add(tc.get('classname')+'::'+tc.get('name'))
missing=sorted(base-ok)
print("demo clean exit=$c (want 0), patched exit=$p (want !=0); baseline tests passing with patch: %d/%d"%(len(base&ok),len(base)))
if missing: print("BROKEN BASELINE TESTS:", missing)
print("CONFIRMED" if ($c==0 and $p!=0 and not missing) else "NOT CONFIRMED")
PY
  ;;
 run)
  prop="$3"; tier="${4:-quick}"
  cd /repo && git diff --quiet || { echo "/repo not clean"; exit 2; }
  git -C /repo apply "$dir/patch.diff" 2>/dev/null || git -C /repo apply -3 "$dir/patch.diff" 2>/dev/null || { git -C /repo reset -q; git -C /repo checkout -- . ; echo "PATCH DOES NOT APPLY"; exit 1; }
  git -C /repo reset -q
  if grep -rq "^<<<<<<<" /repo/dreye; then git -C /repo checkout -- .; echo "PATCH CONFLICTS"; exit 1; fi
  (cd "$VERIF" && ./check "$prop" --tier "$tier" 2>&1 | tail -${TAILN:-4})
  git -C /repo checkout -- .
  ;;
esac
