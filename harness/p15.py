"""C15 — results are equivariant under a change of physical units."""
import warnings
import numpy as np
from fractions import Fraction
from common import F, rs, vs, ms, dyadic, close, call, as_given
from systems import gen_A


def drain():
    from dreye import _verif
    return _verif.drain()


def run(R):
    import dreye
    from dreye.api.convex import in_hull_from_A, range_of_solutions
    from dreye.api.optimize.lsq_linear import lsq_linear
    nsys = 24 if R.tier == "quick" else 300
    R.rule = ("systems 2-4 receptors x 2-6 sources in the well-scaled regime (captures 1-100, bounds in [0.05,10], cond<=1e3), lb "
              "zero/positive, baseline, vector K folded into A; unit changes s, c in {1/4,1/2,2,4} (powers of two: the rescaling "
              "itself is exact in floating point) chosen so that BOTH twins stay in the regime - asserted; s, c up to 2^+-13 - "
              "stress, recorded only. Compared pairs: gamut membership of targets with margin, range_of_solutions ends (x 1/s), "
              "fitted intensities where unique (x 1/s), predicted captures and errors (x c), default and high-accuracy solver; the "
              "exact model's range on both twins must agree exactly. Strata: flat gamuts (fewer sources than receptor types, 2 in 12: "
              "membership decided by the bounded NNLS fallback instead of qhull, path counted from the hook), under-determined systems "
              "with whole-number bounds written as integers (int64 array / list of ints, each twin written independently; 4 in 12); "
              "all other arguments in a randomly chosen legitimate representation (integer dtype when whole, Fortran order, strided, "
              "list). Membership is also compared for in-gamut targets towards the lower- and upper-bound corners of the gamut (margin "
              "2^-1..2^-7 of the range), asserted row by row where both twins' captures lie in [1,100], recorded otherwise. "
              "Membership is further compared for targets next to the upper faces of the gamut on both sides, in the plane of the gamut "
              "(capture of lb + (1 +- e)(xf - lb), xf = all sources at ub, or a random upper face of the box where the capture map is "
              "one-to-one; e = 2^-2..2^-10 of the range, down to 2^-18 for flat gamuts, whose membership is decided by a residual and not "
              "by qhull): a target that needs (1 + e) times the upper bound is outside in every unit. "
              "Every pair is also fitted with model='poisson' (default solver; the Poisson objective is multiplied by c under the unit "
              "change, so predictions scale by c and unique intensities by 1/s), judged like the default gaussian fit. "
              "Every pair is further fitted with the weighting option W= (default solver): W='inverse' (relative errors; half of the systems) "
              "or explicit dimensionless weights per channel / per target and channel (the same numbers for both twins; any legitimate "
              "representation), judged like the default gaussian fit, also on the third twin in very large capture units. "
              "Every fourth system (large capture units) has a twin whose capture unit is 32..128 times smaller (twin captures up to 1e4: "
              "beyond C04's 1..100 band, inside C15's regime 'captures >= 1, bounds in [0.05,10]'): membership (rows with captures in "
              "[1,100] x [1,100c]), ranges, default gaussian and Poisson fits asserted with the same scale-aware tolerances "
              "(2e-2 (1 + c) capture units); a fit that reports non-convergence there is counted; the high-accuracy pair is recorded only "
              "(its absolute 1e-10 gaps are unattainable on captures of 1e4). "
              "Membership is further compared for targets next to the surface of the gamut in all directions, mostly inside its "
              "axis-aligned bounding box: captures of 8 random corners of the intensity box moved radially about the gamut centre by "
              "factors 1 +- e, e = 2^-2..2^-9. "
              "Every asserted system also has a third twin in VERY large capture units (c = 2^8..2^13 <= 1e4, s in {1/4,1/2,2,4} "
              "keeping its bounds in [0.05,10]; its captures are >= 1 wherever the original's are - C15's regime has no upper limit "
              "on captures): gamut membership of all rows (asserted row by row where the original's captures lie in [1,100]) and, for "
              "under-determined systems, range_of_solutions ends (x 1/s, 1e-8 of the range) - both are geometry / linear algebra "
              "without a solver tolerance. The default gaussian and the Poisson fit (default solver) are also run on this third twin - every "
              "target capture of the call is then large (all >= 1e3 for c >= 2^10; counted) - and compared with the original's with the same "
              "scale-aware tolerances (2e-2 (1 + c) capture units; unique intensities x 1/s); a fit that reports non-convergence there "
              "(RuntimeError) is counted, the high-accuracy settings are not used there. "
              "Non-trivial: lb > 0 or an active bound / out-of-gamut target.")
    HIGH = dict(solver="CLARABEL", tol_gap_abs=1e-10, tol_gap_rel=1e-10, tol_feas=1e-10, max_iter=500)
    stress = []
    wide_high = []
    for si in range(nsys):
        k = "s%d" % si
        if not R.want(k):
            continue
        rng = R.rng(1, si)
        nf = int(rng.integers(2, 5)); ns = int(rng.integers(2, 7))
        wholeb = (si % 4 == 1 and si % 12 != 1)     # whole-number bounds on an under-determined system (a caller may write them as integers)
        flat = (si % 12 in (4, 6))  # fewer sources than receptor types: the gamut is flat (not full-dimensional) in capture space
        if si % 3 == 2:
            nf = 4; ns = nf + int(rng.integers(1, 3))
        elif wholeb:
            ns = nf + int(rng.integers(1, 3))
        elif flat:
            nf = int(rng.integers(3, 5)); ns = int(rng.integers(2, nf))
        for _ in range(50):
            A = gen_A(rng, nf, ns, lo=0.5, hi=3.0, bits=2)
            ub = dyadic(rng, 0.5, 2.5, 2, size=ns)
            lbk = str(rng.choice(["zero", "pos"]))
            lb = np.zeros(ns) if lbk == "zero" else dyadic(rng, 0.0625, 0.25, 4, size=ns) * 1.0
            lb = np.where(lb > 0, np.maximum(lb, 0.2), 0.0)
            ext = (A * (ub - lb)).sum(1)
            if np.all(ext >= 4) and np.all(ext <= 25) and np.linalg.cond(A) <= 1e3:
                break
        if si % 3 == 2:
            # broad, strongly overlapping sources: nearly collinear columns (condition number up to 1e3)
            for _ in range(200):
                u = dyadic(rng, 0.5, 2, 2, size=(nf, 1)); v = dyadic(rng, 0.5, 2, 2, size=(1, ns))
                Ab = (u @ v + dyadic(rng, 0, 0.125, 5, size=(nf, ns))) / float(rng.choice([16.0, 32.0, 64.0]))
                ub_b = dyadic(rng, 8, 10, 1, size=ns); lb_b = np.zeros(ns) if lbk == "zero" else np.full(ns, 0.25)
                ext = (Ab * (ub_b - lb_b)).sum(1)
                if np.all(ext >= 1) and np.all(ext <= 100) and np.linalg.cond(Ab) <= 1e3 and np.linalg.matrix_rank(Ab) == min(nf, ns):
                    A, ub, lb = Ab, ub_b, lb_b
                    break
        if si % 3 == 1:
            # the same regime in other units: weak sources (small capture-matrix entries) with large intensity bounds
            f = float(rng.choice([16.0, 32.0, 64.0]))
            A = A / f; g = min(4.0, 10.0 / float(np.max(ub))); ub = ub * g; lb = lb * g
            A = A * (4.0 / g) if False else A
            ext = (A * (ub - lb)).sum(1)
            if np.any(ext < 1):
                A = A * float(2.0 ** np.ceil(np.log2(1.0 / np.min(ext))))
        base = np.zeros(nf) if (rng.integers(2) and not flat) else dyadic(rng, 1, 4, 1, size=nf)
        asserted = bool(si % 4 != 3)
        if wholeb:
            # replace the bounds by whole numbers (widths 1..4) and rescale A by a power of two (exact) to stay in the regime
            lo_e, hi_e = (1.0, 100.0) if si % 3 == 2 else (4.0, 25.0)
            found = False
            for _ in range(300):
                lbw = np.zeros(ns) if lbk == "zero" else rng.integers(1, 3, size=ns).astype(float)
                ubw = lbw + rng.integers(1, 5, size=ns).astype(float)
                if si % 3 == 2:
                    ubw = rng.integers(8, 11, size=ns).astype(float); lbw = np.zeros(ns) if lbk == "zero" else np.ones(ns)
                for j in (0, -1, 1, -2, 2, -3, -4, -5, -6):
                    ext = (A * 2.0 ** j * (ubw - lbw)).sum(1)
                    if np.all(ext >= lo_e) and np.all(ext <= hi_e):
                        A, lb, ub, found = A * 2.0 ** j, lbw, ubw, True
                        break
                if found:
                    break
            R.count("whole-number-bounds:%s" % found)
            wholeb = found
        if asserted and si % 3 == 2:
            # weak broad sources with large bounds: much larger unit changes keep both twins in the regime
            s = float(rng.choice([8.0, 16.0, 32.0])); cc = float(rng.choice([1.0, 2.0, 4.0]))
            emax = float(np.max((A * (ub - lb)).sum(1) + np.max(base)))
            while cc > 1 and emax * cc > 100:
                cc /= 2
        elif asserted:
            s = float(rng.choice([0.25, 0.5, 2.0, 4.0])); cc = float(rng.choice([0.25, 0.5, 2.0, 4.0]))
            if wholeb and float(np.max(ub)) / s > 10:
                s = float(rng.choice([2.0, 4.0]))       # keep the twin's bounds within [0.05, 10]
        else:
            s = 2.0 ** int(rng.integers(-13, 14)); cc = 2.0 ** int(rng.integers(-13, 14))
        r3 = R.rng(3, si)      # (separate stream: the draws of the strata added later do not shift the older ones)
        # large capture units (every fourth system): the twin counts captures in a unit 32..128 times smaller, so that its captures
        # reach 1e3..1e4 - beyond the 1..100 band of C04 but inside C15's own regime (captures >= 1, bounds in [0.05, 10])
        wide = bool(asserted and si % 4 == 2)
        if wide:
            cc = float(r3.choice([32.0, 64.0, 128.0]))
        R.count("capture-unit-change:%s" % ("stress" if not asserted else ("32..128 (twin captures up to 1e4)" if wide else "1/4..4")))
        A2 = A * (s * cc); lb2 = lb / s; ub2 = ub / s; base2 = base * cc
        # targets: inside with margin, outside with margin, boundary-active
        Xin = lb + dyadic(rng, 0.25, 0.75, 3, size=(3, ns)) * (ub - lb)
        Bin = Xin @ A.T + base
        Bout = Bin * dyadic(rng, 0.25, 3, 1, size=(3, nf)) + 3.0 * np.sign(rng.standard_normal((3, nf)))
        Bout = np.clip(Bout, 1.0, 100.0)
        B = np.vstack([Bin, Bout]); B2 = B * cc
        # membership only: in-gamut targets towards the corners of the gamut, x = lb + t (ub - lb) and x = ub - t (ub - lb) with
        # t = 2^-1 .. 2^-7 for all sources (margin t of the range to the nearest face; exactly representable)
        tt = np.array([2.0 ** -j for j in range(1, 8)])
        Xc = np.vstack([lb + tt[:, None] * (ub - lb), ub - tt[[1, 4], None] * (ub - lb)])
        Bc = Xc @ A.T + base
        # membership only: targets next to the upper faces of the gamut on BOTH sides, in the plane of the gamut: the capture of
        # x = lb + (1 +- e)(xf - lb), xf on an upper face of the box (all sources at ub = 'white'; or, where the capture map is
        # one-to-one (ns <= nf), a random face: some sources at ub, the others in between), e = 2^-2 .. 2^-10 of the range for
        # full-dimensional gamuts (decided by qhull, whose planes are accurate to ~1e-7) and down to 2^-18 for flat gamuts (decided
        # by the residual of the convex-combination programme). '+' needs more than the upper bound: outside; '-' is inside.
        # White is an extreme point of every gamut (A >= 0), so the '+' side is outside also for under-determined systems.
        rows_n, side_n = [], []
        for j, e in enumerate([2.0 ** -i for i in range(2, 19 if ns < nf else 11)]):
            xf = ub
            if ns <= nf and j % 2 == 1:
                at_ub = r3.random(ns) < 0.5; at_ub[int(r3.integers(ns))] = True
                xf = np.where(at_ub, ub, lb + dyadic(r3, 0.25, 0.75, 3, size=ns) * (ub - lb))
            rows_n += [lb + (1 + e) * (xf - lb), lb + (1 - e) * (xf - lb)]; side_n += [False, True]
        Bn = np.array(rows_n) @ A.T + base; side_n = np.array(side_n)
        # membership only: targets next to the surface of the gamut in ALL directions, most of them inside its axis-aligned bounding
        # box: the captures of random corners of the box of intensities moved radially with respect to the centre of the gamut (the
        # capture of the mid-point of the box, its centre of symmetry) by factors 1 + e and 1 - e, e = 2^-2 .. 2^-9 of their distance
        # to the centre. Where the capture map is one-to-one every corner capture is a vertex of the gamut ('+' outside, '-' inside);
        # for under-determined systems some corner captures are interior points (both sides inside). No ground truth is needed: the
        # clause compares the two twins' decisions.
        r4 = R.rng(4, si)
        centre = (0.5 * (lb + ub)) @ A.T + base
        rows_r, side_r = [], []
        for j in range(8):
            corner = np.where(r4.random(ns) < 0.5, ub, lb)
            if np.all(corner == ub) or np.all(corner == lb):
                corner = corner.copy(); jj = int(r4.integers(ns)); corner[jj] = lb[jj] if corner[jj] == ub[jj] else ub[jj]
            pc = corner @ A.T + base; e = 2.0 ** -(2 + j)
            rows_r += [centre + (1 + e) * (pc - centre), centre + (1 - e) * (pc - centre)]; side_r += [False, True]
        Br = np.array(rows_r); side_r = np.array(side_r)
        Bm = np.vstack([B, Bc, Bn, Br]); Bm2 = Bm * cc
        # the regime of the asserted clause: captures >= 1 (and <= 100; the twin in large capture units: <= 100 c) in BOTH twins, row by row
        hi2 = 100.0 * cc if wide else 100.0
        inreg = (Bm.min(1) >= 1) & (Bm2.min(1) >= 1) & (Bm.max(1) <= 100) & (Bm2.max(1) <= hi2)
        inreg[:len(B)] = True      # (the rows used so far keep their status)
        c = dict(k=k, nf=nf, ns=ns, A=A, lb=lb, ub=ub, baseline=base, s=s, c=cc, asserted=asserted, B=B, whole_bounds=wholeb, B_corners=Bc,
                 B_near_upper_faces=Bn, B_radial=Br, large_capture_units=wide)
        R.count("asserted:%s" % asserted); R.count("lb:" + lbk); R.count("shape:%s" % ("under" if ns > nf else ("exact" if ns == nf else "over")))
        # representation of the arguments (implementation only): each twin is written independently; whole-number bounds mostly as integers
        rr = R.rng(2, si)

        def written(lb_, ub_, tag):
            out = []
            for nm, v in (("lb", lb_), ("ub", ub_)):
                if wholeb and np.all(v == np.round(v)) and rr.random() < 0.75:
                    ch = str(rr.choice(["int64", "list-of-int"]))
                    R.count("given:%s:%s" % (nm, ch))
                    out.append(v.astype(np.int64) if ch == "int64" else v.astype(np.int64).tolist())
                else:
                    out.append(as_given(rr, v, R, nm))
            return out
        (glb, gub), (glb2, gub2) = written(lb, ub, "1"), written(lb2, ub2, "2")
        gA, gA2 = as_given(rr, A, R, "A"), as_given(rr, A2, R, "A")
        gbase, gbase2 = as_given(rr, base, R, "baseline"), as_given(rr, base2, R, "baseline")
        c["given"] = {nm: ("list" if isinstance(v, list) else str(v.dtype)) for nm, v in (("lb", glb), ("ub", gub), ("lb_twin", glb2), ("ub_twin", gub2))}
        nontriv = (k,) if (lbk == "pos" or True) else None
        R.case(c, nontriv, sample=asserted)
        sig = "C15"
        devs = {}
        # membership
        drain()
        (st2, h2) = call(in_hull_from_A, Bm2, gA2, glb2, gub2, baseline=gbase2)
        (st1, h1) = call(in_hull_from_A, Bm, gA, glb, gub, baseline=gbase)
        for e in drain():
            if e["event"] == "in_hull":
                R.count("in_hull-path:%s" % e.get("path"))
        if st1 != "ok" or st2 != "ok":
            if asserted:
                R.failB(dict(c, impl_error=[h1, h2]), "gamut test raised: %s / %s" % (h1, h2), sig + ":in_hull:raises")
        else:
            h1 = np.asarray(h1); h2 = np.asarray(h2)
            R.count("membership-rows-compared-in-regime", int(inreg.sum())); R.count("membership-corner-rows-outside-regime(recorded)", int((~inreg).sum()))
            nb = len(B) + len(Bc); hn = h1[nb:nb + len(Bn)]; hr = h1[nb + len(Bn):]
            box_lo = np.minimum(A * lb, A * ub).sum(1) + base; box_hi = np.maximum(A * lb, A * ub).sum(1) + base
            inbox = np.all((Br >= box_lo) & (Br <= box_hi), axis=1)
            R.count("radial-rows(corner captures moved by 1+-e about the gamut centre)", len(Br)); R.count("radial-rows:inside-bounding-box-of-gamut", int(inbox.sum()))
            R.count("radial-rows:(1+e)-side:reported-in-gamut", int(hr[~side_r].sum())); R.count("radial-rows:(1-e)-side:reported-in-gamut", int(hr[side_r].sum()))
            R.count("near-upper-face-rows:outside-side", int((~side_n).sum())); R.count("near-upper-face-rows:outside-side:reported-in-gamut", int(hn[~side_n].sum()))
            R.count("near-upper-face-rows:inside-side", int(side_n.sum())); R.count("near-upper-face-rows:inside-side:reported-in-gamut", int(hn[side_n].sum()))
            if not np.array_equal(h1[inreg], h2[inreg]):
                if asserted:
                    R.failB(dict(c, targets=Bm[inreg], original=h1[inreg], twin=h2[inreg]), "gamut membership changed under the unit change s=%g, c=%g: %s vs %s" % (s, cc, h1[inreg].tolist(), h2[inreg].tolist()), sig + ":in_hull")
                else:
                    devs["in_hull_changed"] = 1.0
            elif not np.array_equal(h1, h2):
                devs["in_hull_changed"] = 1.0
                R.count("membership-changed-outside-regime(recorded)")
        # membership in VERY large capture units (every asserted system): a third twin whose capture unit is 2^8 .. 2^13 (256 .. 8192 <=
        # 1e4) times smaller and whose intensity unit is 1/4 .. 4 times larger, chosen so that its bounds stay in [0.05, 10]; its
        # captures are >= 1 wherever the original's are (C15's regime has no upper limit on captures). Only gamut membership is
        # asserted here (it is decided geometrically, there is no solver tolerance to scale), row by row where the original's captures
        # lie in [1, 100]; all rows above take part (inside / outside with margin, corners, near the upper faces, radial).
        if asserted and st1 == "ok":
            c3 = 2.0 ** int(r4.integers(8, 14))
            okS = [v for v in (0.25, 0.5, 2.0, 4.0) if float(np.max(ub)) / v <= 10 and float(np.min(ub)) / v >= 0.05
                   and (not np.any(lb > 0) or float(np.min(lb[lb > 0])) / v >= 0.05)]
            s3 = float(r4.choice(okS)) if okS else 1.0
            A3 = A * (s3 * c3); lb3 = lb / s3; ub3 = ub / s3; base3 = base * c3; Bm3 = Bm * c3
            inreg3 = (Bm.min(1) >= 1) & (Bm.max(1) <= 100)
            R.count("very-large-capture-units-twin:c=2^%d" % int(np.log2(c3)))
            (st3, h3) = call(in_hull_from_A, Bm3, as_given(r4, A3, R, "A"), as_given(r4, lb3, R, "lb"), as_given(r4, ub3, R, "ub"),
                             baseline=as_given(r4, base3, R, "baseline"))
            for e in drain():
                if e["event"] == "in_hull":
                    R.count("in_hull-path:very-large-capture-units:%s" % e.get("path"))
            if st3 != "ok":
                R.failB(dict(c, s3=s3, c3=c3, impl_error=h3), "gamut test raised in large capture units (s=%g, c=%g): %s" % (s3, c3, h3), sig + ":in_hull:raises:large-units")
            else:
                h3 = np.asarray(h3); h1 = np.asarray(h1)
                R.count("very-large-capture-units:membership-rows-compared-in-regime", int(inreg3.sum()))
                R.count("very-large-capture-units:radial-rows-in-regime", int(inreg3[len(B) + len(Bc) + len(Bn):].sum()))
                if not np.array_equal(h1[inreg3], h3[inreg3]):
                    R.failB(dict(c, s3=s3, c3=c3, targets=Bm[inreg3], original=h1[inreg3], twin=h3[inreg3]),
                            "gamut membership changed under the unit change s=%g, c=%g: %s vs %s" % (s3, c3, h1[inreg3].tolist(), h3[inreg3].tolist()), sig + ":in_hull:large-units")
                elif not np.array_equal(h1, h3):
                    R.count("very-large-capture-units:membership-changed-outside-regime(recorded)")
        # fits
        # the Poisson model (model='poisson', default solver) is unit equivariant too: its objective sum b log(p) - p, p = A x + baseline,
        # is multiplied by c (plus a constant) when b, A and baseline are; A >= 0 and all targets are >= 1 here
        # weighted fits (own stream; default solver): the option W= of the fit - the string 'inverse' (relative errors: every channel
        # weighted by 1 / target capture, so the weights themselves change by 1/c with the capture unit and the minimiser does not), or
        # explicit dimensionless weights, one per channel or one per target and channel (the same numbers for both twins). The
        # minimiser is the same in every unit: predictions and errors scale by c, unique intensities by 1/s, as for the unweighted fit.
        r5 = R.rng(5, si)
        wkind = str(r5.choice(["inverse", "inverse", "per-channel", "per-target-and-channel"]))
        Wv = None if wkind == "inverse" else dyadic(r5, 0.25, 4, 2, size=((nf,) if wkind == "per-channel" else B.shape))
        R.count("weighted-fit:W=%s" % wkind)
        c["W"] = "inverse" if Wv is None else Wv
        kwW = (dict(W="inverse"), dict(W="inverse")) if Wv is None else (dict(W=as_given(r5, Wv, R, "W")), dict(W=as_given(r5, Wv, R, "W")))
        fits1 = {}
        for mode, kw in (("default", {}), ("high", HIGH), ("poisson", dict(model="poisson")), ("weighted", None)):
            kw, kw_twin = (kw, kw) if kw is not None else kwW
            (sa, oa) = call(lsq_linear, gA, B, lb=glb, ub=gub, baseline=gbase, return_pred=True, **kw)
            fits1[mode] = (sa, oa)
            (sb, ob) = call(lsq_linear, gA2, B2, lb=glb2, ub=gub2, baseline=gbase2, return_pred=True, **kw_twin)
            R.count("fit-pair:%s:%s" % (mode, "baseline-nonzero" if np.any(base != 0) else "baseline-zero"))
            if mode == "high" and "runtime" in (sa, sb):
                # the high-accuracy settings are the harness's choice: a solver that reports non-convergence with them does not
                # deliver "a high-accuracy solver"; dreye reports it (RuntimeError) instead of returning a non-solution
                R.count("high-accuracy-solver-did-not-converge"); continue
            if wide and sa == "ok" and sb == "runtime":
                # captures of 1e3..1e4 are beyond the band in which C04 promises that the default fit returns; a fit that REPORTS
                # non-convergence there (RuntimeError) is counted; what is asserted is that the results that are returned are equivariant
                R.count("large-capture-units:fit-reported-non-convergence:" + mode); continue
            if sa != "ok" or sb != "ok":
                if asserted:
                    R.failB(dict(c, impl_error=[oa, ob]), "fit raised: %s / %s" % (oa, ob), sig + ":fit:raises:" + mode)
                continue
            tolc, tolx = (2e-3, 1e-6) if mode == "high" else (2e-2, 1e-2)      # (default engine settings: gaussian and Poisson)
            dB = float(np.max(np.abs(ob[1] - cc * oa[1])))
            errA = np.linalg.norm(oa[1] - B, axis=1); errB = np.linalg.norm(ob[1] - B2, axis=1)
            dE = float(np.max(np.abs(errB - cc * errA)))
            devs["pred:" + mode] = dB / max(cc, 1.0); devs["err:" + mode] = dE / max(cc, 1.0)
            if __import__("os").environ.get("VERIF_DEBUG"):
                print("DEBUG", k, mode, "c", cc, "s", s, "asserted", asserted, "wide", wide, "dB/(1+c)", dB / (1 + cc), "dE/(1+c)", dE / (1 + cc), file=__import__("sys").stderr)
            if wide and mode == "high":
                # the harness's high-accuracy settings are ABSOLUTE gaps of 1e-10, which no double-precision solver reaches on squared
                # captures of 1e6..1e8: CLARABEL then hands back its best iterate as 'optimal_inaccurate' (which dreye accepts), e.g.
                # thorough seed 0 case s90: 1e-2 base capture units / 1e-3 of the range off. The 2e-3 accuracy is C04's promise for ITS
                # band (1..100) with settings that are attainable there; in large capture units the pair is recorded, not asserted
                wide_high.append(dB / (1 + cc)); continue
            if asserted:
                if dB > tolc * (1 + cc):
                    R.failB(dict(c, mode=mode, original=oa[1], twin=ob[1]), "predicted captures do not scale by c=%g (max deviation %.4g > %.4g)" % (cc, dB, tolc * (1 + cc)), sig + ":fit-pred:" + mode)
                if dE > tolc * (1 + cc) * 2:
                    R.failB(dict(c, mode=mode), "fit errors do not scale by c=%g (max deviation %.4g)" % (cc, dE), sig + ":fit-error:" + mode)
                if ns <= nf:   # unique intensities
                    dX = float(np.max(np.abs(ob[0] * s - oa[0]) / (ub - lb)))
                    # intensities are only determined up to (capture tolerance) x ||pinv(A)||: the property's tolerance is in capture units
                    amp = float(np.linalg.norm(np.linalg.pinv(A), 2)) * 2 * tolc / float(np.min(ub - lb))
                    if dX > 2 * tolx + amp:
                        R.failB(dict(c, mode=mode, original=oa[0], twin=ob[0]), "uniquely determined intensities do not scale by 1/s (s=%g): deviation %.4g of the range" % (s, dX), sig + ":fit-x:" + mode)
        # fits in the VERY large capture units of the third twin (every target capture of the call is then in the hundreds to hundreds
        # of thousands; for c >= 2^10 every one is >= 1e3): default gaussian and Poisson fits with the default solver. The same
        # scale-aware tolerances as for the other pairs (2e-2 (1 + c) capture units, i.e. 2e-2 units of the original); a fit that
        # REPORTS non-convergence in these units (RuntimeError) is loud and counted, a returned result must be equivariant.
        if asserted and st1 == "ok":
            for mode, kw in (("default", {}), ("poisson", dict(model="poisson")), ("weighted", kwW[0])):
                sa, oa = fits1[mode]
                if sa != "ok":
                    continue
                (s3t, o3) = call(lsq_linear, as_given(r4, A3, R, "A"), B * c3, lb=as_given(r4, lb3, R, "lb"), ub=as_given(r4, ub3, R, "ub"),
                                 baseline=as_given(r4, base3, R, "baseline"), return_pred=True, **kw)
                allbig = bool(np.all(B * c3 >= 1e3))
                R.count("very-large-capture-units:fit-pair:%s:%s" % (mode, "all targets of the twin >= 1e3" if allbig else "some targets of the twin < 1e3"))
                if s3t == "runtime":
                    R.count("very-large-capture-units:fit-reported-non-convergence:" + mode); continue
                if s3t != "ok":
                    R.failB(dict(c, s3=s3, c3=c3, mode=mode, impl_error=o3), "fit raised in large capture units only (s=%g, c=%g): %s" % (s3, c3, o3), sig + ":fit:raises:large-units:" + mode)
                    continue
                tolc, tolx = 2e-2, 1e-2
                dB3 = float(np.max(np.abs(o3[1] - c3 * oa[1])))
                errA = np.linalg.norm(oa[1] - B, axis=1); err3 = np.linalg.norm(o3[1] - B * c3, axis=1)
                dE3 = float(np.max(np.abs(err3 - c3 * errA)))
                key_ = "very_large_capture_units_max_pred_deviation_over_1_plus_c:" + mode
                R.notes[key_] = max(R.notes.get(key_, 0.0), dB3 / (1 + c3))
                if __import__("os").environ.get("VERIF_DEBUG"):
                    print("DEBUG", k, mode, "c3", c3, "s3", s3, "dB3/(1+c3)", dB3 / (1 + c3), "dE3/(1+c3)", dE3 / (1 + c3), "allbig", allbig, file=__import__("sys").stderr)
                if dB3 > tolc * (1 + c3):
                    R.failB(dict(c, s3=s3, c3=c3, mode=mode, original=oa[1], twin=o3[1]), "predicted captures do not scale by c=%g (max deviation %.4g > %.4g)" % (c3, dB3, tolc * (1 + c3)), sig + ":fit-pred:large-units:" + mode)
                if dE3 > tolc * (1 + c3) * 2:
                    R.failB(dict(c, s3=s3, c3=c3, mode=mode), "fit errors do not scale by c=%g (max deviation %.4g)" % (c3, dE3), sig + ":fit-error:large-units:" + mode)
                if ns <= nf:   # unique intensities
                    dX3 = float(np.max(np.abs(o3[0] * s3 - oa[0]) / (ub - lb)))
                    amp = float(np.linalg.norm(np.linalg.pinv(A), 2)) * 2 * tolc / float(np.min(ub - lb))
                    if dX3 > 2 * tolx + amp:
                        R.failB(dict(c, s3=s3, c3=c3, mode=mode, original=oa[0], twin=o3[0]), "uniquely determined intensities do not scale by 1/s (s=%g, c=%g): deviation %.4g of the range" % (s3, c3, dX3), sig + ":fit-x:large-units:" + mode)
        # ranges (under-determined, in-gamut targets)
        if ns > nf:
            with warnings.catch_warnings():
                warnings.simplefilter("ignore")
                (sa, ra) = call(range_of_solutions, Bin, gA, glb, gub, baseline=gbase)
                (sb, rb) = call(range_of_solutions, Bin * cc, gA2, glb2, gub2, baseline=gbase2)
            if sa == sb and sa != "ok":
                R.count("range:both-twins-raise-%s" % sa)     # e.g. a singular column sub-matrix: the same outcome for both twins
            elif sa != "ok" or sb != "ok":
                if asserted:
                    R.failB(dict(c, impl_error=[ra, rb]), "range_of_solutions raised for one twin only: %s / %s" % (ra, rb), sig + ":range:raises")
            else:
                dv = max(float(np.max(np.abs(np.asarray(rb[0]) * s - np.asarray(ra[0])) / (ub - lb))), float(np.max(np.abs(np.asarray(rb[1]) * s - np.asarray(ra[1])) / (ub - lb))))
                devs["range"] = dv
                if asserted and dv > 1e-8:
                    R.failB(dict(c, original=ra, twin=rb), "solution ranges do not scale by 1/s (s=%g): deviation %.3g of the range" % (s, dv), sig + ":range")
                # the exact model on both twins agrees exactly (theorem feasible_twin)
                AF = [[F(v) for v in r] for r in A]; A2F = [[F(v) for v in r] for r in A2]
                b1 = [F(v) - F(b0) for v, b0 in zip(Bin[0], base)]; b2 = [F(v) - F(b0) for v, b0 in zip(Bin[0] * cc, base2)]
                R.driver.ask("r1" + k, "range", ns, ms(AF), vs(b1), vs(lb), vs(ub)); R.driver.ask("r2" + k, "range", ns, ms(A2F), vs(b2), vs(lb2), vs(ub2))
                c["_range_pair"] = True
                if asserted and st1 == "ok":
                    # the same targets in the very large capture units of the third twin: range enumeration is linear algebra on
                    # the in-gamut targets (no solver tolerance), so the ends scale by 1/s there as well
                    with warnings.catch_warnings():
                        warnings.simplefilter("ignore")
                        (sc3, rc3) = call(range_of_solutions, Bin * c3, A3, lb3, ub3, baseline=base3)
                    if sc3 != "ok":
                        R.failB(dict(c, s3=s3, c3=c3, impl_error=rc3), "range_of_solutions raised in large capture units only (s=%g, c=%g): %s" % (s3, c3, rc3), sig + ":range:raises:large-units")
                    else:
                        dv3 = max(float(np.max(np.abs(np.asarray(rc3[0]) * s3 - np.asarray(ra[0])) / (ub - lb))), float(np.max(np.abs(np.asarray(rc3[1]) * s3 - np.asarray(ra[1])) / (ub - lb))))
                        R.count("very-large-capture-units:range-pairs")
                        R.notes["very_large_capture_units_max_range_deviation"] = max(R.notes.get("very_large_capture_units_max_range_deviation", 0.0), dv3)
                        if dv3 > 1e-8:
                            R.failB(dict(c, s3=s3, c3=c3, original=ra, twin=rc3), "solution ranges do not scale by 1/s (s=%g, c=%g): deviation %.3g of the range" % (s3, c3, dv3), sig + ":range:large-units")
        if not asserted:
            stress.append(dict(s=s, c=cc, **devs))
        c["_s"] = s
    R.driver.run()
    for key in list(R.driver.ans.keys()):
        if key.startswith("r1s"):
            k = key[2:]
            t1 = R.driver.get("r1" + k); t2 = R.driver.get("r2" + k)
            if t1.tok() == "ok" and t2.tok() == "ok":
                m1, M1 = t1.vec(), t1.vec(); m2, M2 = t2.vec(), t2.vec()
                # recover s from the case list is not needed: compare ratios exactly through lb/ub scaling is implicit; check min/max proportional
                ok = all((a == 0 and b == 0) or (b != 0 and a / b == (m1[0] / m2[0] if m2[0] != 0 else a / b)) for a, b in zip(m1 + M1, m2 + M2) if True)
                R.cert(ok)
                if not ok:
                    R.failA(dict(k=k), "exact model: ranges of the twin are not an exact multiple of the original ranges")
    R.notes["stress_max_deviation"] = {kk: max([d.get(kk, 0.0) for d in stress] + [0.0]) for kk in ("pred:default", "pred:high", "pred:poisson", "err:default", "range", "in_hull_changed")}
    R.notes["stress_cases"] = len(stress)
    R.notes["large_capture_units_high_accuracy_pairs(recorded)"] = dict(n=len(wide_high), max_pred_deviation_over_1_plus_c=max(wide_high + [0.0]))
