"""C19 — domain equalisation interpolates onto the exact overlap at coarsest resolution."""
import numpy as np
from fractions import Fraction
from common import F, rs, vs, ms, dyadic, close, call, Toks, as_given


def gen_whole_domain(rv, kind, lo, hi):
    """whole-number grid on [lo, hi] (wavelengths in nm are usually written as integers: arange(300, 701, 10))"""
    lo, hi = int(lo), int(hi)
    if kind == "uniform":
        steps = [s_ for s_ in (1, 2, 3, 4, 5, 10, 20) if 2 * s_ <= hi - lo <= 24 * s_] or [max(1, (hi - lo) // 16)]
        return np.arange(lo, hi + 1, int(rv.choice(steps)), dtype=np.float64)
    inner = rv.integers(lo, hi + 1, size=int(rv.integers(3, 12)))
    return np.unique(np.concatenate([[lo], inner, [hi]])).astype(np.float64)


def given(rv, x, R, tag, kinds):
    """the same values in another representation, never the harness's own buffer"""
    y = as_given(rv, x, R, tag, kinds=kinds)
    return y.copy(order="K") if isinstance(y, np.ndarray) and np.shares_memory(y, x) else y


def give_domains(rv, doms, whole, R, kinds):
    """whole-number domains: either ALL with an integer dtype (int64 / int32, as np.arange(300, 701, 10) gives) or each in a
    representation of its own; other domains: layout variants only"""
    if whole and rv.integers(2):
        R.count("domains-given:all-integer-dtype")
        return [d.astype(np.int32 if rv.integers(3) == 0 else np.int64) for d in doms]
    R.count("domains-given:individually")
    return [given(rv, d, R, "domain", kinds) for d in doms]


def gen_domain(rng, kind, lo, hi):
    n = int(rng.integers(3, 9))
    if kind == "uniform":
        return np.linspace(lo, hi, n) if False else lo + (hi - lo) / (2 ** int(rng.integers(1, 4))) * np.arange(2 ** int(rng.integers(1, 4)) + 1)
    inner = np.unique(dyadic(rng, lo, hi, 3, size=n))
    d = np.unique(np.concatenate([[lo], inner, [hi]]))
    return d


def fibers_of(arr, axis):
    a = np.moveaxis(arr, axis, -1)
    return a.reshape(-1, a.shape[-1]), a.shape


def fib_text(fibs):
    return " ".join([str(len(fibs))] + [vs(f) for f in fibs])


def run(R):
    import dreye
    n = 160 if R.tier == "quick" else 3000
    R.rule = ("tuples of 2-4 domains: equal (the shared domain stored ascending, descending or shuffled - the same stored order in "
              "every input - or each input permuted on its own), uniform, non-uniform, nested, partially overlapping, disjoint, unsorted; dyadic or "
              "whole-number grids (nm written as integers), the latter handed in all with an integer dtype (int64/int32) or "
              "individually as float / integer / strided view (/ list for the estimator); arrays as given / integer dtype when "
              "whole / Fortran order / strided view - the model receives the values; "
              "arrays of rank 1-4 with the domain on any axis (per-array axes, int axis or default), stack/concatenate; "
              "steps that do not divide the overlap; estimator captures with a foreign domain (incl. one equal to the filters' domain, "
              "in any stored order); stack/concatenate also on inputs that already share a domain; compared entry by entry with "
              "the exact model (domain and arrays, rtol 1e-12). Near-ties of overlap/step at a half-integer accept either "
              "neighbour. Non-trivial: interpolation actually happened on >=2 distinct domains with >=3 new points.")
    RT = 1e-11
    cases = []
    for k in range(n):
        if not R.want(k):
            continue
        rng = R.rng(1, k)
        mode = str(rng.choice(["eq", "eq", "eq", "estimator"]))
        nd = int(rng.integers(2, 5)) if mode == "eq" else 2
        rel = str(rng.choice(["overlap", "overlap", "nested", "equal", "disjoint", "touching"]))
        base_lo = float(dyadic(rng, 0, 300, 1)); span = float(dyadic(rng, 4, 64, 1))
        rv = R.rng(7, k)          # stream of the whole-number / representation variants
        whole = bool(rv.integers(4) == 0)
        if whole:
            base_lo = float(np.round(base_lo)); span = float(np.ceil(span)) * float(rv.choice([1, 1, 4]))
        R.count("values:%s" % ("whole-number-domains" if whole else "dyadic-domains"))
        doms = []
        for i in range(nd):
            kind = str(rng.choice(["uniform", "nonuniform"]))
            if rel == "equal" and i > 0:
                doms.append(doms[0].copy()); continue
            if rel == "disjoint" and i == 1:
                lo = doms[0].max() + float(dyadic(rng, 0.5, 8, 1)); hi = lo + span
            elif rel == "touching" and i == 1:
                lo = doms[0].max(); hi = lo + span
            elif rel == "nested" and i > 0:
                lo = base_lo + span * 0.25; hi = base_lo + span * 0.75
            else:
                lo = base_lo + float(dyadic(rng, 0, span / 2, 2)) * (i > 0); hi = lo + span * float(rng.choice([0.5, 1, 1.5]))
            if whole:
                lo = float(np.ceil(lo)); hi = max(float(np.floor(hi)), lo + 2.0)
                doms.append(gen_whole_domain(rv, kind, lo, hi)); continue
            doms.append(np.asarray(gen_domain(rng, kind, lo, hi), dtype=float))
        unsorted = [bool(rng.integers(4) == 0) for _ in range(nd)]
        # domains that are identical may be STORED in any order (a descending wavelength axis as many spectrometers write it, or
        # an unsorted one): every input then carries the same stored order, and the inputs still share one domain
        ro = R.rng(8, k); shared_perm = None; shared_order = None
        if rel == "equal":
            shared_order = str(ro.choice(["as-generated", "as-generated", "descending", "shuffled"]))
            if shared_order != "as-generated":
                unsorted = [False] * nd
                shared_perm = np.arange(len(doms[0]))[::-1].copy() if shared_order == "descending" else ro.permutation(len(doms[0]))
            elif any(unsorted):
                shared_order = "individually-permuted"
            R.count("equal-domains-stored:%s" % shared_order)
        c = dict(k=k, mode=mode, relation=rel, n_domains=nd, unsorted=unsorted, whole_number_domains=whole, shared_stored_order=shared_order)
        R.count("mode:" + mode); R.count("relation:" + rel)
        if mode == "estimator":
            nf = int(rng.integers(2, 4)); ns = int(rng.integers(1, 4))
            filt = dyadic(rng, 0, 2, 4, size=(nf, len(doms[0])))
            sig = dyadic(rng, 0, 4, 4, size=(ns, len(doms[1])))
            if unsorted[1]:
                p = rng.permutation(len(doms[1])); doms[1] = doms[1][p]; sig = sig[:, p]
            if shared_perm is not None:
                doms = [d[shared_perm] for d in doms]; filt = filt[:, shared_perm]; sig = sig[:, shared_perm]
            if whole and rv.integers(2):
                filt = np.round(filt); sig = np.round(sig)      # whole-number data may arrive with an integer dtype
            c.update(domains=doms, filters=filt, signals=sig)
            D0, D1 = give_domains(rv, doms, whole, R, ("same", "int", "strided", "list"))
            Fi = given(rv, filt, R, "array", ("same", "int", "fortran", "strided")); Si = given(rv, sig, R, "array", ("same", "int", "fortran", "strided"))
            st, out = call(lambda: dreye.ReceptorEstimator(Fi, domain=D0).capture(Si, domain=D1))
            arrs = [filt, sig]; axes = [-1, -1]; axes_arg = None
            cases.append((c, st, out, doms, arrs, axes, None, False))
            continue
        # arrays
        arrs, axes = [], []
        rank = int(rng.integers(1, 5))
        same_shape = bool(rng.integers(3) == 0)
        for i in range(nd):
            r = rank if same_shape else int(rng.integers(1, 5))
            shp = [int(rng.integers(1, 4)) for _ in range(r)]
            ax = int(rng.integers(-r, r))
            shp[ax] = len(doms[i])
            a = dyadic(rng, -4, 4, 4, size=tuple(shp))
            if whole and i % 2 == 0 and k % 2 == 0:
                a = np.round(a)                                  # whole-number data may arrive with an integer dtype
            if unsorted[i]:
                p = rng.permutation(len(doms[i])); doms[i] = doms[i][p]; a = np.take(a, p, axis=ax)
            if shared_perm is not None:
                doms[i] = doms[i][shared_perm]; a = np.take(a, shared_perm, axis=ax)
            arrs.append(a); axes.append(ax)
        axes_mode = str(rng.choice(["list", "default", "int"]))
        if axes_mode == "default":
            arrs = [np.moveaxis(a, ax, -1) for a, ax in zip(arrs, axes)]; axes = [-1] * nd; axes_arg = None
        elif axes_mode == "int":
            ax0 = int(rng.integers(-1, 1))   # -1 or 0
            arrs = [np.moveaxis(a, ax, ax0) for a, ax in zip(arrs, axes)]; axes = [ax0] * nd; axes_arg = ax0
        else:
            axes_arg = list(axes)
        fill = float(rng.choice([0, 0, -1.5]))
        stack = None; conc = False
        c.update(domains=doms, arrays=arrs, axes=axes_arg, fill_value=fill)
        R.count("axes:" + axes_mode)
        doms_in = give_domains(rv, doms, whole, R, ("same", "int", "strided"))
        arrs_in = [given(rv, a, R, "array", ("same", "int", "fortran", "strided")) for a in arrs]
        st, out = call(dreye.equalize_domains, doms_in, arrs_in, axes=axes_arg, fill_value=fill)
        if not (all(np.array_equal(np.asarray(x), y) for x, y in zip(doms_in, doms)) and all(np.array_equal(np.asarray(x), y) for x, y in zip(arrs_in, arrs))):
            R.failA(dict(c), "frame condition: equalize_domains changed one of the arrays handed to it in place")
        cases.append((c, st, out, doms, arrs, axes, fill, True))
    # round 1: exact bounds
    for c, st, out, doms, arrs, axes, fill, is_eq in cases:
        R.driver.ask("b%d" % c["k"], "bounds", len(doms), " ".join(vs(d) for d in doms))
    R.driver.run()
    for c, st, out, doms, arrs, axes, fill, is_eq in cases:
        k = c["k"]
        t = R.driver.get("b%d" % k); lo, hi, step = t.rat(), t.rat(), t.rat()
        c["_lohi"] = (lo, hi, step)
        kforce = 0
        if step > 0 and hi > lo:
            x = (hi - lo) / step
            fr = x - (x.numerator // x.denominator)
            if abs(fr - Fraction(1, 2)) < Fraction(1, 10 ** 9) and fr != Fraction(1, 2) or (fr == Fraction(1, 2) and (hi - lo) / step != F(float(hi - lo) / float(step))):
                # near tie: take the implementation's interval count if it is one of the two neighbours
                if st == "ok":
                    try:
                        if is_eq:
                            nd_impl = np.asarray(out[0])
                        else:   # the estimator does not expose its grid: ask equalize_domains for the grid it builds from the same inputs
                            import dreye as _d
                            nd_impl = np.asarray(_d.equalize_domains([d.copy() for d in doms], [a.copy() for a in arrs])[0])
                        kk = len(nd_impl) - 1
                        if kk in (x.numerator // x.denominator, x.numerator // x.denominator + 1) and kk >= 1:
                            kforce = kk
                            R.count("near-tie")
                    except Exception:  # noqa: BLE001
                        pass
        fibs = [fibers_of(a, ax) for a, ax in zip(arrs, axes)]
        c["_fibs"] = fibs
        R.driver.ask("e%d" % k, "equalize", rs(fill if fill is not None else 0), kforce, len(doms), " ".join(vs(d) for d in doms),
                     len(arrs), " ".join(fib_text(f[0]) for f in fibs))
    R.driver.run()
    second = []
    for c, st, out, doms, arrs, axes, fill, is_eq in cases:
        k = c["k"]
        t = R.driver.get("e%d" % k)
        kind = t.tok()
        c["_kind"] = kind
        if kind == "interp":
            nd_m = t.vec(); na = t.nat()
            arrs_m = []
            for _ in range(na):
                nf = t.nat(); arrs_m.append([t.vec() for _ in range(nf)])
            c["_model"] = (nd_m, arrs_m)
            if not is_eq:
                R.driver.ask("q%d" % k, "capture", "grid " + vs(nd_m), ms(arrs_m[0]), ms(arrs_m[1]))
        elif kind == "same" and not is_eq:
            R.driver.ask("q%d" % k, "capture", "grid " + vs(doms[0]), ms(arrs[0]), ms(arrs[1]))
    R.driver.run()
    for c, st, out, doms, arrs, axes, fill, is_eq in cases:
        k = c["k"]; kind = c["_kind"]
        pub = {a: b for a, b in c.items() if not a.startswith("_")}
        nontriv = None
        sig = "C19:%s:%s" % (c["mode"], c["relation"])
        if kind == "rejected":
            R.case(pub, None)
            if st == "ok":
                R.failB(dict(pub, impl=out), "non-overlapping / too-short overlap was not rejected (overlap [%s, %s], step %s)" % tuple(rs(x) for x in c["_lohi"]), sig + ":not-rejected")
            elif st not in ("value_error",):
                R.failB(dict(pub, impl_error=out), "rejected with %s instead of ValueError: %s" % (st, out), sig + ":wrong-error")
            continue
        if st != "ok":
            R.case(pub, None)
            R.failB(dict(pub, impl_error=out), "raised %s on equalizable domains: %s" % (st, out), sig + ":raises:" + st)
            continue
        bad = None
        if not is_eq:
            m = R.driver.get("q%d" % k).mat()
            out = np.asarray(out)
            sc = float(np.max(np.abs(out))) + 1e-300
            if out.shape != (len(m), len(m[0])):
                bad = "capture shape %s" % (out.shape,)
            else:
                for i in range(len(m)):
                    for j in range(len(m[0])):
                        if not close(out[i, j], m[i][j], sc, 1e-10):
                            bad = bad or "capture[%d,%d]=%r but capture of interpolated signal x interpolated filter on the common domain is %s" % (i, j, out[i, j], rs(m[i][j]))
            if kind == "interp" and len(c["_model"][0]) >= 3:
                nontriv = ("est", doms[0].tobytes(), doms[1].tobytes(), arrs[1].tobytes())
            R.case(pub, nontriv, sample=nontriv is not None)
            if bad:
                R.failB(dict(pub, impl=out), bad, sig + ":capture")
            continue
        nd_i, arrs_i = out
        if kind == "same":
            if not np.array_equal(nd_i, doms[0]) or any(not np.array_equal(a, b) for a, b in zip(arrs_i, arrs)):
                bad = "arrays sharing one domain were not returned unchanged"
        else:
            nd_m, arrs_m = c["_model"]
            nd_i = np.asarray(nd_i, dtype=float)
            sc = float(max(abs(float(nd_m[0])), abs(float(nd_m[-1])))) + 1e-300
            if len(nd_i) != len(nd_m):
                bad = "new domain has %d points %s, expected %d: %s" % (len(nd_i), nd_i.tolist(), len(nd_m), [float(x) for x in nd_m])
            else:
                if F(nd_i[0]) != nd_m[0] or F(nd_i[-1]) != nd_m[-1]:
                    bad = "new domain [%r, %r] does not start/end exactly at the overlap [%s, %s]" % (nd_i[0], nd_i[-1], rs(nd_m[0]), rs(nd_m[-1]))
                for a, b in zip(nd_i, nd_m):
                    if not close(a, b, sc, 1e-13):
                        bad = bad or "new domain point %r, expected %s" % (a, rs(b))
                if not bad:
                    for ai, (a_impl, fm, (fi, shp), ax) in enumerate(zip(arrs_i, arrs_m, c["_fibs"], axes)):
                        a_impl = np.asarray(a_impl)
                        exp_shape = list(arrs[ai].shape); exp_shape[ax] = len(nd_m)
                        if list(a_impl.shape) != exp_shape:
                            bad = "array %d has shape %s, expected %s" % (ai, a_impl.shape, exp_shape); break
                        got = np.moveaxis(a_impl, ax, -1).reshape(-1, len(nd_m))
                        s2 = float(np.max(np.abs(arrs[ai]))) + abs(fill) + 1e-300
                        for r_i, row in enumerate(fm):
                            for j, v in enumerate(row):
                                if not close(got[r_i, j], v, s2, RT):
                                    bad = bad or "array %d fiber %d point %d = %r, linear interpolation gives %s" % (ai, r_i, j, got[r_i, j], rs(v))
            if len(nd_m) >= 3 and len({d.tobytes() for d in doms}) >= 2:
                nontriv = ("eq", tuple(d.tobytes() for d in doms), tuple(a.tobytes() for a in arrs), tuple(axes))
        R.case(pub, nontriv, sample=nontriv is not None)
        if bad:
            R.failB(dict(pub, impl_domain=nd_i, impl_arrays=[np.asarray(a) for a in arrs_i]), bad, sig + ":" + ("same" if kind == "same" else "interp"))

    # stack / concatenate options (structure only: the stacked result is the stack of the un-stacked result)
    for k in range(n, n + (20 if R.tier == "quick" else 200)):
        if not R.want(k):
            continue
        rng = R.rng(2, k)
        d1 = np.arange(0, 9, 1.0); d2 = np.arange(2, 12, 2.0)
        a1 = dyadic(rng, 0, 4, 3, size=(2, len(d1))); a2 = dyadic(rng, 0, 4, 3, size=(2, len(d2)))
        conc = bool(rng.integers(2)); sa = int(rng.integers(0, 2))
        # the inputs may also share one domain already (stored ascending, descending or unsorted): nothing is interpolated,
        # the shared domain and the arrays come back as they are, stacked
        rs2 = R.rng(9, k)
        shared = str(rs2.choice(["different-domains", "shared:ascending", "shared:descending", "shared:shuffled"]))
        if shared != "different-domains":
            d1 = np.unique(dyadic(rs2, 0, 64, 2, size=int(rs2.integers(3, 10))))
            if len(d1) < 2:
                d1 = np.array([0.0, 1.0, 4.0])
            if shared == "shared:descending":
                d1 = d1[::-1].copy()
            elif shared == "shared:shuffled":
                d1 = d1[rs2.permutation(len(d1))]
            d2 = d1.copy()
            a1 = dyadic(rs2, 0, 4, 3, size=(2, len(d1))); a2 = dyadic(rs2, 0, 4, 3, size=(2, len(d2)))
        c = dict(k=k, mode="stack", concatenate=conc, stack_axis=sa, domains=[d1, d2], arrays=[a1, a2], stack_domains=shared)
        R.count("mode:stack"); R.count("stack-domains:%s" % shared)
        st, out = call(lambda: (dreye.equalize_domains([d1, d2], [a1, a2]), dreye.equalize_domains([d1, d2], [a1, a2], stack_axis=sa, concatenate=conc)))
        R.case(c, ("stack", a1.tobytes(), a2.tobytes(), conc, sa))
        if st != "ok":
            R.failB(dict(c, impl_error=out), "stack/concatenate raised %s" % out, "C19:stack:raises:" + st); continue
        (dA, (x1, x2)), (dB, xs) = out
        ref = np.concatenate([x1, x2], axis=sa) if conc else np.stack([x1, x2], axis=sa)
        if not np.array_equal(dA, dB) or not np.array_equal(ref, xs):
            R.failB(dict(c, impl=xs), "stacked result is not the stack of the equalized arrays", "C19:stack:mismatch")
        elif shared != "different-domains" and not (np.array_equal(dA, d1) and np.array_equal(x1, a1) and np.array_equal(x2, a2)):
            R.failB(dict(c, impl_domain=dA, impl=xs), "arrays sharing one domain were not returned unchanged (stack options in use)", "C19:stack:same")
