"""shared generators for linear receptor systems (capture matrix level) with exactly representable data"""
import numpy as np
from fractions import Fraction
from common import F, dyadic


def gen_A(rng, nf, ns, lo=0.25, hi=4.0, bits=3, zeros=False):
    """non-negative dyadic capture matrix (channels x sources) with distinct, non-proportional columns"""
    for _ in range(100):
        A = dyadic(rng, lo, hi, bits, size=(nf, ns))
        if zeros:
            A[rng.random(size=A.shape) < 0.2] = 0.0
        # make sources chromatically distinct: boost one receptor per source
        for s in range(ns):
            A[(s * 7 + 1) % nf, s] += float(dyadic(rng, 1, 4, 2))
        if np.linalg.matrix_rank(A) == min(nf, ns) and np.all(A.sum(0) > 0):
            return A
    return A


def gen_K(rng, nf, kinds=("none", "scalar", "vector", "matrix")):
    kk = str(rng.choice(list(kinds)))
    if kk == "none":
        return kk, None
    if kk == "scalar":
        return kk, np.array([float(dyadic(rng, 0.5, 2, 2))])
    if kk == "vector":
        return kk, dyadic(rng, 0.5, 2, 2, size=nf)
    M = np.eye(nf) + dyadic(rng, 0, 0.25, 3, size=(nf, nf)) * (1 - np.eye(nf))   # non-symmetric, entrywise >= 0
    return kk, M


def gen_baseline(rng, nf, kinds=("zero", "scalar", "vector")):
    bk = str(rng.choice(list(kinds)))
    if bk == "zero":
        return bk, np.array([0.0])
    if bk == "scalar":
        return bk, np.array([float(dyadic(rng, 0.25, 1, 2))])
    return bk, dyadic(rng, 0.0, 1, 2, size=nf)


def apply_K(A, K, baseline):
    """exact (float, dyadic-exact) transformed A' = K A, base' = K base as the library documents"""
    nf = A.shape[0]
    base = np.broadcast_to(np.atleast_1d(baseline).astype(float), (nf,)).copy()
    if K is None:
        return A.copy(), base
    K = np.atleast_1d(K)
    if K.ndim == 1:
        Kv = np.broadcast_to(K, (nf,))
        return A * Kv[:, None], Kv * base
    return K @ A, K @ base


def fr_mat(M):
    return [[F(v) for v in row] for row in np.asarray(M)]


def fr_vec(v):
    return [F(x) for x in np.asarray(v).ravel()]
