#!/bin/bash
# apply every seeded change (optionally: ids matching regex $1) to a scratch worktree of /repo's HEAD in turn, run the quick check of
# the property it breaks against that worktree (DREYE_REPO), record detection in seeded/<id>/meta.json.  /repo itself is not touched.
# (equivalent to `git -C /repo apply <patch>; ./check ...; git -C /repo checkout -- .`, but lets other checks run meanwhile)
cd "$(dirname "$0")/.."
git -C /repo diff --quiet || { echo "/repo not clean"; exit 2; }
wt=/tmp/repo_scan_$$
git -C /repo worktree add -q --detach "$wt" HEAD || exit 2
trap 'git -C /repo worktree remove --force "$wt" >/dev/null 2>&1; git -C /repo worktree prune' EXIT
tier="${TIER:-quick}"
for d in seeded/*/; do
  id=$(basename "$d"); prop=${id%%-*}
  if [ -n "$1" ] && ! [[ "$id" =~ $1 ]]; then continue; fi
  if ! git -C "$wt" apply "$PWD/$d/patch.diff" 2>/dev/null; then echo "$id PATCH-DOES-NOT-APPLY"; continue; fi
  out=$(DREYE_REPO="$wt" ./check "$prop" --tier "$tier" 2>&1 | tail -12)
  git -C "$wt" checkout -- .
  nv=$(echo "$out" | grep -c "^VIOLATION")
  nofail=$(echo "$out" | grep -c "no-failing-input-found")
  last=$(echo "$out" | tail -1)
  python3 - "$d" "$prop" "$nv" "$nofail" "$last" "$tier" <<'PY'
import json, sys
d, prop, nv, nofail, last, tier = sys.argv[1], sys.argv[2], int(sys.argv[3]), int(sys.argv[4]), sys.argv[5], sys.argv[6]
m = json.load(open(d + "/meta.json"))
m["detected_by"] = {"check": "./check %s --tier %s" % (prop, tier), "violation_lines": nv, "with_failing_input": nv - nofail, "summary": last} if nv else None
json.dump(m, open(d + "/meta.json", "w"), indent=1)
print(d.split("/")[1], "DETECTED" if nv else "MISSED", "(with replay input)" if nv - nofail > 0 else "", "|", last)
PY
done
