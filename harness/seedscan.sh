#!/bin/bash
# apply every seeded change to /repo in turn, run the quick check of the property it breaks, record detection in seeded/<id>/meta.json
cd "$(dirname "$0")/.."
cd /repo && git diff --quiet || { echo "/repo not clean"; exit 2; }
cd - >/dev/null
for d in seeded/*/; do
  id=$(basename "$d"); prop=${id%%-*}
  if ! git -C /repo apply "$PWD/$d/patch.diff" 2>/dev/null; then echo "$id PATCH-DOES-NOT-APPLY"; continue; fi
  out=$(./check "$prop" --tier quick 2>&1 | tail -12)
  git -C /repo checkout -- .
  nv=$(echo "$out" | grep -c "^VIOLATION")
  nofail=$(echo "$out" | grep -c "no-failing-input-found")
  last=$(echo "$out" | tail -1)
  python3 - "$d" "$prop" "$nv" "$nofail" "$last" <<'PY'
import json, sys
d, prop, nv, nofail, last = sys.argv[1], sys.argv[2], int(sys.argv[3]), int(sys.argv[4]), sys.argv[5]
m = json.load(open(d + "/meta.json"))
m["detected_by"] = {"check": "./check %s --tier quick" % prop, "violation_lines": nv, "with_failing_input": nv - nofail, "summary": last} if nv else None
json.dump(m, open(d + "/meta.json", "w"), indent=1)
print(d.split("/")[1], "DETECTED" if nv else "MISSED", "(with replay input)" if nv - nofail > 0 else "", "|", last)
PY
done
