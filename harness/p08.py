"""C08 — underdetermined fits reproduce the target and optimise the chosen secondary goal."""
import numpy as np
from fractions import Fraction
from common import F, rs, vs, ms, dyadic, close, call, parse_rat
from systems import gen_A, gen_K, gen_baseline, apply_K
from fitlib import K_text, ub_text, parse_prep
from certlib import dual_hints, cert_args_text


def run(R):
    import dreye
    from dreye.api.optimize.lsq_linear import lsq_linear_underdetermined
    nsys = 8 if R.tier == "quick" else 120
    R.rule = ("underdetermined systems 2-4 receptors + 1-3 surplus sources, lb zero/positive, finite ub, K none/scalar/vector/"
              "matrix, baseline, weights; in-gamut targets; every option value {'l2','min','max','var', number, vector (also with "
              "entries outside the bounds)}; tolerances 1e-6..1e-3; via lsq_linear_underdetermined and fit_underdetermined. For every "
              "row: exact feasibility of dreye's answer in Q (bounds, ||W(A'x-b')|| <= l2_eps) and a certified bound "
              "goal(x) <= goal(y) + delta for EVERY feasible y from multipliers accepted by the verified linLower (theorems "
              "linear/quadratic_goal_of_cert). Non-trivial: the secondary goal is not attained at a vertex trivially, i.e. every "
              "case with >= 1 surplus source.")
    OPTS = ["l2", "min", "max", "var", "number", "vector", "vector_out"]
    jobs = []
    for si in range(nsys):
        rng = R.rng(1, si)
        nf = int(rng.integers(2, 5)); ns = nf + int(rng.integers(1, 4))
        A = gen_A(rng, nf, ns, lo=0.25, hi=3.0, bits=2)
        kk, K = gen_K(rng, nf)
        bk, base = gen_baseline(rng, nf)
        lbk = str(rng.choice(["zero", "pos"]))
        lb = np.zeros(ns) if lbk == "zero" else dyadic(rng, 0.0625, 0.25, 4, size=ns)
        ub = lb + dyadic(rng, 1, 3, 2, size=ns)
        Ap, bp = apply_K(A, K, base)
        w = None if rng.integers(2) else dyadic(rng, 0.5, 2, 2, size=nf)
        wv = np.ones(nf) if w is None else w
        for oi, oname in enumerate(OPTS):
            k = "s%d_%s" % (si, oname)
            if not R.want(k):
                continue
            rr = R.rng(2, si, oi)
            xt = lb + dyadic(rr, 0.25, 0.75, 3, size=ns) * (ub - lb)
            b = Ap @ xt + bp
            eps = float(rr.choice([1e-6, 1e-5, 1e-4, 1e-3]))
            if oname == "number":
                opt = float(dyadic(rr, 0.5, 1.5, 2)) * float(np.sum(xt))
            elif oname == "vector":
                opt = lb + dyadic(rr, 0.1, 0.9, 3, size=ns) * (ub - lb)
            elif oname == "vector_out":
                opt = lb + dyadic(rr, -0.5, 1.5, 3, size=ns) * (ub - lb)
            else:
                opt = oname
            via = "estimator" if (si + oi) % 3 == 0 else "function"
            c = dict(k=k, option=oname, opt=opt, nf=nf, ns=ns, A=A, K=K, K_kind=kk, baseline=base, baseline_kind=bk, lb=lb, ub=ub, w=w, b=b, l2_eps=eps, via=via)
            for key in ("option", "K_kind", "baseline_kind", "via"):
                R.count("%s:%s" % (key, c[key]))
            R.count("eps:%g" % eps); R.count("lb:" + lbk)
            if via == "estimator":
                filt = np.hstack([np.zeros((nf, 1)), A, np.zeros((nf, 1))]); src = np.hstack([np.zeros((ns, 1)), np.eye(ns), np.zeros((ns, 1))])
                st, out = call(lambda: dreye.ReceptorEstimator(filt, domain=1.0, K=(1.0 if K is None else K), baseline=base, w=(1.0 if w is None else w),
                                                                sources=src, lb=lb, ub=ub).fit_underdetermined(b[None], underdetermined_opt=opt, l2_eps=eps))
            else:
                st, out = call(lsq_linear_underdetermined, A, b[None], lb=lb, ub=ub, W=w, K=K, baseline=base, underdetermined_opt=opt, l2_eps=eps, return_pred=True)
            R.driver.ask("p" + k, "prep", ns, K_text(K), ms(A), vs(np.atleast_1d(base)), vs(wv), vs(b))
            jobs.append((c, st, out, Ap, bp, wv))
    R.driver.run()
    for c, st, out, Ap, bp, wv in jobs:
        if st != "ok":
            continue
        k = c["k"]; ns = c["ns"]
        C, d, _, _ = parse_prep(R.driver.get("p" + k))
        Cf = np.array([[float(v) for v in r] for r in C]); df = np.array([float(v) for v in d])
        xhat = np.asarray(out[0])[0]
        c["_xhat"] = xhat; c["_C"] = C; c["_d"] = d
        oname = c["option"]; n = ns
        eps = c["l2_eps"]
        if oname in ("min", "max"):
            cost = np.ones(n) if oname == "min" else -np.ones(n)
            hints = dual_hints(cost, [], [], Cf, df, eps, c["lb"], c["ub"])
            c["_mode"] = ("lin", cost)
            for hi, (lam, v, sig) in enumerate(hints):
                R.driver.ask("c%s_%d" % (k, hi), "lincert", n, vs(cost), vs(xhat), cert_args_text([], [], C, d, eps, lam, v, sig, c["lb"], c["ub"]))
        else:
            if oname == "l2":
                M = np.eye(n); r = np.zeros(n); scale = 1.0
            elif oname == "var":
                M = n * np.eye(n) - np.ones((n, n)); r = np.zeros(n); scale = float(n * n)
            elif oname == "number":
                M = np.ones((1, n)); r = np.array([float(c["opt"])]); scale = 1.0
            else:
                M = np.eye(n); r = np.asarray(c["opt"], dtype=float); scale = 1.0
            g = 2 * M.T @ (M @ xhat - r)
            hints = dual_hints(g, [], [], Cf, df, eps, c["lb"], c["ub"])
            c["_mode"] = ("quad", M, r, scale)
            for hi, (lam, v, sig) in enumerate(hints):
                R.driver.ask("c%s_%d" % (k, hi), "quadcert", n, ms(M), vs(r), vs(xhat), cert_args_text([], [], C, d, eps, lam, v, sig, c["lb"], c["ub"]))
        c["_nh"] = len(hints)
    R.driver.run()
    for c, st, out, Ap, bp, wv in jobs:
        k = c["k"]
        pub = {a: b for a, b in c.items() if not a.startswith("_")}
        R.case(pub, (k,), sample=(c["option"] in ("var", "vector_out")))
        sig = "C08:%s" % c["option"]
        if st != "ok":
            R.failB(dict(pub, impl_error=out), "underdetermined fit raised %s: %s" % (st, out), sig + ":raises:" + st); continue
        xhat = c["_xhat"]; Bp = np.asarray(out[1])[0]
        rngb = c["ub"] - c["lb"]
        if np.any(xhat < c["lb"] - 1e-6 * rngb) or np.any(xhat > c["ub"] + 1e-6 * rngb):
            R.failB(dict(pub, impl=xhat), "intensities %s violate the bounds" % xhat.tolist(), sig + ":bounds")
        if np.max(np.abs(Bp - (Ap @ xhat + bp))) > 1e-9 * (np.max(np.abs(Bp)) + 1):
            R.failB(dict(pub, impl=[xhat, Bp]), "returned prediction is not the model's capture of the returned intensities", sig + ":pred-mismatch")
        best = None; feas = None; objv = None
        for hi in range(c.get("_nh", 0)):
            t = R.driver.get("c%s_%d" % (k, hi))
            if t is None:
                continue
            objv = t.rat(); tok = t.tok(); inb = t.bool(); viol = t.rat(); ball = t.rat()
            feas = (inb, ball)
            if tok == "none":
                continue
            val = parse_rat(tok)
            delta = (objv - val) if c["_mode"][0] == "lin" else val
            if best is None or delta < best:
                best = delta
        # reproduces the target within the requested tolerance (the solver's own feasibility tolerance on top)
        err = float(np.linalg.norm(wv * (Bp - c["b"])))
        if err > c["l2_eps"] * 1.05 + 1e-7:
            R.failB(dict(pub, impl=[xhat, Bp], error=err), "target not reproduced within the tolerance: ||W(pred-b)|| = %.3g > l2_eps = %g" % (err, c["l2_eps"]), sig + ":not-reproduced")
        scale = 1.0 if c["_mode"][0] == "lin" else c["_mode"][3]
        obj_scale = (abs(float(objv)) if objv is not None else 0.0) / scale + float(np.sum(c["ub"]))
        ok = best is not None and float(best) / scale <= 1e-4 * obj_scale
        R.cert(ok)
        if not ok:
            # search for a better feasible point with an independent solve before calling it a violation
            import cvxpy as cp
            y = cp.Variable(c["ns"])
            Cf = np.array([[float(v) for v in r] for r in c["_C"]]); df = np.array([float(v) for v in c["_d"]])
            if c["_mode"][0] == "lin":
                objective = c["_mode"][1] @ y; cur = float(c["_mode"][1] @ xhat)
            else:
                objective = cp.sum_squares(c["_mode"][1] @ y - c["_mode"][2]); cur = float(np.sum((c["_mode"][1] @ xhat - c["_mode"][2]) ** 2))
            pr = cp.Problem(cp.Minimize(objective), [cp.norm2(Cf @ y - df) <= c["l2_eps"], y >= c["lb"], y <= c["ub"]])
            try:
                pr.solve(solver="CLARABEL")
                better = pr.value
            except Exception:  # noqa: BLE001
                better = None
            if better is not None and cur - better > 1e-3 * obj_scale * scale:
                R.failB(dict(pub, impl=xhat, better_point=np.asarray(y.value), goal_impl=cur / scale, goal_better=better / scale),
                        "secondary goal '%s' is %.6g at the returned intensities but %.6g at another in-bound point that reproduces the target" % (c["option"], cur / scale, better / scale), sig + ":suboptimal")
            else:
                R.failA(dict(pub, delta=None if best is None else float(best)), "secondary goal not certified optimal (delta %s)" % (None if best is None else float(best)))
