"""C08 — underdetermined fits reproduce the target and optimise the chosen secondary goal."""
import numpy as np
from fractions import Fraction
from common import F, rs, vs, ms, dyadic, close, call, parse_rat, as_given
from systems import gen_A, gen_K, gen_baseline, apply_K
from fitlib import K_text, ub_text, parse_prep
from certlib import dual_hints, cert_args_text


def run(R):
    import dreye
    from dreye.api.optimize.lsq_linear import lsq_linear_underdetermined
    nsys = 8 if R.tier == "quick" else 120
    R.rule = ("underdetermined systems 2-4 receptors + 1-3 surplus sources, lb zero/positive, finite ub, optionally 1..surplus sources "
              "clamped by their bounds (lb[i] == ub[i], zero or non-zero), K none/scalar/vector/matrix, baseline, weights (none / one "
              "vector / one row per sample); every fourth system (and a few others) has a pair of NEARLY interchangeable sources (one capture vector = another "
              "one times 1 +- 2^-11..2^-15); 1-7 in-gamut targets per call (single target, as many targets as sources, as many as "
              "receptors, other counts), targets as array/list/Fortran/strided; every option value {'l2','min','max','var', number "
              "(python float, numpy scalar, python int when whole), vector (also with entries outside the bounds, whole-number vectors "
              "also as integer arrays, strided views)}; tolerances 1e-6..1e-3; via lsq_linear_underdetermined and fit_underdetermined. "
              "The one option value of a call applies to every target of the call. LONG calls (own systems, 1 per quick run): 51-90 targets in one call - every row "
              "is judged by the float predicates (bounds, prediction, ||W(pred-b)|| <= 1.05 l2_eps + 1e-7), 6 sampled rows (first and last included) also exactly. For every row: exact feasibility of dreye's answer "
              "in Q (bounds, ||W(A'x-b')|| <= l2_eps) and a certified bound goal(x) <= goal(y) + delta for EVERY feasible y from "
              "multipliers accepted by the verified linLower (theorems linear/quadratic_goal_of_cert; delta <= 5e-7 x scale for the linear goals min/max, 1e-4 x scale for the quadratic ones); total, variance and distance "
              "are taken over ALL sources (clamped ones included). Non-trivial: the secondary goal is not attained at a vertex "
              "trivially, i.e. every case with >= 1 surplus source.")
    OPTS = ["l2", "min", "max", "var", "number", "vector", "vector_out"]
    jobs = []
    nlong = 1 if R.tier == "quick" else 6
    for si in list(range(nsys)) + [nsys + 1000 + j for j in range(nlong)]:
        long_call = si >= nsys
        rng = R.rng(1, si)
        nf = int(rng.integers(2, 5)); ns = nf + int(rng.integers(1, 4))
        A = gen_A(rng, nf, ns, lo=0.25, hi=3.0, bits=2)
        # two nominally identical sources (own random stream; every fourth system and a few others): the capture vector of one source is
        # that of another one times 1 +- 2^-e, e = 11..15 (two LEDs of the same type whose efficiencies differ by 0.003 % .. 0.05 %): the
        # sources are nearly - not exactly - interchangeable, so that e.g. the smallest total intensity is attained by using the more
        # efficient of the two only, by a small margin
        rdup = R.rng(4, si)
        dup = "none"
        if si % 4 == 1 or rdup.random() < 0.15:
            j1, j2 = [int(v) for v in rdup.permutation(ns)[:2]]
            e_ = int(rdup.integers(11, 16)); sg = 1.0 if rdup.integers(2) else -1.0
            A2 = A.copy(); A2[:, j2] = A[:, j1] * (1.0 + sg * 2.0 ** -e_)
            if np.linalg.matrix_rank(np.delete(A2, j2, axis=1)) == nf:
                A = A2; dup = "rel. difference 2^-%d" % e_
        R.count("near-duplicate pair of sources:" + dup)
        kk, K = gen_K(rng, nf)
        bk, base = gen_baseline(rng, nf)
        lbk = str(rng.choice(["zero", "pos"]))
        lb0 = np.zeros(ns) if lbk == "zero" else dyadic(rng, 0.0625, 0.25, 4, size=ns)
        ub0 = lb0 + dyadic(rng, 1, 3, 2, size=ns)
        Ap, bp = apply_K(A, K, base)
        w = None if rng.integers(2) else dyadic(rng, 0.5, 2, 2, size=nf)
        for oi, oname in enumerate(OPTS):
            k = "s%d_%s" % (si, oname)
            if long_call:
                # a LONG call (own systems, `nlong` per run): one option value, 51-90 targets (the frames of a sequence) in ONE call
                if oi != int(R.rng(3, si).integers(len(OPTS))):
                    continue
                k = "L%d_%s" % (si - nsys - 1000, oname)
            if not R.want(k):
                continue
            rr = R.rng(2, si, oi)
            # bounds of this call: the system's box, optionally with sources that cannot vary (lb[i] == ub[i])
            lb, ub = lb0.copy(), ub0.copy()
            nclamp = 0
            if rr.random() < 0.35:
                nclamp = int(rr.integers(1, ns - nf + 1))
                for j in rr.choice(ns, size=nclamp, replace=False):
                    v = 0.0 if rr.random() < 0.3 else float(dyadic(rr, 0.25, 2, 2))
                    lb[j] = ub[j] = v
            R.count("clamped_sources:%d" % nclamp)
            # number of targets of the call: the coinciding sizes (ns, nf) are part of the class
            nbk = str(rr.choice(["one", "one", "n_sources", "n_receptors", "other"]))
            nb = {"one": 1, "n_sources": ns, "n_receptors": nf}.get(nbk) or int(rr.integers(2, 7))
            if long_call:
                nbk = "long (51-90)"; nb = int(rr.integers(51, 91))
            R.count("n_targets:" + nbk); R.count("n_targets=%d" % nb)
            XT = lb + dyadic(rr, 0.25, 0.75, 3, size=(nb, ns)) * (ub - lb)
            B = XT @ Ap.T + bp
            eps = float(rr.choice([1e-6, 1e-5, 1e-4, 1e-3]))
            via = "estimator" if (si + oi) % 3 == 0 else "function"
            # weights: none / one vector / (function only) one row per sample
            wk = "none" if w is None else "vector"
            Wrows = np.broadcast_to(np.ones(nf) if w is None else w, (nb, nf)).copy()
            wgiven = w
            if via == "function" and rr.random() < 0.3:
                wk = "per_sample"
                Wrows = dyadic(rr, 0.5, 2, 2, size=(nb, nf))
                wgiven = Wrows
            R.count("weights:" + wk)
            opt_repr = "-"
            if oname == "number":
                opt = float(dyadic(rr, 0.5, 1.5, 2)) * float(np.sum(XT[0]))
                opt_repr = str(rr.choice(["float", "np.float64", "whole_int", "whole_float"]))
                if opt_repr.startswith("whole"):
                    opt = float(np.round(opt))
                optgiven = {"float": float(opt), "np.float64": np.float64(opt), "whole_int": int(opt), "whole_float": float(opt)}[opt_repr]
            elif oname in ("vector", "vector_out"):
                if oname == "vector":
                    opt = lb + dyadic(rr, 0.1, 0.9, 3, size=ns) * (ub - lb)
                else:
                    opt = lb + dyadic(rr, -0.5, 1.5, 3, size=ns) * (ub - lb)
                if rr.random() < 0.3:
                    opt = np.round(opt); opt_repr = "whole"
                else:
                    opt_repr = "dyadic"
                # the option must be an ndarray (lists are not an accepted option type); dtype / strides are the caller's
                optgiven = np.asarray(as_given(rr, opt, R, "vector_option", kinds=("same", "int", "strided")))
                R.count("vector_option:n_targets%sn_sources" % ("==" if nb == ns else "!="))
            else:
                opt = optgiven = oname
            R.count("opt_repr:%s:%s" % (oname, opt_repr))
            Bgiven = as_given(rr, B, R, "B")
            c = dict(k=k, option=oname, opt=opt, opt_repr=opt_repr, nf=nf, ns=ns, nb=nb, A=A, K=K, K_kind=kk, baseline=base, baseline_kind=bk, lb=lb, ub=ub,
                     w=wgiven, w_kind=wk, B=B, l2_eps=eps, via=via, clamped=nclamp, near_duplicate_sources=dup)
            if long_call:
                c["_long"] = dict(Wrows=Wrows)
            for key in ("option", "K_kind", "baseline_kind", "via"):
                R.count("%s:%s" % (key, c[key]))
            R.count("eps:%g" % eps); R.count("lb:" + lbk)
            if via == "estimator":
                filt = np.hstack([np.zeros((nf, 1)), A, np.zeros((nf, 1))]); src = np.hstack([np.zeros((ns, 1)), np.eye(ns), np.zeros((ns, 1))])
                st, out = call(lambda: dreye.ReceptorEstimator(filt, domain=1.0, K=(1.0 if K is None else K), baseline=base, w=(1.0 if w is None else w),
                                                                sources=src, lb=lb, ub=ub).fit_underdetermined(Bgiven, underdetermined_opt=optgiven, l2_eps=eps))
            else:
                st, out = call(lsq_linear_underdetermined, A, Bgiven, lb=lb, ub=ub, W=wgiven, K=K, baseline=base, underdetermined_opt=optgiven, l2_eps=eps, return_pred=True)
            if st == "ok":
                X = np.asarray(out[0]); BP = np.asarray(out[1])
                if X.shape != (nb, ns) or BP.shape != (nb, nf):
                    st, out = "shape", "returned shapes %s, %s for %d targets, %d sources, %d receptors" % (X.shape, BP.shape, nb, ns, nf)
            rows = []
            # a long call: every row is judged by the float predicates (bounds, prediction, target reproduced within l2_eps); a random
            # sample of 6 rows (first and last included) also exactly (feasibility in Q, certified optimality of the secondary goal)
            judged = range(nb) if not long_call else sorted({0, nb - 1} | set(int(v) for v in rr.permutation(nb)[:4]))
            if long_call:
                c["exactly_judged_rows"] = list(judged)
            for i in judged:
                R.driver.ask("p%s_%d" % (k, i), "prep", ns, K_text(K), ms(A), vs(np.atleast_1d(base)), vs(Wrows[i]), vs(B[i]))
                rows.append(dict(i=i, k="%s_%d" % (k, i), b=B[i], wv=Wrows[i]))
            jobs.append((c, st, out, Ap, bp, rows))
    R.driver.run()
    for c, st, out, Ap, bp, rows in jobs:
        if st != "ok":
            continue
        ns = c["ns"]; n = ns
        oname = c["option"]
        eps = c["l2_eps"]
        for r in rows:
            k = r["k"]
            C, d, _, _ = parse_prep(R.driver.get("p" + k))
            Cf = np.array([[float(v) for v in q] for q in C]); df = np.array([float(v) for v in d])
            xhat = np.asarray(out[0])[r["i"]]
            r["xhat"] = xhat; r["C"] = C; r["d"] = d
            if oname in ("min", "max"):
                cost = np.ones(n) if oname == "min" else -np.ones(n)
                hints = dual_hints(cost, [], [], Cf, df, eps, c["lb"], c["ub"])
                r["mode"] = ("lin", cost)
                for hi, (lam, v, sig) in enumerate(hints):
                    R.driver.ask("c%s_%d" % (k, hi), "lincert", n, vs(cost), vs(xhat), cert_args_text([], [], C, d, eps, lam, v, sig, c["lb"], c["ub"]))
            else:
                if oname == "l2":
                    M = np.eye(n); q = np.zeros(n); scale = 1.0
                elif oname == "var":
                    M = n * np.eye(n) - np.ones((n, n)); q = np.zeros(n); scale = float(n * n)
                elif oname == "number":
                    M = np.ones((1, n)); q = np.array([float(c["opt"])]); scale = 1.0
                else:
                    M = np.eye(n); q = np.asarray(c["opt"], dtype=float); scale = 1.0
                g = 2 * M.T @ (M @ xhat - q)
                hints = dual_hints(g, [], [], Cf, df, eps, c["lb"], c["ub"])
                r["mode"] = ("quad", M, q, scale)
                for hi, (lam, v, sig) in enumerate(hints):
                    R.driver.ask("c%s_%d" % (k, hi), "quadcert", n, ms(M), vs(q), vs(xhat), cert_args_text([], [], C, d, eps, lam, v, sig, c["lb"], c["ub"]))
            r["nh"] = len(hints)
    R.driver.run()
    for c, st, out, Ap, bp, rows in jobs:
        pubc = {a: b for a, b in c.items() if not a.startswith("_")}
        sig = "C08:%s" % c["option"]
        if st != "ok":
            R.case(pubc, (c["k"],), sample=False)
            if st == "shape":
                R.failB(dict(pubc, impl_error=out), out, sig + ":shape")
            else:
                R.failB(dict(pubc, impl_error=out), "underdetermined fit raised %s: %s" % (st, out), sig + ":raises:" + st)
            continue
        if "_long" in c:
            Xl = np.asarray(out[0]); Bl = np.asarray(out[1]); Wl = c["_long"]["Wrows"]
            rngb = c["ub"] - c["lb"]
            tolb = 1e-6 * np.where(rngb > 0, rngb, max(float(np.max(rngb)), float(np.max(np.abs(c["ub"])))))
            errs = np.linalg.norm(Wl * (Bl - c["B"]), axis=1)
            badb = np.flatnonzero(np.any(Xl < c["lb"] - tolb, axis=1) | np.any(Xl > c["ub"] + tolb, axis=1))
            badp = np.flatnonzero(np.max(np.abs(Bl - (Xl @ Ap.T + bp)), axis=1) > 1e-9 * (np.max(np.abs(Bl), axis=1) + 1))
            bade = np.flatnonzero(errs > c["l2_eps"] * 1.05 + 1e-7)
            R.case(dict(pubc, rows="all %d" % c["nb"]), (c["k"], "all-rows"), sample=False)
            if len(badb):
                i = int(badb[0])
                R.failB(dict(pubc, row=i, impl=Xl[i], n_rows_failing=len(badb)), "long call: intensities %s of row %d violate the bounds (%d of %d rows)" % (Xl[i].tolist(), i, len(badb), c["nb"]), sig + ":bounds")
            if len(badp):
                i = int(badp[0])
                R.failB(dict(pubc, row=i, impl=[Xl[i], Bl[i]]), "long call: returned prediction of row %d is not the model's capture of the returned intensities" % i, sig + ":pred-mismatch")
            if len(bade):
                i = int(np.argmax(errs))
                R.failB(dict(pubc, row=i, impl=[Xl[i], Bl[i]], error=float(errs[i]), n_rows_failing=len(bade)),
                        "long call (%d targets): target %d not reproduced within the tolerance: ||W(pred-b)|| = %.3g > l2_eps = %g (%d of %d rows)" % (c["nb"], i, float(errs[i]), c["l2_eps"], len(bade), c["nb"]), sig + ":not-reproduced")
        for r in rows:
            k = r["k"]
            pub = dict(pubc, k=k, row=r["i"], b=r["b"])
            R.case(pub, (k,), sample=(c["option"] in ("var", "vector_out") and r["i"] == 0))
            xhat = r["xhat"]; Bp = np.asarray(out[1])[r["i"]]
            rngb = c["ub"] - c["lb"]
            # a clamped source has no range of its own: its tolerance is relative to the size of the box instead
            tolb = 1e-6 * np.where(rngb > 0, rngb, max(float(np.max(rngb)), float(np.max(np.abs(c["ub"])))))
            if np.any(xhat < c["lb"] - tolb) or np.any(xhat > c["ub"] + tolb):
                R.failB(dict(pub, impl=xhat), "intensities %s violate the bounds" % xhat.tolist(), sig + ":bounds")
            if np.max(np.abs(Bp - (Ap @ xhat + bp))) > 1e-9 * (np.max(np.abs(Bp)) + 1):
                R.failB(dict(pub, impl=[xhat, Bp]), "returned prediction is not the model's capture of the returned intensities", sig + ":pred-mismatch")
            best = None; feas = None; objv = None
            for hi in range(r.get("nh", 0)):
                t = R.driver.get("c%s_%d" % (k, hi))
                if t is None:
                    continue
                objv = t.rat(); tok = t.tok(); inb = t.bool(); viol = t.rat(); ball = t.rat()
                feas = (inb, ball)
                if tok == "none":
                    continue
                val = parse_rat(tok)
                delta = (objv - val) if r["mode"][0] == "lin" else val
                if best is None or delta < best:
                    best = delta
            # reproduces the target within the requested tolerance (the solver's own feasibility tolerance on top)
            err = float(np.linalg.norm(r["wv"] * (Bp - r["b"])))
            if err > c["l2_eps"] * 1.05 + 1e-7:
                R.failB(dict(pub, impl=[xhat, Bp], error=err), "target not reproduced within the tolerance: ||W(pred-b)|| = %.3g > l2_eps = %g" % (err, c["l2_eps"]), sig + ":not-reproduced")
            scale = 1.0 if r["mode"][0] == "lin" else r["mode"][3]
            obj_scale = (abs(float(objv)) if objv is not None else 0.0) / scale + float(np.sum(c["ub"]))
            # allowance for the solver's accuracy. A LINEAR goal (smallest / largest total) is certified against the exact feasible set, so the
            # only slack is the solver's duality gap (1e-8 class: largest value seen on the unchanged code over a thorough run 5e-9 x scale): 5e-7 x
            # scale - a few 1e-6 in total intensity, the size of the margin by which one of two nearly interchangeable sources beats the other
            lin = r["mode"][0] == "lin"
            tol_rel = 5e-7 if lin else 1e-4
            ok = best is not None and float(best) / scale <= tol_rel * obj_scale
            R.cert(ok)
            if not ok:
                # search for a better feasible point with an independent solve before calling it a violation
                import cvxpy as cp
                y = cp.Variable(c["ns"])
                Cf = np.array([[float(v) for v in q] for q in r["C"]]); df = np.array([float(v) for v in r["d"]])
                if r["mode"][0] == "lin":
                    objective = r["mode"][1] @ y; cur = float(r["mode"][1] @ xhat)
                else:
                    objective = cp.sum_squares(r["mode"][1] @ y - r["mode"][2]); cur = float(np.sum((r["mode"][1] @ xhat - r["mode"][2]) ** 2))
                pr = cp.Problem(cp.Minimize(objective), [cp.norm2(Cf @ y - df) <= c["l2_eps"], y >= c["lb"], y <= c["ub"]])
                try:
                    pr.solve(solver="CLARABEL")
                    better = pr.value
                except Exception:  # noqa: BLE001
                    better = None
                if better is not None and lin and y.value is not None:
                    # the witness of a linear goal is judged in floats: clipped into the bounds it must still reproduce the target
                    yv = np.clip(np.asarray(y.value, dtype=float), c["lb"], c["ub"])
                    better = float(r["mode"][1] @ yv) if float(np.linalg.norm(Cf @ yv - df)) <= c["l2_eps"] * (1 + 1e-5) else None
                if better is not None and cur - better > (0.5 * tol_rel if lin else 1e-3) * obj_scale * scale:
                    R.failB(dict(pub, impl=xhat, better_point=(yv if lin else np.asarray(y.value)), goal_impl=cur / scale, goal_better=better / scale),
                            "secondary goal '%s' is %.6g at the returned intensities but %.6g at another in-bound point that reproduces the target" % (c["option"], cur / scale, better / scale), sig + ":suboptimal")
                else:
                    R.failA(dict(pub, delta=None if best is None else float(best)), "secondary goal not certified optimal (delta %s)" % (None if best is None else float(best)))
