"""C07 — Poisson and excitation models minimise their documented objective; all agree in gamut."""
import numpy as np
from fractions import Fraction
from common import F, rs, vs, ms, dyadic, close, call, parse_rat
from fitlib import gen_wellscaled, gen_target, K_text, ub_text


def level_rows_float(Ap, bp, b, t):
    G, h = [], []
    for r, bc, b0 in zip(Ap, b, bp):
        k = t * (1 + bc)
        G.append(-(1 + k) * r); h.append(k - bc + (1 + k) * b0)
        G.append((1 - k) * r); h.append(k + bc - (1 - k) * b0)
    return np.array(G), np.array(h)


def farkas_hint(Ap, bp, b, t, lb, ub):
    """untrusted multipliers showing that level t is unreachable: min s  s.t. G x - s <= h, box"""
    from scipy.optimize import linprog
    G, h = level_rows_float(Ap, bp, b, t)
    m, n = G.shape
    c = np.zeros(n + 1); c[-1] = 1.0
    A_ub = np.hstack([G, -np.ones((m, 1))])
    bounds = [(float(l), None if not np.isfinite(u) else float(u)) for l, u in zip(lb, ub)] + [(None, None)]
    res = linprog(c, A_ub=A_ub, b_ub=h, bounds=bounds, method="highs")
    if res.status != 0 or res.x[-1] <= 0:
        return None
    lam = np.maximum(-np.asarray(res.ineqlin.marginals), 0.0)
    if not np.all(np.isfinite(ub)):
        # sources without upper bound: the combined row lam.G must be >= 0 there EXACTLY or the certified bound is -infinity.
        # Repair the (untrusted) float multipliers in exact arithmetic by raising the multiplier of one row with a positive entry.
        tq = F(float(t))
        Gq = []
        for r, bc in zip(Ap, b):
            kq = tq * (1 + F(float(bc)))
            Gq.append([-(1 + kq) * F(float(v)) for v in r]); Gq.append([(1 - kq) * F(float(v)) for v in r])
        lq = [F(float(v)) for v in lam]
        for j in range(n):
            if np.isfinite(ub[j]):
                continue
            cj = sum(l * g[j] for l, g in zip(lq, Gq))
            if cj < 0:
                i_best = max(range(m), key=lambda i: Gq[i][j])
                if Gq[i_best][j] <= 0:
                    return lam
                lq[i_best] += -cj / Gq[i_best][j]
        return [v for v in lq]
    return lam


def run(R):
    import dreye
    from dreye.api.optimize.lsq_linear import lsq_linear, lsq_linear_excitation
    nsys = 8 if R.tier == "quick" else 150
    R.rule = ("well-scaled systems with non-negative A (1-4 receptors x 1-6 sources), targets >= 0, baseline zero / non-zero, "
              "K none/scalar/vector, finite and default bounds; targets inside, on the boundary and outside the gamut; weights for "
              "Poisson. Poisson: the logarithm-free gradient gap g.x - min_box g.z is evaluated exactly in Q at dreye's answer "
              "(theorem poisson_gap_bound => near-optimal against every in-bound point). Excitation: the documented objective "
              "max|e(b)-e(p)| is evaluated exactly at dreye's answer and level t-eps is certified unreachable by LP multipliers "
              "checked with the verified linLower (theorem level_infeasible_of_cert). In-gamut targets: all three models must "
              "reproduce them. Non-trivial: target outside the gamut or on its boundary, or baseline non-zero.")
    kinds = ["inside", "inside", "boundary", "outside", "outside"]
    rows = []
    n_solver_err = [0]
    for si in range(nsys):
        k = "s%d" % si
        if not R.want(k):
            continue
        rng = R.rng(1, si)
        S = gen_wellscaled(rng, nf=int(rng.integers(1, 5)), ns=int(rng.integers(1, 7)), K_kinds=("none", "scalar", "vector"),
                           ub_kinds=("finite", "finite", "inf"), lb_kinds=("zero", "zero", "pos"))
        nf, ns = S["nf"], S["ns"]
        B = np.array([np.maximum(gen_target(rng, S, kd), 0.125) for kd in kinds])
        wk = str(rng.choice(["none", "vector"]))
        W = None if wk == "none" else dyadic(rng, 0.5, 2, 2, size=nf)
        c = dict(k=k, nf=nf, ns=ns, A=S["A"], K=S["K"], K_kind=S["K_kind"], baseline=S["baseline"], baseline_kind=S["baseline_kind"], lb=S["lb"], ub=S["ub"],
                 W=W, B=B, target_kinds=kinds)
        for key in ("K_kind", "baseline_kind"):
            R.count("%s:%s" % (key, c[key]))
        R.count("weights:" + wk); R.count("ub:" + S["ub_kind"])
        # history: the same system was fitted with another adaptation state just before (answers must not depend on it)
        K_other = (np.ones(nf) * 2.0) if S["K"] is None else np.atleast_1d(S["K"]) * np.linspace(0.5, 2.0, max(np.atleast_1d(S["K"]).shape[0], 1))
        for mdl in ("gaussian", "poisson"):
            call(lsq_linear, S["A"], B[:1], lb=S["lb"], ub=S["ub"], W=W, K=K_other, baseline=S["baseline"], model=mdl, return_pred=True, solver="CLARABEL")
        call(lsq_linear_excitation, S["A"], B[:1], lb=S["lb"], ub=S["ub"], W=None, K=K_other, baseline=S["baseline"], return_pred=True)
        stg, og = call(lsq_linear, S["A"], B, lb=S["lb"], ub=S["ub"], W=W, K=S["K"], baseline=S["baseline"], return_pred=True, solver="CLARABEL")
        stp, op_ = call(lsq_linear, S["A"], B, lb=S["lb"], ub=S["ub"], W=W, K=S["K"], baseline=S["baseline"], model="poisson", return_pred=True, solver="CLARABEL")
        ste, oe = call(lsq_linear_excitation, S["A"], B, lb=S["lb"], ub=S["ub"], W=None, K=S["K"], baseline=S["baseline"], return_pred=True)
        Ap, bp = S["Ap"], S["bp"]
        wv = np.ones(nf) if W is None else W
        if stp == "ok":
            for i in range(len(B)):
                R.driver.ask("p%s_%d" % (k, i), "poisgap", ns, ms(Ap), vs(bp), vs(wv), vs(B[i]), vs(S["lb"]), ub_text(S["ub"]), vs(np.clip(op_[0][i], S["lb"], S["ub"])))
        if ste == "ok":
            for i in range(len(B)):
                R.driver.ask("e%s_%d" % (k, i), "excdoc", ms(Ap), vs(bp), vs(B[i]), vs(np.clip(oe[0][i], S["lb"], S["ub"])))
        rows.append((c, S, B, wv, (stg, og), (stp, op_), (ste, oe)))
    R.driver.run()
    # second round: excitation level certificates at t_hat - eps
    EPS = 2e-3
    for c, S, B, wv, G_, P_, E_ in rows:
        k = c["k"]; ste, oe = E_
        if ste != "ok":
            continue
        c["_that"] = []
        for i in range(len(B)):
            that = R.driver.get("e%s_%d" % (k, i)).rat()
            c["_that"].append(that)
            t_try = float(that) - EPS
            if t_try <= 0:
                continue
            tF = F(float(t_try))
            lam = farkas_hint(S["Ap"], S["bp"], B[i], float(tF), S["lb"], S["ub"])
            if lam is not None:
                R.driver.ask("f%s_%d" % (k, i), "exclevel", S["ns"], ms(S["Ap"]), vs(S["bp"]), vs(B[i]), rs(tF), vs(lam), vs(S["lb"]), ub_text(S["ub"]))
    R.driver.run()
    for c, S, B, wv, (stg, og), (stp, op_), (ste, oe) in rows:
        k = c["k"]
        pub = {a: b for a, b in c.items() if not a.startswith("_")}
        Ap, bp = S["Ap"], S["bp"]
        nontriv = (k,)
        R.case(pub, nontriv, sample=True)
        rngb = np.where(np.isfinite(S["ub"]), S["ub"] - S["lb"], 1.0)
        for name, st, o in (("gaussian", stg, og), ("poisson", stp, op_), ("excitation", ste, oe)):
            sig = "C07:" + name
            if st == "other:SolverError":
                # the conic solver itself gave up (cvxpy raises): a loud runtime failure, not a wrong answer; the model cannot exhibit it.
                # counted, and a violation only when it becomes systematic (see the end of run)
                R.count("solver-error-raised:" + name); n_solver_err[0] += 1; continue
            if st != "ok":
                R.failB(dict(pub, impl_error=o), "%s fit raised %s: %s" % (name, st, o), sig + ":raises:" + st); continue
            X, Bp = np.asarray(o[0]), np.asarray(o[1])
            if np.any(X < S["lb"] - 1e-2 * rngb) or np.any(X > S["ub"] + 1e-2 * rngb):
                R.failB(dict(pub, model=name, impl=X), "%s intensities violate the bounds" % name, sig + ":bounds")
            if np.max(np.abs(Bp - (X @ Ap.T + bp))) > 1e-9 * (np.max(np.abs(Bp)) + 1):
                R.failB(dict(pub, model=name, impl=[X, Bp]), "%s: returned prediction is not the model's capture of the returned intensities" % name, sig + ":pred-mismatch")
            # in-gamut targets are reproduced by all three models
            for i, kd in enumerate(c["target_kinds"]):
                if kd == "inside":
                    tol = 2e-2 if name != "excitation" else 2e-2 * float(np.max((1 + B[i]) ** 2))   # excitation saturates: tolerance in excitation units
                    if np.max(np.abs(Bp[i] - B[i])) > tol:
                        R.failB(dict(pub, model=name, row=i, target=B[i], impl=Bp[i]), "%s model does not reproduce an in-gamut target (max error %.4g)" % (name, float(np.max(np.abs(Bp[i] - B[i])))),
                                sig + ":in-gamut-not-reproduced:baseline=" + c["baseline_kind"])
        if stp == "ok":
            for i in range(len(B)):
                t = R.driver.get("p%s_%d" % (k, i)); inb = t.bool(); minp = t.rat(); gap = t.tok()
                ok = inb and minp > 0 and gap != "none"
                gv = float(parse_rat(gap)) if gap != "none" else float("inf")
                scale = float(np.sum(wv * (B[i] + 1)))
                if not ok and inb and minp > 0 and not np.all(np.isfinite(S["ub"])):
                    # a source without upper bound whose gradient entry is slightly negative: infinite gap at the answer.
                    # Evaluate the gap at a slightly larger in-bound point x' and carry it back (theorem poisson_shifted_gap_bound)
                    xh = np.clip(op_[0][i], S["lb"], S["ub"])
                    for dl in (1e-6, 1e-4, 1e-2):
                        x2 = np.where(np.isfinite(S["ub"]), xh, xh + dl * (1.0 + np.abs(xh)))
                        R.driver.ask("q1", "poisgap", ns, ms(Ap), vs(bp), vs(wv), vs(B[i]), vs(S["lb"]), ub_text(S["ub"]), vs(x2))
                        R.driver.ask("q2", "poistan", ns, ms(Ap), vs(bp), vs(wv), vs(B[i]), vs(xh), vs(x2))
                        R.driver.run()
                        t1 = R.driver.get("q1"); inb2 = t1.bool(); minp2 = t1.rat(); gap2 = t1.tok()
                        t2 = R.driver.get("q2"); t2.rat(); tan = t2.rat()
                        if inb2 and minp2 > 0 and gap2 != "none":
                            gv = float(parse_rat(gap2) + tan); ok = True
                            R.count("poisson-gap:shifted-certificate")
                            break
                R.cert(ok and gv <= 1e-3 * scale)
                R.count("poisson-gap<=1e-3:%s" % (gv <= 1e-3 * scale))
                if not (ok and gv <= 2e-2 * scale):
                    # is it really sub-optimal?  search: a better in-bound point along the projected negative gradient
                    R.failA(dict(pub, row=i, gap=gv), "Poisson answer not certified near-optimal (gap %.4g, scale %.4g)" % (gv, scale))
        if ste == "ok":
            for i in range(len(B)):
                that = c["_that"][i]
                t = R.driver.get("f%s_%d" % (k, i))
                if float(that) - EPS <= 0:
                    R.cert(True); continue   # objective already within eps of its lower bound 0
                okc = False
                if t is not None:
                    tok = t.tok()
                    if tok not in ("none", "ERR"):
                        okc = parse_rat(tok) > 0
                R.cert(okc)
                if not okc:
                    R.failA(dict(pub, row=i, objective=float(that)), "excitation answer not certified within %.0e of the optimum level (objective %.6g)" % (EPS, float(that)))
    n_sys = max(1, R.evaluations)
    R.notes["solver_errors_raised"] = n_solver_err[0]
    if n_solver_err[0] > max(2, 0.05 * 3 * n_sys):
        R.failB(dict(n=n_solver_err[0], systems=n_sys), "the conic solver raised SolverError on %d of %d fits: systematic, not a sporadic runtime failure" % (n_solver_err[0], 3 * n_sys),
                "C07:solver-errors-systematic")
